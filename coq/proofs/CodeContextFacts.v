(* C02: untrusted strings never reach code contexts; URLs never become javascript:.
   Sanitizer-level theorems, complete over all byte strings; the policy instances are derived from
   the REVIEWED policy through the theorems of C04 (proofs/PolicyFacts.v). *)
From V Require Import lib.Base lib.Regex lib.RegexDecide lib.Utf8 gen.GenRegex gen.GenPolicy.
From V Require Import reviewed.ReviewedPolicy model.GoStrings model.Html model.HtmlUnescape model.Url model.UrlProc
     model.UrlSet model.TContext model.TSanitize model.TSanitizers.
From V Require Import spec.HtmlSpec spec.HtmlTok spec.WhatwgUrl spec.UrlSpec spec.Srcset spec.UrlSetSpec
     spec.PolicySpec spec.SanitizerSpec spec.CodeContextSpec spec.CodeContextPolicy.
From V Require Import proofs.RegexFacts proofs.RegexDecideFacts proofs.RegexSpecs proofs.Utf8Facts
     proofs.Utf8AsciiFacts proofs.HtmlFacts proofs.UrlFacts proofs.UrlSetFacts proofs.PolicyFacts
     proofs.SanitizerFacts.
From Coq Require Import ZifyBool ZifyN.
Local Open Scope N_scope.

(* ================================================================== *)
(* side conditions on regenerated / reviewed data, evaluated by the kernel *)
Lemma url_sanitizers_ok : c02_url_sanitizers = true. Proof. vm_compute. reflexivity. Qed.
Lemma handlers_denied_ok : c02_handlers_denied = true. Proof. vm_compute. reflexivity. Qed.
Lemma data_prefix_ok : c02_data_prefix = true. Proof. vm_compute. reflexivity. Qed.
Lemma content_tables_ok : c02_content_tables = true. Proof. vm_compute. reflexivity. Qed.
Lemma style_tables_ok : c02_style_tables = true. Proof. vm_compute. reflexivity. Qed.
Lemma srcdoc_tables_ok : c02_srcdoc_tables = true. Proof. vm_compute. reflexivity. Qed.
Lemma loading_tables_ok : c02_loading_tables = true. Proof. vm_compute. reflexivity. Qed.

(* ================================================================== *)
(* (a) typed-only sanitizers refuse every value that is not of their own safe type *)
Lemma apply_chain_head_none f rest v : apply_sanitizer f v = None -> apply_chain (f :: rest) v = None.
Proof. intros H. destruct rest; cbn [apply_chain]; rewrite H; reflexivity. Qed.

Theorem typed_only_reject f v rest :
  In f typed_only_sanitizers ->
  (forall k s, indirect v = VSafe k s -> own f k = false) ->
  apply_chain (f :: rest) v = None.
Proof.
  unfold typed_only_sanitizers. intros Hin Hv. apply apply_chain_head_none.
  repeat (destruct Hin as [<-|Hin]; [
    unfold apply_sanitizer, typed_only; eval_closed;
    destruct (indirect v) as [ | k s | | | ] eqn:Ei; try reflexivity;
    specialize (Hv k s eq_refl); unfold own in Hv; destruct k; revert Hv; eval_closed;
    cbn [orb kind_eqb kind_num N.eqb Pos.eqb]; intros Hv; first [reflexivity | discriminate Hv] |]).
  destruct Hin.
Qed.

(* plain strings, other Go values, nil, pointers to them: no safe type at all *)
Definition untrusted (v : value) : Prop := forall k s, indirect v <> VSafe k s.

Corollary typed_only_reject_untrusted f v rest :
  In f typed_only_sanitizers -> untrusted v -> apply_chain (f :: rest) v = None.
Proof. intros Hf Hu. apply typed_only_reject; [exact Hf|]. intros k s E. destruct (Hu k s E). Qed.

Example untrusted_str (s : bytes) n : untrusted (Nat.iter n VPtr (VStr s)).
Proof. intros k t. rewrite indirect_iter. discriminate. Qed.
Example untrusted_other (s : bytes) n : untrusted (Nat.iter n VPtr (VOther s)).
Proof. intros k t. rewrite indirect_iter. discriminate. Qed.
Example untrusted_nil n : untrusted (Nat.iter n VPtr VNil).
Proof. intros k t. rewrite indirect_iter. discriminate. Qed.

(* ================================================================== *)
(* (b) comments *)
Theorem comment_empty c :
  c_state c = StHTMLCmt ->
  sanitizer_for_context c = Some [N_sanitizeHTMLComment] /\
  forall v, apply_chain [N_sanitizeHTMLComment] v = Some [].
Proof.
  intros H. split; [unfold sanitizer_for_context; rewrite H; reflexivity|].
  intros v. reflexivity.
Qed.

(* ================================================================== *)
(* (c) the whole-value URL lemma *)

(* ---- the output alphabet of NormalizeURL: printable ASCII ---- *)
Definition printable (c : N) : bool := (33 <=? c) && (c <=? 126).

Lemma keep_byte_printable c t : keep_byte true c t = true -> printable c = true.
Proof.
  unfold keep_byte.
  destruct (mem_N c url_reserved) eqn:E1.
  - intros _. apply mem_N_In in E1. unfold url_reserved in E1. simpl in E1. unfold printable. lia.
  - destruct (mem_N c url_unreserved_marks) eqn:E2.
    + intros _. apply mem_N_In in E2. unfold url_unreserved_marks in E2. simpl in E2. unfold printable. lia.
    + destruct (c =? 37) eqn:E3; [intros _; unfold printable; lia|].
      unfold is_alnum, printable. lia.
Qed.

Lemma keep_byte_intro c t :
  mem_N c url_reserved = true \/ mem_N c url_unreserved_marks = true \/ is_alnum c = true ->
  keep_byte true c t = true.
Proof.
  unfold keep_byte. intros H.
  destruct (mem_N c url_reserved) eqn:E1; [reflexivity|].
  destruct (mem_N c url_unreserved_marks) eqn:E2; [reflexivity|].
  destruct H as [H|[H|H]]; try discriminate.
  destruct (c =? 37) eqn:E3; [unfold is_alnum in H; lia | exact H].
Qed.

Lemma keep_byte_high c t : 128 <= c -> keep_byte true c t = false.
Proof.
  intros Hc. unfold keep_byte.
  destruct (mem_N c url_reserved) eqn:E1.
  { apply mem_N_In in E1. unfold url_reserved in E1. simpl in E1. lia. }
  destruct (mem_N c url_unreserved_marks) eqn:E2.
  { apply mem_N_In in E2. unfold url_unreserved_marks in E2. simpl in E2. lia. }
  destruct (c =? 37) eqn:E3; [lia|]. unfold is_alnum. lia.
Qed.

Lemma hex_digit_range d : d < 16 -> 48 <= hex_digit d <= 102.
Proof. unfold hex_digit. destruct (d <? 10) eqn:E; lia. Qed.

Lemma pct_encode_printable c : c < 256 -> Forall (fun b => printable b = true) (pct_encode c).
Proof.
  intros Hc. unfold pct_encode.
  assert (H1 : c / 16 < 16) by (apply N.div_lt_upper_bound; lia).
  assert (H2 : c mod 16 < 16) by (apply N.mod_lt; lia).
  pose proof (hex_digit_range _ H1). pose proof (hex_digit_range _ H2).
  repeat constructor; unfold printable; lia.
Qed.

Lemma normalize_printable (s : bytes) : wf_bytes s -> Forall (fun b => printable b = true) (normalize_url s).
Proof.
  unfold normalize_url. induction 1 as [|c t Hc Ht IH]; cbn [url_processor]; [constructor|].
  destruct (keep_byte true c t) eqn:E.
  - constructor; [eapply keep_byte_printable; exact E | exact IH].
  - apply Forall_app. split; [apply pct_encode_printable; exact Hc | exact IH].
Qed.

Lemma printable_clean_ok : forallb (fun c => negb (spec_bad c)) (N_seq 33 94) = true.
Proof. vm_compute. reflexivity. Qed.

Lemma printable_not_bad c : printable c = true -> coerce_spec_rune c = c.
Proof.
  intros H. unfold coerce_spec_rune.
  pose proof printable_clean_ok as K. rewrite forallb_forall in K.
  assert (Hin : In c (N_seq 33 94)) by (apply N_seq_In; unfold printable in H; simpl; lia).
  specialize (K c Hin). destruct (spec_bad c); [discriminate K | reflexivity].
Qed.

Lemma printable_ascii (s : bytes) : Forall (fun b => printable b = true) s -> Forall (fun c => c < 128) s.
Proof. intros H. eapply Forall_impl; [|exact H]. intros c Hc. unfold printable in Hc. lia. Qed.

Lemma decode_ascii_all (s : bytes) : Forall (fun c => c < 128) s -> decode_runes s = s.
Proof.
  intros H. pose proof (decode_ascii_prefix s [] H) as E. rewrite app_nil_r in E.
  rewrite E. change (decode_runes []) with (@nil N). apply app_nil_r.
Qed.

Lemma encode_ascii_all (s : list N) : Forall (fun c => c < 128) s -> encode_runes s = s.
Proof.
  induction 1 as [|c t Hc Ht IH]; [reflexivity|]. unfold encode_runes in *. cbn [flat_map].
  rewrite (encode_rune_ascii c Hc), IH. reflexivity.
Qed.

Lemma printable_coerce (s : bytes) : Forall (fun b => printable b = true) s -> coerce_spec s = s.
Proof.
  intros H. unfold coerce_spec. rewrite (decode_ascii_all s (printable_ascii s H)).
  assert (E : map coerce_spec_rune s = s).
  { induction H as [|c t Hc Ht IH]; [reflexivity|]. cbn [map]. rewrite (printable_not_bad c Hc), IH. reflexivity. }
  rewrite E. apply encode_ascii_all, printable_ascii, H.
Qed.

(* what the browser decodes from the escaped, normalised URL is the normalised URL *)
Lemma unescape_escaped_normalized (u : bytes) : wf_bytes u ->
  decode_runes (html_unescape (html_escaped (normalize_url u))) = normalize_url u.
Proof.
  intros Hu. pose proof (normalize_printable u Hu) as Hp.
  rewrite html_unescape_escaped, (printable_coerce _ Hp).
  apply decode_ascii_all, printable_ascii, Hp.
Qed.

(* ---- NormalizeURL keeps an ASCII scheme prefix byte for byte ---- *)
Lemma scheme_char_kept c t : scheme_char c = true -> keep_byte true c t = true.
Proof.
  intros H. apply keep_byte_intro.
  unfold scheme_char, ascii_alphanumeric, WhatwgUrl.ascii_digit, ascii_alpha, ascii_upper_alpha, ascii_lower_alpha in H.
  destruct (c =? 43) eqn:E1; [left; apply mem_N_In; unfold url_reserved; simpl; lia|].
  destruct ((c =? 45) || (c =? 46)) eqn:E2; [right; left; apply mem_N_In; unfold url_unreserved_marks; simpl; lia|].
  right; right. unfold is_alnum. lia.
Qed.

Lemma normalize_scheme_prefix (a : bytes) rest : Forall (fun c => scheme_char c = true) a ->
  normalize_url (a ++ rest) = a ++ normalize_url rest.
Proof.
  unfold normalize_url. induction 1 as [|c t Hc Ht IH]; [reflexivity|]. cbn [app url_processor].
  rewrite (scheme_char_kept c (t ++ rest) Hc), IH. reflexivity.
Qed.

Lemma normalize_colon rest : normalize_url (58 :: rest) = 58 :: normalize_url rest.
Proof. reflexivity. Qed.

Lemma normalize_high c rest : 128 <= c -> exists t, normalize_url (c :: rest) = 37 :: t.
Proof.
  intros Hc. unfold normalize_url. cbn [url_processor].
  assert (E : keep_byte true c rest = false) by (apply keep_byte_high; exact Hc).
  rewrite E. unfold pct_encode. cbn [app]. eexists; reflexivity.
Qed.

(* ---- a percent sign after scheme characters: the URL parser finds no scheme ---- *)
Lemma scheme_state_pct a : forall buf t, Forall (fun c => scheme_char c = true) a ->
  scheme_state (a ++ 37 :: t) buf = None.
Proof.
  induction a as [|c a IH]; intros buf t H; cbn [app scheme_state].
  - reflexivity.
  - inversion H as [|? ? Hc Ha]; subst. rewrite Hc. apply IH. exact Ha.
Qed.

Lemma scheme_char_not_c0 c : scheme_char c = true -> c0_or_space c = false /\ c <> 58.
Proof.
  unfold scheme_char, ascii_alphanumeric, WhatwgUrl.ascii_digit, ascii_alpha, ascii_upper_alpha, ascii_lower_alpha,
    c0_or_space. lia.
Qed.

Lemma whatwg_no_scheme_pct a t : Forall (fun c => scheme_char c = true) a ->
  whatwg_scheme (a ++ 37 :: t) = None.
Proof.
  intros Ha.
  assert (Hc0 : Forall (fun c => c0_or_space c = false) a).
  { eapply Forall_impl; [|exact Ha]. intros c Hc. apply scheme_char_not_c0 in Hc. tauto. }
  unfold whatwg_scheme, url_preprocess.
  assert (Es : strip_leading (a ++ 37 :: t) = a ++ 37 :: t).
  { destruct a as [|c a]; cbn [app strip_leading]; [reflexivity|].
    inversion Hc0; subst. match goal with H : c0_or_space c = false |- _ => rewrite H end. reflexivity. }
  rewrite Es. destruct (strip_trailing_keep a 37 t eq_refl) as (t' & E). rewrite E.
  unfold remove_tab_newline. rewrite filter_app. fold (remove_tab_newline a).
  rewrite (remove_tab_newline_keep a Hc0). cbn [filter]. change (negb (ascii_tab_or_newline 37)) with true. cbn iota.
  destruct a as [|c a]; cbn [app scheme_start_state]; [reflexivity|].
  destruct (ascii_alpha c); [|reflexivity]. inversion Ha; subst. apply scheme_state_pct. assumption.
Qed.

(* ---- byte-level view of the two shapes URLSanitized accepts ---- *)
Lemma first_nonascii (a : bytes) :
  Forall (fun c => c < 128) a \/
  exists a1 c a2, a = a1 ++ c :: a2 /\ Forall (fun c => c < 128) a1 /\ 128 <= c.
Proof.
  induction a as [|c a IH]; [left; constructor|].
  destruct (N.lt_ge_cases c 128) as [Hc|Hc].
  - destruct IH as [H|(a1 & d & a2 & -> & H1 & Hd)].
    + left. constructor; assumption.
    + right. exists (c :: a1), d, a2. repeat split; [constructor; assumption | exact Hd].
  - right. exists [], c, a. repeat split; [constructor | exact Hc].
Qed.

Lemma ascii_lower_in_cls c : c < 128 -> in_ranges (to_lower c) scheme_cls = true -> scheme_char c = true.
Proof.
  intros Hc H. rewrite to_lower_ascii in H by exact Hc. apply scheme_cls_spec in H.
  unfold scheme_char, ascii_alphanumeric, WhatwgUrl.ascii_digit, ascii_alpha, ascii_upper_alpha, ascii_lower_alpha.
  destruct (ascii_lower_spec c) as [[? E]|[? E]]; rewrite E in H; lia.
Qed.

Lemma normalized_scheme_shape_no_js (u : bytes) : scheme_shape (decode_runes u) ->
  whatwg_scheme (normalize_url u) <> Some javascript_scheme.
Proof.
  intros (q & r & E & Hne & Hq & Hj).
  destruct (decode_split_ascii u q 58 r eq_refl E) as (a & b & -> & Ea & _).
  (* every ASCII byte of a is a scheme character *)
  assert (Hasc : forall c, In c a -> c < 128 -> scheme_char c = true).
  { intros c Hin Hc. apply ascii_lower_in_cls; [exact Hc|].
    rewrite Forall_forall in Hq. apply Hq. rewrite <- Ea. apply (decode_in_ascii a c Hc). exact Hin. }
  destruct (first_nonascii a) as [Hall|(a1 & c & a2 & -> & H1 & Hc)].
  - (* all ASCII: the prefix is copied, the scheme is the same non-javascript scheme *)
    assert (Hsc : Forall (fun c => scheme_char c = true) a).
    { apply Forall_forall. intros c Hin. apply Hasc; [exact Hin|]. rewrite Forall_forall in Hall. auto. }
    rewrite (normalize_scheme_prefix a (58 :: b) Hsc), normalize_colon.
    rewrite (decode_ascii_all a Hall) in Ea. subst q.
    apply scheme_shape_no_js. exists a, (normalize_url b). auto.
  - (* a non-ASCII byte before the colon is percent-encoded: no scheme at all *)
    assert (Hsc : Forall (fun c => scheme_char c = true) a1).
    { apply Forall_forall. intros d Hin. apply Hasc; [apply in_or_app; left; exact Hin|].
      rewrite Forall_forall in H1. auto. }
    rewrite <- app_assoc. cbn [app]. rewrite (normalize_scheme_prefix a1 _ Hsc).
    destruct (normalize_high c (a2 ++ 58 :: b) Hc) as (t & Et). rewrite Et.
    rewrite (whatwg_no_scheme_pct a1 t Hsc). discriminate.
Qed.

(* relative shape, on bytes *)
Lemma nonspecial_bytes (a : bytes) :
  Forall (fun c => is_delim c = false /\ colon_or_amp c = false) (decode_runes a) ->
  Forall (fun c => is_delim c = false /\ colon_or_amp c = false) a.
Proof.
  intros H. apply Forall_forall. intros c Hin.
  destruct (N.lt_ge_cases c 128) as [Hc|Hc].
  - rewrite Forall_forall in H. apply H. apply (decode_in_ascii a c Hc). exact Hin.
  - unfold is_delim, colon_or_amp. lia.
Qed.

Lemma oad_bytes_of_runes (u : bytes) :
  colon_amp_only_after_delim (decode_runes u) = true -> colon_amp_only_after_delim u = true.
Proof.
  unfold colon_amp_only_after_delim. intros H.
  apply oad_shape in H as (p & rest & E & Hp & Hr). apply oad_shape.
  destruct Hr as [->|(d & r & -> & Hd)].
  - rewrite app_nil_r in E. exists u, []. rewrite app_nil_r. split; [reflexivity|].
    split; [apply nonspecial_bytes; rewrite E; exact Hp | left; reflexivity].
  - assert (Hd128 : d < 128) by (unfold is_delim in Hd; lia).
    destruct (decode_split_ascii u p d r Hd128 E) as (a & b & -> & Ea & _).
    exists a, (d :: b). split; [reflexivity|].
    split; [apply nonspecial_bytes; rewrite Ea; exact Hp | right; eauto].
Qed.

Lemma hex_digit_plain d : is_delim (hex_digit d) = false /\ is_colon (hex_digit d) = false.
Proof. unfold hex_digit, is_delim, is_colon. destruct (d <? 10) eqn:E; lia. Qed.

Lemma delim_kept c t : is_delim c = true -> keep_byte true c t = true.
Proof.
  intros H. apply keep_byte_intro. left. apply mem_N_In. unfold url_reserved, is_delim in *. simpl. lia.
Qed.

Lemma normalize_keeps_oad (u : bytes) :
  only_after_delim colon_or_amp u = true -> only_after_delim is_colon (normalize_url u) = true.
Proof.
  unfold normalize_url. induction u as [|c t IH]; cbn [only_after_delim url_processor]; [reflexivity|].
  destruct (is_delim c) eqn:Ed.
  - intros _. rewrite (delim_kept c t Ed). cbn [only_after_delim]. rewrite Ed. reflexivity.
  - destruct (colon_or_amp c) eqn:Eb; [discriminate|]. intros H.
    assert (Ec : is_colon c = false) by (unfold colon_or_amp, is_colon in *; lia).
    destruct (keep_byte true c t).
    + cbn [only_after_delim]. rewrite Ed, Ec. apply IH. exact H.
    + unfold pct_encode. cbn [app only_after_delim].
      destruct (hex_digit_plain (c / 16)) as [A1 A2]. destruct (hex_digit_plain (c mod 16)) as [B1 B2].
      change (is_delim 37) with false. change (is_colon 37) with false. cbn iota.
      rewrite A1, A2, B1, B2. apply IH. exact H.
Qed.

Theorem normalized_safe_no_js (u : bytes) : is_safe_url u = true ->
  whatwg_scheme (normalize_url u) <> Some javascript_scheme.
Proof.
  intros H. apply is_safe_url_shape in H as [H|H].
  - apply normalized_scheme_shape_no_js. exact H.
  - apply oad_bytes_of_runes in H. unfold colon_amp_only_after_delim in H.
    apply normalize_keeps_oad, oad_no_scheme in H. rewrite H. discriminate.
Qed.

Lemma url_sanitized_safe (s : bytes) : is_safe_url (url_sanitized s) = true.
Proof. unfold url_sanitized. destruct (is_safe_url s) eqn:E; [exact E | exact innocuous_is_safe]. Qed.

Lemma innocuous_wf : wf_bytes innocuous_url.
Proof.
  assert (H : forallb (fun c => c <? 256) innocuous_url = true) by (vm_compute; reflexivity).
  rewrite forallb_forall in H. apply Forall_forall. intros c Hc. specialize (H c Hc). unfold wf_byte. lia.
Qed.

Lemma url_sanitized_wf (s : bytes) : wf_bytes s -> wf_bytes (url_sanitized s).
Proof. intros H. unfold url_sanitized. destruct (is_safe_url s); [exact H | exact innocuous_wf]. Qed.

(* the run-time pipeline of a URL attribute at an empty static prefix, on an untrusted value *)
Lemma url_chain_output f v o :
  f = B "_sanitizeURL" \/ f = B "_sanitizeTrustedResourceURLOrURL" ->
  untrusted v ->
  apply_chain [f; N_normalizeURL; N_sanitizeHTML] v = Some o ->
  o = html_escaped (normalize_url (url_sanitized (stringify v))).
Proof.
  intros Hf Hu. cbn [apply_chain].
  assert (E1 : apply_sanitizer f v = Some (url_sanitized (stringify v))).
  { destruct Hf as [->| ->]; unfold apply_sanitizer; eval_closed;
      destruct (indirect v) as [ | k s | | | ] eqn:Ei; try reflexivity; destruct (Hu k s Ei). }
  rewrite E1.
  assert (E2 : forall x : bytes, apply_sanitizer N_normalizeURL (VStr x) = Some (normalize_url x)).
  { intros x. unfold apply_sanitizer, N_normalizeURL. eval_closed. reflexivity. }
  rewrite E2.
  assert (E3 : forall x : bytes, apply_sanitizer N_sanitizeHTML (VStr x) = Some (html_escaped x)).
  { intros x. unfold apply_sanitizer, N_sanitizeHTML. eval_closed. reflexivity. }
  rewrite E3. intros H. inversion H. reflexivity.
Qed.

Theorem url_whole_value f v o :
  f = B "_sanitizeURL" \/ f = B "_sanitizeTrustedResourceURLOrURL" ->
  untrusted v -> wf_bytes (stringify v) ->
  apply_chain [f; N_normalizeURL; N_sanitizeHTML] v = Some o ->
  whatwg_scheme (decode_runes (html_unescape o)) <> Some javascript_scheme.
Proof.
  intros Hf Hu Hwf Ha. rewrite (url_chain_output f v o Hf Hu Ha).
  rewrite unescape_escaped_normalized by (apply url_sanitized_wf; exact Hwf).
  apply normalized_safe_no_js, url_sanitized_safe.
Qed.

Example url_whole_value_js : apply_chain [B "_sanitizeURL"; N_normalizeURL; N_sanitizeHTML] (VStr (B "JaVaScRiPt:alert(1)"))
  = Some (B "about:invalid#zGoSafez").
Proof. vm_compute. reflexivity. Qed.
Example url_whole_value_kept : apply_chain [B "_sanitizeURL"; N_normalizeURL; N_sanitizeHTML] (VStr (B "https://a.b/c d?e=f&g"))
  = Some (B "https://a.b/c%20d?e=f&amp;g").
Proof. vm_compute. reflexivity. Qed.

(* ================================================================== *)
(* policy plumbing: from a context NAME of the reviewed policy to the engine's sanitizer *)
Lemma cc_mem_In x l : cc_mem x l = true <-> In x l.
Proof.
  unfold cc_mem. rewrite existsb_exists. split.
  - intros [y [Hy E]]. apply bytes_eqb_eq in E. subst. exact Hy.
  - intros H. exists x. split; [exact H | apply bytes_eqb_refl].
Qed.

Lemma sc_info_in sc i : sc_info sc = Some i -> In (sc, i) P_contexts.
Proof.
  unfold sc_info. destruct (find (fun e => fst e =? sc) P_contexts) as [[k j]|] eqn:Ef; [|discriminate].
  intros H. inversion H; subst. apply find_some in Ef as [Hin Hk]. cbn [fst] in Hk.
  apply N.eqb_eq in Hk. subst. exact Hin.
Qed.

Lemma contexts_ok_first :
  forallb (fun x => let '(_, (n, san, en, url)) := x in
                    match lookup_bytes n R_contexts with
                    | Some (san', en', url', _) => bytes_eqb san san' && Bool.eqb en en' && Bool.eqb url url'
                    | None => false
                    end) P_contexts = true.
Proof.
  pose proof contexts_ok_ok as H. unfold contexts_ok in H.
  repeat (apply andb_true_iff in H as [H _]). exact H.
Qed.

(* the reviewed entry of the context an engine number denotes *)
Lemma sc_reviewed sc n : sc_name sc = n -> n <> [] ->
  sc_sanitizer_name sc = r_sanitizer n /\ sc_is_url sc = r_is_url n.
Proof.
  unfold sc_name, sc_sanitizer_name, sc_is_url, r_sanitizer, r_is_url.
  destruct (sc_info sc) as [[[[n0 san0] en0] url0]|] eqn:Ei.
  - intros <- _. apply sc_info_in in Ei. pose proof contexts_ok_first as H. rewrite forallb_forall in H.
    specialize (H _ Ei). cbn beta iota in H.
    destruct (lookup_bytes n0 R_contexts) as [[[[san' en'] url'] t']|]; [|discriminate H].
    apply andb_true_iff in H as [H H3]. apply andb_true_iff in H as [H1 H2].
    apply bytes_eqb_eq in H1. apply Bool.eqb_prop in H3. subst. auto.
  - intros <- Hn. contradiction Hn. reflexivity.
Qed.

Lemma trust_le_exact a b : trust_le a b = true ->
  bytes_eqb a N_None = false -> bytes_eqb a N_URL = false -> bytes_eqb a N_TRUOrURL = false -> b = a.
Proof.
  unfold trust_le. intros H H1 H2 H3. rewrite H1, H2, H3 in H. cbn [andb orb] in H.
  rewrite !orb_false_r in H. apply bytes_eqb_eq in H. auto.
Qed.

(* the reviewed decision does not look at rel unless the pair is link / href *)
Lemma reviewed_attr_no_rel e a rel :
  bytes_eqb e (B "link") && bytes_eqb a (B "href") = false -> reviewed_attr e a rel = reviewed_attr e a [].
Proof. intros H. unfold reviewed_attr. rewrite H. reflexivity. Qed.

Lemma reviewed_attr_link_rel rel : rel_has_url_token rel = false ->
  reviewed_attr (B "link") (B "href") rel = reviewed_attr (B "link") (B "href") [].
Proof.
  unfold rel_has_url_token. intros H. unfold reviewed_attr. rewrite H.
  change (bytes_eqb (B "link") (B "link") && bytes_eqb (B "href") (B "href") && false) with false.
  change (bytes_eqb (B "link") (B "link") && bytes_eqb (B "href") (B "href") &&
          existsb (fun v => mem_bytes v R_urlLinkRelVals) (fields [])) with false.
  reflexivity.
Qed.

Lemma lookup3_classes a e : forall t n, lookup3 a e t = Some n ->
  In n (map snd (filter (fun x => bytes_eqb a (fst (fst x))) t)).
Proof.
  induction t as [|[[a' e'] n'] t IH]; cbn [lookup3 filter fst snd]; intros n H; [discriminate|].
  destruct (bytes_eqb a a') eqn:Ea; cbn [andb] in H.
  - destruct (bytes_eqb e e'); [inversion H; subst; left; reflexivity | right; apply IH; exact H].
  - apply IH. exact H.
Qed.

Lemma r_tables_classes a e n : r_tables a e = Some n -> In n (r_attr_classes a).
Proof.
  unfold r_tables, r_attr_classes. intros H. apply in_or_app.
  destruct (lookup3 a e R_elementSpecific) as [n1|] eqn:E3.
  - inversion H; subst. left. eapply lookup3_classes; exact E3.
  - right. destruct (lookup_bytes a R_globalAttr) as [n1|]; [|discriminate].
    destruct (is_some (lookup_bytes e R_elementContent) || mem_bytes e R_allowedVoid); [|discriminate].
    inversion H; subst. left. reflexivity.
Qed.

Lemma reviewed_attr_classes e a rel n :
  bytes_eqb a (B "href") = false -> go_match_bytes R_dataAttributeName a = false ->
  reviewed_attr e a rel = Some n -> In n (r_attr_classes a).
Proof.
  intros Ha Hd. unfold reviewed_attr. rewrite Ha, Hd, andb_false_r. cbn [andb]. apply r_tables_classes.
Qed.

(* ================================================================== *)
(* (a) instances named by the property, from the reviewed policy *)

(* ---- script and style element bodies ---- *)
Theorem code_content_sanitizer e sc :
  sc_for_element_content e = Some sc ->
  (e = B "script" -> sc_sanitizer_name sc = B "_sanitizeScript") /\
  (e = B "style" -> sc_sanitizer_name sc = B "_sanitizeStyleSheet").
Proof.
  intros H. apply policy_not_weaker_content in H as (n' & Er & Hle).
  pose proof content_tables_ok as T. unfold c02_content_tables in T.
  apply andb_true_iff in T as [T T4]. apply andb_true_iff in T as [T T3]. apply andb_true_iff in T as [T1 T2].
  split; intros ->.
  - unfold opt_is in T1. rewrite Er in T1. apply bytes_eqb_eq in T1. subst n'.
    apply trust_le_exact in Hle; [|reflexivity|reflexivity|reflexivity].
    destruct (sc_reviewed sc _ Hle) as [E _]; [discriminate|]. rewrite E.
    apply bytes_eqb_eq. exact T3.
  - unfold opt_is in T2. rewrite Er in T2. apply bytes_eqb_eq in T2. subst n'.
    apply trust_le_exact in Hle; [|reflexivity|reflexivity|reflexivity].
    destruct (sc_reviewed sc _ Hle) as [E _]; [discriminate|]. rewrite E.
    apply bytes_eqb_eq. exact T4.
Qed.

(* an action directly inside a script or style element: the chain is the single typed-only sanitizer *)
Theorem code_body_chain c chain :
  c_elem c = B "script" \/ c_elem c = B "style" ->
  c_elem_names c = [] -> c_attr c = [] -> c_attr_names c = [] ->
  c_state c <> StHTMLCmt ->
  sanitizer_for_context c = Some chain ->
  (c_elem c = B "script" -> chain = [B "_sanitizeScript"]) /\
  (c_elem c = B "style" -> chain = [B "_sanitizeStyleSheet"]).
Proof.
  intros He Hen Ha Han Hst. unfold sanitizer_for_context, sanitizer_for_element_content.
  rewrite Hen, Ha, Han.
  assert (Ee : bytes_eqb (c_elem c) [] = false) by (destruct He as [-> | ->]; reflexivity).
  rewrite Ee. cbn [andb negb orb bytes_eqb list_eqb all_same_content_sc].
  destruct (sc_for_element_content (c_elem c)) as [sc|] eqn:Esc.
  - destruct (code_content_sanitizer _ _ Esc) as [H1 H2]. rewrite Ee.
    destruct (c_state c); try discriminate; try contradiction; intros H; inversion H; subst; clear H;
      (split; intros E; [rewrite (H1 E) | rewrite (H2 E)]; reflexivity).
  - rewrite Ee. destruct (c_state c); try discriminate; contradiction.
Qed.

Theorem code_body_rejects c chain v :
  c_elem c = B "script" \/ c_elem c = B "style" ->
  c_elem_names c = [] -> c_attr c = [] -> c_attr_names c = [] ->
  c_state c <> StHTMLCmt ->
  sanitizer_for_context c = Some chain ->
  untrusted v -> apply_chain chain v = None.
Proof.
  intros He Hen Ha Han Hst Hc Hu.
  destruct (code_body_chain c chain He Hen Ha Han Hst Hc) as [H1 H2].
  destruct He as [E|E]; [rewrite (H1 E) | rewrite (H2 E)];
    apply typed_only_reject_untrusted; try exact Hu; unfold typed_only_sanitizers; simpl; auto 10.
Qed.

(* ---- attribute values: the context number comes from the first (element, attribute) pair ---- *)
Lemma all_same_sc_fixed t rel : forall s sc0, all_same_sc t rel (Some s) = Some sc0 -> sc0 = s.
Proof.
  induction t as [|[e a] t IH]; cbn [all_same_sc]; intros s sc0 H; [inversion H; reflexivity|].
  destruct (sc_for_attr_val e a rel) as [sc|]; [|discriminate].
  destruct (sc =? s); [apply IH; exact H | discriminate].
Qed.

Lemma all_same_sc_first e a t rel sc0 :
  all_same_sc ((e, a) :: t) rel None = Some sc0 -> sc_for_attr_val e a rel = Some sc0.
Proof.
  cbn [all_same_sc]. destruct (sc_for_attr_val e a rel) as [sc|]; [|discriminate].
  intros H. apply all_same_sc_fixed in H. subst. reflexivity.
Qed.

Lemma all_same_sc_first_none e a t rel :
  sc_for_attr_val e a rel = None -> all_same_sc ((e, a) :: t) rel None = None.
Proof. intros H. cbn [all_same_sc]. rewrite H. reflexivity. Qed.

(* with a single attribute name, the first pair carries that name *)
Lemma attr_pairs_first c : c_attr_names c = [] ->
  exists e t, attr_pairs c = (e, c_attr c) :: t.
Proof.
  intros Han. unfold attr_pairs. rewrite Han.
  destruct (c_elem_names c) as [|e1 l]; cbn [flat_map map app]; eauto.
Qed.

(* ---- event handlers: refused by default deny ---- *)
Lemma data_name_starts_d a : go_match_bytes R_dataAttributeName a = true -> exists t, a = 100 :: t.
Proof.
  unfold go_match_bytes, go_match. intros H.
  apply (incl_ok_sound _ _ data_prefix_ok) in H. unfold starts_with_d in H.
  apply accepts_begin_cls in H as (c & t & E & Hc).
  assert (c = 100) by (unfold in_ranges, in_range in Hc; simpl in Hc; lia). subst c.
  destruct (decode_cons_ascii a 100 t E eq_refl) as (s' & -> & _). eauto.
Qed.

Lemma handler_not_key a : handler_name a = true -> ~ In a r_attr_keys.
Proof.
  intros H Hin. pose proof handlers_denied_ok as K. unfold c02_handlers_denied in K.
  rewrite forallb_forall in K. specialize (K a Hin). rewrite H in K. discriminate.
Qed.

Lemma lookup3_key a e : forall t n, lookup3 a e t = Some n -> In a (map (fun x => fst (fst x)) t).
Proof.
  induction t as [|[[a' e'] n'] t IH]; cbn [lookup3 map fst]; intros n H; [discriminate|].
  destruct (bytes_eqb a a' && bytes_eqb e e') eqn:E.
  - apply andb_true_iff in E as [E _]. apply bytes_eqb_eq in E. subst. left. reflexivity.
  - right. eapply IH. exact H.
Qed.

Theorem handler_reviewed_deny e a rel : handler_name a = true -> reviewed_attr e a rel = None.
Proof.
  intros H. unfold reviewed_attr.
  assert (Eh : bytes_eqb a (B "href") = false).
  { destruct (bytes_eqb a (B "href")) eqn:E; [|reflexivity]. apply bytes_eqb_eq in E. subst. discriminate H. }
  rewrite Eh, andb_false_r. cbn [andb].
  destruct (go_match_bytes R_dataAttributeName a) eqn:Ed.
  { apply data_name_starts_d in Ed as (t & ->). discriminate H. }
  unfold r_tables.
  destruct (lookup3 a e R_elementSpecific) as [n|] eqn:E3.
  { exfalso. apply (handler_not_key a H). unfold r_attr_keys. apply in_or_app. left. eapply lookup3_key. exact E3. }
  destruct (lookup_bytes a R_globalAttr) as [n|] eqn:Eg; [|reflexivity].
  exfalso. apply (handler_not_key a H). unfold r_attr_keys. apply in_or_app. right. eapply lookup_bytes_key. exact Eg.
Qed.

Theorem handler_denied e a rel : handler_name a = true -> sc_for_attr_val e a rel = None.
Proof. intros H. apply policy_default_deny_attr, handler_reviewed_deny, H. Qed.

Theorem handler_context_refused c :
  handler_name (c_attr c) = true -> c_attr_names c = [] -> sanitizers_for_attr_value c = None.
Proof.
  intros H Han. unfold sanitizers_for_attr_value.
  destruct (attr_pairs_first c Han) as (e & t & ->).
  rewrite (all_same_sc_first_none e (c_attr c) t (c_link_rel c) (handler_denied e _ _ H)). reflexivity.
Qed.

(* ---- style and srcdoc attributes ---- *)
Lemma classes_all n0 a n : forallb (fun n => bytes_eqb n n0) (r_attr_classes a) = true ->
  In n (r_attr_classes a) -> n = n0.
Proof. intros H Hin. rewrite forallb_forall in H. apply bytes_eqb_eq. apply H. exact Hin. Qed.

Theorem code_attr_sanitizer e a rel sc :
  sc_for_attr_val e a rel = Some sc ->
  (a = B "style" -> sc_sanitizer_name sc = B "_sanitizeStyle" /\ sc_is_url sc = false) /\
  (a = B "srcdoc" -> sc_sanitizer_name sc = B "_sanitizeHTMLValOnly" /\ sc_is_url sc = false).
Proof.
  intros H. apply policy_not_weaker_attr in H as (n' & Er & Hle). split; intros ->.
  - pose proof style_tables_ok as T. unfold c02_style_tables in T.
    apply andb_true_iff in T as [T T4]. apply andb_true_iff in T as [T T3]. apply andb_true_iff in T as [T1 T2].
    apply negb_true_iff in T2, T4.
    apply reviewed_attr_classes in Er; [|reflexivity|exact T2].
    apply (classes_all _ _ _ T1) in Er. subst n'.
    apply trust_le_exact in Hle; [|reflexivity|reflexivity|reflexivity].
    destruct (sc_reviewed sc _ Hle) as [E1 E2]; [discriminate|]. rewrite E1, E2.
    split; [apply bytes_eqb_eq; exact T3 | exact T4].
  - pose proof srcdoc_tables_ok as T. unfold c02_srcdoc_tables in T.
    apply andb_true_iff in T as [T T4]. apply andb_true_iff in T as [T T3]. apply andb_true_iff in T as [T1 T2].
    apply negb_true_iff in T2, T4.
    apply reviewed_attr_classes in Er; [|reflexivity|exact T2].
    apply (classes_all _ _ _ T1) in Er. subst n'.
    apply trust_le_exact in Hle; [|reflexivity|reflexivity|reflexivity].
    destruct (sc_reviewed sc _ Hle) as [E1 E2]; [discriminate|]. rewrite E1, E2.
    split; [apply bytes_eqb_eq; exact T3 | exact T4].
Qed.

Theorem code_attr_rejects c chain v :
  c_attr c = B "style" \/ c_attr c = B "srcdoc" -> c_attr_names c = [] ->
  sanitizers_for_attr_value c = Some chain ->
  untrusted v -> apply_chain chain v = None.
Proof.
  intros Ha Han Hc Hu.
  apply attr_chain_shape in Hc as (sc0 & Hsc & _ & Hnu & _ & _ & _).
  destruct (attr_pairs_first c Han) as (e & t & Ep). rewrite Ep in Hsc.
  apply all_same_sc_first in Hsc. destruct (code_attr_sanitizer _ _ _ _ Hsc) as [H1 H2].
  destruct Ha as [E|E].
  - destruct (H1 E) as [Es Eu]. rewrite (Hnu Eu), Es.
    apply typed_only_reject_untrusted; [unfold typed_only_sanitizers; simpl; auto 10 | exact Hu].
  - destruct (H2 E) as [Es Eu]. rewrite (Hnu Eu), Es.
    apply typed_only_reject_untrusted; [unfold typed_only_sanitizers; simpl; auto 10 | exact Hu].
Qed.

(* ---- URLs that load code or styles ---- *)
Lemma tru_context_unique sc : sc_sanitizer_name sc = B "_sanitizeTrustedResourceURL" -> sc = SC_TRU.
Proof.
  unfold sc_sanitizer_name. destruct (sc_info sc) as [[[[n0 san0] en0] url0]|] eqn:Ei; [|discriminate].
  intros ->. apply sc_info_in in Ei. pose proof url_sanitizers_ok as K. unfold c02_url_sanitizers in K.
  rewrite forallb_forall in K. specialize (K _ Ei). cbn beta iota in K.
  apply andb_true_iff in K as [_ K]. rewrite bytes_eqb_refl in K. cbn [implb] in K. apply N.eqb_eq. exact K.
Qed.

Theorem code_loading_sanitizer e a rel sc :
  In (e, a) code_loading_pairs ->
  (e = B "link" -> rel_has_url_token rel = false) ->
  sc_for_attr_val e a rel = Some sc ->
  sc_sanitizer_name sc = B "_sanitizeTrustedResourceURL" /\ sc_is_url sc = true.
Proof.
  intros Hin Hrel H. apply policy_not_weaker_attr in H as (n' & Er & Hle).
  pose proof loading_tables_ok as T. unfold c02_loading_tables in T.
  apply andb_true_iff in T as [T T3]. apply andb_true_iff in T as [T1 T2].
  rewrite forallb_forall in T1. specialize (T1 _ Hin). cbn [fst snd] in T1.
  assert (Er0 : reviewed_attr e a [] = Some n').
  { rewrite <- Er. symmetry. unfold code_loading_pairs in Hin.
    repeat (destruct Hin as [Hin|Hin]; [inversion Hin; subst e a;
      first [apply reviewed_attr_no_rel; reflexivity | apply reviewed_attr_link_rel; apply Hrel; reflexivity] |]).
    destruct Hin. }
  rewrite Er0 in T1. unfold opt_is in T1. apply bytes_eqb_eq in T1. subst n'.
  apply trust_le_exact in Hle; [|reflexivity|reflexivity|reflexivity].
  destruct (sc_reviewed sc _ Hle) as [E1 E2]; [discriminate|]. rewrite E1, E2.
  split; [apply bytes_eqb_eq; exact T2 | exact T3].
Qed.

(* at the start of such an attribute value (empty static prefix) an untrusted value is refused *)
Theorem code_loading_rejects c chain v :
  In (c_elem c, c_attr c) code_loading_pairs ->
  (c_elem c = B "link" -> rel_has_url_token (c_link_rel c) = false) ->
  c_elem_names c = [] -> c_attr_names c = [] -> c_attr_value c = [] ->
  sanitizers_for_attr_value c = Some chain ->
  untrusted v -> apply_chain chain v = None.
Proof.
  intros Hin Hrel Hen Han Hv Hc Hu.
  apply attr_chain_shape in Hc as (sc0 & Hsc & _ & _ & Hurl & _ & _).
  unfold attr_pairs in Hsc. rewrite Hen, Han in Hsc. cbn [flat_map map app] in Hsc.
  apply all_same_sc_first in Hsc.
  destruct (code_loading_sanitizer _ _ _ _ Hin Hrel Hsc) as [Es Eu].
  rewrite (Hurl Eu Hv), Es.
  apply typed_only_reject_untrusted; [unfold typed_only_sanitizers; simpl; auto 10 | exact Hu].
Qed.

(* after a static prefix the chain is the percent-escaping one and the prefix was validated as a
   TrustedResourceURL prefix (what that prefix fixes is C13 / C14) *)
Theorem code_loading_after_prefix c chain :
  In (c_elem c, c_attr c) code_loading_pairs ->
  (c_elem c = B "link" -> rel_has_url_token (c_link_rel c) = false) ->
  c_elem_names c = [] -> c_attr_names c = [] -> c_attr_value c <> [] ->
  sanitizers_for_attr_value c = Some chain ->
  chain = [N_validateTRUSubst; N_queryEscapeURL; N_sanitizeHTML] /\ validate_tru_prefix (c_attr_value c) = true.
Proof.
  intros Hin Hrel Hen Han Hv Hc. unfold sanitizers_for_attr_value in Hc.
  unfold attr_pairs in Hc. rewrite Hen, Han in Hc. cbn [flat_map map app] in Hc.
  destruct (all_same_sc [(c_elem c, c_attr c)] (c_link_rel c) None) as [sc0|] eqn:Hsc; [|discriminate].
  apply all_same_sc_first in Hsc.
  destruct (code_loading_sanitizer _ _ _ _ Hin Hrel Hsc) as [Es Eu].
  assert (Etru : sc0 =? SC_TRU = true).
  { apply N.eqb_eq. apply tru_context_unique. exact Es. }
  destruct (sc_is_enum sc0 && negb (bytes_eqb (c_attr_value c) [])); [discriminate|].
  destruct ((sc0 =? SC_Style) && negb (bytes_eqb (c_attr_value c) []) && negb (validate_no_charref_prefix (c_attr_value c)));
    [discriminate|].
  rewrite Eu in Hc. cbn [negb] in Hc.
  destruct (c_attr_value c) as [|b0 p] eqn:Ev; [contradiction Hv; reflexivity|].
  destruct (c_attr_amb c); [discriminate|].
  unfold url_prefix_validator in Hc. rewrite Etru in Hc.
  destruct ((sc0 =? SC_URL) || (sc0 =? SC_TRUOrURL)) eqn:Eo.
  { apply N.eqb_eq in Etru. subst sc0. vm_compute in Eo. discriminate Eo. }
  destruct (validate_tru_prefix (b0 :: p)) eqn:Evp; cbn [negb] in Hc; [|discriminate].
  inversion Hc. auto.
Qed.

(* ================================================================== *)
(* (c) at the level of contexts: a URL attribute value that starts with the action *)
Lemma url_sanitizer_is_url sc :
  sc_is_url sc = cc_mem (sc_sanitizer_name sc) url_class_sanitizers.
Proof.
  unfold sc_is_url, sc_sanitizer_name. destruct (sc_info sc) as [[[[n0 san0] en0] url0]|] eqn:Ei; [|reflexivity].
  apply sc_info_in in Ei. pose proof url_sanitizers_ok as K. unfold c02_url_sanitizers in K.
  rewrite forallb_forall in K. specialize (K _ Ei). cbn beta iota in K.
  apply andb_true_iff in K as [K _]. apply Bool.eqb_prop in K. exact K.
Qed.

Theorem url_attr_whole_value c chain f rest v o :
  sanitizers_for_attr_value c = Some chain -> c_attr_value c = [] ->
  chain = f :: rest ->
  f = B "_sanitizeURL" \/ f = B "_sanitizeTrustedResourceURLOrURL" ->
  untrusted v -> wf_bytes (stringify v) ->
  apply_chain chain v = Some o ->
  chain = [f; N_normalizeURL; N_sanitizeHTML] /\
  whatwg_scheme (decode_runes (html_unescape o)) <> Some javascript_scheme.
Proof.
  intros Hc Hv Ech Hf Hu Hwf Ha.
  apply attr_chain_shape in Hc as (sc0 & _ & _ & Hnu & Hurl & _ & _).
  assert (Eshape : chain = [f; N_normalizeURL; N_sanitizeHTML]).
  { pose proof Ech as Ech0. destruct (sc_is_url sc0) eqn:Eu.
    - specialize (Hurl eq_refl Hv). rewrite Hurl in Ech. unfold nonempty_names in Ech. cbn [filter] in Ech.
      change (negb (bytes_eqb N_normalizeURL [])) with true in Ech. cbn iota in Ech.
      destruct (negb (bytes_eqb (sc_sanitizer_name sc0) [])); cbn [app] in Ech.
      + inversion Ech as [[E1 E2]]. congruence.
      + inversion Ech as [[E1 E2]]. exfalso. destruct Hf as [-> | ->]; discriminate E1.
    - specialize (Hnu eq_refl). rewrite url_sanitizer_is_url in Eu.
      rewrite Hnu in Ech. unfold nonempty_names in Ech. cbn [filter] in Ech.
      destruct (negb (bytes_eqb (sc_sanitizer_name sc0) [])); cbn [app] in Ech.
      + inversion Ech as [[E1 E2]]. rewrite E1 in Eu. exfalso.
        destruct Hf as [-> | ->]; vm_compute in Eu; discriminate Eu.
      + inversion Ech as [[E1 E2]]. exfalso. destruct Hf as [-> | ->]; discriminate E1. }
  split; [exact Eshape|]. rewrite Eshape in Ha. eapply url_whole_value; eauto.
Qed.

(* ================================================================== *)
(* (d) srcset: every image candidate the browser sees in the sanitized set is a safe URL *)
Lemma safe_url_no_js (u : bytes) : is_safe_url u = true ->
  whatwg_scheme (decode_runes u) <> Some javascript_scheme.
Proof. intros H. apply safe_shape_no_js, is_safe_url_shape, H. Qed.

Theorem urlset_chain v o :
  apply_chain [B "_sanitizeURLSet"; N_sanitizeHTML] v = Some o ->
  let u := urlset_sanitized (stringify v) in
  o = html_escaped u /\ html_unescape o = coerce_spec u /\
  exists cs, cs <> [] /\
    candidates u = map (fun c => (fst c, descr_tokens (snd c))) cs /\
    Forall (fun c => is_safe_url (fst c) = true /\
                     whatwg_scheme (decode_runes (fst c)) <> Some javascript_scheme) cs.
Proof.
  cbn [apply_chain].
  assert (E1 : apply_sanitizer (B "_sanitizeURLSet") v = Some (urlset_sanitized (stringify v))).
  { unfold apply_sanitizer. eval_closed. reflexivity. }
  rewrite E1.
  assert (E3 : forall x : bytes, apply_sanitizer N_sanitizeHTML (VStr x) = Some (html_escaped x)).
  { intros x. unfold apply_sanitizer, N_sanitizeHTML. eval_closed. reflexivity. }
  rewrite E3. intros H. inversion H; subst o. cbv zeta.
  split; [reflexivity|]. split; [apply html_unescape_escaped|].
  destruct (c12_whatwg (stringify v)) as (cs & Hne & Hc & Hall & _).
  exists cs. split; [exact Hne|]. split; [exact Hc|].
  eapply Forall_impl; [|exact Hall]. intros c (Hs & _ & _). split; [exact Hs | apply safe_url_no_js; exact Hs].
Qed.

(* when the sanitized set contains no code point that HTMLEscaped replaces, the decoded attribute
   value IS the sanitized set, so the statement is about what the browser parses *)
Corollary urlset_chain_clean v o :
  apply_chain [B "_sanitizeURLSet"; N_sanitizeHTML] v = Some o ->
  coerce_spec (urlset_sanitized (stringify v)) = urlset_sanitized (stringify v) ->
  Forall (fun c => whatwg_scheme (decode_runes (fst c)) <> Some javascript_scheme)
         (candidates (html_unescape o)).
Proof.
  intros H Hclean. destruct (urlset_chain v o H) as (_ & Eu & cs & _ & Hc & Hall).
  rewrite Eu, Hclean, Hc. apply Forall_forall. intros x Hx.
  apply in_map_iff in Hx as (c & <- & Hin). cbn [fst].
  rewrite Forall_forall in Hall. apply (Hall c Hin).
Qed.

Example urlset_example :
  apply_chain [B "_sanitizeURLSet"; N_sanitizeHTML] (VStr (B "a.png 1x, javascript:alert(1) 2x, b.png 3x"))
  = Some (B "a.png 1x , b.png 3x").
Proof. vm_compute. reflexivity. Qed.

(* ================================================================== *)
(* the statements of props/C02.v that combine the above *)
Lemma code_loading_in_pairs e a rel : code_loading_url_attr e a rel = true -> In (e, a) code_loading_pairs.
Proof.
  unfold code_loading_url_attr, code_loading_pairs. intros H.
  apply orb_true_iff in H as [H|H]; [apply orb_true_iff in H as [H|H]; [apply orb_true_iff in H as [H|H]|]|].
  - apply andb_true_iff in H as [Ha He]. apply bytes_eqb_eq in Ha. subst a.
    apply cc_mem_In in He. simpl in He. simpl.
    destruct He as [<-|[<-|[<-|[<-|[]]]]]; auto 10.
  - apply andb_true_iff in H as [He Ha]. apply bytes_eqb_eq in He, Ha. subst. simpl. auto 10.
  - apply andb_true_iff in H as [He Ha]. apply bytes_eqb_eq in He, Ha. subst. simpl. auto 10.
  - apply andb_true_iff in H as [H _]. apply andb_true_iff in H as [He Ha].
    apply bytes_eqb_eq in He, Ha. subst. simpl. auto 10.
Qed.

Theorem code_loading_partial e a rel sc :
  code_loading_url_attr e a rel = true ->
  (e = B "link" -> rel_has_url_token rel = false) ->
  sc_for_attr_val e a rel = Some sc ->
  sc_sanitizer_name sc = B "_sanitizeTrustedResourceURL" /\ sc_is_url sc = true.
Proof.
  intros H Hrel Hsc. eapply code_loading_sanitizer; [eapply code_loading_in_pairs; exact H | exact Hrel | exact Hsc].
Qed.

Theorem no_javascript_url_single_piece c chain f rest vs os :
  sanitizers_for_attr_value c = Some chain -> c_attr_value c = [] -> chain = f :: rest ->
  f = B "_sanitizeURL" \/ f = B "_sanitizeTrustedResourceURLOrURL" ->
  Forall (fun v => untrusted v /\ wf_bytes (stringify v)) vs ->
  map (apply_chain chain) vs = map Some os ->
  length vs = 1%nat ->
  chain = [f; N_normalizeURL; N_sanitizeHTML] /\
  whatwg_scheme (decode_runes (html_unescape (concat os))) <> Some javascript_scheme.
Proof.
  intros Hc Hv Ech Hf Hall Hmap Hlen.
  destruct vs as [|v [|v' vs]]; try discriminate Hlen.
  destruct os as [|o [|o' os]]; try discriminate Hmap.
  cbn [map] in Hmap. inversion Hmap as [Ha]. inversion Hall as [|? ? [Hu Hwf] _]; subst.
  cbn [concat]. rewrite app_nil_r.
  eapply url_attr_whole_value; eauto.
Qed.

Theorem code_body c chain v :
  c_elem c = B "script" \/ c_elem c = B "style" ->
  c_elem_names c = [] -> c_attr c = [] -> c_attr_names c = [] -> c_state c <> StHTMLCmt ->
  sanitizer_for_context c = Some chain ->
  ((c_elem c = B "script" -> chain = [B "_sanitizeScript"]) /\
   (c_elem c = B "style" -> chain = [B "_sanitizeStyleSheet"])) /\
  (untrusted v -> apply_chain chain v = None).
Proof.
  intros He Hen Ha Han Hst Hc. split.
  - exact (code_body_chain c chain He Hen Ha Han Hst Hc).
  - exact (code_body_rejects c chain v He Hen Ha Han Hst Hc).
Qed.

Theorem handlers_refused e a rel c :
  (handler_name a = true -> sc_for_attr_val e a rel = None) /\
  (handler_name (c_attr c) = true -> c_attr_names c = [] -> sanitizers_for_attr_value c = None).
Proof. split; [apply handler_denied | apply handler_context_refused]. Qed.

Theorem code_loading_url c chain :
  In (c_elem c, c_attr c) code_loading_pairs ->
  (c_elem c = B "link" -> rel_has_url_token (c_link_rel c) = false) ->
  c_elem_names c = [] -> c_attr_names c = [] ->
  sanitizers_for_attr_value c = Some chain ->
  (c_attr_value c = [] -> forall v, untrusted v -> apply_chain chain v = None) /\
  (c_attr_value c <> [] ->
     chain = [N_validateTRUSubst; N_queryEscapeURL; N_sanitizeHTML] /\
     validate_tru_prefix (c_attr_value c) = true).
Proof.
  intros Hin Hrel Hen Han Hc. split.
  - intros Hv v Hu. exact (code_loading_rejects c chain v Hin Hrel Hen Han Hv Hc Hu).
  - intros Hv. exact (code_loading_after_prefix c chain Hin Hrel Hen Han Hv Hc).
Qed.

(* ================================================================== *)
(* non-vacuity: the contexts the theorems talk about exist and are accepted by the analysis *)
Example script_ctx_chain :
  sanitizer_for_context (mkctx StSpecialElementBody DNone (B "script") [] [] [] false [] None [] [])
  = Some [B "_sanitizeScript"].
Proof. vm_compute. reflexivity. Qed.
Example style_attr_chain :
  sanitizers_for_attr_value (mkctx StAttr DDoubleQuote (B "div") [] (B "style") [] false [] None [] [])
  = Some [B "_sanitizeStyle"; B "_sanitizeHTML"].
Proof. vm_compute. reflexivity. Qed.
Example srcdoc_attr_chain :
  sanitizers_for_attr_value (mkctx StAttr DDoubleQuote (B "iframe") [] (B "srcdoc") [] false [] None [] [])
  = Some [B "_sanitizeHTMLValOnly"; B "_sanitizeHTML"].
Proof. vm_compute. reflexivity. Qed.
Example script_src_chain :
  sanitizers_for_attr_value (mkctx StAttr DDoubleQuote (B "script") [] (B "src") [] false [] None [] [])
  = Some [B "_sanitizeTrustedResourceURL"; B "_normalizeURL"; B "_sanitizeHTML"].
Proof. vm_compute. reflexivity. Qed.
Example link_stylesheet_chain :
  sanitizers_for_attr_value (mkctx StAttr DDoubleQuote (B "link") [] (B "href") [] false [] None [] (B " stylesheet "))
  = Some [B "_sanitizeTrustedResourceURL"; B "_normalizeURL"; B "_sanitizeHTML"].
Proof. vm_compute. reflexivity. Qed.
Example a_href_chain :
  sanitizers_for_attr_value (mkctx StAttr DDoubleQuote (B "a") [] (B "href") [] false [] None [] [])
  = Some [B "_sanitizeTrustedResourceURLOrURL"; B "_normalizeURL"; B "_sanitizeHTML"].
Proof. vm_compute. reflexivity. Qed.
Example onclick_refused :
  sanitizers_for_attr_value (mkctx StAttr DDoubleQuote (B "div") [] (B "onclick") [] false [] None [] []) = None.
Proof. vm_compute. reflexivity. Qed.
