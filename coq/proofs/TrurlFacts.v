(* C13: TrustedResourceURL builders.  All proofs. *)
From V Require Import lib.Base lib.Regex lib.RegexDecide lib.Utf8 gen.GenRegex model.UrlProc model.Trurl
  spec.Rfc3986 spec.TrurlSpec.
From V Require Import proofs.RegexFacts proofs.RegexDecideFacts proofs.RegexSpecs proofs.Utf8Facts.
From Coq Require Import ZifyBool ZifyN ZifyNat Permutation.
Local Open Scope N_scope.

(* ================================================================== *)
(* side conditions on the regenerated patterns *)
Lemma bridge_prefix_ok : bridge_prefix = true. Proof. vm_compute. reflexivity. Qed.
Lemma bridge_prefix_ascii_ok : bridge_prefix_ascii = true. Proof. vm_compute. reflexivity. Qed.
Lemma bridge_dotdot_ok : bridge_dotdot = true. Proof. vm_compute. reflexivity. Qed.
Lemma bridge_marker_ok : bridge_marker = true. Proof. vm_compute. reflexivity. Qed.
Lemma bridge_marker_exact_ok : bridge_marker_exact = true. Proof. vm_compute. reflexivity. Qed.

(* ================================================================== *)
(* take_while / drop_while *)
Lemma take_drop p (s : bytes) : take_while p s ++ drop_while p s = s.
Proof. induction s as [|c t IH]; simpl; [reflexivity|]. destruct (p c); simpl; [rewrite IH|]; reflexivity. Qed.

Lemma take_while_all p (s : bytes) : forallb p (take_while p s) = true.
Proof. induction s as [|c t IH]; simpl; [reflexivity|]. destruct (p c) eqn:E; simpl; [rewrite E, IH|]; reflexivity. Qed.

Lemma drop_while_head p (s : bytes) c r : drop_while p s = c :: r -> p c = false.
Proof.
  induction s as [|x t IH]; simpl; [discriminate|]. destruct (p x) eqn:E; [exact IH|].
  intros H; inversion H; subst. exact E.
Qed.

Lemma take_while_app p (u : bytes) c r : forallb p u = true -> p c = false ->
  take_while p (u ++ c :: r) = u.
Proof.
  induction u as [|x u IH]; simpl; intros Hu Hc; [rewrite Hc; reflexivity|].
  apply andb_true_iff in Hu as [Hx Hu]. rewrite Hx, IH by assumption. reflexivity.
Qed.

Lemma drop_while_app p (u : bytes) c r : forallb p u = true -> p c = false ->
  drop_while p (u ++ c :: r) = c :: r.
Proof.
  induction u as [|x u IH]; simpl; intros Hu Hc; [rewrite Hc; reflexivity|].
  apply andb_true_iff in Hu as [Hx Hu]. rewrite Hx. apply IH; assumption.
Qed.

Lemma take_while_app_nil p (u : bytes) : forallb p u = true -> take_while p u = u /\ drop_while p u = [].
Proof.
  induction u as [|x u IH]; simpl; intros Hu; [split; reflexivity|].
  apply andb_true_iff in Hu as [Hx Hu]. rewrite Hx. destruct (IH Hu) as [-> ->]. split; reflexivity.
Qed.

Lemma bytes_eqb_sym a b : bytes_eqb a b = bytes_eqb b a.
Proof.
  destruct (bytes_eqb a b) eqn:E.
  - apply bytes_eqb_eq in E. subst. symmetry. apply bytes_eqb_refl.
  - destruct (bytes_eqb b a) eqn:E2; [|reflexivity]. apply bytes_eqb_eq in E2. subst.
    rewrite bytes_eqb_refl in E. discriminate.
Qed.

(* ================================================================== *)
(* Part A: the escaping *)
Lemma keep_unreserved c t : keep_byte false c t = unreserved c.
Proof.
  destruct (N.lt_ge_cases c 256) as [Hc|Hc].
  - revert c Hc.
    assert (H : forall c, c < 256 -> (Bool.eqb (keep_byte false c []) (unreserved c)) = true).
    { apply forall_byte. vm_compute. reflexivity. }
    intros c Hc. specialize (H c Hc). apply eqb_prop in H. rewrite <- H.
    unfold keep_byte. destruct (mem_N c url_reserved); [reflexivity|].
    destruct (mem_N c url_unreserved_marks); [reflexivity|]. destruct (c =? 37); reflexivity.
  - unfold keep_byte, unreserved, is_alpha, is_digit, is_alnum, mem_N, url_reserved, url_unreserved_marks.
    cbn [existsb].
    repeat match goal with
           | |- context [c =? ?k] => replace (c =? k) with false by (symmetry; apply N.eqb_neq; lia)
           | |- context [c <=? ?k] => replace (c <=? k) with false by (symmetry; apply N.leb_gt; lia)
           end.
    cbn. repeat rewrite andb_false_r. reflexivity.
Qed.

Lemma query_escape_spec (s : bytes) : query_escape_url s = spec_escape s.
Proof.
  unfold query_escape_url, spec_escape. induction s as [|c t IH]; [reflexivity|].
  cbn [url_processor flat_map]. rewrite keep_unreserved, IH. destruct (unreserved c); reflexivity.
Qed.

Lemma unreserved_not_pct c : unreserved c = true -> (c =? 37) = false.
Proof. unfold unreserved, is_alpha, is_digit. lia. Qed.

Lemma triplet_hex c : c < 256 ->
  is_lower_hex (hex_lower (c / 16)) && is_lower_hex (hex_lower (c mod 16)) = true.
Proof. revert c. apply forall_byte. vm_compute. reflexivity. Qed.

Lemma triplet_octet c : c < 256 -> pct_octet (hex_lower (c / 16)) (hex_lower (c mod 16)) = Some c.
Proof.
  intros Hc.
  assert (H : forall c, c < 256 ->
            match pct_octet (hex_lower (c / 16)) (hex_lower (c mod 16)) with Some v => v =? c | None => false end = true).
  { apply forall_byte. vm_compute. reflexivity. }
  specialize (H c Hc). destruct (pct_octet _ _) as [v|]; [|discriminate]. apply N.eqb_eq in H. congruence.
Qed.

Lemma escape_alphabet (s : bytes) : wf_bytes s -> escaped_alphabet (spec_escape s) = true.
Proof.
  induction 1 as [|c t Hc Ht IH]; [reflexivity|].
  unfold spec_escape in *. cbn [flat_map]. destruct (unreserved c) eqn:U.
  - cbn [app escaped_alphabet]. rewrite (unreserved_not_pct c U), U. exact IH.
  - unfold pct_triplet. cbn [app escaped_alphabet]. rewrite N.eqb_refl.
    pose proof (triplet_hex c Hc) as H. apply andb_true_iff in H as [-> ->]. exact IH.
Qed.

Lemma pct_decode_other c (t : bytes) : (c =? 37) = false -> pct_decode (c :: t) = c :: pct_decode t.
Proof. intros H. cbn [pct_decode]. rewrite H. reflexivity. Qed.

Lemma pct_decode_triplet h1 h2 v (r : bytes) : pct_octet h1 h2 = Some v ->
  pct_decode (37 :: h1 :: h2 :: r) = v :: pct_decode r.
Proof. intros H. cbn [pct_decode]. rewrite N.eqb_refl, H. reflexivity. Qed.

Lemma spec_escape_cons c (t : bytes) :
  spec_escape (c :: t) = (if unreserved c then [c] else pct_triplet c) ++ spec_escape t.
Proof. reflexivity. Qed.

Lemma escape_roundtrip (s : bytes) : wf_bytes s -> pct_decode (spec_escape s) = s.
Proof.
  induction 1 as [|c t Hc Ht IH]; [reflexivity|].
  rewrite spec_escape_cons. destruct (unreserved c) eqn:U.
  - cbn [app]. rewrite (pct_decode_other _ _ (unreserved_not_pct c U)), IH. reflexivity.
  - unfold pct_triplet. cbn [app]. rewrite (pct_decode_triplet _ _ _ _ (triplet_octet c Hc)), IH. reflexivity.
Qed.

Lemma escape_alphabet_roundtrip (s : bytes) : wf_bytes s ->
  escaped_alphabet (query_escape_url s) = true /\ pct_decode (query_escape_url s) = s.
Proof. intros H. rewrite query_escape_spec. split; [apply escape_alphabet | apply escape_roundtrip]; exact H. Qed.

(* the escaped text contains none of  : / ? # [ ] @ \  (nor any other delimiter) *)
Definition delimiter_free (u : bytes) : Prop :=
  Forall (fun c => unreserved c = true \/ c = 37 \/ is_lower_hex c = true) u.

Lemma hex_lower_hex d : d < 16 -> is_lower_hex (hex_lower d) = true.
Proof. unfold is_lower_hex, hex_lower, is_digit. intros H. destruct (d <? 10) eqn:E; lia. Qed.

Lemma escape_delimiter_free (s : bytes) : wf_bytes s -> delimiter_free (spec_escape s).
Proof.
  induction 1 as [|c t Hc Ht IH]; [constructor|].
  unfold spec_escape in *. cbn [flat_map]. destruct (unreserved c) eqn:U.
  - constructor; [left; exact U | exact IH].
  - unfold pct_triplet. cbn [app]. pose proof (triplet_hex c Hc) as H. apply andb_true_iff in H as [H1 H2].
    constructor; [right; left; reflexivity|]. constructor; [right; right; exact H1|].
    constructor; [right; right; exact H2 | exact IH].
Qed.

Lemma delimiter_free_excludes u c : delimiter_free u -> In c u ->
  c <> 58 /\ c <> 47 /\ c <> 63 /\ c <> 35 /\ c <> 91 /\ c <> 93 /\ c <> 64 /\ c <> 92.
Proof.
  intros H Hin. unfold delimiter_free in H. rewrite Forall_forall in H. specialize (H c Hin).
  unfold is_lower_hex, unreserved, is_alpha, is_digit in H. lia.
Qed.

(* what the confinement proofs need, for all byte values: no  : / ? #  *)
Lemma hex_lower_clean d : not_gen_stop (hex_lower d) = true.
Proof. unfold not_gen_stop, hex_lower. destruct (d <? 10) eqn:E; lia. Qed.

Lemma escape_clean (s : bytes) : forallb not_gen_stop (spec_escape s) = true.
Proof.
  unfold spec_escape. induction s as [|c t IH]; [reflexivity|]. cbn [flat_map]. rewrite forallb_app, IH, andb_true_r.
  destruct (unreserved c) eqn:U.
  - cbn. rewrite andb_true_r. unfold unreserved, is_alpha, is_digit in U. unfold not_gen_stop. lia.
  - unfold pct_triplet. cbn [forallb]. rewrite !hex_lower_clean. reflexivity.
Qed.

(* ================================================================== *)
(* Part B: the hand-written scanner finds exactly the markers of the specification *)
Fixpoint spec_pieces (skip : nat) (s : bytes) : list piece :=
  match s with
  | [] => []
  | c :: t =>
      match skip with
      | S k => spec_pieces k t
      | O =>
          match marker_at s with
          | Some (l, _) => Mark l :: spec_pieces (length l + 2) t
          | None => Lit c :: spec_pieces O t
          end
      end
  end.

Definition fill (f : bytes -> bytes) (ps : list piece) : bytes :=
  flat_map (fun p => match p with Lit c => [c] | Mark l => f l end) ps.

Fixpoint piece_labels (ps : list piece) : list bytes :=
  match ps with
  | [] => []
  | Lit _ :: r => piece_labels r
  | Mark l :: r => l :: piece_labels r
  end.

Lemma subst_from_pieces f (s : bytes) : forall skip, subst_from f skip s = fill f (spec_pieces skip s).
Proof.
  induction s as [|c t IH]; intros skip; [reflexivity|].
  cbn [subst_from spec_pieces]. destruct skip as [|k]; [|apply IH].
  destruct (marker_at (c :: t)) as [[l r]|]; unfold fill in *; cbn [flat_map]; rewrite IH; reflexivity.
Qed.

Lemma labels_from_pieces (s : bytes) : forall skip, labels_from skip s = piece_labels (spec_pieces skip s).
Proof.
  induction s as [|c t IH]; intros skip; [reflexivity|].
  cbn [labels_from spec_pieces]. destruct skip as [|k]; [|apply IH].
  destruct (marker_at (c :: t)) as [[l r]|]; cbn [piece_labels]; rewrite IH; reflexivity.
Qed.

Lemma spec_pieces_skip (u r : bytes) : spec_pieces (length u) (u ++ r) = spec_pieces O r.
Proof. induction u as [|x u IH]; [reflexivity|]. simpl. exact IH. Qed.

Lemma marker_at_not_pct c (t : bytes) : (c =? 37) = false -> marker_at (c :: t) = None.
Proof. intros H. unfold marker_at. destruct t as [|b r]; [reflexivity|]. rewrite H. reflexivity. Qed.

Lemma spec_pieces_lits (u r : bytes) : forallb (fun c => negb (c =? 37)) u = true ->
  spec_pieces O (u ++ r) = lits u ++ spec_pieces O r.
Proof.
  induction u as [|x u IH]; intros H; [reflexivity|]. simpl in H. apply andb_true_iff in H as [Hx Hu].
  apply negb_true_iff in Hx. cbn [app spec_pieces]. rewrite (marker_at_not_pct x _ Hx).
  cbn [lits map app]. f_equal. apply IH. exact Hu.
Qed.

Lemma spec_pieces_lits_nil (u : bytes) : forallb (fun c => negb (c =? 37)) u = true ->
  spec_pieces O u = lits u.
Proof.
  intros H. rewrite <- (app_nil_r u) at 1. rewrite (spec_pieces_lits u [] H). cbn [spec_pieces]. apply app_nil_r.
Qed.

Lemma word_label c : is_word c = label_char c.
Proof. unfold is_word, label_char, is_alpha, is_digit. lia. Qed.

Lemma word_not_pct c : label_char c = true -> negb (c =? 37) = true.
Proof. unfold label_char, is_alpha, is_digit. lia. Qed.

Lemma label_not_close c : label_char c = true -> (c =? 125) = false.
Proof. unfold label_char, is_alpha, is_digit. lia. Qed.

(* the marker test on "%{" u c t where u is a run of label bytes and c is not one *)
Lemma marker_at_run (u : bytes) c t : forallb label_char u = true -> label_char c = false ->
  marker_at (37 :: 123 :: u ++ c :: t) =
  if (c =? 125) && negb (is_nil u) then Some (u, t) else None.
Proof.
  intros Hu Hc. unfold marker_at. rewrite !N.eqb_refl. cbn [andb].
  rewrite (take_while_app _ u c t Hu Hc), (drop_while_app _ u c t Hu Hc).
  destruct u as [|x u]; cbn; [rewrite andb_false_r; reflexivity|]. rewrite andb_true_r. reflexivity.
Qed.

Lemma marker_at_run_end (u : bytes) : forallb label_char u = true -> marker_at (37 :: 123 :: u) = None.
Proof.
  intros Hu. unfold marker_at. rewrite !N.eqb_refl. cbn [andb].
  destruct (take_while_app_nil _ u Hu) as [-> ->]. destruct u; reflexivity.
Qed.

Lemma lits_app a b : lits (a ++ b) = lits a ++ lits b.
Proof. unfold lits. apply map_app. Qed.

Lemma spec_pieces_none c (t : bytes) : marker_at (c :: t) = None ->
  spec_pieces O (c :: t) = Lit c :: spec_pieces O t.
Proof. intros H. cbn [spec_pieces]. rewrite H. reflexivity. Qed.

Lemma spec_pieces_some c (t : bytes) l r : marker_at (c :: t) = Some (l, r) ->
  spec_pieces O (c :: t) = Mark l :: spec_pieces (length l + 2) t.
Proof. intros H. cbn [spec_pieces]. rewrite H. reflexivity. Qed.

Lemma run_not_pct (u : bytes) : forallb label_char u = true ->
  forallb (fun c => negb (c =? 37)) (123 :: u) = true.
Proof.
  intros Hu. cbn [forallb]. apply andb_true_iff. split; [reflexivity|].
  apply forallb_forall. intros x Hx. rewrite forallb_forall in Hu. apply word_not_pct; auto.
Qed.

Lemma tru_scan_spec (s : bytes) :
  tru_scan SText s = spec_pieces O s /\
  tru_scan SPct s = spec_pieces O (37 :: s) /\
  (forall rl, forallb label_char rl = true -> tru_scan (SLab rl) s = spec_pieces O (37 :: 123 :: rev rl ++ s)).
Proof.
  induction s as [|c t (IH1 & IH2 & IH3)].
  - split; [reflexivity|]. split; [reflexivity|]. intros rl Hrl.
    assert (Hr : forallb label_char (rev rl) = true).
    { apply forallb_forall. intros x Hx. apply in_rev in Hx. rewrite forallb_forall in Hrl. auto. }
    rewrite app_nil_r. cbn [tru_scan scan_flush].
    rewrite (spec_pieces_none _ _ (marker_at_run_end _ Hr)).
    rewrite (spec_pieces_lits_nil _ (run_not_pct _ Hr)). reflexivity.
  - split; [|split].
    + cbn [tru_scan]. destruct (c =? 37) eqn:E.
      * apply N.eqb_eq in E. subst. exact IH2.
      * rewrite (spec_pieces_none _ _ (marker_at_not_pct c t E)), IH1. reflexivity.
    + cbn [tru_scan]. destruct (c =? 123) eqn:E1.
      * apply N.eqb_eq in E1. subst. apply (IH3 []). reflexivity.
      * assert (Hm : marker_at (37 :: c :: t) = None) by (unfold marker_at; rewrite E1, andb_false_r; reflexivity).
        rewrite (spec_pieces_none _ _ Hm). destruct (c =? 37) eqn:E2.
        -- apply N.eqb_eq in E2. subst. rewrite IH2. reflexivity.
        -- rewrite (spec_pieces_none _ _ (marker_at_not_pct c t E2)), IH1. reflexivity.
    + intros rl Hrl.
      assert (Hr : forallb label_char (rev rl) = true).
      { apply forallb_forall. intros x Hx. apply in_rev in Hx. rewrite forallb_forall in Hrl. auto. }
      cbn [tru_scan]. rewrite word_label. destruct (label_char c) eqn:Ew.
      * rewrite IH3 by (cbn [forallb]; rewrite Ew, Hrl; reflexivity).
        cbn [rev]. rewrite <- app_assoc. reflexivity.
      * assert (Hnil : is_nil (rev rl) = is_nil rl).
        { destruct rl as [|x rl]; [reflexivity|]. cbn [rev]. destruct (rev rl); reflexivity. }
        pose proof (marker_at_run (rev rl) c t Hr Ew) as Hm. rewrite Hnil in Hm.
        destruct ((c =? 125) && negb (is_nil rl)) eqn:Ec.
        -- rewrite (spec_pieces_some _ _ _ _ Hm), IH1. f_equal.
           replace (123 :: rev rl ++ c :: t) with ((123 :: rev rl ++ [c]) ++ t)
             by (cbn [app]; rewrite <- app_assoc; reflexivity).
           replace (length (rev rl) + 2)%nat with (length (123 :: rev rl ++ [c]))
             by (cbn [length]; rewrite app_length; cbn [length]; lia).
           symmetry. apply spec_pieces_skip.
        -- assert (Htail : (if c =? 37 then tru_scan SPct t else Lit c :: tru_scan SText t) = spec_pieces O (c :: t)).
           { destruct (c =? 37) eqn:E2.
             - apply N.eqb_eq in E2. subst. exact IH2.
             - rewrite (spec_pieces_none _ _ (marker_at_not_pct c t E2)), IH1. reflexivity. }
           rewrite Htail, (spec_pieces_none _ _ Hm). cbn [scan_flush lits map app]. f_equal.
           change (123 :: rev rl ++ c :: t) with ((123 :: rev rl) ++ c :: t).
           rewrite (spec_pieces_lits _ _ (run_not_pct _ Hr)). reflexivity.
Qed.

Lemma tru_pieces_spec (format : bytes) : tru_pieces format = spec_pieces O format.
Proof. apply tru_scan_spec. Qed.

(* ================================================================== *)
(* Part C: the replacement callback and its error variable *)
Lemma assoc_lookup l args : assoc l args = lookup l args.
Proof.
  induction args as [|[k v] r IH]; [reflexivity|]. cbn [assoc lookup]. rewrite bytes_eqb_sym, IH. reflexivity.
Qed.

Lemma tru_fill_sticky args ps : forall e o e', tru_fill args ps (Some e) = (o, e') -> e' <> None.
Proof.
  induction ps as [|[c|l] r IH]; intros e o e' H; cbn [tru_fill] in H.
  - inversion H. discriminate.
  - destruct (tru_fill args r (Some e)) as [o1 e1] eqn:E. inversion H; subst. eapply IH; eassumption.
  - destruct (assoc l args) as [v|].
    + destruct (contains_double_dot v); [eapply IH; eassumption|].
      destruct (tru_fill args r (Some e)) as [o1 e1] eqn:E. inversion H; subst. eapply IH; eassumption.
    + eapply IH; eassumption.
Qed.

Lemma tru_fill_ok args ps : forall o, tru_fill args ps None = (o, None) ->
  o = fill (fun l => spec_escape (arg_or_empty args l)) ps /\
  (forall l, In l (piece_labels ps) -> exists v, lookup l args = Some v /\ contains_double_dot v = false).
Proof.
  induction ps as [|[c|l] r IH]; intros o H; cbn [tru_fill] in H.
  - inversion H. split; [reflexivity | intros l []].
  - destruct (tru_fill args r None) as [o1 e1] eqn:E. inversion H; subst.
    destruct (IH _ eq_refl) as [-> Hl]. split; [reflexivity | exact Hl].
  - rewrite assoc_lookup in H. destruct (lookup l args) as [v|] eqn:El.
    + destruct (contains_double_dot v) eqn:Ed; [exfalso; eapply tru_fill_sticky; eauto|].
      destruct (tru_fill args r None) as [o1 e1] eqn:E. inversion H; subst.
      destruct (IH _ eq_refl) as [-> Hl]. split.
      * assert (Ha : arg_or_empty args l = v) by (unfold arg_or_empty; rewrite El; reflexivity).
        unfold fill. cbn [flat_map]. cbn beta. rewrite Ha, query_escape_spec. reflexivity.
      * intros l' [<-|Hin]; [exists v; split; assumption | apply Hl; exact Hin].
    + exfalso; eapply tru_fill_sticky; eauto.
Qed.

Lemma tru_fill_bad args ps l : In l (piece_labels ps) ->
  (lookup l args = None \/ exists v, lookup l args = Some v /\ contains_double_dot v = true) ->
  forall e, snd (tru_fill args ps e) <> None.
Proof.
  induction ps as [|[c|l'] r IH]; intros Hin Hbad e; cbn [piece_labels] in Hin; [destruct Hin| |].
  - cbn [tru_fill]. destruct (tru_fill args r e) as [o1 e1] eqn:E. cbn [snd].
    specialize (IH Hin Hbad e). rewrite E in IH. exact IH.
  - cbn [tru_fill]. rewrite assoc_lookup. destruct Hin as [->|Hin].
    + destruct Hbad as [Hn|(v & Hv & Hd)].
      * rewrite Hn. destruct e as [e|].
        -- destruct (tru_fill args r (Some e)) as [o1 e1] eqn:E. cbn [snd]. eapply tru_fill_sticky; eauto.
        -- destruct (tru_fill args r (Some (ErrMissing l))) as [o1 e1] eqn:E. cbn [snd]. eapply tru_fill_sticky; eauto.
      * rewrite Hv, Hd. destruct (tru_fill args r (Some (ErrDotDot l))) as [o1 e1] eqn:E. cbn [snd].
        eapply tru_fill_sticky; eauto.
    + destruct (lookup l' args) as [v|].
      * destruct (contains_double_dot v); [apply IH; assumption|].
        destruct (tru_fill args r e) as [o1 e1] eqn:E. cbn [snd].
        specialize (IH Hin Hbad e). rewrite E in IH. exact IH.
      * apply IH; assumption.
Qed.

Lemma format_subst format args o : tru_format format args = Some o ->
  is_safe_tru_prefix format = true /\
  o = subst_markers (fun l => spec_escape (arg_or_empty args l)) format /\
  (forall l, In l (marker_labels format) -> exists v, lookup l args = Some v /\ contains_double_dot v = false).
Proof.
  unfold tru_format, tru_format_raw. destruct (is_safe_tru_prefix format) eqn:Ep; [|discriminate].
  destruct (tru_fill args (tru_pieces format) None) as [o1 [e|]] eqn:E; [discriminate|].
  intros H; inversion H; subst. split; [reflexivity|].
  rewrite tru_pieces_spec in E. destruct (tru_fill_ok _ _ _ E) as [-> Hl].
  unfold subst_markers, marker_labels. rewrite subst_from_pieces, labels_from_pieces. split; [reflexivity | exact Hl].
Qed.

Lemma format_bad_arg format args l : In l (marker_labels format) ->
  (lookup l args = None \/ exists v, lookup l args = Some v /\ contains_double_dot v = true) ->
  tru_format format args = None.
Proof.
  intros Hin Hbad. unfold tru_format, tru_format_raw. destruct (is_safe_tru_prefix format); [|reflexivity].
  unfold marker_labels in Hin. rewrite labels_from_pieces, <- tru_pieces_spec in Hin.
  pose proof (tru_fill_bad args _ l Hin Hbad None) as H.
  destruct (tru_fill args (tru_pieces format) None) as [o1 [e|]]; [reflexivity | exfalso; apply H; reflexivity].
Qed.

Lemma format_unsafe_prefix format args : is_safe_tru_prefix format = false -> tru_format format args = None.
Proof. intros H. unfold tru_format, tru_format_raw. rewrite H. reflexivity. Qed.

(* ================================================================== *)
(* Part F: TrustedResourceURLWithParams *)
Lemma leb_refl a : bytes_leb a a = true.
Proof. induction a as [|x a IH]; [reflexivity|]. cbn [bytes_leb]. rewrite N.ltb_irrefl. exact IH. Qed.

Lemma leb_total a : forall b, bytes_leb a b = true \/ bytes_leb b a = true.
Proof.
  induction a as [|x a IH]; intros [|y b]; cbn [bytes_leb]; auto.
  destruct (x <? y) eqn:E1; [auto|]. destruct (y <? x) eqn:E2; [auto|]. apply IH.
Qed.

Lemma leb_antisym a : forall b, bytes_leb a b = true -> bytes_leb b a = true -> a = b.
Proof.
  induction a as [|x a IH]; intros [|y b]; cbn [bytes_leb]; intros H1 H2; try reflexivity; try discriminate.
  destruct (x <? y) eqn:E1; destruct (y <? x) eqn:E2; try discriminate; try lia.
  assert (x = y) by lia. subst. f_equal. apply IH; assumption.
Qed.

Lemma leb_trans a : forall b c, bytes_leb a b = true -> bytes_leb b c = true -> bytes_leb a c = true.
Proof.
  induction a as [|x a IH]; intros [|y b] [|z c]; cbn [bytes_leb]; intros H1 H2; try reflexivity; try discriminate.
  destruct (x <? y) eqn:E1; destruct (y <? z) eqn:E2; destruct (x <? z) eqn:E3; try reflexivity;
    destruct (y <? x) eqn:E4; destruct (z <? y) eqn:E5; destruct (z <? x) eqn:E6; try discriminate; try lia.
  eapply IH; eassumption.
Qed.

Definition all_le (x : bytes) (l : list bytes) : Prop := Forall (fun y => bytes_leb x y = true) l.
Fixpoint sorted (l : list bytes) : Prop :=
  match l with
  | [] => True
  | x :: r => all_le x r /\ sorted r
  end.

Lemma insert_perm x l : Permutation (insert_sorted x l) (x :: l).
Proof.
  induction l as [|y r IH]; cbn [insert_sorted]; [apply Permutation_refl|].
  destruct (bytes_leb x y); [apply Permutation_refl|].
  eapply perm_trans; [apply perm_skip; exact IH | apply perm_swap].
Qed.

Lemma insert_sorted_ok x l : sorted l -> sorted (insert_sorted x l).
Proof.
  induction l as [|y r IH]; cbn [insert_sorted sorted]; intros Hs.
  - split; [constructor | exact I].
  - destruct Hs as [Hy Hr]. destruct (bytes_leb x y) eqn:E; cbn [sorted].
    + split; [|split; assumption]. constructor; [exact E|].
      eapply Forall_impl; [|exact Hy]. intros z Hz. cbn beta in Hz. eapply leb_trans; eassumption.
    + split; [|apply IH; exact Hr].
      unfold all_le. eapply Permutation_Forall; [apply Permutation_sym, insert_perm|].
      constructor; [|exact Hy]. destruct (leb_total x y) as [H|H]; [congruence | exact H].
Qed.

Lemma sort_perm l : Permutation (sort_strings l) l.
Proof.
  induction l as [|x l IH]; [apply Permutation_refl|]. unfold sort_strings in *. cbn [fold_right].
  eapply perm_trans; [apply insert_perm | apply perm_skip; exact IH].
Qed.

Lemma sort_sorted l : sorted (sort_strings l).
Proof. induction l as [|x l IH]; [exact I|]. unfold sort_strings in *. cbn [fold_right]. apply insert_sorted_ok. exact IH. Qed.

Lemma sorted_perm_eq l1 : forall l2, sorted l1 -> sorted l2 -> Permutation l1 l2 -> l1 = l2.
Proof.
  induction l1 as [|x r1 IH]; intros l2 H1 H2 HP.
  - apply Permutation_nil in HP. subst. reflexivity.
  - destruct l2 as [|y r2]; [apply Permutation_sym, Permutation_nil in HP; discriminate|].
    destruct H1 as [Hx Hr1]. destruct H2 as [Hy Hr2]. unfold all_le in *. rewrite Forall_forall in Hx, Hy.
    assert (Hxy : bytes_leb x y = true).
    { assert (Hin : In y (x :: r1)) by (eapply Permutation_in; [apply Permutation_sym; exact HP | left; reflexivity]).
      destruct Hin as [<-|Hin]; [apply leb_refl | apply Hx; exact Hin]. }
    assert (Hyx : bytes_leb y x = true).
    { assert (Hin : In x (y :: r2)) by (eapply Permutation_in; [exact HP | left; reflexivity]).
      destruct Hin as [<-|Hin]; [apply leb_refl | apply Hy; exact Hin]. }
    assert (x = y) by (apply leb_antisym; assumption). subst y.
    f_equal. apply IH; try assumption. eapply Permutation_cons_inv; exact HP.
Qed.

Lemma sort_strings_perm l l' : Permutation l l' -> sort_strings l = sort_strings l'.
Proof.
  intros HP. apply sorted_perm_eq; try apply sort_sorted.
  eapply perm_trans; [apply sort_perm|]. eapply perm_trans; [exact HP|]. apply Permutation_sym, sort_perm.
Qed.

Lemma filter_perm {A} (p : A -> bool) l l' : Permutation l l' -> Permutation (filter p l) (filter p l').
Proof.
  induction 1 as [|x l l' HP IH|x y l|l1 l2 l3 H1 IH1 H2 IH2]; cbn [filter].
  - apply Permutation_refl.
  - destruct (p x); [apply perm_skip|]; exact IH.
  - destruct (p x); destruct (p y); try apply Permutation_refl. apply perm_swap.
  - eapply perm_trans; eassumption.
Qed.

Lemma with_params_perm t ps ps' : Permutation ps ps' -> tru_with_params t ps' = tru_with_params t ps.
Proof.
  intros HP. unfold tru_with_params. destruct (split_frag t) as [url frag].
  rewrite (sort_strings_perm (map param_string (filter param_nonempty ps'))
                             (map param_string (filter param_nonempty ps))); [reflexivity|].
  apply Permutation_map, filter_perm, Permutation_sym, HP.
Qed.

Lemma split_frag_spec (t : bytes) :
  t = fst (split_frag t) ++ snd (split_frag t) /\
  forallb not_hash (fst (split_frag t)) = true /\
  (snd (split_frag t) = [] \/ exists r, snd (split_frag t) = 35 :: r).
Proof.
  induction t as [|c t (IH1 & IH2 & IH3)]; [repeat split; auto|].
  cbn [split_frag]. destruct (c =? 35) eqn:E.
  - apply N.eqb_eq in E. subst. cbn [fst snd app forallb]. repeat split; eauto.
  - destruct (split_frag t) as [a f]. cbn [fst snd] in *. cbn [app forallb]. unfold not_hash at 1. rewrite E.
    repeat split; [f_equal; exact IH1 | exact IH2 | exact IH3].
Qed.

Lemma with_params_formula t ps :
  let url := fst (split_frag t) in
  let frag := snd (split_frag t) in
  let sp := sort_strings (map param_string (filter param_nonempty ps)) in
  t = url ++ frag /\ forallb not_hash url = true /\ (frag = [] \/ exists r, frag = 35 :: r) /\
  sorted sp /\ Permutation sp (map param_string (filter param_nonempty ps)) /\
  tru_with_params t ps = match sp with
                         | [] => t
                         | _ => url ++ params_sep url ++ join_amp sp ++ frag
                         end.
Proof.
  cbv zeta. destruct (split_frag_spec t) as (H1 & H2 & H3).
  repeat split; try assumption; [apply sort_sorted | apply sort_perm|].
  unfold tru_with_params. destruct (split_frag t) as [url frag]. cbn [fst snd] in *.
  destruct (sort_strings _); [symmetry; exact H1 | reflexivity].
Qed.

(* what the added text is made of: every parameter string is  escaped "=" escaped *)
Lemma param_string_spec kv : param_string kv = spec_escape (fst kv) ++ 61 :: spec_escape (snd kv).
Proof. unfold param_string. rewrite !query_escape_spec. reflexivity. Qed.

(* ================================================================== *)
(* TrustedResourceURLAppend *)
Lemma append_spec t s o : tru_append t s = Some o ->
  is_safe_tru_prefix t = true /\ o = t ++ spec_escape s.
Proof.
  unfold tru_append. destruct (is_safe_tru_prefix t); [|discriminate].
  intros H; inversion H. rewrite query_escape_spec. split; reflexivity.
Qed.

Lemma append_unsafe t s : is_safe_tru_prefix t = false -> tru_append t s = None.
Proof. intros H. unfold tru_append. rewrite H. reflexivity. Qed.

(* ================================================================== *)
(* Part D: the prefix pattern against the documented forms *)
Definition https_lower : bytes := [104; 116; 116; 112; 115; 58; 47; 47].
Definition about_lower : bytes := [97; 98; 111; 117; 116; 58; 98; 108; 97; 110; 107; 35].
Lemma https_lower_eq : B "https://" = https_lower. Proof. reflexivity. Qed.
Lemma about_lower_eq : B "about:blank#" = about_lower. Proof. reflexivity. Qed.

Lemma strip_ci_app (q : bytes) : forall p r, map ascii_lower q = p -> strip_ci p (q ++ r) = Some r.
Proof.
  induction q as [|y q IH]; intros p r H; subst p; [reflexivity|].
  cbn [map app strip_ci]. rewrite N.eqb_refl. apply IH. reflexivity.
Qed.

Lemma strip_ci_inv (p : bytes) : forall s r, strip_ci p s = Some r -> exists q, s = q ++ r /\ map ascii_lower q = p.
Proof.
  induction p as [|x p IH]; intros s r H; cbn [strip_ci] in H.
  - inversion H. exists []. split; reflexivity.
  - destruct s as [|y s]; [discriminate|]. destruct (ascii_lower y =? x) eqn:E; [|discriminate].
    apply N.eqb_eq in E. destruct (IH _ _ H) as (q & -> & Hq). exists (y :: q). cbn [map app]. rewrite E, Hq. split; reflexivity.
Qed.

Lemma strip_ci_head_ne x (p : bytes) y (s : bytes) : ascii_lower y <> x -> strip_ci (x :: p) (y :: s) = None.
Proof. intros H. cbn [strip_ci]. apply N.eqb_neq in H. rewrite H. reflexivity. Qed.

Lemma origin_then_slash_intro (H R : bytes) : H <> [] -> forallb origin_char H = true ->
  origin_then_slash (H ++ 47 :: R) = true.
Proof.
  intros Hne Hall. unfold origin_then_slash.
  rewrite (take_while_app _ H 47 R Hall eq_refl), (drop_while_app _ H 47 R Hall eq_refl).
  destruct H; [contradiction | reflexivity].
Qed.

Lemma origin_then_slash_inv (s : bytes) : origin_then_slash s = true ->
  exists H R, s = H ++ 47 :: R /\ H <> [] /\ forallb origin_char H = true.
Proof.
  unfold origin_then_slash. intros Ho.
  pose proof (take_drop origin_char s) as E. pose proof (take_while_all origin_char s) as Ha.
  destruct (take_while origin_char s) as [|h H]; [discriminate|].
  destruct (drop_while origin_char s) as [|c R]; [discriminate|]. apply N.eqb_eq in Ho. subst c.
  exists (h :: H), R. split; [symmetry; exact E|]. split; [discriminate | exact Ha].
Qed.

Lemma safe_https (q H R : bytes) : map ascii_lower q = https_lower -> H <> [] -> forallb origin_char H = true ->
  spec_safe_prefix (q ++ H ++ 47 :: R) = true.
Proof.
  intros Hq Hne Hall. unfold spec_safe_prefix. rewrite https_lower_eq, (strip_ci_app q _ _ Hq).
  apply origin_then_slash_intro; assumption.
Qed.

Lemma safe_slashes (H R : bytes) : H <> [] -> forallb origin_char H = true ->
  spec_safe_prefix (47 :: 47 :: H ++ 47 :: R) = true.
Proof.
  intros Hne Hall. unfold spec_safe_prefix. rewrite https_lower_eq. unfold https_lower.
  rewrite strip_ci_head_ne by (cbn; lia). cbn [N.eqb Pos.eqb]. apply origin_then_slash_intro; assumption.
Qed.

Lemma safe_path y (R : bytes) : y <> 47 -> y <> 92 -> spec_safe_prefix (47 :: y :: R) = true.
Proof.
  intros H1 H2. unfold spec_safe_prefix. rewrite https_lower_eq. unfold https_lower.
  rewrite strip_ci_head_ne by (cbn; lia). cbn [N.eqb Pos.eqb].
  apply N.eqb_neq in H1, H2. rewrite H1, H2. reflexivity.
Qed.

Lemma safe_about (q R : bytes) : map ascii_lower q = about_lower -> spec_safe_prefix (q ++ R) = true.
Proof.
  intros Hq. unfold spec_safe_prefix. rewrite https_lower_eq, about_lower_eq.
  destruct q as [|y1 [|y2 q]]; try discriminate. cbn [map] in Hq. unfold about_lower in Hq.
  assert (H1 : ascii_lower y1 = 97) by congruence.
  unfold https_lower. cbn [app]. rewrite strip_ci_head_ne by lia.
  assert (Hy : (y1 =? 47) = false) by (unfold ascii_lower in H1; destruct ((65 <=? y1) && (y1 <=? 90)) eqn:E; lia).
  rewrite Hy. change (y1 :: y2 :: q ++ R) with ((y1 :: y2 :: q) ++ R).
  rewrite (strip_ci_app (y1 :: y2 :: q) about_lower R); [reflexivity|]. exact Hq.
Qed.

(* ---- from the expression to the runes ---- *)
Lemma M_cls_seq_cons rs l p s n : M (cls_seq (rs :: l)) p s n ->
  exists c s', s = c :: s' /\ in_ranges c rs = true /\ M (cls_seq l) (Some c) s' n.
Proof.
  cbn [cls_seq]. intros H. apply M_Cat_inv in H as (s1 & s2 & -> & H1 & H2).
  apply M_Cls_inv in H1 as (c & -> & Hc). exists c, s2. cbn in H2. repeat split; assumption.
Qed.

Lemma M_cls_seq_nil p s n : M (cls_seq []) p s n -> s = [].
Proof. cbn [cls_seq]. apply M_Eps_inv. Qed.

Lemma M_plus_cls rs p s n : M (plus (Cls rs)) p s n ->
  exists c s', s = c :: s' /\ in_ranges c rs = true /\ Forall (fun x => in_ranges x rs = true) s'.
Proof.
  unfold plus. intros H. apply M_Cat_inv in H as (s1 & s2 & -> & H1 & H2).
  apply M_Cls_inv in H1 as (c & -> & Hc). apply M_star_cls in H2. exists c, s2. repeat split; assumption.
Qed.

Lemma M_origin o p s n : M (S_origin o) p s n ->
  exists h hs, s = 47 :: 47 :: (h :: hs) ++ [47] /\ Forall (fun x => in_ranges x o = true) (h :: hs).
Proof.
  unfold S_origin. intros H. apply M_Cat_inv in H as (s1 & s2 & -> & H1 & H2).
  apply M_cls_seq_cons in H1 as (a & s1' & -> & Ha & H1). apply M_cls_seq_cons in H1 as (b & s1'' & -> & Hb & H1).
  apply M_cls_seq_nil in H1. subst s1''.
  apply M_Cat_inv in H2 as (s3 & s4 & -> & H3 & H4).
  apply M_plus_cls in H3 as (h & hs & -> & Hh & Hhs). apply M_Cls_inv in H4 as (c & -> & Hc).
  assert (a = 47) by (unfold in_ranges, in_range, c1 in Ha; cbn in Ha; lia).
  assert (b = 47) by (unfold in_ranges, in_range, c1 in Hb; cbn in Hb; lia).
  assert (c = 47) by (unfold in_ranges, in_range, c1 in Hc; cbn in Hc; lia).
  subst. exists h, hs. split; [reflexivity | constructor; assumption].
Qed.

Lemma last_or_some {A} (l : list A) x : last_or l (Some x) <> None.
Proof. revert x. induction l as [|y l IH]; intros x; cbn; [discriminate | apply IH]. Qed.

Lemma last_or_none_nil {A} (l : list A) : last_or l None = None -> l = [].
Proof. destruct l as [|y l]; [reflexivity|]. cbn. intros H. exfalso. eapply last_or_some; exact H. Qed.

(* rune facts: what each class of S_prefix_fold becomes after undoing the two folds *)
Lemma ci_unfold u c : (65 <=? u) && (u <=? 90) = true -> in_ranges c (ci u) = true ->
  unfold_rune c < 128 /\ ascii_lower (unfold_rune c) = u + 32.
Proof.
  intros Hu H. unfold in_ranges, in_range, ci in H. cbn in H.
  unfold unfold_rune, ascii_lower.
  destruct (c =? 383) eqn:E1; [lia|]. destruct (c =? 8490) eqn:E2; [lia|].
  destruct ((65 <=? c) && (c <=? 90)) eqn:E3; lia.
Qed.

Lemma ci_s_unfold c : in_ranges c ci_s = true -> unfold_rune c < 128 /\ ascii_lower (unfold_rune c) = 115.
Proof.
  intros H. unfold in_ranges, in_range, ci_s in H. cbn in H. unfold unfold_rune, ascii_lower.
  destruct (c =? 383) eqn:E1; [cbn; lia|]. destruct (c =? 8490) eqn:E2; [lia|].
  destruct ((65 <=? c) && (c <=? 90)) eqn:E3; lia.
Qed.

Lemma ci_k_unfold c : in_ranges c ci_k = true -> unfold_rune c < 128 /\ ascii_lower (unfold_rune c) = 107.
Proof.
  intros H. unfold in_ranges, in_range, ci_k in H. cbn in H. unfold unfold_rune, ascii_lower.
  destruct (c =? 383) eqn:E1; [lia|]. destruct (c =? 8490) eqn:E2; [cbn; lia|].
  destruct ((65 <=? c) && (c <=? 90)) eqn:E3; lia.
Qed.

Lemma c1_eq k c : in_ranges c (c1 k) = true -> c = k.
Proof. unfold in_ranges, in_range, c1. cbn. lia. Qed.

Lemma origin_unfold c : in_ranges c origin_cls_fold = true ->
  unfold_rune c < 128 /\ origin_char (unfold_rune c) = true.
Proof.
  intros H. unfold in_ranges, in_range, origin_cls_fold, origin_cls in H. cbn in H.
  unfold unfold_rune, origin_char, is_alpha, is_digit.
  destruct (c =? 383) eqn:E1; [cbn; lia|]. destruct (c =? 8490) eqn:E2; [cbn; lia|]. lia.
Qed.

Lemma encode_rune_ascii c : c < 128 -> encode_rune c = [c].
Proof. intros H. unfold encode_rune. apply N.ltb_lt in H. rewrite H. reflexivity. Qed.

Lemma encode_ascii_prefix (u : list N) r : Forall (fun c => c < 128) u ->
  encode_runes (u ++ r) = u ++ encode_runes r.
Proof.
  induction 1 as [|c u Hc Hu IH]; [reflexivity|]. unfold encode_runes in *. cbn [app flat_map].
  rewrite (encode_rune_ascii c Hc), IH. reflexivity.
Qed.

Lemma encode_rune_head c : c <> 47 -> c <> 92 -> exists y ys, encode_rune c = y :: ys /\ y <> 47 /\ y <> 92.
Proof.
  intros H1 H2. unfold encode_rune.
  destruct (c <? 128); [exists c, []; auto|].
  destruct (c <? 2048); [eexists; eexists; split; [reflexivity|]; lia|].
  destruct (is_surrogate c || (1114111 <? c)); [eexists; eexists; split; [reflexivity|]; lia|].
  destruct (c <? 65536); eexists; eexists; (split; [reflexivity|]); lia.
Qed.

Lemma origin_run_unfold (hs : list N) : Forall (fun x => in_ranges x origin_cls_fold = true) hs ->
  Forall (fun c => c < 128) (map unfold_rune hs) /\ forallb origin_char (map unfold_rune hs) = true.
Proof.
  induction 1 as [|c hs Hc Hhs (IH1 & IH2)]; [split; [constructor | reflexivity]|].
  destruct (origin_unfold c Hc) as [Ha Ho]. cbn [map forallb]. rewrite Ho, IH2. split; [constructor; assumption | reflexivity].
Qed.

Lemma prefix_fold_equiv w : go_match G_safeTrustedResourceURLPrefixPattern w = go_match S_prefix_fold w.
Proof.
  assert (H : equiv_ok (search G_safeTrustedResourceURLPrefixPattern) (search S_prefix_fold) = true)
    by (vm_compute; reflexivity).
  unfold go_match. apply (equiv_ok_sound _ _ H).
Qed.

Lemma safe_prefix_unfolded format : is_safe_tru_prefix format = true -> spec_safe_prefix (unfolded format) = true.
Proof.
  unfold is_safe_tru_prefix, unfolded. set (w := decode_runes format). intros Hg.
  assert (Hs : go_match S_prefix_fold w = true).
  { rewrite <- prefix_fold_equiv. exact Hg. }
  assert (Hw : wf_runes w) by apply decode_runes_bounded.
  apply (go_match_M _ _ Hw) in Hs as (a & m & b & Ew & HM). rewrite Ew. clear Ew Hg Hw w.
  unfold S_prefix_fold, S_prefix_with in HM.
  apply M_Cat_inv in HM as (s1 & s2 & -> & HB & HA). apply M_BeginText_inv in HB as [-> Hp].
  apply last_or_none_nil in Hp. subst a. cbn [app].
  set (rest := encode_runes (map unfold_rune b)).
  apply M_Alt_inv in HA as [HA|HA]; [|apply M_Alt_inv in HA as [HA|HA]; [|apply M_Alt_inv in HA as [HA|HA]]].
  - (* https://origin/ *)
    apply M_Cat_inv in HA as (u & v & -> & Hu & Hv). unfold S_https in Hu.
    apply M_cls_seq_cons in Hu as (r1 & u1 & -> & R1 & Hu). apply M_cls_seq_cons in Hu as (r2 & u2 & -> & R2 & Hu).
    apply M_cls_seq_cons in Hu as (r3 & u3 & -> & R3 & Hu). apply M_cls_seq_cons in Hu as (r4 & u4 & -> & R4 & Hu).
    apply M_cls_seq_cons in Hu as (r5 & u5 & -> & R5 & Hu). apply M_cls_seq_cons in Hu as (r6 & u6 & -> & R6 & Hu).
    apply M_cls_seq_nil in Hu. subst u6. apply M_origin in Hv as (h & hs & -> & Hh).
    apply c1_eq in R6. subst r6.
    destruct (ci_unfold 72 r1 eq_refl R1) as [A1 L1]. destruct (ci_unfold 84 r2 eq_refl R2) as [A2 L2].
    destruct (ci_unfold 84 r3 eq_refl R3) as [A3 L3]. destruct (ci_unfold 80 r4 eq_refl R4) as [A4 L4].
    destruct (ci_s_unfold r5 R5) as [A5 L5]. destruct (origin_run_unfold _ Hh) as [Ah Oh].
    cbn [app]. rewrite <- !app_assoc. cbn [app map]. rewrite map_app. cbn [map].
    change (unfold_rune 58) with 58. change (unfold_rune 47) with 47.
    set (q := [unfold_rune r1; unfold_rune r2; unfold_rune r3; unfold_rune r4; unfold_rune r5; 58; 47; 47]).
    set (H := unfold_rune h :: map unfold_rune hs) in *.
    replace (unfold_rune r1 :: unfold_rune r2 :: unfold_rune r3 :: unfold_rune r4 :: unfold_rune r5 :: 58 :: 47 :: 47
               :: unfold_rune h :: map unfold_rune hs ++ 47 :: map unfold_rune b)
      with ((q ++ H ++ [47]) ++ map unfold_rune b)
      by (unfold q, H; cbn [app]; rewrite <- app_assoc; reflexivity).
    rewrite encode_ascii_prefix.
    + rewrite <- !app_assoc. cbn [app]. apply safe_https; [|discriminate | exact Oh].
      unfold q. cbn [map]. rewrite L1, L2, L3, L4, L5. reflexivity.
    + apply Forall_app. split; [unfold q; repeat constructor; try assumption; lia|].
      apply Forall_app. split; [exact Ah | repeat constructor; lia].
  - (* //origin/ *)
    apply M_origin in HA as (h & hs & -> & Hh). destruct (origin_run_unfold _ Hh) as [Ah Oh].
    cbn [app]. rewrite <- !app_assoc. cbn [app map]. rewrite map_app. cbn [map].
    change (unfold_rune 47) with 47.
    set (H := unfold_rune h :: map unfold_rune hs) in *.
    replace (47 :: 47 :: unfold_rune h :: map unfold_rune hs ++ 47 :: map unfold_rune b)
      with (([47; 47] ++ H ++ [47]) ++ map unfold_rune b)
      by (unfold H; cbn [app]; rewrite <- app_assoc; reflexivity).
    rewrite encode_ascii_prefix.
    + rewrite <- !app_assoc. cbn [app]. apply safe_slashes; [discriminate | exact Oh].
    + apply Forall_app. split; [repeat constructor; lia|].
      apply Forall_app. split; [exact Ah | repeat constructor; lia].
  - (* /pathStart *)
    apply M_cls_seq_cons in HA as (r1 & u1 & -> & R1 & Hu). apply M_cls_seq_cons in Hu as (r2 & u2 & -> & R2 & Hu).
    apply M_cls_seq_nil in Hu. subst u2. apply c1_eq in R1. subst r1.
    cbn [app map]. change (unfold_rune 47) with 47. unfold encode_runes. cbn [flat_map].
    rewrite (encode_rune_ascii 47) by lia. cbn [app].
    assert (Hn : unfold_rune r2 <> 47 /\ unfold_rune r2 <> 92).
    { unfold in_ranges, in_range, not_slash_backslash in R2. cbn in R2. unfold unfold_rune.
      destruct (r2 =? 383); [lia|]. destruct (r2 =? 8490); lia. }
    destruct (encode_rune_head _ (proj1 Hn) (proj2 Hn)) as (y & ys & -> & Hy1 & Hy2).
    cbn [app]. apply safe_path; assumption.
  - (* about:blank# *)
    unfold S_about in HA.
    apply M_cls_seq_cons in HA as (r1 & u1 & -> & R1 & Hu). apply M_cls_seq_cons in Hu as (r2 & u2 & -> & R2 & Hu).
    apply M_cls_seq_cons in Hu as (r3 & u3 & -> & R3 & Hu). apply M_cls_seq_cons in Hu as (r4 & u4 & -> & R4 & Hu).
    apply M_cls_seq_cons in Hu as (r5 & u5 & -> & R5 & Hu). apply M_cls_seq_cons in Hu as (r6 & u6 & -> & R6 & Hu).
    apply M_cls_seq_cons in Hu as (r7 & u7 & -> & R7 & Hu). apply M_cls_seq_cons in Hu as (r8 & u8 & -> & R8 & Hu).
    apply M_cls_seq_cons in Hu as (r9 & u9 & -> & R9 & Hu). apply M_cls_seq_cons in Hu as (r10 & u10 & -> & R10 & Hu).
    apply M_cls_seq_cons in Hu as (r11 & u11 & -> & R11 & Hu). apply M_cls_seq_cons in Hu as (r12 & u12 & -> & R12 & Hu).
    apply M_cls_seq_nil in Hu. subst u12. apply c1_eq in R6, R12. subst r6 r12.
    destruct (ci_unfold 65 r1 eq_refl R1) as [A1 L1]. destruct (ci_unfold 66 r2 eq_refl R2) as [A2 L2].
    destruct (ci_unfold 79 r3 eq_refl R3) as [A3 L3]. destruct (ci_unfold 85 r4 eq_refl R4) as [A4 L4].
    destruct (ci_unfold 84 r5 eq_refl R5) as [A5 L5]. destruct (ci_unfold 66 r7 eq_refl R7) as [A7 L7].
    destruct (ci_unfold 76 r8 eq_refl R8) as [A8 L8]. destruct (ci_unfold 65 r9 eq_refl R9) as [A9 L9].
    destruct (ci_unfold 78 r10 eq_refl R10) as [A10 L10]. destruct (ci_k_unfold r11 R11) as [A11 L11].
    cbn [app map]. change (unfold_rune 58) with 58. change (unfold_rune 35) with 35.
    set (q := [unfold_rune r1; unfold_rune r2; unfold_rune r3; unfold_rune r4; unfold_rune r5; 58;
               unfold_rune r7; unfold_rune r8; unfold_rune r9; unfold_rune r10; unfold_rune r11; 35]).
    change (unfold_rune r1 :: unfold_rune r2 :: unfold_rune r3 :: unfold_rune r4 :: unfold_rune r5 :: 58
              :: unfold_rune r7 :: unfold_rune r8 :: unfold_rune r9 :: unfold_rune r10 :: unfold_rune r11 :: 35
              :: map unfold_rune b) with (q ++ map unfold_rune b).
    rewrite encode_ascii_prefix.
    + apply safe_about. unfold q. cbn [map]. rewrite L1, L2, L3, L4, L5, L7, L8, L9, L10, L11. reflexivity.
    + unfold q. repeat constructor; try assumption; lia.
Qed.

Lemma safe_prefix_documented format : is_safe_tru_prefix format = true -> finding_D22 format = false ->
  spec_safe_prefix format = true.
Proof.
  intros Hs Hd. unfold finding_D22 in Hd. rewrite (safe_prefix_unfolded format Hs), andb_true_r in Hd.
  apply negb_false_iff in Hd. exact Hd.
Qed.

(* ================================================================== *)
(* Part E: confinement *)

(* ---- substitution leaves the literal prefix alone, and only inserts delimiter-free text ---- *)
Definition not_pct (c : N) : bool := negb (c =? 37).

Lemma subst_from_lits h (u r : bytes) : forallb not_pct u = true ->
  subst_from h O (u ++ r) = u ++ subst_from h O r.
Proof.
  induction u as [|x u IH]; intros H; [reflexivity|]. cbn [forallb] in H. apply andb_true_iff in H as [Hx Hu].
  apply negb_true_iff in Hx. cbn [app subst_from]. rewrite (marker_at_not_pct x _ Hx), (IH Hu). reflexivity.
Qed.

Lemma subst_from_none h c (t : bytes) : marker_at (c :: t) = None ->
  subst_from h O (c :: t) = c :: subst_from h O t.
Proof. intros H. cbn [subst_from]. rewrite H. reflexivity. Qed.

Definition keep3 (c : N) : bool := negb (not_hier_stop c).       (* '/', '?', '#' *)
Definition skel (s : bytes) : bytes := filter keep3 s.

Lemma skel_clean (u : bytes) : forallb not_gen_stop u = true -> skel u = [].
Proof.
  induction u as [|c u IH]; intros H; [reflexivity|]. cbn [forallb] in H. apply andb_true_iff in H as [Hc Hu].
  unfold skel in *. cbn [filter]. rewrite (IH Hu).
  assert (keep3 c = false) by (unfold keep3, not_hier_stop; unfold not_gen_stop in Hc; lia).
  rewrite H. reflexivity.
Qed.

Lemma skel_app a b : skel (a ++ b) = skel a ++ skel b.
Proof. unfold skel. apply filter_app. Qed.

Lemma skel_subst f g (s : bytes) :
  (forall l, forallb not_gen_stop (f l) = true) -> (forall l, forallb not_gen_stop (g l) = true) ->
  forall skip, skel (subst_from f skip s) = skel (subst_from g skip s).
Proof.
  intros Hf Hg. induction s as [|c t IH]; intros skip; [reflexivity|].
  cbn [subst_from]. destruct skip as [|k]; [|apply IH].
  destruct (marker_at (c :: t)) as [[l r]|].
  - rewrite !skel_app, (skel_clean _ (Hf l)), (skel_clean _ (Hg l)), IH. reflexivity.
  - unfold skel in *. cbn [filter]. rewrite IH. reflexivity.
Qed.

(* ---- the components behind the authority depend on the '/', '?', '#' skeleton only ---- *)
Lemma take_while_filter p q (s : bytes) : (forall c, p c = false -> q c = true) ->
  take_while p (filter q s) = filter q (take_while p s).
Proof.
  intros Hpq. induction s as [|c t IH]; [reflexivity|]. cbn [filter take_while].
  destruct (p c) eqn:Ep.
  - cbn [filter]. destruct (q c); cbn [take_while]; [rewrite Ep, IH|]; [reflexivity | exact IH].
  - rewrite (Hpq c Ep). cbn [take_while]. rewrite Ep. reflexivity.
Qed.

Lemma drop_while_filter p q (s : bytes) : (forall c, p c = false -> q c = true) ->
  drop_while p (filter q s) = filter q (drop_while p s).
Proof.
  intros Hpq. induction s as [|c t IH]; [reflexivity|]. cbn [filter drop_while].
  destruct (p c) eqn:Ep.
  - destruct (q c); cbn [drop_while]; [rewrite Ep|]; exact IH.
  - rewrite (Hpq c Ep). cbn [drop_while filter]. rewrite Ep, (Hpq c Ep). reflexivity.
Qed.

Definition is_slash (c : N) : bool := c =? 47.

Lemma split_on_cons d c (t : bytes) : split_on d (c :: t) =
  if c =? d then [] :: split_on d t
  else match split_on d t with h :: r => (c :: h) :: r | [] => [[c]] end.
Proof. reflexivity. Qed.

Lemma split_on_length (s : bytes) : length (split_on 47 s) = S (length (filter is_slash s)).
Proof.
  induction s as [|c t IH]; [reflexivity|]. rewrite split_on_cons. cbn [filter]. unfold is_slash at 1.
  destruct (c =? 47); cbn [length]; [rewrite IH; reflexivity|].
  destruct (split_on 47 t) as [|h r]; [discriminate|]. exact IH.
Qed.

Lemma filter_filter_sub {A} (p q : A -> bool) l : (forall x, p x = true -> q x = true) ->
  filter p (filter q l) = filter p l.
Proof.
  intros H. induction l as [|x l IH]; [reflexivity|]. cbn [filter]. destruct (q x) eqn:Eq.
  - cbn [filter]. rewrite IH. reflexivity.
  - destruct (p x) eqn:Ep; [rewrite (H x Ep) in Eq; discriminate | exact IH].
Qed.

Definition tail_segments (T : bytes) : nat := length (segments (take_while not_path_stop T)).
Definition tail_has_query (T : bytes) : bool := is_some (fst (split_query (drop_while not_path_stop T))).
Definition tail_has_fragment (T : bytes) : bool :=
  is_some (split_fragment (snd (split_query (drop_while not_path_stop T)))).

Lemma stop_keep3 c : not_path_stop c = false -> keep3 c = true.
Proof. unfold not_path_stop, keep3, not_hier_stop. lia. Qed.
Lemma hash_keep3 c : not_hash c = false -> keep3 c = true.
Proof. unfold not_hash, keep3, not_hier_stop. lia. Qed.
Lemma slash_keep3 c : is_slash c = true -> keep3 c = true.
Proof. unfold is_slash, keep3, not_hier_stop. lia. Qed.

Lemma skel_head p (s : bytes) : (forall c, p c = false -> keep3 c = true) ->
  (drop_while p s = [] /\ skel (drop_while p s) = []) \/
  (exists c r, drop_while p s = c :: r /\ skel (drop_while p s) = c :: skel r).
Proof.
  intros Hp. destruct (drop_while p s) as [|c r] eqn:E; [left; split; reflexivity|].
  right. exists c, r. split; [reflexivity|]. unfold skel. cbn [filter].
  rewrite (Hp c (drop_while_head _ _ _ _ E)). reflexivity.
Qed.

Lemma drop_skel p (T : bytes) : (forall c, p c = false -> keep3 c = true) ->
  drop_while p (skel T) = skel (drop_while p T).
Proof. intros H. unfold skel. apply drop_while_filter. exact H. Qed.

Lemma tail_skel (T : bytes) :
  tail_segments T = tail_segments (skel T) /\
  tail_has_query T = tail_has_query (skel T) /\
  tail_has_fragment T = tail_has_fragment (skel T).
Proof.
  split; [|split].
  - unfold tail_segments, segments. rewrite !split_on_length. unfold skel.
    rewrite (take_while_filter _ _ T stop_keep3), (filter_filter_sub is_slash keep3 _ slash_keep3). reflexivity.
  - unfold tail_has_query. rewrite (drop_skel _ T stop_keep3).
    destruct (skel_head not_path_stop T stop_keep3) as [[-> ->]|(c & r & -> & ->)]; [reflexivity|].
    unfold split_query. destruct (c =? 63); reflexivity.
  - unfold tail_has_fragment. rewrite (drop_skel _ T stop_keep3).
    destruct (skel_head not_path_stop T stop_keep3) as [[-> ->]|(c & r & -> & ->)]; [reflexivity|].
    unfold split_query. destruct (c =? 63); cbn [snd]; [|unfold split_fragment; destruct (c =? 35); reflexivity].
    rewrite (drop_skel _ r hash_keep3).
    destruct (skel_head not_hash r hash_keep3) as [[-> ->]|(c' & r' & -> & ->)]; [reflexivity|].
    unfold split_fragment. destruct (c' =? 35); reflexivity.
Qed.

Lemma uri_path_tail s : length (segments (uri_path s)) = tail_segments (uri_after_authority s).
Proof. reflexivity. Qed.
Lemma has_query_tail s : has_query s = tail_has_query (uri_after_authority s).
Proof. reflexivity. Qed.
Lemma has_fragment_tail s : has_fragment s = tail_has_fragment (uri_after_authority s).
Proof. reflexivity. Qed.

Lemma confined_core (o o0 X X0 : bytes) :
  uri_after_authority o = 47 :: X -> uri_after_authority o0 = 47 :: X0 -> skel X = skel X0 ->
  length (segments (uri_path o)) = length (segments (uri_path o0)) /\
  has_query o = has_query o0 /\ has_fragment o = has_fragment o0.
Proof.
  intros Ho Ho0 Hs. rewrite !uri_path_tail, !has_query_tail, !has_fragment_tail, Ho, Ho0.
  destruct (tail_skel (47 :: X)) as (A1 & A2 & A3). destruct (tail_skel (47 :: X0)) as (B1 & B2 & B3).
  assert (E : skel (47 :: X) = skel (47 :: X0)) by (unfold skel in *; cbn [filter]; cbn; rewrite Hs; reflexivity).
  rewrite A1, A2, A3, B1, B2, B3, E. repeat split; reflexivity.
Qed.

(* ---- the prefix forms fix scheme and authority ---- *)
Lemma lower_letter y x : ascii_lower y = x -> (97 <=? x) && (x <=? 122) = true ->
  not_gen_stop y = true /\ not_pct y = true /\ (y =? 47) = false.
Proof.
  unfold ascii_lower, not_gen_stop, not_pct. intros H Hx. destruct ((65 <=? y) && (y <=? 90)) eqn:E; lia.
Qed.

Lemma lower_other y x : ascii_lower y = x -> (x <? 97) || (122 <? x) = true -> y = x.
Proof. unfold ascii_lower. intros H Hx. destruct ((65 <=? y) && (y <=? 90)) eqn:E; lia. Qed.

Lemma origin_char_facts c : origin_char c = true -> not_hier_stop c = true /\ not_pct c = true.
Proof. unfold origin_char, is_alpha, is_digit, not_hier_stop, not_pct. lia. Qed.

Lemma origin_run_facts (H : bytes) : forallb origin_char H = true ->
  forallb not_hier_stop H = true /\ forallb not_pct H = true.
Proof.
  induction H as [|c H IH]; intros Ha; [split; reflexivity|]. cbn [forallb] in *.
  apply andb_true_iff in Ha as [Hc Ha]. destruct (origin_char_facts c Hc) as [-> ->]. destruct (IH Ha) as [-> ->].
  split; reflexivity.
Qed.

Lemma parse_slashes (H X : bytes) : forallb origin_char H = true ->
  let s := 47 :: 47 :: H ++ 47 :: X in
  uri_scheme s = None /\ uri_authority s = Some H /\ uri_after_authority s = 47 :: X.
Proof.
  intros Ha. destruct (origin_run_facts H Ha) as [Hh _]. cbv zeta.
  assert (Es : split_scheme (47 :: 47 :: H ++ 47 :: X) = (None, 47 :: 47 :: H ++ 47 :: X)) by reflexivity.
  unfold uri_scheme, uri_authority, uri_after_authority, uri_after_scheme. rewrite Es. cbn [fst snd].
  unfold split_authority. cbn [N.eqb Pos.eqb andb].
  rewrite (take_while_app _ H 47 X Hh eq_refl), (drop_while_app _ H 47 X Hh eq_refl). repeat split; reflexivity.
Qed.

Lemma parse_https (q H X : bytes) : map ascii_lower q = https_lower -> forallb origin_char H = true ->
  let s := q ++ H ++ 47 :: X in
  uri_scheme s = Some (firstn 5 q) /\ uri_authority s = Some H /\ uri_after_authority s = 47 :: X.
Proof.
  intros Hq Ha. destruct (origin_run_facts H Ha) as [Hh _]. cbv zeta.
  destruct q as [|y1 [|y2 [|y3 [|y4 [|y5 [|y6 [|y7 [|y8 [|y9 q]]]]]]]]]; try discriminate.
  unfold https_lower in Hq. cbn [map] in Hq. injection Hq as L1 L2 L3 L4 L5 L6 L7 L8.
  destruct (lower_letter _ _ L1 eq_refl) as (N1 & _). destruct (lower_letter _ _ L2 eq_refl) as (N2 & _).
  destruct (lower_letter _ _ L3 eq_refl) as (N3 & _). destruct (lower_letter _ _ L4 eq_refl) as (N4 & _).
  destruct (lower_letter _ _ L5 eq_refl) as (N5 & _).
  apply lower_other in L6, L7, L8; try reflexivity. subst y6 y7 y8. cbn [app firstn].
  assert (Es : split_scheme (y1 :: y2 :: y3 :: y4 :: y5 :: 58 :: 47 :: 47 :: H ++ 47 :: X)
               = (Some [y1; y2; y3; y4; y5], 47 :: 47 :: H ++ 47 :: X)).
  { unfold split_scheme. cbn [take_while drop_while]. rewrite N1, N2, N3, N4, N5. reflexivity. }
  unfold uri_scheme, uri_authority, uri_after_authority, uri_after_scheme. rewrite Es. cbn [fst snd].
  unfold split_authority. cbn [N.eqb Pos.eqb andb].
  rewrite (take_while_app _ H 47 X Hh eq_refl), (drop_while_app _ H 47 X Hh eq_refl). repeat split; reflexivity.
Qed.

Lemma parse_path c (X : bytes) : (c =? 47) = false ->
  let s := 47 :: c :: X in
  uri_scheme s = None /\ uri_authority s = None /\ uri_after_authority s = s.
Proof.
  intros Hc. cbv zeta.
  assert (Es : split_scheme (47 :: c :: X) = (None, 47 :: c :: X)) by reflexivity.
  unfold uri_scheme, uri_authority, uri_after_authority, uri_after_scheme. rewrite Es. cbn [fst snd].
  unfold split_authority. rewrite Hc, andb_false_r. repeat split; reflexivity.
Qed.

Lemma gen_stop_path_stop y : not_gen_stop y = true -> not_path_stop y = true.
Proof. unfold not_gen_stop, not_path_stop. lia. Qed.

Lemma parse_about (q X : bytes) : map ascii_lower q = about_lower ->
  let s := q ++ X in
  uri_scheme s = Some (firstn 5 q) /\ uri_authority s = None /\
  uri_path s = firstn 5 (skipn 6 q) /\ uri_query s = None /\ uri_fragment s = Some X.
Proof.
  intros Hq. cbv zeta.
  destruct q as [|y1 [|y2 [|y3 [|y4 [|y5 [|y6 [|y7 [|y8 [|y9 [|y10 [|y11 [|y12 [|y13 q]]]]]]]]]]]]]; try discriminate.
  unfold about_lower in Hq. cbn [map] in Hq. injection Hq as L1 L2 L3 L4 L5 L6 L7 L8 L9 L10 L11 L12.
  destruct (lower_letter _ _ L1 eq_refl) as (N1 & _). destruct (lower_letter _ _ L2 eq_refl) as (N2 & _).
  destruct (lower_letter _ _ L3 eq_refl) as (N3 & _). destruct (lower_letter _ _ L4 eq_refl) as (N4 & _).
  destruct (lower_letter _ _ L5 eq_refl) as (N5 & _).
  destruct (lower_letter _ _ L7 eq_refl) as (N7 & _ & S7). destruct (lower_letter _ _ L8 eq_refl) as (N8 & _).
  destruct (lower_letter _ _ L9 eq_refl) as (N9 & _). destruct (lower_letter _ _ L10 eq_refl) as (N10 & _).
  destruct (lower_letter _ _ L11 eq_refl) as (N11 & _).
  apply lower_other in L6, L12; try reflexivity. subst y6 y12. cbn [app firstn skipn].
  pose proof gen_stop_path_stop as P.
  assert (Es : split_scheme (y1 :: y2 :: y3 :: y4 :: y5 :: 58 :: y7 :: y8 :: y9 :: y10 :: y11 :: 35 :: X)
               = (Some [y1; y2; y3; y4; y5], y7 :: y8 :: y9 :: y10 :: y11 :: 35 :: X)).
  { unfold split_scheme. cbn [take_while drop_while]. rewrite N1, N2, N3, N4, N5. reflexivity. }
  unfold uri_scheme, uri_authority, uri_path, uri_query, uri_fragment, uri_after_path, uri_after_authority, uri_after_scheme.
  rewrite Es. cbn [fst snd]. unfold split_authority. rewrite S7. cbn [andb fst snd].
  cbn [take_while drop_while]. rewrite (P _ N7), (P _ N8), (P _ N9), (P _ N10), (P _ N11).
  repeat split; reflexivity.
Qed.

(* ---- dot segments ---- *)
Fixpoint climbk (d : nat) (ks : list N) : nat :=
  match ks with
  | [] => O
  | k :: t =>
      if k =? 1 then climbk d t
      else if k =? 2 then match d with O => S (climbk O t) | S d' => climbk d' t end
      else climbk (S d) t
  end.

Lemma climb_kinds segs : forall d, climb d segs = climbk d (map dot_kind segs).
Proof.
  induction segs as [|s t IH]; intros d; [reflexivity|]. cbn [climb map climbk].
  destruct (dot_kind s =? 1); [apply IH|]. destruct (dot_kind s =? 2); [destruct d; rewrite IH; reflexivity | apply IH].
Qed.

Definition dot_rel (a b : N) : Prop := (a = 1 -> b = 1) /\ (a = 2 -> b = 2).

Lemma climbk_mono ks : forall ks0 d d0, Forall2 dot_rel ks ks0 -> (d0 <= d)%nat ->
  (climbk d ks <= climbk d0 ks0)%nat.
Proof.
  induction ks as [|a ks IH]; intros ks0 d d0 HF Hd; inversion HF as [|a' b ks' ks0' [R1 R2] HF']; subst; [cbn; lia|].
  cbn [climbk]. destruct (a =? 1) eqn:A1.
  - apply N.eqb_eq in A1. rewrite (R1 A1). cbn [N.eqb Pos.eqb]. apply IH; assumption.
  - destruct (a =? 2) eqn:A2.
    + apply N.eqb_eq in A2. rewrite (R2 A2). cbn [N.eqb Pos.eqb].
      destruct d0 as [|d0']; destruct d as [|d']; try lia.
      * apply le_n_S. apply IH; [assumption | lia].
      * assert (Hle : (climbk d' ks <= climbk O ks0')%nat) by (apply IH; [assumption | lia]). lia.
      * apply IH; [assumption | lia].
    + destruct (b =? 1) eqn:B1; [apply IH; [assumption | lia]|].
      destruct (b =? 2) eqn:B2; [|apply IH; [assumption | lia]].
      destruct d0 as [|d0'].
      * assert (Hle : (climbk (S d) ks <= climbk O ks0')%nat) by (apply IH; [assumption | lia]). lia.
      * apply IH; [assumption | lia].
Qed.

Lemma existsb_false {A} (f : A -> bool) l : existsb f l = false -> forall x, In x l -> f x = false.
Proof.
  intros H x Hin. destruct (f x) eqn:E; [|reflexivity].
  assert (existsb f l = true) by (apply existsb_exists; exists x; split; assumption). congruence.
Qed.

Lemma combine_Forall2 {A B} (P : A -> B -> Prop) (l1 : list A) : forall (l2 : list B),
  length l1 = length l2 -> (forall p, In p (combine l1 l2) -> P (fst p) (snd p)) -> Forall2 P l1 l2.
Proof.
  induction l1 as [|a l1 IH]; intros [|b l2] Hl H; try discriminate; constructor.
  - apply (H (a, b)). left. reflexivity.
  - apply IH; [cbn in Hl; lia|]. intros p Hp. apply H. right. exact Hp.
Qed.

Lemma Forall2_skipn {A B} (P : A -> B -> Prop) k : forall l1 l2, Forall2 P l1 l2 -> Forall2 P (skipn k l1) (skipn k l2).
Proof.
  induction k as [|k IH]; intros l1 l2 H; [exact H|]. destruct H; [constructor|]. cbn [skipn]. apply IH. assumption.
Qed.

Lemma skipn_map_comm {A B} (f : A -> B) k : forall l, skipn k (map f l) = map f (skipn k l).
Proof. induction k as [|k IH]; intros [|x l]; try reflexivity. cbn [skipn map]. apply IH. Qed.

Lemma no_new_dots_climb (o o0 : bytes) k :
  length (segments (uri_path o)) = length (segments (uri_path o0)) ->
  new_dot 1 o o0 = false -> new_dot 2 o o0 = false ->
  (climb O (skipn k (segments (uri_path o))) <= climb O (skipn k (segments (uri_path o0))))%nat.
Proof.
  intros Hl H1 H2. rewrite !climb_kinds, <- !skipn_map_comm. apply climbk_mono; [|lia].
  apply Forall2_skipn. apply combine_Forall2; [rewrite !map_length; exact Hl|].
  intros [a b] Hp. cbn [fst snd]. unfold new_dot, dot_kinds in H1, H2.
  pose proof (existsb_false _ _ H1 _ Hp) as E1. pose proof (existsb_false _ _ H2 _ Hp) as E2.
  cbn [fst snd] in E1, E2. split; intros ->; cbn [N.eqb Pos.eqb andb] in *; lia.
Qed.

(* ---- assembly ---- *)
Lemma x_clean l : forallb not_gen_stop ((fun _ : bytes => [120]) l) = true. Proof. reflexivity. Qed.

Lemma args_pass_intro format args :
  (forall l, In l (marker_labels format) -> exists v, lookup l args = Some v /\ contains_double_dot v = false) ->
  args_pass format args = true.
Proof.
  intros H. unfold args_pass. apply forallb_forall. intros l Hl. destruct (H l Hl) as (v & -> & ->). reflexivity.
Qed.

(* [F] and [G] build two results from the same format: both keep literal text and insert
   delimiter-free text at the same places *)
Lemma components_general (format : bytes) (F G : bytes -> bytes) :
  (forall w r, forallb not_pct w = true -> F (w ++ r) = w ++ F r /\ G (w ++ r) = w ++ G r) ->
  (forall c r, format = 47 :: c :: r -> (c =? 47) = false ->
               F format = 47 :: c :: F r /\ G format = 47 :: c :: G r) ->
  (forall r, skel (F r) = skel (G r)) ->
  spec_safe_prefix format = true ->
  let o := F format in
  let o0 := G format in
  uri_scheme o = uri_scheme o0 /\ uri_authority o = uri_authority o0 /\
  length (segments (uri_path o)) = length (segments (uri_path o0)) /\
  has_query o = has_query o0 /\ has_fragment o = has_fragment o0.
Proof.
  intros HF1 HF2 HF3 Hs. cbv zeta.
  unfold spec_safe_prefix in Hs. rewrite https_lower_eq, about_lower_eq in Hs.
  destruct (strip_ci https_lower format) as [r|] eqn:Eh.
  - (* https://origin/ *)
    apply strip_ci_inv in Eh as (q & -> & Hq). apply origin_then_slash_inv in Hs as (H & R & -> & Hne & Ha).
    destruct (origin_run_facts H Ha) as [_ Hp].
    assert (Hlit : forallb not_pct (q ++ H ++ [47]) = true).
    { rewrite forallb_app. apply andb_true_iff. split; [|rewrite forallb_app, Hp; reflexivity].
      apply forallb_forall. intros y Hy.
      assert (Hin : In (ascii_lower y) https_lower) by (rewrite <- Hq; apply in_map; exact Hy).
      unfold https_lower in Hin. unfold not_pct, ascii_lower in *. cbn [In] in Hin.
      destruct ((65 <=? y) && (y <=? 90)) eqn:E; lia. }
    replace (q ++ H ++ 47 :: R) with ((q ++ H ++ [47]) ++ R) by (rewrite <- !app_assoc; reflexivity).
    destruct (HF1 _ R Hlit) as [-> ->]. rewrite <- !app_assoc. cbn [app].
    destruct (parse_https q H (F R) Hq Ha) as (A1 & A2 & A3).
    destruct (parse_https q H (G R) Hq Ha) as (B1 & B2 & B3).
    rewrite A1, A2, B1, B2. split; [reflexivity|]. split; [reflexivity|].
    apply (confined_core _ _ _ _ A3 B3). apply HF3.
  - destruct format as [|a [|c r]]; try discriminate. destruct (a =? 47) eqn:Ea.
    + apply N.eqb_eq in Ea. subst a. destruct (c =? 47) eqn:Ec.
      * (* //origin/ *)
        apply N.eqb_eq in Ec. subst c. apply origin_then_slash_inv in Hs as (H & R & -> & Hne & Ha).
        destruct (origin_run_facts H Ha) as [_ Hp].
        assert (Hlit : forallb not_pct ([47; 47] ++ H ++ [47]) = true) by (rewrite !forallb_app, Hp; reflexivity).
        replace (47 :: 47 :: H ++ 47 :: R) with (([47; 47] ++ H ++ [47]) ++ R)
          by (cbn [app]; rewrite <- !app_assoc; reflexivity).
        destruct (HF1 _ R Hlit) as [-> ->]. rewrite <- !app_assoc. cbn [app].
        destruct (parse_slashes H (F R) Ha) as (A1 & A2 & A3).
        destruct (parse_slashes H (G R) Ha) as (B1 & B2 & B3).
        rewrite A1, A2, B1, B2. split; [reflexivity|]. split; [reflexivity|].
        apply (confined_core _ _ _ _ A3 B3). apply HF3.
      * (* /pathStart *)
        destruct (HF2 c r eq_refl Ec) as [-> ->].
        destruct (parse_path c (F r) Ec) as (A1 & A2 & A3).
        destruct (parse_path c (G r) Ec) as (B1 & B2 & B3).
        rewrite A1, A2, B1, B2. split; [reflexivity|]. split; [reflexivity|].
        apply (confined_core _ _ _ _ A3 B3).
        unfold skel. cbn [filter]. destruct (keep3 c); [f_equal|]; apply HF3.
    + (* about:blank# *)
      destruct (strip_ci about_lower (a :: c :: r)) as [R|] eqn:Eab; [|discriminate].
      apply strip_ci_inv in Eab as (q & Eq & Hq). rewrite Eq.
      assert (Hlit : forallb not_pct q = true).
      { apply forallb_forall. intros y Hy.
        assert (Hin : In (ascii_lower y) about_lower) by (rewrite <- Hq; apply in_map; exact Hy).
        unfold about_lower in Hin. unfold not_pct, ascii_lower in *. cbn [In] in Hin.
        destruct ((65 <=? y) && (y <=? 90)) eqn:E; lia. }
      destruct (HF1 _ R Hlit) as [-> ->].
      destruct (parse_about q (F R) Hq) as (A1 & A2 & A3 & A4 & A5).
      destruct (parse_about q (G R) Hq) as (B1 & B2 & B3 & B4 & B5).
      unfold has_query, has_fragment. rewrite A1, A2, A3, A4, A5, B1, B2, B3, B4, B5. repeat split; reflexivity.
Qed.

Lemma confined_components (format : bytes) f :
  (forall l, forallb not_gen_stop (f l) = true) ->
  spec_safe_prefix format = true -> finding_D14 format = false ->
  let o := subst_markers f format in
  let o0 := with_x format in
  uri_scheme o = uri_scheme o0 /\ uri_authority o = uri_authority o0 /\
  length (segments (uri_path o)) = length (segments (uri_path o0)) /\
  has_query o = has_query o0 /\ has_fragment o = has_fragment o0.
Proof.
  intros Hf Hs H14. unfold with_x, subst_markers.
  apply (components_general format (subst_from f O) (subst_from (fun _ => [120]) O)); [| | |exact Hs].
  - intros w r Hw. split; apply subst_from_lits; exact Hw.
  - intros c r -> Ec. unfold finding_D14 in H14. cbn [N.eqb Pos.eqb andb] in H14.
    destruct (marker_at (c :: r)) as [[l r']|] eqn:Em; [discriminate|].
    split; rewrite (subst_from_none _ 47 _ (marker_at_not_pct 47 _ eq_refl)), (subst_from_none _ c r Em); reflexivity.
  - intros r. apply skel_subst; [exact Hf | intros; reflexivity].
Qed.

Lemma append_components (t u v : bytes) :
  forallb not_gen_stop u = true -> forallb not_gen_stop v = true -> spec_safe_prefix t = true ->
  let o := t ++ u in
  let o0 := t ++ v in
  uri_scheme o = uri_scheme o0 /\ uri_authority o = uri_authority o0 /\
  length (segments (uri_path o)) = length (segments (uri_path o0)) /\
  has_query o = has_query o0 /\ has_fragment o = has_fragment o0.
Proof.
  intros Hu Hv Hs.
  apply (components_general t (fun r => r ++ u) (fun r => r ++ v)); [| | |exact Hs].
  - intros w r _. rewrite <- !app_assoc. split; reflexivity.
  - intros c r -> _. split; reflexivity.
  - intros r. rewrite !skel_app, (skel_clean _ Hu), (skel_clean _ Hv). reflexivity.
Qed.

Lemma confined_partial format args o : tru_format format args = Some o ->
  finding_D22 format = false -> finding_D14 format = false ->
  finding_D10 format args = false -> finding_D23 format args = false ->
  let o0 := with_x format in
  uri_scheme o = uri_scheme o0 /\ uri_authority o = uri_authority o0 /\
  length (segments (uri_path o)) = length (segments (uri_path o0)) /\
  has_query o = has_query o0 /\ has_fragment o = has_fragment o0 /\
  (climb O (skipn (static_dir_len format) (segments (uri_path o)))
   <= climb O (skipn (static_dir_len format) (segments (uri_path o0))))%nat.
Proof.
  intros Hfmt H22 H14 H10 H23. cbv zeta.
  destruct (format_subst _ _ _ Hfmt) as (Hsafe & Ho & Hl).
  pose proof (safe_prefix_documented _ Hsafe H22) as Hs.
  pose proof (args_pass_intro _ _ Hl) as Hp.
  unfold finding_D10 in H10. unfold finding_D23 in H23. rewrite Hp in H10, H23. cbn [andb] in H10, H23.
  unfold expected_result in H10, H23. rewrite <- Ho in H10, H23.
  destruct (confined_components format (fun l => spec_escape (arg_or_empty args l))
              (fun l => escape_clean _) Hs H14) as (C1 & C2 & C3 & C4 & C5).
  rewrite <- Ho in C1, C2, C3, C4, C5.
  repeat split; try assumption. apply no_new_dots_climb; assumption.
Qed.

Lemma append_confined_partial t s o : tru_append t s = Some o ->
  finding_D22 t = false -> finding_D24 t s = false -> new_dot 1 (t ++ spec_escape s) (t ++ [120]) = false ->
  let o0 := t ++ [120] in
  spec_safe_prefix t = true /\
  uri_scheme o = uri_scheme o0 /\ uri_authority o = uri_authority o0 /\
  length (segments (uri_path o)) = length (segments (uri_path o0)) /\
  has_query o = has_query o0 /\ has_fragment o = has_fragment o0 /\
  forall k, (climb O (skipn k (segments (uri_path o))) <= climb O (skipn k (segments (uri_path o0))))%nat.
Proof.
  intros Happ H22 H24 H1. cbv zeta. destruct (append_spec _ _ _ Happ) as [Hsafe ->].
  pose proof (safe_prefix_documented _ Hsafe H22) as Hs.
  destruct (append_components t (spec_escape s) [120] (escape_clean s) eq_refl Hs) as (C1 & C2 & C3 & C4 & C5).
  repeat split; try assumption. intros k. apply no_new_dots_climb; assumption.
Qed.

(* ================================================================== *)
(* WithParams changes only the query component (RFC 3986 reading) *)
Definition stops_here p (X : bytes) : Prop := X = [] \/ exists c r, X = c :: r /\ p c = false.

Lemma take_while_ext p (h X : bytes) : stops_here p X -> take_while p (h ++ X) = take_while p h.
Proof.
  intros HX. induction h as [|c h IH]; cbn [app take_while].
  - destruct HX as [->|(c & r & -> & Hc)]; [reflexivity|]. cbn [take_while]. rewrite Hc. reflexivity.
  - destruct (p c); [rewrite IH|]; reflexivity.
Qed.

Lemma drop_while_ext p (h X : bytes) : stops_here p X -> drop_while p (h ++ X) = drop_while p h ++ X.
Proof.
  intros HX. induction h as [|c h IH]; cbn [app drop_while].
  - destruct HX as [->|(c & r & -> & Hc)]; [reflexivity|]. cbn [drop_while]. rewrite Hc. reflexivity.
  - destruct (p c); [exact IH | reflexivity].
Qed.

Lemma stops_weaken (p q : N -> bool) X : (forall c, p c = false -> q c = false) -> stops_here p X -> stops_here q X.
Proof. intros H [->|(c & r & -> & Hc)]; [left; reflexivity | right; exists c, r; split; [reflexivity | apply H; exact Hc]]. Qed.

Lemma path_stop_gen c : not_path_stop c = false -> not_gen_stop c = false.
Proof. unfold not_path_stop, not_gen_stop. lia. Qed.
Lemma path_stop_hier c : not_path_stop c = false -> not_hier_stop c = false.
Proof. unfold not_path_stop, not_hier_stop. lia. Qed.
Lemma path_stop_not_colon c : not_path_stop c = false -> (c =? 58) = false /\ (c =? 47) = false.
Proof. unfold not_path_stop. lia. Qed.

Lemma split_scheme_ext (h X : bytes) : stops_here not_path_stop X ->
  split_scheme (h ++ X) = (fst (split_scheme h), snd (split_scheme h) ++ X).
Proof.
  intros HX. unfold split_scheme.
  rewrite (take_while_ext _ h X (stops_weaken _ _ X path_stop_gen HX)).
  rewrite (drop_while_ext _ h X (stops_weaken _ _ X path_stop_gen HX)).
  destruct (take_while not_gen_stop h) as [|w0 w]; [reflexivity|].
  destruct (drop_while not_gen_stop h) as [|c r]; cbn [app].
  - destruct HX as [->|(c & r & -> & Hc)]; [cbn [fst snd]; rewrite !app_nil_r; reflexivity|].
    destruct (path_stop_not_colon c Hc) as [-> _]. reflexivity.
  - destruct (c =? 58); reflexivity.
Qed.

Lemma split_authority_ext (h X : bytes) : stops_here not_path_stop X ->
  split_authority (h ++ X) = (fst (split_authority h), snd (split_authority h) ++ X).
Proof.
  intros HX. unfold split_authority. destruct h as [|a [|b r]]; cbn [app].
  - destruct HX as [->|(c & r & -> & Hc)]; [reflexivity|]. destruct (path_stop_not_colon c Hc) as [_ Hs].
    destruct r as [|b r]; [reflexivity|]. rewrite Hs. reflexivity.
  - destruct HX as [->|(c & r & -> & Hc)]; [reflexivity|]. destruct (path_stop_not_colon c Hc) as [_ Hs].
    rewrite Hs, andb_false_r. reflexivity.
  - destruct ((a =? 47) && (b =? 47)); [|reflexivity].
    rewrite (take_while_ext _ r X (stops_weaken _ _ X path_stop_hier HX)).
    rewrite (drop_while_ext _ r X (stops_weaken _ _ X path_stop_hier HX)). reflexivity.
Qed.

Lemma drop_while_suffix_all p (s : bytes) : forallb p s = true -> forallb p (drop_while p s) = true.
Proof. intros H. destruct (take_while_app_nil p s H) as [_ ->]. reflexivity. Qed.

Lemma forallb_drop_while p q (s : bytes) : forallb q s = true -> forallb q (drop_while p s) = true.
Proof.
  induction s as [|c s IH]; intros H; [reflexivity|]. cbn [drop_while]. destruct (p c); [|exact H].
  cbn [forallb] in H. apply andb_true_iff in H as [_ H]. apply IH. exact H.
Qed.

(* the part of a reference in front of the first '?' or '#' fixes scheme, authority and path *)
Lemma hier_ext (h X : bytes) : forallb not_path_stop h = true -> stops_here not_path_stop X ->
  uri_scheme (h ++ X) = uri_scheme h /\ uri_authority (h ++ X) = uri_authority h /\
  uri_path (h ++ X) = uri_path h /\ uri_after_path (h ++ X) = X.
Proof.
  intros Hh HX.
  unfold uri_scheme, uri_authority, uri_path, uri_after_path, uri_after_authority, uri_after_scheme.
  rewrite (split_scheme_ext h X HX). cbn [fst snd]. rewrite (split_authority_ext _ X HX). cbn [fst snd].
  assert (H2 : forallb not_path_stop (snd (split_authority (snd (split_scheme h)))) = true).
  { assert (H1 : forallb not_path_stop (snd (split_scheme h)) = true).
    { unfold split_scheme. destruct (take_while not_gen_stop h) as [|w0 w]; [exact Hh|].
      destruct (drop_while not_gen_stop h) as [|c r] eqn:E; [exact Hh|].
      destruct (c =? 58); [|exact Hh]. cbn [snd].
      pose proof (forallb_drop_while not_gen_stop _ h Hh) as H. rewrite E in H. cbn [forallb] in H.
      apply andb_true_iff in H as [_ H]. exact H. }
    unfold split_authority. destruct (snd (split_scheme h)) as [|a [|b r]]; try exact H1.
    destruct ((a =? 47) && (b =? 47)); [|exact H1]. cbn [snd]. apply forallb_drop_while.
    cbn [forallb] in H1. apply andb_true_iff in H1 as [_ H1]. apply andb_true_iff in H1 as [_ H1]. exact H1. }
  rewrite (take_while_ext _ _ X HX), (drop_while_ext _ _ X HX).
  destruct (take_while_app_nil _ _ H2) as [-> ->]. repeat split; reflexivity.
Qed.

Lemma index_of_spec d (s : bytes) :
  match index_of d s with
  | None => forallb (fun c => negb (c =? d)) s = true
  | Some i => exists h q, s = h ++ d :: q /\ forallb (fun c => negb (c =? d)) h = true /\ i = length h
  end.
Proof.
  induction s as [|c s IH]; [reflexivity|]. cbn [index_of]. destruct (c =? d) eqn:E.
  - apply N.eqb_eq in E. subst. exists [], s. repeat split; reflexivity.
  - destruct (index_of d s) as [i|].
    + destruct IH as (h & q & -> & Hh & ->). exists (c :: h), q. cbn [app forallb length]. rewrite E, Hh. repeat split; reflexivity.
    + cbn [forallb]. rewrite E, IH. reflexivity.
Qed.

Lemma join_amp_no_hash (l : list bytes) : Forall (fun x => forallb not_hash x = true) l ->
  forallb not_hash (join_amp l) = true.
Proof.
  induction 1 as [|x l Hx Hl IH]; [reflexivity|]. cbn [join_amp]. destruct l as [|y l]; [exact Hx|].
  rewrite forallb_app, Hx. cbn [forallb andb]. exact IH.
Qed.

Lemma gen_stop_hash c : not_gen_stop c = true -> not_hash c = true.
Proof. unfold not_gen_stop, not_hash. lia. Qed.

Lemma param_string_no_hash kv : forallb not_hash (param_string kv) = true.
Proof.
  rewrite param_string_spec, forallb_app. cbn [forallb].
  assert (H : forall u, forallb not_hash (spec_escape u) = true).
  { intros u. apply forallb_forall. intros c Hc. pose proof (escape_clean u) as E. rewrite forallb_forall in E.
    apply gen_stop_hash, E, Hc. }
  rewrite !H. reflexivity.
Qed.

Lemma query_of_tail (q F : bytes) : forallb not_hash q = true -> (F = [] \/ exists r, F = 35 :: r) ->
  split_query (63 :: q ++ F) = (Some q, F).
Proof.
  intros Hq HF. unfold split_query. cbn [N.eqb Pos.eqb].
  assert (HS : stops_here not_hash F) by (destruct HF as [->|(r & ->)]; [left; reflexivity | right; exists 35, r; split; reflexivity]).
  rewrite (take_while_ext _ q F HS), (drop_while_ext _ q F HS).
  destruct (take_while_app_nil _ _ Hq) as [-> ->]. reflexivity.
Qed.

Lemma frag_stops (F : bytes) : (F = [] \/ exists r, F = 35 :: r) -> stops_here not_path_stop F.
Proof. intros [->|(r & ->)]; [left; reflexivity | right; exists 35, r; split; reflexivity]. Qed.

Lemma split_query_frag (F : bytes) : (F = [] \/ exists r, F = 35 :: r) -> split_query F = (None, F).
Proof. intros [->|(r & ->)]; reflexivity. Qed.

Lemma query_components (h Q1 Q2 F : bytes) :
  forallb not_path_stop h = true -> forallb not_hash Q1 = true -> forallb not_hash Q2 = true ->
  (F = [] \/ exists r, F = 35 :: r) ->
  let r := h ++ 63 :: Q1 ++ F in
  let t := h ++ 63 :: Q2 ++ F in
  uri_scheme r = uri_scheme t /\ uri_authority r = uri_authority t /\ uri_path r = uri_path t /\
  uri_fragment r = uri_fragment t /\ uri_query r = Some Q1 /\ uri_query t = Some Q2.
Proof.
  intros Hh H1 H2 HF. cbv zeta.
  assert (S1 : stops_here not_path_stop (63 :: Q1 ++ F)) by (right; eexists; eexists; split; reflexivity).
  assert (S2 : stops_here not_path_stop (63 :: Q2 ++ F)) by (right; eexists; eexists; split; reflexivity).
  destruct (hier_ext h _ Hh S1) as (A1 & A2 & A3 & A4). destruct (hier_ext h _ Hh S2) as (B1 & B2 & B3 & B4).
  unfold uri_query, uri_fragment. rewrite A1, A2, A3, A4, B1, B2, B3, B4.
  rewrite (query_of_tail _ F H1 HF), (query_of_tail _ F H2 HF). repeat split; reflexivity.
Qed.

Lemma with_params_components t ps :
  let r := tru_with_params t ps in
  let sp := sort_strings (map param_string (filter param_nonempty ps)) in
  uri_scheme r = uri_scheme t /\ uri_authority r = uri_authority t /\ uri_path r = uri_path t /\
  uri_fragment r = uri_fragment t /\
  (sp = [] -> r = t) /\
  (sp <> [] -> uri_query r = Some (match uri_query t with
                                   | None | Some [] => join_amp sp
                                   | Some q => q ++ 38 :: join_amp sp
                                   end)).
Proof.
  cbv zeta. destruct (with_params_formula t ps) as (Et & Hu & HF & _ & HP & Er). cbv zeta in *.
  set (url := fst (split_frag t)) in *. set (F := snd (split_frag t)) in *.
  set (sp := sort_strings (map param_string (filter param_nonempty ps))) in *.
  destruct sp as [|x sp'] eqn:Esp.
  { rewrite Er. repeat split; try reflexivity. intros H; contradiction. }
  set (J := join_amp (x :: sp')) in *.
  assert (HJ : forallb not_hash J = true).
  { apply join_amp_no_hash. rewrite Forall_forall. intros y Hy.
    assert (Hin : In y (map param_string (filter param_nonempty ps))) by (eapply Permutation_in; [exact HP | exact Hy]).
    apply in_map_iff in Hin as (kv & <- & _). apply param_string_no_hash. }
  cbv beta iota in Er. rewrite Er. unfold params_sep. pose proof (index_of_spec 63 url) as Hi.
  assert (P : forall c, negb (c =? 63) = true -> not_hash c = true -> not_path_stop c = true)
    by (intros c; unfold not_hash, not_path_stop; lia).
  clearbody url F J. clear Er Esp HP. subst t.
  destruct (index_of 63 url) as [i|].
  - destruct Hi as (h & q & Eu & Hh & ->).
    assert (Hq : forallb not_hash q = true /\ forallb not_path_stop h = true).
    { rewrite Eu, forallb_app in Hu. cbn [forallb] in Hu. apply andb_true_iff in Hu as [Hu1 Hu2].
      apply andb_true_iff in Hu2 as [_ Hu2]. split; [exact Hu2|].
      apply forallb_forall. intros c Hc. rewrite forallb_forall in Hh, Hu1. apply P; auto. }
    destruct Hq as [Hq Hh'].
    assert (Elen : Nat.eqb (S (length h)) (length url) = is_nil q).
    { rewrite Eu, app_length. cbn [length]. destruct q; cbn [length is_nil]; lia. }
    rewrite Elen. subst url. destruct q as [|c0 q']; cbn [is_nil]; rewrite <- ?app_assoc; cbn [app].
    + destruct (query_components h J [] F Hh' HJ eq_refl HF) as (C1 & C2 & C3 & C4 & C5 & C6). cbn [app] in *.
      rewrite C1, C2, C3, C4, C5, C6. repeat split; try reflexivity. intros; discriminate.
    + assert (HA : forallb not_hash (c0 :: q' ++ 38 :: J) = true).
      { cbn [forallb] in *. apply andb_true_iff in Hq as [-> Hq]. rewrite forallb_app, Hq. cbn [forallb]. rewrite HJ. reflexivity. }
      destruct (query_components h (c0 :: q' ++ 38 :: J) (c0 :: q') F Hh' HA Hq HF) as (C1 & C2 & C3 & C4 & C5 & C6).
      assert (E1 : (c0 :: q' ++ 38 :: J) ++ F = c0 :: q' ++ 38 :: J ++ F)
        by (cbn [app]; rewrite <- app_assoc; reflexivity).
      assert (E2 : (c0 :: q') ++ F = c0 :: q' ++ F) by reflexivity.
      rewrite E1, E2 in C1, C2, C3, C4. rewrite E1 in C5. rewrite E2 in C6.
      rewrite C1, C2, C3, C4, C5, C6. repeat split; try reflexivity. intros; discriminate.
  - assert (Hh' : forallb not_path_stop url = true).
    { apply forallb_forall. intros c Hc. rewrite forallb_forall in Hi, Hu. apply P; auto. }
    assert (S1 : stops_here not_path_stop ([63] ++ J ++ F)) by (right; eexists; eexists; split; reflexivity).
    destruct (hier_ext url _ Hh' S1) as (A1 & A2 & A3 & A4).
    destruct (hier_ext url _ Hh' (frag_stops F HF)) as (B1 & B2 & B3 & B4).
    unfold uri_query, uri_fragment. rewrite A1, A2, A3, A4, B1, B2, B3, B4.
    change ([63] ++ J ++ F) with (63 :: J ++ F).
    rewrite (query_of_tail _ F HJ HF), (split_query_frag F HF). cbn [fst snd].
    repeat split; try reflexivity. intros; discriminate.
Qed.

(* ================================================================== *)
(* the marker grammar of the scanner is the language of the regenerated marker pattern *)
Lemma marker_at_inv (s : bytes) l r : marker_at s = Some (l, r) ->
  l <> [] /\ forallb label_char l = true /\ s = 37 :: 123 :: l ++ 125 :: r.
Proof.
  unfold marker_at. destruct s as [|a [|b t]]; try discriminate.
  destruct ((a =? 37) && (b =? 123)) eqn:E; [|discriminate].
  apply andb_true_iff in E as [Ea Eb]. apply N.eqb_eq in Ea, Eb. subst a b.
  pose proof (take_drop label_char t) as Etd. pose proof (take_while_all label_char t) as Hall.
  destruct (take_while label_char t) as [|x l']; [discriminate|].
  destruct (drop_while label_char t) as [|c r']; [discriminate|].
  destruct (c =? 125) eqn:Ec; [|discriminate]. apply N.eqb_eq in Ec. subst c.
  intros H. injection H as <- <-. split; [discriminate|]. split; [exact Hall|]. rewrite <- Etd. reflexivity.
Qed.

Lemma marker_at_intro (l r : bytes) : l <> [] -> forallb label_char l = true ->
  marker_at (37 :: 123 :: l ++ 125 :: r) = Some (l, r).
Proof.
  intros Hne Hl. rewrite (marker_at_run l 125 r Hl eq_refl). destruct l; [contradiction | reflexivity].
Qed.

Lemma word_cls_label c : in_ranges c word_cls = true <-> label_char c = true.
Proof. unfold in_ranges, in_range, word_cls, label_char, is_alpha, is_digit. cbn. lia. Qed.

Lemma marker_exact_equiv w :
  accepts (Cat BeginText (Cat G_trustedResourceURLFormatMarkerPattern EndText)) w
  = accepts (Cat BeginText (Cat S_marker EndText)) w.
Proof.
  assert (H : equiv_ok (Cat BeginText (Cat G_trustedResourceURLFormatMarkerPattern EndText))
                       (Cat BeginText (Cat S_marker EndText)) = true) by (vm_compute; reflexivity).
  apply (equiv_ok_sound _ _ H).
Qed.

Lemma marker_regex_to_scanner (m : bytes) :
  accepts (Cat BeginText (Cat G_trustedResourceURLFormatMarkerPattern EndText)) m = true ->
  exists l, l <> [] /\ forallb label_char l = true /\ m = 37 :: 123 :: l ++ [125].
Proof.
  rewrite marker_exact_equiv. intros H. apply accepts_M in H.
  apply M_Cat_inv in H as (s1 & s2 & -> & HB & H). apply M_BeginText_inv in HB as [-> _]. cbn [app] in *.
  apply M_Cat_inv in H as (s3 & s4 & -> & H & HE). apply M_EndText_inv in HE as [-> _]. rewrite app_nil_r.
  unfold S_marker in H. apply M_Cat_inv in H as (u & v & -> & Hu & Hv).
  apply M_cls_seq_cons in Hu as (a & u1 & -> & Ha & Hu). apply M_cls_seq_cons in Hu as (b & u2 & -> & Hb & Hu).
  apply M_cls_seq_nil in Hu. subst u2. apply c1_eq in Ha, Hb. subst a b.
  apply M_Cat_inv in Hv as (x & y & -> & Hx & Hy). apply M_plus_cls in Hx as (c & cs & -> & Hc & Hcs).
  apply M_Cls_inv in Hy as (d & -> & Hd). apply c1_eq in Hd. subst d.
  exists (c :: cs). split; [discriminate|]. split; [|reflexivity].
  cbn [forallb]. apply andb_true_iff. split; [apply word_cls_label; exact Hc|].
  apply forallb_forall. intros z Hz. rewrite Forall_forall in Hcs. apply word_cls_label, Hcs, Hz.
Qed.

Lemma M_cls_seq_intro (s : list N) : forall l p n, Forall2 (fun c rs => in_ranges c rs = true) s l ->
  M (cls_seq l) p s n.
Proof.
  induction s as [|c s IH]; intros l p n HF; inversion HF as [|c' rs s' l' Hc HF']; subst; cbn [cls_seq]; [constructor|].
  change (c :: s) with ([c] ++ s). apply MCat; [apply MCls; exact Hc | apply IH; exact HF'].
Qed.

Lemma scanner_to_marker_regex (l : bytes) : l <> [] -> forallb label_char l = true ->
  accepts (Cat BeginText (Cat G_trustedResourceURLFormatMarkerPattern EndText)) (37 :: 123 :: l ++ [125]) = true.
Proof.
  intros Hne Hl. rewrite marker_exact_equiv. apply accepts_M.
  change (37 :: 123 :: l ++ [125]) with ([] ++ (37 :: 123 :: l ++ [125])). apply MCat; [constructor|].
  rewrite <- (app_nil_r (37 :: 123 :: l ++ [125])). apply MCat; [|constructor].
  unfold S_marker. change (37 :: 123 :: l ++ [125]) with ([37; 123] ++ (l ++ [125])). apply MCat.
  - apply M_cls_seq_intro. repeat constructor.
  - apply MCat; [|apply MCls; reflexivity].
    destruct l as [|c cs]; [contradiction|]. cbn [forallb] in Hl. apply andb_true_iff in Hl as [Hc Hcs].
    unfold plus. change (c :: cs) with ([c] ++ cs). apply MCat; [apply MCls; apply word_cls_label; exact Hc|].
    apply star_cls_M. rewrite Forall_forall. intros z Hz. rewrite forallb_forall in Hcs. apply word_cls_label, Hcs, Hz.
Qed.

Lemma marker_grammar : forall (s l r : bytes),
  marker_at s = Some (l, r) <->
  (s = 37 :: 123 :: l ++ 125 :: r /\
   accepts (Cat BeginText (Cat G_trustedResourceURLFormatMarkerPattern EndText)) (37 :: 123 :: l ++ [125]) = true).
Proof.
  intros s l r. split.
  - intros H. destruct (marker_at_inv s l r H) as (Hne & Hl & ->). split; [reflexivity|].
    apply scanner_to_marker_regex; assumption.
  - intros [-> H]. apply marker_regex_to_scanner in H as (l' & Hne & Hl & E).
    assert (l' = l).
    { injection E as E. apply (f_equal (@rev N)) in E. rewrite !rev_app_distr in E. cbn in E. injection E as E.
      apply (f_equal (@rev N)) in E. rewrite !rev_involutive in E. congruence. }
    subst l'. apply marker_at_intro; assumption.
Qed.

(* ================================================================== *)
(* the statements of props/C13.v that combine several facts *)
Lemma escape_spec_clean : forall s : bytes,
  query_escape_url s = spec_escape s /\ forallb not_gen_stop (query_escape_url s) = true.
Proof. intros s. rewrite query_escape_spec. split; [reflexivity | apply escape_clean]. Qed.

Lemma escape_no_delimiters : forall (s : bytes) c, wf_bytes s -> In c (query_escape_url s) ->
  c <> 58 /\ c <> 47 /\ c <> 63 /\ c <> 35 /\ c <> 91 /\ c <> 93 /\ c <> 64 /\ c <> 92.
Proof.
  intros s c Hs Hin. rewrite query_escape_spec in Hin.
  exact (delimiter_free_excludes _ c (escape_delimiter_free s Hs) Hin).
Qed.

Lemma scanner_spec : forall (format : bytes) f,
  fill f (tru_pieces format) = subst_markers f format /\ piece_labels (tru_pieces format) = marker_labels format.
Proof.
  intros format f. rewrite tru_pieces_spec. unfold subst_markers, marker_labels.
  rewrite subst_from_pieces, labels_from_pieces. split; reflexivity.
Qed.

Lemma unsafe_prefix_rejected : forall format args t s,
  (is_safe_tru_prefix format = false -> tru_format format args = None) /\
  (is_safe_tru_prefix t = false -> tru_append t s = None).
Proof. intros. split; [apply format_unsafe_prefix | apply append_unsafe]. Qed.

(* ================================================================== *)
(* non-vacuity: the builders do succeed, the hypotheses of the partial theorems are satisfiable,
   and the classic attacks are stopped *)
Example format_accepts :
  tru_format (B "/path/%{a}/%{b}") [(B "a", B "x/y"); (B "b", B "?q#f")] = Some (B "/path/x%2fy/%3fq%23f").
Proof. vm_compute. reflexivity. Qed.
Example format_doc_example :
  tru_format (B "//www.youtube.com/v/%{id}?hl=%{lang}") [(B "id", B "abc0def1"); (B "lang", B "en")]
  = Some (B "//www.youtube.com/v/abc0def1?hl=en").
Proof. vm_compute. reflexivity. Qed.
Example lone_dot_is_classified_D23 :
  let f := B "https://h.example/d/%{a}/%{b}.js" in let args := [(B "a", B "."); (B "b", B "x")] in
  tru_format f args = Some (B "https://h.example/d/./x.js") /\
  finding_D22 f = false /\ finding_D14 f = false /\ finding_D10 f args = false /\ finding_D23 f args = true.
Proof. vm_compute. repeat split; reflexivity. Qed.
Example partial_hypotheses_satisfiable_2 :
  let f := B "https://h.example/d/%{a}/%{b}.js" in let args := [(B "a", B "%2e/.."); (B "b", B "")] in
  tru_format f args = None.
Proof. vm_compute. reflexivity. Qed.
Example partial_hypotheses_satisfiable_3 :
  let f := B "/d/%{a}%{b}/f" in let args := [(B "a", B "%2e"); (B "b", B "/\?#")] in
  tru_format f args = Some (B "/d/%252e%2f%5c%3f%23/f") /\
  finding_D22 f = false /\ finding_D14 f = false /\ finding_D10 f args = false /\ finding_D23 f args = false.
Proof. vm_compute. repeat split; reflexivity. Qed.
Example format_rejects_dotdot : tru_format (B "/d/%{a}/f") [(B "a", B "%2E.")] = None.
Proof. vm_compute. reflexivity. Qed.
Example format_rejects_missing : tru_format (B "/d/%{a}/%{b}") [(B "a", B "1")] = None.
Proof. vm_compute. reflexivity. Qed.
Example format_rejects_scheme : tru_format (B "javascript:%{a}") [(B "a", B "1")] = None.
Proof. vm_compute. reflexivity. Qed.
Example format_error_kept_and_overwritten :
  snd (tru_format_raw (B "/a/%{b}/%{a}/%{c}") [(B "a", B ".."); (B "c", B "x")]) = Some (ErrDotDot (B "a")) /\
  snd (tru_format_raw (B "/a/%{b}/%{c}") [(B "a", B "1")]) = Some (ErrMissing (B "b")).
Proof. vm_compute. split; reflexivity. Qed.
Example scanner_examples :
  tru_pieces (B "%{a%{b}%{}%{a b}") =
  lits (B "%{a") ++ [Mark (B "b")] ++ lits (B "%{}%{a b}").
Proof. vm_compute. reflexivity. Qed.
Example append_accepts : tru_append (B "https://h.example/d/") (B "a b/c") = Some (B "https://h.example/d/a%20b%2fc").
Proof. vm_compute. reflexivity. Qed.
Example append_rejects : tru_append (B "http://h.example/d/") (B "x") = None.
Proof. vm_compute. reflexivity. Qed.
Example params_example :
  tru_with_params (B "/a?x=1#f?g") [(B "b", B "1"); (B "a&", B "2="); (B "", B "x"); (B "c", B "")] = B "/a?x=1&a%26=2%3d&b=1#f?g" /\
  tru_with_params (B "/a?x=1#f?g") [(B "c", B ""); (B "a&", B "2="); (B "b", B "1"); (B "", B "x")] = B "/a?x=1&a%26=2%3d&b=1#f?g" /\
  tru_with_params (B "/a?") [(B "k", B "v")] = B "/a?k=v" /\ tru_with_params (B "/a") [] = B "/a".
Proof. vm_compute. repeat split; reflexivity. Qed.
