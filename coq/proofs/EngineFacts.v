(* Facts about the API state machine model/Engine.v used by C05, C06, C07. *)
From V Require Import lib.Base gen.GenTemplate model.GoStrings model.TContext model.TTransition
     model.TEscapeText model.TSanitize model.TTree model.TEscaper model.Engine.
From Coq Require Import ZifyNat.
Local Open Scope N_scope.

(* ---- heaps ---- *)
Lemma nth_set_nth_same {A} (d : A) n x l : nth n (set_nth d n x l) d = x.
Proof.
  revert l; induction n as [|n IH]; intros [|h t]; simpl; auto.
Qed.

Lemma nth_set_nth_other {A} (d : A) n m x l : n <> m -> nth m (set_nth d n x l) d = nth m l d.
Proof.
  revert m l; induction n as [|n IH]; intros [|m] [|h t] Hne; simpl; auto; try congruence.
  - destruct m; reflexivity.
  - rewrite IH by congruence. destruct m; reflexivity.
Qed.

Lemma get_ns_put_ns_same w n x : get_ns (put_ns w n x) n = x.
Proof. unfold get_ns, put_ns; simpl. apply nth_set_nth_same. Qed.
Lemma get_ns_put_ns_other w n m x : n <> m -> get_ns (put_ns w n x) m = get_ns w m.
Proof. intros H. unfold get_ns, put_ns; simpl. apply nth_set_nth_other; exact H. Qed.
Lemma get_tmpl_put_tmpl_same w o t : get_tmpl (put_tmpl w o t) o = t.
Proof. unfold get_tmpl, put_tmpl; simpl. apply nth_set_nth_same. Qed.
Lemma get_tmpl_put_tmpl_other w o o' t : o <> o' -> get_tmpl (put_tmpl w o t) o' = get_tmpl w o'.
Proof. intros H. unfold get_tmpl, put_tmpl; simpl. apply nth_set_nth_other; exact H. Qed.
Lemma get_text_put_text_same w i x : get_text (put_text w i x) i = x.
Proof. unfold get_text, put_text; simpl. apply nth_set_nth_same. Qed.

(* frames: which heaps an update leaves alone *)
Lemma ns_of_put_text w i x : w_ns (put_text w i x) = w_ns w. Proof. reflexivity. Qed.
Lemma ns_of_put_tmpl w i x : w_ns (put_tmpl w i x) = w_ns w. Proof. reflexivity. Qed.
Lemma ns_of_put_common w i x : w_ns (put_common w i x) = w_ns w. Proof. reflexivity. Qed.
Lemma tmpl_of_put_text w i x : w_tmpl (put_text w i x) = w_tmpl w. Proof. reflexivity. Qed.
Lemma tmpl_of_put_ns w i x : w_tmpl (put_ns w i x) = w_tmpl w. Proof. reflexivity. Qed.
Lemma tmpl_of_put_common w i x : w_tmpl (put_common w i x) = w_tmpl w. Proof. reflexivity. Qed.
Lemma handles_of_put_text w i x : w_handles (put_text w i x) = w_handles w. Proof. reflexivity. Qed.
Lemma handles_of_put_tmpl w i x : w_handles (put_tmpl w i x) = w_handles w. Proof. reflexivity. Qed.
Lemma handles_of_put_ns w i x : w_handles (put_ns w i x) = w_handles w. Proof. reflexivity. Qed.

Lemma add_parse_tree_frame w tid name tr :
  w_ns (add_parse_tree w tid name tr) = w_ns w /\ w_tmpl (add_parse_tree w tid name tr) = w_tmpl w
  /\ w_handles (add_parse_tree w tid name tr) = w_handles w.
Proof.
  unfold add_parse_tree.
  destruct (bytes_eqb name (x_name (get_text w tid))); cbn [new_text];
    repeat match goal with
           | |- context [if ?b then _ else _] => destruct b
           | |- context [match ?x with Some _ => _ | None => _ end] => destruct x
           end; cbn; auto.
Qed.

Lemma fold_frame {A} (f : world -> A -> world) (l : list A) :
  (forall w a, w_ns (f w a) = w_ns w /\ w_tmpl (f w a) = w_tmpl w /\ w_handles (f w a) = w_handles w) ->
  forall w, w_ns (fold_left f l w) = w_ns w /\ w_tmpl (fold_left f l w) = w_tmpl w
            /\ w_handles (fold_left f l w) = w_handles w.
Proof.
  intros Hf. induction l as [|a l IH]; intros w; simpl; [auto|].
  destruct (IH (f w a)) as (H1 & H2 & H3). destruct (Hf w a) as (G1 & G2 & G3).
  rewrite H1, H2, H3, G1, G2, G3. auto.
Qed.

(* commit only rewrites trees and the escaper of its own name space *)
Lemma commit_frame w nsid :
  w_tmpl (commit w nsid) = w_tmpl w /\ w_handles (commit w nsid) = w_handles w /\
  n_escaped (get_ns (commit w nsid) nsid) = n_escaped (get_ns w nsid) /\
  n_set (get_ns (commit w nsid) nsid) = n_set (get_ns w nsid) /\
  (forall m, m <> nsid -> get_ns (commit w nsid) m = get_ns w m).
Proof.
  unfold commit. destruct (n_set (get_ns w nsid)) as [|[nm o] rest] eqn:Es.
  { rewrite Es. auto. }
  set (f1 := fun (w0 : world) (kv : bytes * option tree) => _).
  set (w1 := fold_left f1 _ w).
  set (f2 := fun (w0 : world) (name : bytes) => _).
  set (w2 := fold_left f2 _ w1).
  assert (F1 : w_ns w1 = w_ns w /\ w_tmpl w1 = w_tmpl w /\ w_handles w1 = w_handles w).
  { apply fold_frame. intros w0 [k v]. unfold f1. cbn [fst snd].
    destruct v; [|auto].
    destruct (assoc_get k _); [auto | apply add_parse_tree_frame]. }
  assert (F2 : w_ns w2 = w_ns w1 /\ w_tmpl w2 = w_tmpl w1 /\ w_handles w2 = w_handles w1).
  { apply fold_frame. intros w0 name. unfold f2.
    destruct (assoc_get name _); [|auto]. destruct (x_tree _); auto. }
  destruct F1 as (A1 & A2 & A3). destruct F2 as (B1 & B2 & B3).
  assert (Hns : forall m, get_ns w2 m = get_ns w m).
  { intros m. unfold get_ns. rewrite B1, A1. reflexivity. }
  cbn [w_tmpl w_handles put_ns]. rewrite B2, A2, B3, A3.
  split; [reflexivity|]. split; [reflexivity|].
  split; [rewrite get_ns_put_ns_same; cbn; rewrite Hns; reflexivity|].
  split; [rewrite get_ns_put_ns_same; cbn; rewrite Hns; exact Es|].
  intros m Hm. rewrite get_ns_put_ns_other by congruence. apply Hns.
Qed.

(* escapeTemplate never clears the escaped flag, never touches other name spaces' flags or the handles *)
Lemma escape_template_frame w nsid name :
  let w' := fst (escape_template w nsid name) in
  w_handles w' = w_handles w /\
  n_escaped (get_ns w' nsid) = n_escaped (get_ns w nsid) /\
  n_set (get_ns w' nsid) = n_set (get_ns w nsid).
Proof.
  unfold escape_template.
  destruct (ns_view w nsid) as [view|]; [|cbn; auto].
  destruct (escape_tree view analysis_fuel ctx0 name (n_esc (get_ns w nsid))) as [[[c dn] e1]|p]; [|cbn; auto].
  set (w1 := put_ns w nsid _).
  assert (H1 : w_handles w1 = w_handles w /\ n_escaped (get_ns w1 nsid) = n_escaped (get_ns w nsid)
               /\ n_set (get_ns w1 nsid) = n_set (get_ns w nsid)).
  { unfold w1. rewrite get_ns_put_ns_same. cbn. auto. }
  destruct H1 as (Ha & Hb & Hc).
  destruct (match c_err c with Some code => Some code | None => if state_eqb (c_state c) StText then None else Some ErrEndContext end) as [code|].
  - destruct (assoc_get name (n_set (get_ns w nsid))) as [o|]; cbn [fst]; [|auto].
    unfold get_ns in *. cbn [w_ns put_text put_tmpl w_handles]. auto.
  - destruct (commit_frame w1 nsid) as (C1 & C2 & C3 & C4 & _).
    destruct (assoc_get name (n_set (get_ns w nsid))) as [o|]; cbn [fst].
    + unfold get_ns in *. cbn [w_ns put_tmpl w_handles]. rewrite C2, C3, C4. auto.
    + rewrite C2, C3, C4. auto.
Qed.

Lemma set_escaped_spec w nsid :
  n_escaped (get_ns (set_escaped w nsid) nsid) = true /\ w_handles (set_escaped w nsid) = w_handles w
  /\ w_tmpl (set_escaped w nsid) = w_tmpl w /\ n_set (get_ns (set_escaped w nsid) nsid) = n_set (get_ns w nsid).
Proof. unfold set_escaped. rewrite get_ns_put_ns_same. cbn. auto. Qed.

(* ---- C07: definitions freeze at first execution ---- *)
Theorem parse_after_execute_fails w h obj p :
  handle w h = Some obj -> n_escaped (get_ns w (h_ns (get_tmpl w obj))) = true ->
  step w (OParse h p) = (w, RErrCannotParse).
Proof. intros Hh He. unfold step. rewrite Hh, He. reflexivity. Qed.

Theorem execute_freezes w h obj :
  handle w h = Some obj ->
  n_escaped (get_ns (fst (step w (OExecute h))) (h_ns (get_tmpl w obj))) = true.
Proof.
  intros Hh. unfold step. rewrite Hh.
  set (t := get_tmpl w obj). set (nsid := h_ns t).
  destruct (set_escaped_spec w nsid) as (E1 & E2 & E3 & E4).
  destruct (h_err t); cbn [fst]; try exact E1.
  destruct (h_tree_nil t); cbn [fst]; [exact E1|].
  pose proof (escape_template_frame (set_escaped w nsid) nsid
               (x_name (get_text (set_escaped w nsid) (h_text t)))) as (F1 & F2 & F3).
  destruct (escape_template (set_escaped w nsid) nsid _) as [w2 [[[code|]|p]|]]; cbn [fst] in *;
    rewrite F2; exact E1.
Qed.

Theorem execute_template_freezes w h obj name :
  handle w h = Some obj ->
  n_escaped (get_ns (fst (step w (OExecuteTemplate h name))) (h_ns (get_tmpl w obj))) = true.
Proof.
  intros Hh. unfold step. rewrite Hh.
  set (t := get_tmpl w obj). set (nsid := h_ns t).
  destruct (set_escaped_spec w nsid) as (E1 & E2 & E3 & E4).
  destruct (assoc_get name (n_set (get_ns (set_escaped w nsid) nsid))) as [m|]; cbn [fst]; [|exact E1].
  destruct (h_err (get_tmpl (set_escaped w nsid) m)) eqn:Ee; cbn [fst]; try exact E1;
    destruct (x_tree (get_text (set_escaped w nsid) (h_text (get_tmpl (set_escaped w nsid) m)))); cbn [fst]; try exact E1;
    destruct (assoc_get name (get_common (set_escaped w nsid) _)); cbn [fst]; try exact E1.
  pose proof (escape_template_frame (set_escaped w nsid) nsid name) as (F1 & F2 & F3).
  destruct (escape_template (set_escaped w nsid) nsid name) as [w2 [[[code|]|p]|]]; cbn [fst] in *;
    rewrite F2; exact E1.
Qed.

Theorem clone_after_execute_fails w h obj :
  handle w h = Some obj -> h_err (get_tmpl w obj) <> ENotYet ->
  step w (OClone h) = (w, RErrCannotClone).
Proof.
  intros Hh He. unfold step. rewrite Hh. destruct (h_err (get_tmpl w obj)); [congruence | reflexivity | reflexivity].
Qed.

(* ---- C05: a failed analysis is sticky and nothing is executed ---- *)
Theorem sticky_execute w h obj code :
  handle w h = Some obj -> h_err (get_tmpl w obj) = EErr code ->
  snd (step w (OExecute h)) = RErrEscape code /\
  h_err (get_tmpl (fst (step w (OExecute h))) obj) = EErr code.
Proof.
  intros Hh He. unfold step. rewrite Hh, He. cbn [fst snd]. split; [reflexivity|].
  unfold set_escaped, get_tmpl. cbn. exact He.
Qed.

Theorem sticky_execute_template w h obj name m code :
  handle w h = Some obj ->
  assoc_get name (n_set (get_ns w (h_ns (get_tmpl w obj)))) = Some m ->
  h_err (get_tmpl w m) = EErr code ->
  snd (step w (OExecuteTemplate h name)) = RErrEscape code.
Proof.
  intros Hh Hm He. unfold step. rewrite Hh.
  destruct (set_escaped_spec w (h_ns (get_tmpl w obj))) as (E1 & E2 & E3 & E4).
  rewrite E4, Hm.
  assert (Hg : get_tmpl (set_escaped w (h_ns (get_tmpl w obj))) m = get_tmpl w m)
    by reflexivity.
  rewrite Hg, He. reflexivity.
Qed.

(* the first failure records the error on the member and removes its trees: the body is never run *)
Theorem first_failure_recorded w nsid name w' code o :
  escape_template w nsid name = (w', Some (AOk (Some code))) ->
  assoc_get name (n_set (get_ns w nsid)) = Some o ->
  h_err (get_tmpl w' o) = EErr code /\ h_tree_nil (get_tmpl w' o) = true /\
  x_tree (get_text w' (h_text (get_tmpl w' o))) = None.
Proof.
  unfold escape_template. intros H Ho.
  destruct (ns_view w nsid) as [view|]; [|discriminate].
  destruct (escape_tree view analysis_fuel ctx0 name (n_esc (get_ns w nsid))) as [[[c dn] e1]|p]; [|discriminate].
  destruct (match c_err c with Some c0 => Some c0 | None => if state_eqb (c_state c) StText then None else Some ErrEndContext end) as [c0|].
  - rewrite Ho in H. cbv zeta in H. inversion H; subst. clear H.
    assert (Hp : forall W i X o', get_tmpl (put_text W i X) o' = get_tmpl W o') by reflexivity.
    rewrite !Hp, !get_tmpl_put_tmpl_same. cbn [h_err h_tree_nil h_text].
    repeat split; auto.
    rewrite get_text_put_text_same. reflexivity.
  - rewrite Ho in H. inversion H.
Qed.

(* ---- C06: repeating a successful execution returns the same answer ---- *)
Theorem execute_idempotent w h obj :
  handle w h = Some obj -> h_err (get_tmpl w obj) = EEscOK ->
  let '(w1, r1) := step w (OExecute h) in
  let '(w2, r2) := step w1 (OExecute h) in
  r1 = RExec (h_text (get_tmpl w obj)) /\ r2 = r1.
Proof.
  intros Hh He. unfold step. rewrite Hh, He.
  set (nsid := h_ns (get_tmpl w obj)).
  destruct (set_escaped_spec w nsid) as (E1 & E2 & E3 & E4).
  assert (Hh' : handle (set_escaped w nsid) h = Some obj) by (unfold handle in *; rewrite E2; exact Hh).
  rewrite Hh'.
  assert (Hg : get_tmpl (set_escaped w nsid) obj = get_tmpl w obj) by reflexivity.
  rewrite Hg, He. split; reflexivity.
Qed.
