(* C15: proofs about model/Style.v against spec/StyleSpec.v. *)
From V Require Import lib.Base lib.Regex lib.RegexDecide lib.Utf8 gen.GenRegex gen.GenStyle
  spec.CssSyntax model.Url model.Style spec.StyleSpec.
From V Require Import proofs.RegexFacts proofs.RegexDecideFacts proofs.RegexSpecs proofs.Utf8Facts proofs.CssUtf8Facts.
From Coq Require Import ZArith Arith ZifyBool ZifyN ZifyNat.
Local Open Scope N_scope.
Ltac Zify.zify_post_hook ::= idtac.

(* ------------------------------------------------------------------ side conditions on regenerated data *)
Lemma fields_ok_ok : fields_ok = true. Proof. vm_compute. reflexivity. Qed.
Lemma innocuous_ok_ok : innocuous_ok = true. Proof. vm_compute. reflexivity. Qed.
Lemma bridge_regular_comma_ok : bridge_regular_comma = true. Proof. vm_compute. reflexivity. Qed.
Lemma bridge_regular_chars_ok : bridge_regular_chars = true. Proof. vm_compute. reflexivity. Qed.
Lemma bridge_enum_ok : bridge_enum = true. Proof. vm_compute. reflexivity. Qed.
Lemma bridge_font_ident_ok : bridge_font_ident = true. Proof. vm_compute. reflexivity. Qed.

(* ------------------------------------------------------------------ structure: the regenerated order is the documented one *)
Lemma triple_eqb_eq a b : triple_eqb a b = true <-> a = b.
Proof.
  destruct a as [[a1 a2] a3], b as [[b1 b2] b3]. unfold triple_eqb. simpl.
  rewrite !andb_true_iff, !bytes_eqb_eq, N.eqb_eq. split.
  - intros [[-> ->] ->]. reflexivity.
  - intros E. inversion E. auto.
Qed.

Lemma fields_parts :
  named_style_fields = documented_fields /\ style_struct_fields = documented_names /\
  nodupb style_struct_fields = true /\
  forallb (fun e => Nat.ltb (N.to_nat (fst (fst e))) (length style_struct_fields)) style_fields = true.
Proof.
  pose proof fields_ok_ok as H. unfold fields_ok in H.
  apply andb_true_iff in H as [H H5]. apply andb_true_iff in H as [H H4].
  apply andb_true_iff in H as [H H3]. apply andb_true_iff in H as [_ H2].
  split; [|split; [|split]]; try assumption.
  - apply (list_eqb_eq triple_eqb triple_eqb_eq). exact H2.
  - apply (list_eqb_eq bytes_eqb bytes_eqb_eq). exact H3.
Qed.

Lemma existsb_bytes_false x l : existsb (bytes_eqb x) l = false -> forall y, In y l -> bytes_eqb y x = false.
Proof.
  intros H y Hy. destruct (bytes_eqb y x) eqn:E; [|reflexivity].
  apply bytes_eqb_eq in E. subst y.
  assert (existsb (bytes_eqb x) l = true) as C.
  { apply existsb_exists. exists x. split; [exact Hy | apply bytes_eqb_refl]. }
  congruence.
Qed.

Lemma lookup_nth names : nodupb names = true -> forall (p : list pv) i,
  (i < length names)%nat -> lookup_by_name names p (nth i names []) = nth_error p i.
Proof.
  induction names as [|n names IH]; intros Hnd p i Hi; [simpl in Hi; lia|].
  simpl in Hnd. apply andb_true_iff in Hnd as [Hn Hnd]. apply negb_true_iff in Hn.
  destruct p as [|v p]; destruct i as [|i]; simpl; try reflexivity.
  - rewrite bytes_eqb_refl. reflexivity.
  - simpl in Hi. assert (Hi' : (i < length names)%nat) by lia.
    destruct (bytes_eqb n (nth i names [])) eqn:E.
    + apply bytes_eqb_eq in E.
      pose proof (existsb_bytes_false _ _ Hn (nth i names []) (nth_In _ _ Hi')) as C.
      rewrite <- E, bytes_eqb_refl in C. discriminate.
    + apply IH; assumption.
Qed.

Lemma emit_field_doc p e :
  Nat.ltb (N.to_nat (fst (fst e))) (length style_struct_fields) = true ->
  emit_field p e =
  doc_emit p (let '(ix, css, kind) := e in (nth (N.to_nat ix) style_struct_fields [], css, kind)).
Proof.
  destruct e as [[ix css] kind]. cbn [fst]. intros Hi. apply Nat.ltb_lt in Hi.
  destruct fields_parts as (_ & Hs & Hnd & _).
  unfold doc_emit, field_by_name, emit_field. rewrite <- Hs.
  rewrite (lookup_nth _ Hnd p _ Hi). reflexivity.
Qed.

Lemma flat_map_map {A C D} (g : A -> C) (f : C -> list D) l :
  flat_map f (map g l) = flat_map (fun x => f (g x)) l.
Proof. induction l as [|x l IH]; simpl; [reflexivity | rewrite IH; reflexivity]. Qed.

Lemma flat_map_ext_in {A C} (f g : A -> list C) l :
  (forall x, In x l -> f x = g x) -> flat_map f l = flat_map g l.
Proof.
  induction l as [|x l IH]; intros H; simpl; [reflexivity|].
  rewrite (H x) by (left; reflexivity). rewrite IH; [reflexivity|].
  intros y Hy. apply H. right. exact Hy.
Qed.

(* the model's output is the concatenation, in the DOCUMENTED order and under the DOCUMENTED
   names, of one chunk name:value; per non-empty field *)
Theorem style_structure p : style_from_properties p = flat_map (doc_emit p) documented_fields.
Proof.
  destruct fields_parts as (Hn & _ & _ & Hix).
  rewrite <- Hn. unfold named_style_fields, style_from_properties. rewrite flat_map_map.
  apply flat_map_ext_in. intros e He. rewrite forallb_forall in Hix.
  apply emit_field_doc. apply Hix. exact He.
Qed.

(* ------------------------------------------------------------------ the documented language as a regular expression *)
Definition sigma_of (cls : list (N * N)) (c : N) : bool := in_ranges c cls || (c =? 42) || (c =? 47).
Definition is_slash_star (c : N) : bool := (c =? 42) || (c =? 47).

(* [good cls s n]: s is over cls + '/' + '*', has no comment marker, and if it ends with '/' or '*'
   nothing follows *)
Definition ends_open (s : list N) : bool :=
  match last_or s None with Some c => is_slash_star c | None => false end.
Definition good (cls : list (N * N)) (s : list N) (n : option N) : Prop :=
  forallb (sigma_of cls) s = true /\ no_comment_marker s = true /\ (ends_open s = true -> n = None).

Definition marker_pair (x y : N) : bool :=
  ((x =? 47) && (y =? 47)) || ((x =? 47) && (y =? 42)) || ((x =? 42) && (y =? 47)).
Lemma ncm_cons2 x y r :
  no_comment_marker (x :: y :: r) = negb (marker_pair x y) && no_comment_marker (y :: r).
Proof. reflexivity. Qed.

Lemma no_marker_app a b :
  no_comment_marker a = true -> no_comment_marker b = true ->
  (ends_open a = false \/ b = []) -> no_comment_marker (a ++ b) = true.
Proof.
  intros Ha Hb Hab. destruct Hab as [Hab| ->]; [|rewrite app_nil_r; exact Ha].
  induction a as [|x a IH]; [exact Hb|].
  destruct a as [|y a].
  - destruct b as [|z b]; [reflexivity|]. cbn [app]. rewrite ncm_cons2.
    unfold ends_open in Hab. simpl in Hab. unfold is_slash_star in Hab.
    apply andb_true_iff. split; [|exact Hb]. unfold marker_pair.
    destruct (x =? 47) eqn:E1; destruct (x =? 42) eqn:E2; simpl in *; try discriminate; reflexivity.
  - cbn [app]. rewrite ncm_cons2. rewrite ncm_cons2 in Ha.
    apply andb_true_iff in Ha as [Ha1 Ha2]. rewrite Ha1. cbn [andb].
    apply (IH Ha2). unfold ends_open in *. simpl in Hab. simpl. exact Hab.
Qed.

Lemma last_or_nonempty {A} (s : list A) d d' : s <> [] -> last_or s d = last_or s d'.
Proof. destruct s as [|x s]; [congruence|]. intros _. reflexivity. Qed.

Lemma ends_open_app a b : b <> [] -> ends_open (a ++ b) = ends_open b.
Proof.
  intros Hb. unfold ends_open. rewrite last_or_app.
  rewrite (last_or_nonempty b _ None Hb). reflexivity.
Qed.

Lemma ncm_stars t : Forall (fun c => c = 42) t -> no_comment_marker t = true.
Proof.
  induction 1 as [|x t Hx Ht IH]; [reflexivity|]. subst x.
  destruct t as [|y t]; [reflexivity|]. rewrite ncm_cons2. rewrite IH.
  inversion Ht; subst. reflexivity.
Qed.

Lemma ncm_stars_then t a : Forall (fun c => c = 42) t -> is_slash_star a = false ->
  no_comment_marker (t ++ [a]) = true.
Proof.
  intros Ht Ha. induction Ht as [|x t Hx Ht IH]; [reflexivity|]. subst x.
  destruct t as [|y t].
  - cbn [app]. rewrite ncm_cons2. unfold marker_pair, is_slash_star in *.
    destruct (a =? 47); destruct (a =? 42); simpl in *; try discriminate; reflexivity.
  - cbn [app] in *. rewrite ncm_cons2. rewrite IH. inversion Ht; subst. reflexivity.
Qed.

Section DocLang.
Variable cls : list (N * N).
Hypothesis cls_safe : forall c, in_ranges c cls = true -> is_slash_star c = false.

Let tailr : regex := Alt (Cls cls) EndText.
Let item : regex :=
  Alt (Cls cls) (Alt (Cat (plus (Cls [(42, 42)])) tailr) (Cat (Cls [(47, 47)]) tailr)).

Lemma sigma_cls c : in_ranges c cls = true -> sigma_of cls c = true.
Proof. intros H. unfold sigma_of. rewrite H. reflexivity. Qed.

Lemma in_single c x : in_ranges c [(x, x)] = true -> c = x.
Proof. unfold in_ranges, in_range. simpl. lia. Qed.

Lemma tail_inv p s n : M tailr p s n ->
  (exists a, s = [a] /\ in_ranges a cls = true) \/ (s = [] /\ n = None).
Proof.
  intros H. apply M_Alt_inv in H as [H|H].
  - apply M_Cls_inv in H as (a & -> & Ha). left. eauto.
  - apply M_EndText_inv in H. right. exact H.
Qed.

Lemma item_good p s n : M item p s n -> good cls s n.
Proof.
  intros H. apply M_Alt_inv in H as [H|H]; [|apply M_Alt_inv in H as [H|H]].
  - apply M_Cls_inv in H as (a & -> & Ha). pose proof (cls_safe a Ha) as Hs.
    unfold good. simpl. rewrite (sigma_cls a Ha). unfold ends_open. simpl. rewrite Hs.
    repeat split; try reflexivity. discriminate.
  - apply M_Cat_inv in H as (s1 & s2 & -> & H1 & H2).
    unfold plus in H1. apply M_Cat_inv in H1 as (x & t & -> & Hx & Ht).
    apply M_Cls_inv in Hx as (c & -> & Hc). apply in_single in Hc. subst c.
    apply M_star_cls in Ht.
    assert (Hst : Forall (fun c => c = 42) ([42] ++ t)).
    { constructor; [reflexivity|]. eapply Forall_impl; [|exact Ht]. intros c Hc. apply in_single. exact Hc. }
    assert (Hsig : forallb (sigma_of cls) ([42] ++ t) = true).
    { apply forallb_forall. intros c Hc. rewrite Forall_forall in Hst. rewrite (Hst c Hc).
      unfold sigma_of. simpl. rewrite orb_false_r. apply orb_true_r. }
    apply tail_inv in H2 as [(a & -> & Ha)|[-> ->]].
    + pose proof (cls_safe a Ha) as Hs. unfold good. repeat split.
      * rewrite forallb_app, Hsig. simpl. rewrite (sigma_cls a Ha). reflexivity.
      * apply ncm_stars_then; assumption.
      * rewrite ends_open_app by discriminate. unfold ends_open. simpl. rewrite Hs. discriminate.
    + rewrite app_nil_r. unfold good. repeat split; [exact Hsig | apply ncm_stars; exact Hst].
  - apply M_Cat_inv in H as (s1 & s2 & -> & H1 & H2).
    apply M_Cls_inv in H1 as (c & -> & Hc). apply in_single in Hc. subst c.
    apply tail_inv in H2 as [(a & -> & Ha)|[-> ->]].
    + pose proof (cls_safe a Ha) as Hs. unfold good. simpl. rewrite (sigma_cls a Ha).
      unfold sigma_of, ends_open. simpl. rewrite Hs. rewrite orb_true_r.
      repeat split; try discriminate.
      unfold is_slash_star in Hs. destruct (a =? 47); destruct (a =? 42); simpl in *; try discriminate; reflexivity.
    + unfold good, sigma_of. simpl. rewrite orb_true_r. repeat split; reflexivity.
Qed.

Lemma star_item_good p s n : M (Star item) p s n -> good cls s n.
Proof.
  remember (Star item) as r eqn:E. intros H. revert E.
  induction H; intros E; try discriminate.
  - unfold good, ends_open. simpl. repeat split; discriminate.
  - inversion E; subst a. clear E.
    match goal with H : M item _ _ _ |- _ => apply item_good in H; destruct H as (G1 & G2 & G3) end.
    destruct (IHM2 eq_refl) as (K1 & K2 & K3).
    destruct s2 as [|z s2].
    + rewrite app_nil_r. simpl in G3. unfold good. auto.
    + unfold good. repeat split.
      * rewrite forallb_app, G1, K1. reflexivity.
      * apply no_marker_app; [exact G2 | exact K2 |]. left.
        destruct (ends_open s1) eqn:Eo; [|reflexivity]. specialize (G3 eq_refl). discriminate.
      * rewrite ends_open_app by discriminate. exact K3.
Qed.

Lemma doc_lang_good w : accepts (S_doc_of cls) w = true ->
  forallb (sigma_of cls) w = true /\ no_comment_marker w = true.
Proof.
  intros H. apply accepts_M in H. unfold S_doc_of in H.
  apply M_Cat_inv in H as (s1 & s2 & -> & H1 & H2).
  apply M_BeginText_inv in H1 as [-> _]. simpl in *.
  apply M_Cat_inv in H2 as (s3 & s4 & -> & H3 & H4).
  apply M_EndText_inv in H4 as [-> _]. rewrite app_nil_r.
  apply star_item_good in H3. destruct H3 as (G1 & G2 & _). auto.
Qed.
End DocLang.

(* ------------------------------------------------------------------ filter *)
Lemma comma_cls_safe c : in_ranges c doc_safe_comma_cls = true -> is_slash_star c = false.
Proof. unfold in_ranges, in_range, doc_safe_comma_cls, is_slash_star. simpl. lia. Qed.

Lemma sigma_comma_spec c : sigma_of doc_safe_comma_cls c = true ->
  is_doc_regular_char_comma c = true /\ c < 128.
Proof.
  unfold sigma_of, in_ranges, in_range, doc_safe_comma_cls, is_doc_regular_char_comma,
    is_doc_regular_char, is_alnum. simpl. lia.
Qed.

Lemma forallb_ascii_decode (P : N -> bool) v :
  (forall c, P c = true -> c < 128) -> forallb P (decode_runes v) = true -> decode_runes v = v.
Proof.
  intros HP H. apply decode_all_ascii. rewrite forallb_forall in H.
  apply Forall_forall. intros c Hc. apply HP. apply H. exact Hc.
Qed.

(* what the regular pattern lets through *)
Lemma regular_match_spec v :
  go_match G_safeRegularPropertyValuePattern (decode_runes v) = true ->
  forallb is_doc_regular_char_comma v = true /\ no_comment_marker v = true.
Proof.
  intros H. apply (incl_ok_sound _ _ bridge_regular_comma_ok) in H.
  apply (doc_lang_good _ comma_cls_safe) in H as [H1 H2].
  assert (E : decode_runes v = v).
  { eapply forallb_ascii_decode; [|exact H1]. intros c Hc. apply sigma_comma_spec in Hc. tauto. }
  rewrite E in *. split; [|exact H2].
  apply forallb_forall. intros c Hc. rewrite forallb_forall in H1. apply sigma_comma_spec. auto.
Qed.

Lemma doc_regular_of_comma v :
  forallb is_doc_regular_char_comma v = true -> no_comment_marker v = true ->
  finding_D11 v = false -> doc_regular v = true.
Proof.
  intros H1 H2 H3. unfold finding_D11 in H3. rewrite H1, H2, !andb_true_r in H3.
  unfold doc_regular. rewrite H2, andb_true_r.
  apply forallb_forall. intros c Hc. rewrite forallb_forall in H1. specialize (H1 c Hc).
  unfold is_doc_regular_char_comma in H1. apply orb_true_iff in H1 as [H1|H1]; [exact H1|].
  apply N.eqb_eq in H1. subst c.
  assert (existsb (N.eqb 44) v = true) by (apply existsb_exists; exists 44; split; [exact Hc | reflexivity]).
  congruence.
Qed.

Lemma enum_cls_spec c : in_ranges c doc_enum_cls = true -> is_doc_enum_char c = true /\ c < 128.
Proof. unfold in_ranges, in_range, doc_enum_cls, is_doc_enum_char. simpl. lia. Qed.

Lemma enum_match_spec v :
  go_match G_safeEnumPropertyValuePattern (decode_runes v) = true -> doc_enum v = true.
Proof.
  intros H. apply (incl_ok_sound _ _ bridge_enum_ok) in H. apply accepts_all_cls in H.
  assert (E : decode_runes v = v).
  { apply decode_all_ascii. eapply Forall_impl; [|exact H]. intros c Hc. apply enum_cls_spec in Hc. tauto. }
  rewrite E in H. unfold doc_enum. apply forallb_forall. intros c Hc. rewrite Forall_forall in H.
  apply enum_cls_spec. auto.
Qed.

Lemma font_ident_match_spec v :
  go_match G_identifierPattern (decode_runes v) = true -> doc_font_ident v = true.
Proof.
  intros H. apply (incl_ok_sound _ _ bridge_font_ident_ok) in H. apply accepts_M in H.
  unfold S_doc_font_ident in H.
  apply M_Cat_inv in H as (s1 & s2 & E0 & H1 & H2).
  apply M_BeginText_inv in H1 as [-> _]. simpl in *.
  apply M_Cat_inv in H2 as (s3 & s4 & -> & H3 & H4).
  apply M_Cls_inv in H3 as (c & -> & Hc).
  apply M_Cat_inv in H4 as (s5 & s6 & -> & H5 & H6).
  apply M_EndText_inv in H6 as [-> _]. rewrite app_nil_r in E0.
  apply M_star_cls in H5.
  assert (Ha : Forall (fun c => c < 128) (decode_runes v)).
  { rewrite E0. constructor.
    - unfold in_ranges, in_range in Hc. simpl in Hc. lia.
    - eapply Forall_impl; [|exact H5]. intros x Hx. apply enum_cls_spec in Hx. tauto. }
  apply decode_all_ascii in Ha. rewrite Ha in E0. subst v. simpl.
  apply andb_true_iff. split.
  - unfold in_ranges, in_range in Hc. simpl in Hc. unfold is_latin. lia.
  - apply forallb_forall. intros x Hx. rewrite Forall_forall in H5. apply enum_cls_spec. auto.
Qed.

Lemma filter_regular_spec v :
  (filter_value G_safeRegularPropertyValuePattern v = v /\
   forallb is_doc_regular_char_comma v = true /\ no_comment_marker v = true) \/
  filter_value G_safeRegularPropertyValuePattern v = innocuous_property_value.
Proof.
  unfold filter_value.
  destruct (go_match G_safeRegularPropertyValuePattern (decode_runes v)) eqn:E; [left|right; reflexivity].
  split; [reflexivity | apply regular_match_spec; exact E].
Qed.

Lemma filter_enum_spec v :
  (filter_value G_safeEnumPropertyValuePattern v = v /\ doc_enum v = true) \/
  filter_value G_safeEnumPropertyValuePattern v = innocuous_property_value.
Proof.
  unfold filter_value.
  destruct (go_match G_safeEnumPropertyValuePattern (decode_runes v)) eqn:E; [left|right; reflexivity].
  split; [reflexivity | apply enum_match_spec; exact E].
Qed.

Lemma innocuous_eq : innocuous_property_value = documented_innocuous.
Proof.
  pose proof innocuous_ok_ok as H. unfold innocuous_ok in H.
  apply andb_true_iff in H as [_ H]. apply bytes_eqb_eq. exact H.
Qed.

(* ------------------------------------------------------------------ cssEscapeString *)
Definition esc_runes (c : N) : list N :=
  if c =? 0 then [FFFD] else if css_must_escape c then 92 :: hex6 c else [c].

Lemma hex_digit_upper_range d : d < 16 ->
  (48 <= hex_digit_upper d <= 57 \/ 65 <= hex_digit_upper d <= 70) /\ hex_val (hex_digit_upper d) = d
  /\ is_hex (hex_digit_upper d) = true.
Proof.
  intros Hd. unfold hex_digit_upper.
  destruct (d <? 10) eqn:E.
  - unfold hex_val, is_hex, is_digit.
    replace ((48 <=? 48 + d) && (48 + d <=? 57)) with true by lia. cbn [orb]. lia.
  - unfold hex_val, is_hex, is_digit.
    replace ((48 <=? 55 + d) && (55 + d <=? 57)) with false by lia.
    replace (55 + d <=? 70) with true by lia.
    replace ((65 <=? 55 + d) && true) with true by lia. cbn [orb]. lia.
Qed.

Definition hexb (b : N) : Prop := (48 <= b <= 57 \/ 65 <= b <= 70) /\ is_hex b = true.

Lemma hex6_shape c : exists d0 d1 d2 d3 d4 d5,
  hex6 c = [d0; d1; d2; d3; d4; d5] /\ hexb d0 /\ hexb d1 /\ hexb d2 /\ hexb d3 /\ hexb d4 /\ hexb d5 /\
  (c < 16777216 -> hex_value [d0; d1; d2; d3; d4; d5] = c).
Proof.
  unfold hex6. do 6 eexists. split; [reflexivity|].
  assert (Hm : forall x, x mod 16 < 16) by (intros x; apply N.mod_lt; lia).
  pose proof (hex_digit_upper_range _ (Hm (c / 1048576))) as (A0 & B0 & C0).
  pose proof (hex_digit_upper_range _ (Hm (c / 65536))) as (A1 & B1 & C1).
  pose proof (hex_digit_upper_range _ (Hm (c / 4096))) as (A2 & B2 & C2).
  pose proof (hex_digit_upper_range _ (Hm (c / 256))) as (A3 & B3 & C3).
  pose proof (hex_digit_upper_range _ (Hm (c / 16))) as (A4 & B4 & C4).
  pose proof (hex_digit_upper_range _ (Hm c)) as (A5 & B5 & C5).
  unfold hexb. repeat split; try assumption.
  intros Hc. unfold hex_value. cbn [fold_left]. rewrite B0, B1, B2, B3, B4, B5.
  clear A0 A1 A2 A3 A4 A5 B0 B1 B2 B3 B4 B5 C0 C1 C2 C3 C4 C5.
  assert (Hd : forall x, x = 16 * (x / 16) + x mod 16) by (intros x; apply N.div_mod; lia).
  replace (c / 256) with (c / 16 / 16) by (rewrite N.div_div by lia; reflexivity).
  replace (c / 4096) with (c / 16 / 16 / 16) by (rewrite !N.div_div by lia; reflexivity).
  replace (c / 65536) with (c / 16 / 16 / 16 / 16) by (rewrite !N.div_div by lia; reflexivity).
  replace (c / 1048576) with (c / 16 / 16 / 16 / 16 / 16) by (rewrite !N.div_div by lia; reflexivity).
  pose proof (Hd c) as E0. pose proof (Hm c) as M0. set (x1 := c / 16) in *.
  pose proof (Hd x1) as E1. pose proof (Hm x1) as M1. set (x2 := x1 / 16) in *.
  pose proof (Hd x2) as E2. pose proof (Hm x2) as M2. set (x3 := x2 / 16) in *.
  pose proof (Hd x3) as E3. pose proof (Hm x3) as M3. set (x4 := x3 / 16) in *.
  pose proof (Hd x4) as E4. pose proof (Hm x4) as M4. set (x5 := x4 / 16) in *.
  pose proof (Hd x5) as E5. pose proof (Hm x5) as M5. set (x6 := x5 / 16) in *.
  clearbody x1 x2 x3 x4 x5 x6. clear Hd Hm.
  generalize dependent (c mod 16). generalize dependent (x1 mod 16). generalize dependent (x2 mod 16).
  generalize dependent (x3 mod 16). generalize dependent (x4 mod 16). generalize dependent (x5 mod 16).
  intros. lia.
Qed.

Lemma hexb_ascii b : hexb b -> b < 128. Proof. unfold hexb. lia. Qed.

Lemma fffd_bytes : [239; 191; 189] = encode_rune FFFD. Proof. reflexivity. Qed.
Lemma fffd_valid : valid_rune FFFD. Proof. unfold valid_rune, FFFD, is_surrogate. lia. Qed.

Lemma must_escape_bound c : css_must_escape c = true -> c < 16777216.
Proof. unfold css_must_escape. lia. Qed.

Lemma decode_escape_rune c r : valid_rune c ->
  decode_runes (css_escape_rune c ++ r) = esc_runes c ++ decode_runes r.
Proof.
  intros Hv. unfold css_escape_rune, esc_runes.
  destruct (c =? 0); [rewrite fffd_bytes; apply (decode_encode _ _ fffd_valid)|].
  destruct (css_must_escape c).
  - destruct (hex6_shape c) as (d0 & d1 & d2 & d3 & d4 & d5 & -> & H0 & H1 & H2 & H3 & H4 & H5 & _).
    cbn [app].
    rewrite !decode_ascii by (first [lia | apply hexb_ascii; assumption]). reflexivity.
  - apply decode_encode. exact Hv.
Qed.

Lemma decode_escape_runes l r : Forall valid_rune l ->
  decode_runes (flat_map css_escape_rune l ++ r) = flat_map esc_runes l ++ decode_runes r.
Proof.
  induction 1 as [|c l Hc Hl IH]; [reflexivity|].
  cbn [flat_map]. rewrite <- !app_assoc. rewrite decode_escape_rune by exact Hc. rewrite IH. reflexivity.
Qed.

(* the runes of the escaped text *)
Lemma decode_css_escape_string s r :
  decode_runes (css_escape_string s ++ r) = flat_map esc_runes (decode_runes s) ++ decode_runes r.
Proof. apply decode_escape_runes. apply decode_runes_valid. Qed.

(* ---- preprocessing leaves the escaped text alone ---- *)
Definition pp_ok (c : N) : Prop :=
  (c =? 13) = false /\ (c =? 12) = false /\ (c =? 0) = false /\ is_surrogate c = false.

Lemma preprocess_id l : Forall pp_ok l -> preprocess l = l.
Proof.
  induction 1 as [|c l (H1 & H2 & H3 & H4) Hl IH]; [reflexivity|].
  cbn [preprocess]. rewrite H1, H2, H3, H4. cbn [orb]. rewrite IH. reflexivity.
Qed.

Lemma hexb_pp b : hexb b -> pp_ok b.
Proof. unfold hexb, pp_ok, is_surrogate. lia. Qed.

Lemma esc_runes_pp c : valid_rune c -> Forall pp_ok (esc_runes c).
Proof.
  intros [Hm Hs]. unfold esc_runes.
  destruct (c =? 0) eqn:E0.
  { repeat constructor; unfold FFFD, is_surrogate; lia. }
  destruct (css_must_escape c) eqn:E1.
  - destruct (hex6_shape c) as (d0 & d1 & d2 & d3 & d4 & d5 & -> & H0 & H1 & H2 & H3 & H4 & H5 & _).
    repeat constructor; try (apply hexb_pp; assumption); unfold is_surrogate; lia.
  - repeat constructor; try assumption; unfold css_must_escape in E1; lia.
Qed.

Lemma flat_esc_pp l : Forall valid_rune l -> Forall pp_ok (flat_map esc_runes l).
Proof.
  induction 1 as [|c l Hc Hl IH]; [constructor|].
  cbn [flat_map]. apply Forall_app. split; [apply esc_runes_pp; exact Hc | exact IH].
Qed.

(* ---- CSS Syntax 4.3.5 / 4.3.7 on the escaped text ---- *)
Definition unesc (l : list N) : list N := swallow_spaces (nul_to_fffd l).

Lemma swallow_cons_plain c r : is_doc_escaped c = false -> swallow_spaces (c :: r) = c :: swallow_spaces r.
Proof. intros H. destruct r as [|d r]; [reflexivity|]. cbn [swallow_spaces]. rewrite H. reflexivity. Qed.

Lemma swallow_cons_nospace c r : (match r with d :: _ => d =? 32 | [] => false end) = false ->
  swallow_spaces (c :: r) = c :: swallow_spaces r.
Proof.
  intros H. destruct r as [|d r]; [reflexivity|]. cbn [swallow_spaces]. rewrite H, andb_false_r. reflexivity.
Qed.

Lemma must_escape_doc c : (c =? 0) = false -> css_must_escape c = is_doc_escaped c.
Proof. intros H. unfold css_must_escape, is_doc_escaped. lia. Qed.

Lemma take_hex5 d1 d2 d3 d4 d5 r : hexb d1 -> hexb d2 -> hexb d3 -> hexb d4 -> hexb d5 ->
  take_hex 5 (d1 :: d2 :: d3 :: d4 :: d5 :: r) = ([d1; d2; d3; d4; d5], r).
Proof.
  intros [_ H1] [_ H2] [_ H3] [_ H4] [_ H5]. cbn [take_hex]. rewrite H1, H2, H3, H4, H5.
  destruct r; reflexivity.
Qed.

(* the first rune of the escaped form of a rune other than U+0020 is not white space *)
Lemma esc_head_not_ws c (rest : list N) : valid_rune c -> (c =? 32) = false ->
  exists h t, esc_runes c ++ rest = h :: t /\ is_ws h = false.
Proof.
  intros Hv H32. unfold esc_runes.
  destruct (c =? 0) eqn:E0; [eexists; eexists; split; [reflexivity|reflexivity]|].
  destruct (css_must_escape c) eqn:E1; [eexists; eexists; split; [reflexivity|reflexivity]|].
  eexists; eexists; split; [reflexivity|]. unfold css_must_escape in E1. unfold is_ws. lia.
Qed.

Lemma consume_string_escaped n : forall l, (length l <= n)%nat -> Forall valid_rune l ->
  forall acc fuel rest, (length (flat_map esc_runes l) < fuel)%nat ->
  consume_string fuel 34 acc (flat_map esc_runes l ++ 34 :: rest) = (TString (rev acc ++ unesc l) true, rest).
Proof.
  induction n as [|n IH]; intros l Hlen Hv acc fuel rest Hf.
  { destruct l; [|simpl in Hlen; lia]. destruct fuel; [simpl in Hf; lia|].
    simpl. rewrite app_nil_r. reflexivity. }
  destruct l as [|c l'].
  { destruct fuel; [simpl in Hf; lia|]. simpl. rewrite app_nil_r. reflexivity. }
  inversion Hv as [|? ? Hc Hv']; subst. simpl in Hlen.
  destruct fuel as [|f]; [simpl in Hf; lia|].
  cbn [flat_map] in *. rewrite app_length in Hf. rewrite <- app_assoc.
  unfold esc_runes at 1. unfold esc_runes at 1 in Hf.
  destruct (c =? 0) eqn:E0.
  { (* NUL: U+FFFD is appended *)
    cbn [app consume_string]. change (FFFD =? 34) with false. change (is_newline FFFD) with false.
    change (FFFD =? 92) with false. cbn iota.
    rewrite IH; [| lia | exact Hv' | simpl in Hf; lia].
    f_equal. f_equal. cbn [rev]. rewrite <- app_assoc. cbn [app]. f_equal.
    unfold unesc. cbn [nul_to_fffd map]. rewrite E0. symmetry. apply swallow_cons_plain. reflexivity. }
  destruct (css_must_escape c) eqn:E1.
  - (* a six-digit escape *)
    pose proof (must_escape_bound c E1) as Hb.
    destruct (hex6_shape c) as (d0 & d1 & d2 & d3 & d4 & d5 & Eh & H0 & H1 & H2 & H3 & H4 & H5 & Hval).
    rewrite Eh in *. specialize (Hval Hb).
    cbn [app consume_string]. change (92 =? 34) with false. change (is_newline 92) with false.
    change (92 =? 92) with true. cbn iota.
    assert (Hn0 : is_newline d0 = false) by (destruct H0 as [H0 _]; unfold is_newline; lia).
    rewrite Hn0. unfold consume_escaped. destruct H0 as [H0r H0h]. rewrite H0h.
    rewrite take_hex5 by assumption. rewrite Hval.
    destruct Hc as [Hmax Hsur]. rewrite E0, Hsur.
    replace (1114111 <? c) with false by lia. cbn [orb].
    rewrite (must_escape_doc c E0) in E1.
    destruct l' as [|c' l''].
    + (* end of the string *)
      cbn [flat_map app]. change (is_ws 34) with false. cbn iota.
      destruct f; [simpl in Hf; lia|]. cbn [consume_string]. change (34 =? 34) with true. cbn iota.
      f_equal. f_equal. unfold unesc. cbn [nul_to_fffd map]. rewrite E0. cbn [rev swallow_spaces].
      reflexivity.
    + destruct (c' =? 32) eqn:E32.
      * (* the swallowed space: defect D25 *)
        apply N.eqb_eq in E32. subst c'. cbn [flat_map]. change (esc_runes 32) with [32].
        cbn [app]. change (is_ws 32) with true. cbn iota.
        inversion Hv' as [|? ? _ Hv'']; subst.
        rewrite IH; [| simpl in Hlen; lia | exact Hv'' | cbn [flat_map] in Hf; change (esc_runes 32) with [32] in Hf; cbn [app length] in Hf; lia].
        f_equal. f_equal. cbn [rev]. rewrite <- app_assoc. cbn [app]. f_equal.
        unfold unesc. cbn [nul_to_fffd map]. rewrite E0. change (32 =? 0) with false. cbn iota.
        cbn [swallow_spaces]. rewrite E1. change (32 =? 32) with true. reflexivity.
      * inversion Hv' as [|? ? Hc' Hv'']; subst.
        cbn [flat_map]. rewrite <- app_assoc.
        destruct (esc_head_not_ws c' (flat_map esc_runes l'' ++ 34 :: rest) Hc' E32) as (h & t & Eht & Hws).
        rewrite Eht. rewrite Hws. rewrite <- Eht. rewrite app_assoc.
        change (esc_runes c' ++ flat_map esc_runes l'') with (flat_map esc_runes (c' :: l'')).
        rewrite IH; [| simpl in Hlen; simpl; lia | exact Hv' | cbn [length] in Hf; lia].
        f_equal. f_equal. cbn [rev]. rewrite <- app_assoc. cbn [app]. f_equal.
        unfold unesc. cbn [nul_to_fffd map]. rewrite E0.
        symmetry. apply swallow_cons_nospace. destruct (c' =? 0) eqn:E0'; [reflexivity | exact E32].
  - (* an ordinary rune *)
    cbn [app consume_string].
    assert (H34 : (c =? 34) = false) by (unfold css_must_escape in E1; lia).
    assert (H10 : is_newline c = false) by (unfold css_must_escape in E1; unfold is_newline; lia).
    assert (H92 : (c =? 92) = false) by (unfold css_must_escape in E1; lia).
    rewrite H34, H10, H92.
    rewrite IH; [| lia | exact Hv' | simpl in Hf; lia].
    f_equal. f_equal. cbn [rev]. rewrite <- app_assoc. cbn [app]. f_equal.
    unfold unesc. cbn [nul_to_fffd map]. rewrite E0. symmetry. apply swallow_cons_plain.
    rewrite <- (must_escape_doc c E0). exact E1.
Qed.

(* round trip through the CSS string grammar: the escaped text, read as the inside of a
   double-quoted CSS string, means the input's runes with NUL -> U+FFFD -- except that a U+0020
   right after an escaped rune is swallowed (defect D25) *)
Theorem css_escape_round_trip_gen s :
  css_unescape_string (css_escape_string s) = Some (swallow_spaces (nul_to_fffd (decode_runes s))).
Proof.
  unfold css_unescape_string, string_value.
  pose proof (decode_css_escape_string s []) as E. rewrite app_nil_r in E. cbn [decode_runes] in E.
  rewrite app_nil_r in E. rewrite E.
  rewrite preprocess_id by (apply flat_esc_pp; apply decode_runes_valid).
  rewrite (consume_string_escaped (length (decode_runes s)) (decode_runes s)); [reflexivity | lia | apply decode_runes_valid | lia].
Qed.

Theorem css_escape_round_trip s : finding_D25 s = false ->
  css_unescape_string (css_escape_string s) = Some (nul_to_fffd (decode_runes s)).
Proof.
  intros H. rewrite css_escape_round_trip_gen. f_equal.
  unfold finding_D25, finding_D25_runes in H. apply negb_false_iff in H.
  apply (list_eqb_eq N.eqb) in H; [exact H|]. intros x y. apply N.eqb_eq.
Qed.

(* "..." around the escaped text is exactly one terminated string token *)
Theorem css_escape_one_token s :
  css_tokens ([34] ++ css_escape_string s ++ [34]) =
  [TString (swallow_spaces (nul_to_fffd (decode_runes s))) true].
Proof.
  unfold css_tokens. cbn [app]. rewrite decode_ascii by lia.
  rewrite decode_css_escape_string. change (decode_runes [34]) with [34].
  set (X := flat_map esc_runes (decode_runes s)).
  assert (HX : Forall pp_ok X) by (apply flat_esc_pp; apply decode_runes_valid).
  assert (Hp : preprocess (34 :: X ++ [34]) = 34 :: X ++ [34]).
  { apply preprocess_id. constructor; [unfold pp_ok, is_surrogate; lia|].
    apply Forall_app. split; [exact HX|]. repeat constructor; unfold is_surrogate; lia. }
  rewrite Hp. unfold tokenize. cbn [length tokenize_fuel consume_token].
  change (34 =? 47) with false. change (is_ws 34) with false. change (34 =? 34) with true. cbn [andb].
  cbv iota. unfold X.
  rewrite (consume_string_escaped (length (decode_runes s)) (decode_runes s));
    [| lia | apply decode_runes_valid | rewrite app_length; simpl; lia].
  cbn [rev app]. destruct (length (X ++ [34])); reflexivity.
Qed.

(* byte level: nothing that could end the string or the style element *)
Lemma css_escape_rune_bytes c : valid_rune c ->
  Forall (fun b => b <> 60 /\ b <> 34 /\ b <> 0 /\ 32 <= b) (css_escape_rune c).
Proof.
  intros [Hm Hs]. unfold css_escape_rune.
  destruct (c =? 0) eqn:E0; [repeat constructor; lia|].
  destruct (css_must_escape c) eqn:E1.
  - destruct (hex6_shape c) as (d0 & d1 & d2 & d3 & d4 & d5 & -> & H0 & H1 & H2 & H3 & H4 & H5 & _).
    unfold hexb in *. repeat constructor; lia.
  - destruct (N.lt_ge_cases c 128) as [Hc|Hc].
    + unfold encode_rune. replace (c <? 128) with true by lia.
      unfold css_must_escape in E1. repeat constructor; lia.
    + eapply Forall_impl; [|apply encode_nonascii; exact Hc]. cbv beta. lia.
Qed.

Lemma css_escape_string_bytes s :
  Forall (fun b => b <> 60 /\ b <> 34 /\ b <> 0 /\ 32 <= b) (css_escape_string s).
Proof.
  unfold css_escape_string. pose proof (decode_runes_valid s) as Hv.
  induction Hv as [|c l Hc Hl IH]; [constructor|].
  cbn [flat_map]. apply Forall_app. split; [apply css_escape_rune_bytes; exact Hc | exact IH].
Qed.

(* ------------------------------------------------------------------ no '<', trailing ';' *)
Definition nolt (s : bytes) : bool := forallb (fun b => negb (b =? 60)) s.

Lemma nolt_app a b : nolt (a ++ b) = nolt a && nolt b.
Proof. apply forallb_app. Qed.

Lemma nolt_of_Forall (P : N -> Prop) s : (forall b, P b -> b <> 60) -> Forall P s -> nolt s = true.
Proof.
  intros HP H. apply forallb_forall. intros b Hb. rewrite Forall_forall in H.
  specialize (HP b (H b Hb)). lia.
Qed.

Lemma nolt_of_forallb (P : N -> bool) s : (forall b, P b = true -> b <> 60) -> forallb P s = true -> nolt s = true.
Proof.
  intros HP H. apply forallb_forall. intros b Hb. rewrite forallb_forall in H.
  specialize (HP b (H b Hb)). lia.
Qed.

Lemma nolt_escape s : nolt (css_escape_string s) = true.
Proof. eapply nolt_of_Forall; [|apply css_escape_string_bytes]. cbv beta. tauto. Qed.

Lemma nolt_url_item u : nolt (url_item u) = true.
Proof. unfold url_item. rewrite !nolt_app, nolt_escape. reflexivity. Qed.

Lemma nolt_font_item name : nolt (font_item name) = true.
Proof.
  unfold font_item. destruct (go_match G_identifierPattern (decode_runes name)) eqn:E.
  - apply font_ident_match_spec in E. unfold doc_font_ident in E.
    destruct name as [|c r]; [discriminate|]. apply andb_true_iff in E as [E1 E2].
    unfold nolt. cbn [forallb]. apply andb_true_iff. split.
    + unfold is_latin in E1. lia.
    + eapply nolt_of_forallb; [|exact E2]. intros b Hb. unfold is_doc_enum_char in Hb. lia.
  - rewrite !nolt_app, nolt_escape. reflexivity.
Qed.

Lemma nolt_join l : forallb nolt l = true -> nolt (join_comma_space l) = true.
Proof.
  induction l as [|x l IH]; [reflexivity|]. cbn [forallb]. intros H.
  apply andb_true_iff in H as [Hx Hl]. destruct l as [|y l]; [exact Hx|].
  change (join_comma_space (x :: y :: l)) with (x ++ [44; 32] ++ join_comma_space (y :: l)).
  rewrite !nolt_app, Hx, (IH Hl). reflexivity.
Qed.

Lemma nolt_innocuous : nolt innocuous_property_value = true.
Proof. rewrite innocuous_eq. reflexivity. Qed.

Lemma nolt_field_value kind v val : field_value kind v = Some val -> nolt val = true.
Proof.
  unfold field_value. destruct v as [l|s].
  - destruct (is_nil l); [discriminate|].
    destruct (kind =? 0).
    { intros H; inversion H; subst. apply nolt_join. apply forallb_forall. intros x Hx.
      apply in_map_iff in Hx as (u & <- & _). apply nolt_url_item. }
    destruct (kind =? 1); [|discriminate].
    intros H; inversion H; subst. apply nolt_join. apply forallb_forall. intros x Hx.
    apply in_map_iff in Hx as (u & <- & _). apply nolt_font_item.
  - destruct (is_nil s); [discriminate|].
    destruct (kind =? 2).
    { intros H; inversion H; subst.
      destruct (filter_enum_spec s) as [[-> He]| ->]; [|apply nolt_innocuous].
      eapply nolt_of_forallb; [|exact He]. intros b Hb. unfold is_doc_enum_char in Hb. lia. }
    destruct (kind =? 3); [|discriminate].
    intros H; inversion H; subst.
    destruct (filter_regular_spec s) as [(-> & Ha & _)| ->]; [|apply nolt_innocuous].
    eapply nolt_of_forallb; [|exact Ha]. intros b Hb.
    unfold is_doc_regular_char_comma, is_doc_regular_char, is_alnum in Hb. lia.
Qed.

Lemma documented_names_nolt :
  forallb (fun e => nolt (snd (fst e))) documented_fields = true.
Proof. reflexivity. Qed.

Lemma doc_emit_shape p e : In e documented_fields ->
  doc_emit p e = [] \/
  (exists val, doc_emit p e = snd (fst e) ++ [58] ++ val ++ [59] /\ nolt (doc_emit p e) = true).
Proof.
  intros He. destruct e as [[fname css] kind]. unfold doc_emit. cbn [fst snd].
  destruct (field_by_name p fname) as [v|]; [|left; reflexivity].
  destruct (field_value kind v) as [val|] eqn:Ev; [|left; reflexivity].
  right. exists val. split; [reflexivity|].
  pose proof documented_names_nolt as Hn. rewrite forallb_forall in Hn. specialize (Hn _ He). cbn [fst snd] in Hn.
  rewrite !nolt_app, Hn, (nolt_field_value _ _ _ Ev). reflexivity.
Qed.

Lemma last_byte_app a b : b <> [] -> last_byte_is 59 (a ++ b) = last_byte_is 59 b.
Proof.
  intros Hb. unfold last_byte_is. rewrite last_or_app. rewrite (last_or_nonempty b _ None Hb). reflexivity.
Qed.

Lemma chunks_end {A} (f : A -> bytes) l :
  (forall x, In x l -> f x = [] \/ last_byte_is 59 (f x) = true) ->
  flat_map f l = [] \/ last_byte_is 59 (flat_map f l) = true.
Proof.
  induction l as [|x l IH]; intros H; [left; reflexivity|].
  cbn [flat_map]. destruct IH as [E|E]; [intros y Hy; apply H; right; exact Hy| |].
  - rewrite E, app_nil_r. apply H. left. reflexivity.
  - right. destruct (flat_map f l) as [|z t] eqn:Ez; [discriminate|].
    rewrite last_byte_app by discriminate. exact E.
Qed.

Lemma nolt_flat_map {A} (f : A -> bytes) l :
  (forall x, In x l -> nolt (f x) = true) -> nolt (flat_map f l) = true.
Proof.
  induction l as [|x l IH]; intros H; [reflexivity|]. cbn [flat_map]. rewrite nolt_app.
  rewrite (H x) by (left; reflexivity). apply IH. intros y Hy. apply H. right. exact Hy.
Qed.

(* the Style is empty or ends with ';', and contains no '<' *)
Theorem style_ends_and_no_lt p :
  let o := style_from_properties p in
  (o = [] \/ last_byte_is 59 o = true) /\ ~ In 60 o.
Proof.
  cbv zeta. rewrite style_structure. split.
  - apply chunks_end. intros e He. destruct (doc_emit_shape p e He) as [E|(val & E & _)]; [left; exact E|].
    right. rewrite E. rewrite app_assoc, app_assoc. rewrite last_byte_app by discriminate. reflexivity.
  - assert (H : nolt (flat_map (doc_emit p) documented_fields) = true).
    { apply nolt_flat_map. intros e He. destruct (doc_emit_shape p e He) as [E|(val & _ & E)]; [rewrite E; reflexivity | exact E]. }
    intros Hin. unfold nolt in H. rewrite forallb_forall in H. specialize (H 60 Hin). discriminate.
Qed.

(* ------------------------------------------------------------------ values of the plain fields *)
Theorem regular_value_spec p fname css v :
  field_by_name p fname = Some (PStr v) -> v <> [] ->
  (doc_emit p (fname, css, 3) = css ++ [58] ++ v ++ [59] /\
   forallb is_doc_regular_char_comma v = true /\ no_comment_marker v = true /\
   (finding_D11 v = false -> doc_regular v = true))
  \/ doc_emit p (fname, css, 3) = css ++ [58] ++ documented_innocuous ++ [59].
Proof.
  intros Hf Hv. unfold doc_emit. rewrite Hf. unfold field_value.
  destruct v as [|b v]; [congruence|]. cbn [is_nil]. change (3 =? 2) with false. change (3 =? 3) with true. cbv iota.
  destruct (filter_regular_spec (b :: v)) as [(E & Ha & Hm)|E]; rewrite E.
  - left. repeat split; try assumption. intros Hd. apply doc_regular_of_comma; assumption.
  - right. rewrite innocuous_eq. reflexivity.
Qed.

Theorem enum_value_spec p fname css v :
  field_by_name p fname = Some (PStr v) -> v <> [] ->
  (doc_emit p (fname, css, 2) = css ++ [58] ++ v ++ [59] /\ doc_enum v = true)
  \/ doc_emit p (fname, css, 2) = css ++ [58] ++ documented_innocuous ++ [59].
Proof.
  intros Hf Hv. unfold doc_emit. rewrite Hf. unfold field_value.
  destruct v as [|b v]; [congruence|]. cbn [is_nil]. change (2 =? 2) with true. cbv iota.
  destruct (filter_enum_spec (b :: v)) as [(E & Ha)|E]; rewrite E.
  - left. split; [reflexivity | exact Ha].
  - right. rewrite innocuous_eq. reflexivity.
Qed.

(* ------------------------------------------------------------------ list items at the token level *)
Lemma tokenize_fuel_step f c l t r :
  consume_token (c :: l) = (t, r) -> tokenize_fuel (S f) (c :: l) = t :: tokenize_fuel f r.
Proof. intros H. cbn [tokenize_fuel]. rewrite H. reflexivity. Qed.

Lemma consume_url_open (Y : list N) :
  consume_token (117 :: 114 :: 108 :: 40 :: 34 :: Y) = (TFunction [117; 114; 108], 34 :: Y).
Proof. vm_compute. reflexivity. Qed.

(* url("...") around the escaped, sanitized URL: a url function holding exactly one terminated
   string token whose value is the sanitized URL (NUL -> U+FFFD, D25 spaces swallowed) *)
Theorem url_item_tokens u :
  css_tokens (url_item u) =
  [TFunction [117; 114; 108];
   TString (swallow_spaces (nul_to_fffd (decode_runes (url_sanitized u)))) true; TRParen].
Proof.
  unfold css_tokens, url_item. cbn [app].
  rewrite !decode_ascii by lia. rewrite decode_css_escape_string.
  change (decode_runes [34; 41]) with [34; 41].
  set (X := flat_map esc_runes (decode_runes (url_sanitized u))).
  assert (HX : Forall pp_ok X) by (apply flat_esc_pp; apply decode_runes_valid).
  assert (Hp : preprocess (117 :: 114 :: 108 :: 40 :: 34 :: X ++ [34; 41]) = 117 :: 114 :: 108 :: 40 :: 34 :: X ++ [34; 41]).
  { apply preprocess_id. repeat (constructor; [unfold pp_ok, is_surrogate; lia|]).
    apply Forall_app. split; [exact HX|]. repeat constructor; unfold is_surrogate; lia. }
  rewrite Hp. unfold tokenize. cbn [length].
  rewrite (tokenize_fuel_step _ _ _ _ _ (consume_url_open _)).
  assert (Hs : consume_token (34 :: X ++ [34; 41]) =
               (TString (swallow_spaces (nul_to_fffd (decode_runes (url_sanitized u)))) true, [41])).
  { cbn [consume_token]. change (34 =? 47) with false. change (is_ws 34) with false.
    change (34 =? 34) with true. cbn [andb]. cbv iota. unfold X.
    rewrite (consume_string_escaped (length (decode_runes (url_sanitized u))) (decode_runes (url_sanitized u)));
      [reflexivity | lia | apply decode_runes_valid | rewrite app_length; simpl; lia]. }
  rewrite (tokenize_fuel_step _ _ _ _ _ Hs).
  rewrite (tokenize_fuel_step _ 41 [] TRParen [] eq_refl).
  destruct (length (X ++ [34; 41])); reflexivity.
Qed.

(* a font name that is not an identifier: one terminated string token *)
Theorem font_item_tokens name :
  go_match G_identifierPattern (decode_runes name) = false ->
  exists inner, (inner = name \/ inner = strip_outer name) /\
  css_tokens (font_item name) = [TString (swallow_spaces (nul_to_fffd (decode_runes inner))) true].
Proof.
  intros H. unfold font_item. rewrite H.
  destruct ((3 <=? N.of_nat (length name)) && prefixb [34] name && last_byte_is 34 name).
  - exists (strip_outer name). split; [right; reflexivity | apply css_escape_one_token].
  - exists name. split; [left; reflexivity | apply css_escape_one_token].
Qed.

Theorem font_item_ident name :
  go_match G_identifierPattern (decode_runes name) = true ->
  font_item name = name /\ doc_font_ident name = true.
Proof.
  intros H. unfold font_item. rewrite H. split; [reflexivity | apply font_ident_match_spec; exact H].
Qed.

Theorem list_value_spec p fname css l :
  field_by_name p fname = Some (PList l) -> l <> [] ->
  doc_emit p (fname, css, 0) = css ++ [58] ++ join_comma_space (map url_item l) ++ [59] /\
  doc_emit p (fname, css, 1) = css ++ [58] ++ join_comma_space (map font_item l) ++ [59].
Proof.
  intros Hf Hl. unfold doc_emit. rewrite Hf. unfold field_value.
  destruct l as [|x l]; [congruence|]. split; reflexivity.
Qed.

(* non-vacuity *)
Example style_example :
  style_from_properties
    [PList [B "http://a/b"; B "javascript:x"]; PList [B "serif"; B "21st"]; PStr (B "block");
     PStr (B "#fff"); PStr (B "a;b")]
  = B "background-image:url(""http://a/b""), url(""about:invalid#zGoSafez"");font-family:serif, ""21st"";display:block;background-color:#fff;background-position:zGoSafezInvalidPropertyValue;".
Proof. vm_compute. reflexivity. Qed.
Example style_example_spec :
  style_spec [PList [B "http://a/b"; B "javascript:x"]; PList [B "serif"; B "21st"]; PStr (B "block");
     PStr (B "#fff"); PStr (B "a;b")]
   (B "background-image:url(""http://a/b""), url(""about:invalid#zGoSafez"");font-family:serif, ""21st"";display:block;background-color:#fff;background-position:zGoSafezInvalidPropertyValue;") = true.
Proof. vm_compute. reflexivity. Qed.
Example style_spec_rejects_injection :
  style_spec [PList []; PList []; PStr []; PStr (B "red;color:blue")] (B "background-color:red;color:blue;") = false.
Proof. vm_compute. reflexivity. Qed.
