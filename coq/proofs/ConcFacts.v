(* C09: data-race freedom from the locking discipline and the publication protocol (generic over the
   thread programs), the soundness of the decidable check over the regenerated summaries, and the
   critical-section linearisation lemma. *)
From V Require Import lib.Base gen.GenLocks model.Conc spec.ConcSpec.
From Coq Require Import Arith PeanoNat ZifyBool ZifyN ZifyNat.
Local Open Scope nat_scope.

(* ------------------------------------------------------------------ small list facts *)

Lemma firstn_S_snoc {A} (l : list A) : forall i x,
  nth_error l i = Some x -> firstn (S i) l = firstn i l ++ [x].
Proof.
  induction l as [|y l IH]; intros [|i] x H; simpl in *; try discriminate.
  - inversion H; reflexivity.
  - rewrite (IH i x H). reflexivity.
Qed.

Lemma firstn_length_app {A} (l1 l2 : list A) : firstn (length l1) (l1 ++ l2) = l1.
Proof. induction l1 as [|x l1 IH]; simpl; [destruct l2; reflexivity | rewrite IH; reflexivity]. Qed.

Lemma nth_error_firstn_lt {A} (l : list A) : forall j a, a < j -> nth_error (firstn j l) a = nth_error l a.
Proof.
  induction l as [|x l IH]; intros [|j] [|a] H; simpl; try reflexivity; try lia.
  apply IH. lia.
Qed.

Lemma nth_error_some_lt {A} (l : list A) i x : nth_error l i = Some x -> i < length l.
Proof. intros H. apply nth_error_Some. congruence. Qed.

Lemma app_split {A} (x1 : list A) : forall y1 x2 y2, x1 ++ y1 = x2 ++ y2 ->
  exists l, (x2 = x1 ++ l /\ y1 = l ++ y2) \/ (x1 = x2 ++ l /\ y2 = l ++ y1).
Proof.
  induction x1 as [|a x1 IH]; intros y1 x2 y2 H; simpl in *.
  - exists x2. left. split; [reflexivity | exact H].
  - destruct x2 as [|b x2]; simpl in *.
    + exists (a :: x1). right. split; [reflexivity | symmetry; exact H].
    + inversion H as [[Hab Hrest]]. destruct (IH _ _ _ Hrest) as [l [[E1 E2] | [E1 E2]]].
      * exists l. left. subst. split; reflexivity.
      * exists l. right. subst. split; reflexivity.
Qed.

(* ------------------------------------------------------------------ mutexes *)

Lemma mutex_beq_eq a b : mutex_beq a b = true <-> a = b.
Proof. destruct a, b; simpl; split; intro H; try reflexivity; try discriminate. Qed.

Lemma mutex_beq_refl a : mutex_beq a a = true.
Proof. apply mutex_beq_eq. reflexivity. Qed.

Lemma mutex_beq_neq a b : a <> b -> mutex_beq a b = false.
Proof. intros H. destruct (mutex_beq a b) eqn:E; [apply mutex_beq_eq in E; contradiction | reflexivity]. Qed.

Lemma mem_mutex_In m s : mem_mutex m s = true <-> In m s.
Proof.
  unfold mem_mutex. rewrite existsb_exists. split.
  - intros [x [Hx E]]. apply mutex_beq_eq in E. subst. exact Hx.
  - intros H. exists m. split; [exact H | apply mutex_beq_refl].
Qed.

Lemma In_remove_mutex x m s : In x (remove_mutex m s) <-> x <> m /\ In x s.
Proof.
  induction s as [|y s IH]; simpl.
  - tauto.
  - destruct (mutex_beq m y) eqn:E.
    + apply mutex_beq_eq in E. subst y. rewrite IH. split.
      * intros [H1 H2]. tauto.
      * intros [H1 [H2 | H2]]; [congruence | tauto].
    + simpl. rewrite IH. split.
      * intros [H | [H1 H2]]; [subst; split; [intro; subst; rewrite mutex_beq_refl in E; discriminate | tauto] | tauto].
      * intros [H1 [H2 | H2]]; tauto.
Qed.

Lemma set_owner_same o m v : set_owner o m v m = v.
Proof. unfold set_owner. rewrite mutex_beq_refl. reflexivity. Qed.

Lemma set_owner_other o m v m' : m <> m' -> set_owner o m v m' = o m'.
Proof. intros H. unfold set_owner. rewrite (mutex_beq_neq _ _ H). reflexivity. Qed.

Lemma owner_after_snoc tr e : owner_after (tr ++ [e]) = step_owner (owner_after tr) e.
Proof. unfold owner_after. rewrite fold_left_app. reflexivity. Qed.

Lemma lock_state_snoc p a : lock_state (p ++ [a]) = lock_step (lock_state p) a.
Proof. unfold lock_state. rewrite fold_left_app. reflexivity. Qed.

Lemma proj_app t l1 l2 : proj t (l1 ++ l2) = proj t l1 ++ proj t l2.
Proof. unfold proj. rewrite filter_app, map_app. reflexivity. Qed.

Lemma proj_single_same t a : proj t [(t, a)] = [a].
Proof. unfold proj. simpl. rewrite Nat.eqb_refl. reflexivity. Qed.

Lemma proj_single_other t t0 a : t0 <> t -> proj t [(t0, a)] = [].
Proof. intros H. unfold proj. simpl. destruct (Nat.eqb t0 t) eqn:E; [apply Nat.eqb_eq in E; contradiction | reflexivity]. Qed.

(* ------------------------------------------------------------------ who holds a mutex *)

Lemma mutex_ok_enabled tr i e : mutex_ok tr -> nth_error tr i = Some e ->
  enabled (owner_after (firstn i tr)) e.
Proof. intros H. apply H. Qed.

(* a mutex in the lock set of a thread is owned by that thread *)
Lemma held_owned tr : mutex_ok tr -> forall n t m, n <= length tr ->
  In m (lockset (proj t (firstn n tr))) -> owner_after (firstn n tr) m = Some t.
Proof.
  intros Hok. induction n as [|n IH]; intros t m Hn Hin.
  - simpl in Hin. contradiction.
  - destruct (nth_error tr n) as [[t0 a]|] eqn:En; [|apply nth_error_None in En; lia].
    pose proof (mutex_ok_enabled _ _ _ Hok En) as Hen.
    rewrite (firstn_S_snoc _ _ _ En) in *. rewrite owner_after_snoc. rewrite proj_app in Hin.
    unfold step_owner, enabled in *. simpl fst in *. simpl snd in *.
    assert (IH' : In m (lockset (proj t (firstn n tr))) -> owner_after (firstn n tr) m = Some t)
      by (apply IH; lia).
    destruct (Nat.eq_dec t0 t) as [->|Hne].
    + rewrite proj_single_same in Hin. unfold lockset in Hin. rewrite lock_state_snoc in Hin.
      fold (lockset (proj t (firstn n tr))) in *.
      destruct a as [m0|m0|l|l]; simpl in Hin; simpl.
      * destruct (mutex_eq_dec m0 m) as [->|Hm].
        -- apply set_owner_same.
        -- rewrite set_owner_other by exact Hm. apply IH'. destruct Hin as [E|E]; [congruence|exact E].
      * apply In_remove_mutex in Hin as [Hm Hin]. rewrite set_owner_other by congruence. apply IH'. exact Hin.
      * apply IH'. exact Hin.
      * apply IH'. exact Hin.
    + rewrite (proj_single_other _ _ _ Hne), app_nil_r in Hin. specialize (IH' Hin).
      destruct a as [m0|m0|l|l]; simpl; try exact IH'.
      * destruct (mutex_eq_dec m0 m) as [->|Hm]; [congruence | rewrite set_owner_other by exact Hm; exact IH'].
      * destruct (mutex_eq_dec m0 m) as [->|Hm]; [congruence | rewrite set_owner_other by exact Hm; exact IH'].
Qed.

(* the owner can only stop being t through an Unlock by t *)
Lemma find_release tr m t : mutex_ok tr -> forall j i, i <= j -> j <= length tr ->
  owner_after (firstn i tr) m = Some t -> owner_after (firstn j tr) m <> Some t ->
  exists k, i <= k /\ k < j /\ nth_error tr k = Some (t, Rel m).
Proof.
  intros Hok. induction j as [|j IH]; intros i Hij Hj Hi Hnj.
  - assert (i = 0) by lia. subst. contradiction.
  - destruct (Nat.eq_dec i (S j)) as [->|Hne]; [contradiction|].
    destruct (nth_error tr j) as [[t0 a]|] eqn:En; [|apply nth_error_None in En; lia].
    pose proof (mutex_ok_enabled _ _ _ Hok En) as Hen.
    rewrite (firstn_S_snoc _ _ _ En), owner_after_snoc in Hnj.
    unfold step_owner, enabled in *. simpl fst in *. simpl snd in *.
    destruct (owner_after (firstn j tr) m) as [x|] eqn:Eo.
    + destruct (Nat.eq_dec x t) as [->|Hx].
      * destruct a as [m0|m0|l|l]; simpl in Hnj, Hen; try (rewrite Eo in Hnj; congruence).
        -- destruct (mutex_eq_dec m0 m) as [->|Hm]; [congruence|].
           rewrite set_owner_other in Hnj by exact Hm. congruence.
        -- destruct (mutex_eq_dec m0 m) as [->|Hm].
           ++ exists j. split; [lia|]. split; [lia|]. rewrite Eo in Hen. inversion Hen; subst. exact En.
           ++ rewrite set_owner_other in Hnj by exact Hm. congruence.
      * destruct (IH i) as [k [H1 [H2 H3]]]; try lia; try assumption.
        { congruence. }
        exists k. split; [lia|]. split; [lia|exact H3].
    + destruct (IH i) as [k [H1 [H2 H3]]]; try lia; try assumption.
      { discriminate. }
      exists k. split; [lia|]. split; [lia|exact H3].
Qed.

(* the owner can only become t' through a Lock by t' *)
Lemma find_acquire tr m t' : mutex_ok tr -> forall j k, k <= j -> j <= length tr ->
  owner_after (firstn k tr) m <> Some t' -> owner_after (firstn j tr) m = Some t' ->
  exists a, k <= a /\ a < j /\ nth_error tr a = Some (t', Acq m).
Proof.
  intros Hok. induction j as [|j IH]; intros k Hkj Hj Hk Hjo.
  - assert (k = 0) by lia. subst. contradiction.
  - destruct (Nat.eq_dec k (S j)) as [->|Hne]; [contradiction|].
    destruct (nth_error tr j) as [[t0 a]|] eqn:En; [|apply nth_error_None in En; lia].
    pose proof (mutex_ok_enabled _ _ _ Hok En) as Hen.
    rewrite (firstn_S_snoc _ _ _ En), owner_after_snoc in Hjo.
    unfold step_owner, enabled in *. simpl fst in *. simpl snd in *.
    assert (Hrec : owner_after (firstn j tr) m = Some t' ->
                   exists a, k <= a /\ a < S j /\ nth_error tr a = Some (t', Acq m)).
    { intros Ho. destruct (IH k) as [a0 [H1 [H2 H3]]]; try lia; try assumption.
      exists a0. split; [lia|]. split; [lia|exact H3]. }
    destruct a as [m0|m0|l|l]; simpl in Hjo, Hen; try (apply Hrec; exact Hjo).
    + destruct (mutex_eq_dec m0 m) as [->|Hm].
      * rewrite set_owner_same in Hjo. inversion Hjo; subst. exists j. split; [lia|]. split; [lia|exact En].
      * rewrite set_owner_other in Hjo by exact Hm. apply Hrec; exact Hjo.
    + destruct (mutex_eq_dec m0 m) as [->|Hm].
      * rewrite set_owner_same in Hjo. discriminate.
      * rewrite set_owner_other in Hjo by exact Hm. apply Hrec; exact Hjo.
Qed.

(* ------------------------------------------------------------------ from lock ownership to happens-before *)

Lemma owner_after_release tr k t m : nth_error tr k = Some (t, Rel m) ->
  owner_after (firstn (S k) tr) m = None.
Proof.
  intros En. rewrite (firstn_S_snoc _ _ _ En), owner_after_snoc. unfold step_owner. simpl.
  apply set_owner_same.
Qed.

(* the holder at position i releases before position a, where the mutex is not owned by it *)
Lemma release_then tr m t i a x l : mutex_ok tr -> i <= a -> a <= length tr ->
  nth_error tr i = Some (t, x) -> accesses x l ->
  In m (lockset (proj t (firstn i tr))) ->
  owner_after (firstn a tr) m <> Some t ->
  exists k, i < k /\ k < a /\ nth_error tr k = Some (t, Rel m).
Proof.
  intros Hok Hia Ha Ei Hacc Hin Hna.
  assert (Hi : owner_after (firstn i tr) m = Some t).
  { apply held_owned; try assumption. lia. }
  destruct (find_release tr m t Hok a i Hia Ha Hi Hna) as [k [H1 [H2 H3]]].
  exists k. split; [|split; assumption].
  destruct (Nat.eq_dec i k) as [->|Hne]; [|lia].
  rewrite Ei in H3. inversion H3; subst. destruct Hacc; discriminate.
Qed.

(* two accesses made while holding the same mutex are ordered *)
Lemma holders_ordered tr m i j t t' x y l : mutex_ok tr -> i < j ->
  nth_error tr i = Some (t, x) -> nth_error tr j = Some (t', y) -> t <> t' ->
  accesses x l ->
  In m (lockset (proj t (firstn i tr))) -> In m (lockset (proj t' (firstn j tr))) ->
  hb tr i j.
Proof.
  intros Hok Hij Ei Ej Hne Hacc Hi Hj.
  pose proof (nth_error_some_lt _ _ _ Ej) as Hlen.
  assert (Hoj : owner_after (firstn j tr) m = Some t').
  { apply held_owned; try assumption. lia. }
  assert (Hoj' : owner_after (firstn j tr) m <> Some t) by (rewrite Hoj; congruence).
  destruct (release_then tr m t i j x l Hok ltac:(lia) ltac:(lia) Ei Hacc Hi Hoj') as [k [H1 [H2 H3]]].
  pose proof (owner_after_release _ _ _ _ H3) as Hk.
  assert (Hk' : owner_after (firstn (S k) tr) m <> Some t') by (rewrite Hk; discriminate).
  destruct (find_acquire tr m t' Hok j (S k) ltac:(lia) ltac:(lia) Hk' Hoj) as [a [A1 [A2 A3]]].
  eapply hb_trans; [eapply hb_po with (i := i) (j := k); [lia | exact Ei | exact H3]|].
  eapply hb_trans; [eapply hb_sync with (i := k) (j := a); [lia | exact H3 | exact A3]|].
  eapply hb_po with (i := a) (j := j); [lia | exact A3 | exact Ej].
Qed.

(* a write under the mutex that precedes a Lock of the reader which precedes the read *)
Lemma published_ordered tr m i a j t t' x y l : mutex_ok tr -> i < a -> a < j ->
  nth_error tr i = Some (t, x) -> accesses x l -> In m (lockset (proj t (firstn i tr))) ->
  nth_error tr a = Some (t', Acq m) -> nth_error tr j = Some (t', y) ->
  hb tr i j.
Proof.
  intros Hok Hia Haj Ei Hacc Hi Ea Ej.
  pose proof (nth_error_some_lt _ _ _ Ea) as Hlen.
  pose proof (mutex_ok_enabled _ _ _ Hok Ea) as Hen. unfold enabled in Hen. simpl in Hen.
  assert (Hen' : owner_after (firstn a tr) m <> Some t) by (rewrite Hen; discriminate).
  destruct (release_then tr m t i a x l Hok ltac:(lia) ltac:(lia) Ei Hacc Hi Hen') as [k [H1 [H2 H3]]].
  eapply hb_trans; [eapply hb_po with (i := i) (j := k); [lia | exact Ei | exact H3]|].
  eapply hb_trans; [eapply hb_sync with (i := k) (j := a); [lia | exact H3 | exact Ea]|].
  eapply hb_po with (i := a) (j := j); [lia | exact Ea | exact Ej].
Qed.

(* ------------------------------------------------------------------ a trace follows the programs *)

Lemma take_step_spec : forall pcs t a pcs', take_step pcs t = Some (a, pcs') ->
  exists p, nth_error pcs t = Some (a :: p) /\ nth_error pcs' t = Some p /\
            forall t', t' <> t -> nth_error pcs' t' = nth_error pcs t'.
Proof.
  induction pcs as [|p0 rest IH]; intros t a pcs' H; simpl in H; [discriminate|].
  destruct t as [|t].
  - destruct p0 as [|a0 p0']; [discriminate|]. inversion H; subst.
    exists p0'. split; [reflexivity|]. split; [reflexivity|].
    intros [|t'] Hne; [contradiction | reflexivity].
  - destruct (take_step rest t) as [[a1 rest']|] eqn:E; [|discriminate]. inversion H; subst.
    destruct (IH _ _ _ E) as [p [H1 [H2 H3]]]. exists p. split; [exact H1|]. split; [exact H2|].
    intros [|t'] Hne; [reflexivity|]. simpl. apply H3. congruence.
Qed.

Lemma proj_cons_same t a tr : proj t ((t, a) :: tr) = a :: proj t tr.
Proof. unfold proj. simpl. rewrite Nat.eqb_refl. reflexivity. Qed.

Lemma proj_cons_other t t0 a tr : t0 <> t -> proj t ((t0, a) :: tr) = proj t tr.
Proof. intros H. unfold proj. simpl. destruct (Nat.eqb t0 t) eqn:E; [apply Nat.eqb_eq in E; contradiction | reflexivity]. Qed.

(* what a thread does in a trace is a prefix of its program *)
Lemma run_sched_proj : forall sched pcs tr, run_sched pcs sched = Some tr ->
  forall t, match nth_error pcs t with
            | Some p => exists rest, p = proj t tr ++ rest
            | None => proj t tr = []
            end.
Proof.
  induction sched as [|t0 s IH]; intros pcs tr H t; simpl in H.
  - inversion H; subst. destruct (nth_error pcs t) as [p|]; [exists p; reflexivity | reflexivity].
  - destruct (take_step pcs t0) as [[a pcs']|] eqn:Es; [|discriminate].
    destruct (run_sched pcs' s) as [tr'|] eqn:Er; [|discriminate]. inversion H; subst.
    destruct (take_step_spec _ _ _ _ Es) as [p [H1 [H2 H3]]].
    specialize (IH _ _ Er t).
    destruct (Nat.eq_dec t0 t) as [->|Hne].
    + rewrite H1. rewrite H2 in IH. destruct IH as [rest ->]. exists rest. rewrite proj_cons_same. reflexivity.
    + rewrite (proj_cons_other _ _ _ _ Hne). rewrite <- (H3 t) by congruence. exact IH.
Qed.

Lemma event_access_ok pol threads sched tr i t a :
  trace_of threads sched = Some tr -> discipline pol threads ->
  nth_error tr i = Some (t, a) -> access_ok pol (proj t (firstn i tr)) a.
Proof.
  intros Htr Hd Ei. unfold trace_of in Htr.
  pose proof (run_sched_proj _ _ _ Htr t) as Hp.
  destruct (nth_error_split _ _ Ei) as [l1 [l2 [Etr Hlen]]].
  assert (Ef : firstn i tr = l1). { subst i. rewrite Etr. apply firstn_length_app. }
  assert (Eproj : proj t tr = proj t (firstn i tr) ++ a :: proj t l2).
  { rewrite Ef. rewrite Etr at 1. rewrite proj_app, proj_cons_same. reflexivity. }
  destruct (nth_error threads t) as [th|] eqn:Eth.
  - rewrite (map_nth_error thread_prog _ _ Eth) in Hp. destruct Hp as [rest Hp].
    apply (Hd th (nth_error_In _ _ Eth) (proj t (firstn i tr)) a (proj t l2 ++ rest)).
    rewrite Hp, Eproj, <- app_assoc. reflexivity.
  - assert (Hn : nth_error (map thread_prog threads) t = None).
    { apply nth_error_None. rewrite map_length. apply nth_error_None. exact Eth. }
    rewrite Hn in Hp. rewrite Hp in Eproj. destruct (proj t (firstn i tr)); discriminate.
Qed.

(* ------------------------------------------------------------------ the reader's last Lock *)

Lemma lock_state_acquired p : forall m, (In m (lockset p) \/ In m (doneset p)) -> In (Acq m) p.
Proof.
  induction p as [|a p IH] using rev_ind; intros m H.
  - simpl in H. tauto.
  - unfold lockset, doneset in H. rewrite lock_state_snoc in H.
    fold (lockset p) in H. fold (doneset p) in H.
    apply in_or_app.
    destruct a as [m0|m0|l|l]; simpl in H.
    + destruct H as [[E|H]|H]; [right; left; congruence | left; apply IH; tauto | left; apply IH; tauto].
    + left. apply IH. destruct H as [H|H].
      * apply In_remove_mutex in H. tauto.
      * destruct (mem_mutex m0 (fst (lock_state p))) eqn:Em; [|tauto].
        destruct H as [E|H]; [|tauto]. subst. apply mem_mutex_In in Em. left. exact Em.
    + left. apply IH. exact H.
    + left. apply IH. exact H.
Qed.

Lemma event_eq_dec : forall (x y : option event), {x = y} + {x <> y}.
Proof. decide equality. decide equality; [decide equality; try apply mutex_eq_dec; apply loc_eq_dec | apply Nat.eq_dec]. Qed.

Lemma last_below (P : nat -> Prop) (dec : forall n, {P n} + {~ P n}) : forall j,
  (exists a, a < j /\ P a) -> exists a, a < j /\ P a /\ forall a', a < a' -> a' < j -> ~ P a'.
Proof.
  induction j as [|j IH]; intros [a [Ha Pa]]; [lia|].
  destruct (dec j) as [Pj|Nj].
  - exists j. split; [lia|]. split; [exact Pj|]. intros a' H1 H2. lia.
  - assert (a <> j) by (intro; subst; contradiction).
    destruct IH as [b [B1 [B2 B3]]]; [exists a; split; [lia | exact Pa]|].
    exists b. split; [lia|]. split; [exact B2|]. intros a' H1 H2.
    destruct (Nat.eq_dec a' j) as [->|Hne]; [exact Nj | apply B3; lia].
Qed.

Lemma last_acquire tr t m j :
  In (Acq m) (proj t (firstn j tr)) ->
  exists a, a < j /\ nth_error tr a = Some (t, Acq m) /\
            forall a', a < a' -> a' < j -> nth_error tr a' <> Some (t, Acq m).
Proof.
  intros Hin.
  apply (last_below (fun a => nth_error tr a = Some (t, Acq m)) (fun n => event_eq_dec _ _)).
  unfold proj in Hin. apply in_map_iff in Hin as [[t0 a0] [E Hin]]. simpl in E. subst a0.
  apply filter_In in Hin as [Hin Ht]. simpl in Ht. apply Nat.eqb_eq in Ht. subst t0.
  apply In_nth_error in Hin as [a Ha].
  assert (Hlt : a < j).
  { pose proof (nth_error_some_lt _ _ _ Ha) as H. rewrite firstn_length in H. lia. }
  exists a. split; [exact Hlt|]. rewrite <- (nth_error_firstn_lt tr j a Hlt). exact Ha.
Qed.

(* ------------------------------------------------------------------ data-race freedom, generically *)

Theorem drf_generic : forall (pol : policy) (threads : list thread) (sched : list nat) (tr : list event),
  trace_of threads sched = Some tr -> mutex_ok tr ->
  discipline pol threads -> publication_order pol tr -> ~ race tr.
Proof.
  intros pol threads sched tr Htr Hok Hd Hpub (i & j & t & a & t' & b & l & Hij & Ei & Ej & Hne & Ha & Hb & Hw & Hnhb).
  apply Hnhb.
  pose proof (event_access_ok pol threads sched tr i t a Htr Hd Ei) as Hai.
  pose proof (event_access_ok pol threads sched tr j t' b Htr Hd Ej) as Hbj.
  assert (Hboth : forall m, In m (lockset (proj t (firstn i tr))) -> In m (lockset (proj t' (firstn j tr))) -> hb tr i j).
  { intros m H1 H2. eapply holders_ordered; eassumption. }
  destruct Ha as [-> | ->], Hb as [-> | ->]; simpl in Hai, Hbj.
  - destruct Hw as [[l' E] | [l' E]]; discriminate.
  - (* read at i, write at j *)
    destruct (pol l) as [m|m|] eqn:P; try contradiction.
    + eapply Hboth; eassumption.
    + destruct Hai as [Hin | Hdone]; [eapply Hboth; eassumption|].
      destruct (in_dec mutex_eq_dec m (lockset (proj t (firstn i tr)))) as [Hin|Hout]; [eapply Hboth; eassumption|].
      destruct (last_acquire tr t m i) as [a0 [A1 [A2 A3]]].
      { apply lock_state_acquired. right. exact Hdone. }
      assert (Hc : j < a0).
      { eapply (Hpub j i a0 t' t l m); try eassumption. congruence. }
      lia.
  - (* write at i, read at j *)
    destruct (pol l) as [m|m|] eqn:P; try contradiction.
    + eapply Hboth; eassumption.
    + destruct Hbj as [Hin | Hdone]; [eapply Hboth; eassumption|].
      destruct (in_dec mutex_eq_dec m (lockset (proj t' (firstn j tr)))) as [Hin|Hout]; [eapply Hboth; eassumption|].
      destruct (last_acquire tr t' m j) as [a0 [A1 [A2 A3]]].
      { apply lock_state_acquired. right. exact Hdone. }
      assert (Hc : i < a0).
      { eapply (Hpub i j a0 t t' l m); eassumption. }
      eapply (published_ordered tr m i a0 j t t' (Wr l) (Rd l) l); try eassumption.
      right; reflexivity.
  - (* two writes *)
    destruct (pol l) as [m|m|] eqn:P; try contradiction; eapply Hboth; eassumption.
Qed.

(* ------------------------------------------------------------------ from calls to threads *)

Lemma lock_fold_mono p : forall s1 d1 s2 d2, incl s1 s2 -> incl d1 d2 ->
  incl (fst (fold_left lock_step p (s1, d1))) (fst (fold_left lock_step p (s2, d2))) /\
  incl (snd (fold_left lock_step p (s1, d1))) (snd (fold_left lock_step p (s2, d2))).
Proof.
  induction p as [|a p IH]; intros s1 d1 s2 d2 Hs Hd; simpl; [split; assumption|].
  destruct a as [m|m|l|l]; simpl; try (apply IH; assumption).
  - apply IH; [|assumption]. intros x [E|H]; [left; exact E | right; apply Hs; exact H].
  - apply IH.
    + intros x H. apply In_remove_mutex in H as [H1 H2]. apply In_remove_mutex. split; [exact H1 | apply Hs; exact H2].
    + destruct (mem_mutex m s1) eqn:E1.
      * apply mem_mutex_In in E1. apply Hs in E1. apply mem_mutex_In in E1. rewrite E1.
        intros x [E|H]; [left; exact E | right; apply Hd; exact H].
      * destruct (mem_mutex m s2); [intros x H; right; apply Hd; exact H | exact Hd].
Qed.

Lemma lock_state_app_mono o p :
  incl (lockset p) (lockset (o ++ p)) /\ incl (doneset p) (doneset (o ++ p)).
Proof.
  unfold lockset, doneset, lock_state. rewrite fold_left_app.
  destruct (fold_left lock_step o ([], [])) as [s d].
  apply lock_fold_mono; intros x H; contradiction.
Qed.

Lemma access_ok_mono pol p1 p2 a : incl (lockset p1) (lockset p2) -> incl (doneset p1) (doneset p2) ->
  access_ok pol p1 a -> access_ok pol p2 a.
Proof.
  intros Hs Hd H. destruct a as [m|m|l|l]; simpl in *; try exact I.
  - destruct (pol l) as [m|m|]; [apply Hs; exact H | | exact I].
    destruct H as [H|H]; [left; apply Hs; exact H | right; apply Hd; exact H].
  - destruct (pol l) as [m|m|]; [apply Hs; exact H | apply Hs; exact H | exact H].
Qed.

(* the calls of a thread obey the discipline one by one => the thread does *)
Lemma discipline_concat pol (th : thread) :
  (forall o, In o th -> discipline_prog pol o) -> discipline_prog pol (thread_prog th).
Proof.
  unfold thread_prog. induction th as [|o th IH]; intros Hall pre a post Heq; simpl in Heq.
  - destruct pre; discriminate.
  - destruct (app_split _ _ _ _ Heq) as [l [[E1 E2] | [E1 E2]]].
    + subst pre. destruct (lock_state_app_mono o l) as [Hs Hd].
      eapply access_ok_mono; [exact Hs | exact Hd |].
      apply (IH (fun o' H => Hall o' (or_intror H)) l a post). exact E2.
    + destruct l as [|x l]; simpl in E2.
      * rewrite app_nil_r in E1. subst pre. destruct (lock_state_app_mono o []) as [Hs Hd].
        rewrite app_nil_r in Hs, Hd.
        eapply access_ok_mono; [exact Hs | exact Hd |].
        apply (IH (fun o' H => Hall o' (or_intror H)) [] a post). symmetry. exact E2.
      * inversion E2; subst x. apply (Hall o (or_introl eq_refl) pre a l). exact E1.
Qed.

(* ------------------------------------------------------------------ soundness of the decidable check *)

Lemma c09_published_is_ns l m : c09_policy l = Published m -> m = NsMu.
Proof. destruct l; simpl; intros H; try discriminate; inversion H; reflexivity. Qed.

Lemma entry_ok_sound ents o :
  (forall e, In e ents -> entry_ok c09_policy e = true) -> conforms ents o ->
  discipline_prog c09_policy o.
Proof.
  intros Hall Hc pre a post Heq.
  destruct a as [m|m|l|l]; simpl; try exact I.
  - destruct (Hc pre (Rd l) post l Heq (or_introl eq_refl)) as (e & Hin & Hl & Hw & Hheld & Haft).
    specialize (Hall e Hin). unfold entry_ok in Hall. rewrite Hl in Hall.
    destruct (c09_policy l) as [m|m|] eqn:P; [| | exact I].
    + apply Hheld. apply mem_mutex_In. exact Hall.
    + apply orb_true_iff in Hall as [H|H].
      * left. apply Hheld. apply mem_mutex_In. exact H.
      * right. apply andb_true_iff in H as [_ H]. rewrite (c09_published_is_ns _ _ P). apply Haft. exact H.
  - destruct (Hc pre (Wr l) post l Heq (or_intror eq_refl)) as (e & Hin & Hl & Hw & Hheld & Haft).
    specialize (Hall e Hin). unfold entry_ok in Hall. rewrite Hl in Hall.
    assert (Ew : e_write e = true) by (apply Hw; reflexivity).
    destruct (c09_policy l) as [m|m|] eqn:P.
    + apply Hheld. apply mem_mutex_In. exact Hall.
    + rewrite Ew in Hall. simpl in Hall. rewrite orb_false_r in Hall.
      apply Hheld. apply mem_mutex_In. exact Hall.
    + rewrite Ew in Hall. discriminate.
Qed.

Lemma clean_method_sound n o : clean_method n = true -> conforms (method_entries n) o ->
  discipline_prog c09_policy o.
Proof.
  intros H. unfold clean_method in H. apply andb_true_iff in H as [_ H].
  apply entry_ok_sound. apply forallb_forall. exact H.
Qed.

(* the side conditions on the regenerated summaries, evaluated by the kernel *)
Lemma translated_locks_ok : translated_locks = true. Proof. vm_compute. reflexivity. Qed.
Lemma discipline_ok : lock_discipline_check = true. Proof. vm_compute. reflexivity. Qed.
Lemma clean_except_d9_ok : clean_except_d9 = true. Proof. vm_compute. reflexivity. Qed.

(* the API methods other than the reader of D9 *)
Definition c09_methods : list bytes := filter (fun n => negb (bytes_eqb n d9_reader)) api_methods.

Lemma c09_methods_clean n : In n c09_methods -> clean_method n = true.
Proof.
  intros H. apply filter_In in H as [Hin Hne].
  pose proof clean_except_d9_ok as Hc. unfold clean_except_d9 in Hc.
  rewrite forallb_forall in Hc. specialize (Hc n Hin).
  destruct (bytes_eqb n d9_reader); [discriminate | exact Hc].
Qed.

Lemma conforming_threads_disciplined threads :
  (forall th, In th threads -> thread_conforms c09_methods th) -> discipline c09_policy threads.
Proof.
  intros H th Hin. apply discipline_concat. intros o Ho.
  destruct (H th Hin o Ho) as [n [Hn Hc]].
  eapply clean_method_sound; [apply c09_methods_clean; exact Hn | exact Hc].
Qed.

Theorem drf_safehtml : forall (threads : list thread) (sched : list nat) (tr : list event),
  (forall th, In th threads -> thread_conforms c09_methods th) ->
  valid_schedule threads sched -> trace_of threads sched = Some tr ->
  publication_order c09_policy tr -> ~ race tr.
Proof.
  intros threads sched tr Hconf [tr' [Htr' Hok]] Htr Hpub.
  rewrite Htr in Htr'. inversion Htr'; subst tr'.
  eapply drf_generic; try eassumption. apply conforming_threads_disciplined. exact Hconf.
Qed.

Theorem drf_of_valid : forall (pol : policy) (threads : list thread) (sched : list nat) (tr : list event),
  valid_schedule threads sched -> trace_of threads sched = Some tr ->
  discipline pol threads -> publication_order pol tr -> ~ race tr.
Proof.
  intros pol threads sched tr [tr' [Htr' Hok]] Htr Hd Hpub.
  rewrite Htr in Htr'. inversion Htr'; subst tr'. eapply drf_generic; eassumption.
Qed.

(* what c09_methods is, so that the statement of the theorem can be read without computing *)
Lemma c09_methods_eq : c09_methods =
  [ B "Template.Execute"; B "Template.ExecuteToHTML"; B "Template.ExecuteTemplate";
    B "Template.ExecuteTemplateToHTML"; B "Template.Lookup"; B "Template.Templates"; B "Template.Name" ].
Proof. vm_compute. reflexivity. Qed.

(* ------------------------------------------------------------------ deciding conformance *)

Lemma loc_beq_eq a b : loc_beq a b = true -> a = b.
Proof. apply internal_loc_dec_bl. Qed.

Lemma conforms_b_sound ents : forall o pre0, conforms_b ents pre0 o = true ->
  forall pre a post l, o = pre ++ a :: post -> accesses a l ->
    exists e, In e ents /\ e_loc e = l /\ (e_write e = true <-> a = Wr l) /\
              (forall m, In m (e_held e) -> In m (lockset (pre0 ++ pre))) /\
              (e_after e = true -> In NsMu (doneset (pre0 ++ pre))).
Proof.
  induction o as [|x o IH]; intros pre0 H pre a post l Heq Hacc.
  - destruct pre; discriminate.
  - simpl in H. apply andb_true_iff in H as [Hx Hr].
    destruct pre as [|y pre]; simpl in Heq; inversion Heq; subst.
    + rewrite app_nil_r.
      assert (Hm : exists w, existsb (entry_matches pre0 l w) ents = true /\ (w = true <-> a = Wr l)).
      { destruct Hacc as [-> | ->]; [exists false | exists true]; (split; [exact Hx|]); split; intro E; try discriminate; reflexivity. }
      destruct Hm as [w [Hex Hw]]. apply existsb_exists in Hex as [e [Hin He]].
      unfold entry_matches in He.
      apply andb_true_iff in He as [He H4]. apply andb_true_iff in He as [He H3].
      apply andb_true_iff in He as [H1 H2].
      exists e. split; [exact Hin|]. split; [apply loc_beq_eq; exact H1|].
      apply Bool.eqb_prop in H2. split; [rewrite H2; exact Hw|]. split.
      * intros m Hm. rewrite forallb_forall in H3. apply mem_mutex_In. apply H3. exact Hm.
      * intros Ea. rewrite Ea in H4. simpl in H4. apply mem_mutex_In. exact H4.
    + specialize (IH (pre0 ++ [y]) Hr pre a post l eq_refl Hacc).
      rewrite <- app_assoc in IH. exact IH.
Qed.

Lemma conforms_b_conforms ents o : conforms_b ents [] o = true -> conforms ents o.
Proof. intros H pre a post l Heq Hacc. exact (conforms_b_sound ents o [] H pre a post l Heq Hacc). Qed.

(* ------------------------------------------------------------------ non-vacuity *)

(* a first execution (analysis and rewriting inside the critical section, then text/template execution
   outside) and a lookup, as the summaries describe them *)
Definition ex_execute : op :=
  [ Acq NsMu; Wr LEscaped; Rd LEscapeErr; Rd LTreeField; Rd LNodes; Wr LEscOutput; Wr LNodes; Wr LEscapeErr;
    Wr LTreeField; Rel NsMu; Rd LTextPtr; Rd LTextTree; Rd LNodes;
    Acq MuTmpl; Rd LTmplMap; Rel MuTmpl; Rd LNodes ].
Definition ex_lookup : op := [ Acq NsMu; Rd LSet; Rel NsMu ].
Definition ex_threads : list thread := [ [ex_execute; ex_execute]; [ex_lookup; ex_execute] ].

Example ex_execute_conforms : conforms (method_entries (B "Template.Execute")) ex_execute.
Proof. apply conforms_b_conforms. vm_compute. reflexivity. Qed.
Example ex_lookup_conforms : conforms (method_entries (B "Template.Lookup")) ex_lookup.
Proof. apply conforms_b_conforms. vm_compute. reflexivity. Qed.

Example ex_threads_conform : forall th, In th ex_threads -> thread_conforms c09_methods th.
Proof.
  assert (He : In (B "Template.Execute") c09_methods) by (rewrite c09_methods_eq; simpl; tauto).
  assert (Hl : In (B "Template.Lookup") c09_methods) by (rewrite c09_methods_eq; simpl; tauto).
  intros th [<- | [<- | []]] o Ho; simpl in Ho.
  - destruct Ho as [<- | [<- | []]]; exists (B "Template.Execute"); (split; [exact He | exact ex_execute_conforms]).
  - destruct Ho as [<- | [<- | []]].
    + exists (B "Template.Lookup"). split; [exact Hl | exact ex_lookup_conforms].
    + exists (B "Template.Execute"). split; [exact He | exact ex_execute_conforms].
Qed.

(* the discipline is not satisfied by everything: an unguarded read of the set is rejected *)
Example ex_unlocked_lookup_rejected : ~ discipline_prog c09_policy [Rd LSet].
Proof. intros H. specialize (H [] (Rd LSet) [] eq_refl). simpl in H. exact H. Qed.

(* ------------------------------------------------------------------ the order of critical sections linearises *)

Section LinearisationFacts.
  Variables (St Call Out : Type) (step : Call -> St -> St * Out).

  Lemma take_next_spec : forall pcs t c pcs', take_next Call pcs t = Some (c, pcs') ->
    exists p, nth_error pcs t = Some (c :: p) /\ nth_error pcs' t = Some p /\
              forall t', t' <> t -> nth_error pcs' t' = nth_error pcs t'.
  Proof.
    induction pcs as [|p0 rest IH]; intros t c pcs' H; simpl in H; [discriminate|].
    destruct t as [|t].
    - destruct p0 as [|c0 p0']; [discriminate|]. inversion H; subst.
      exists p0'. split; [reflexivity|]. split; [reflexivity|].
      intros [|t'] Hne; [contradiction | reflexivity].
    - destruct (take_next Call rest t) as [[c1 rest']|] eqn:E; [|discriminate]. inversion H; subst.
      destruct (IH _ _ _ E) as [p [H1 [H2 H3]]]. exists p. split; [exact H1|]. split; [exact H2|].
      intros [|t'] Hne; [reflexivity|]. simpl. apply H3. congruence.
  Qed.

  (* every call returns what it returns when the calls are made one after another in the order of their
     critical sections, and that order keeps every thread's calls in program order *)
  Lemma cs_order_linearises : forall cs pcs s res,
    run_cs St Call Out step pcs cs s = Some res ->
    map (fun r => snd r) res = run_seq St Call Out step (map (fun r => snd (fst r)) res) s /\
    forall t, match nth_error pcs t with
              | Some p => exists rest, p = calls_of Call Out t res ++ rest
              | None => calls_of Call Out t res = []
              end.
  Proof.
    induction cs as [|t0 cs IH]; intros pcs s res H; simpl in H.
    - inversion H; subst. split; [reflexivity|]. intros t.
      destruct (nth_error pcs t) as [p|]; [exists p; reflexivity | reflexivity].
    - destruct (take_next Call pcs t0) as [[c pcs']|] eqn:Et; [|discriminate].
      destruct (step c s) as [s' x] eqn:Es.
      destruct (run_cs St Call Out step pcs' cs s') as [res'|] eqn:Er; [|discriminate].
      inversion H; subst. destruct (IH _ _ _ Er) as [IH1 IH2]. split.
      + simpl. rewrite Es. rewrite IH1. reflexivity.
      + intros t. destruct (take_next_spec _ _ _ _ Et) as [p [H1 [H2 H3]]].
        specialize (IH2 t). unfold calls_of in *. simpl.
        destruct (Nat.eq_dec t0 t) as [->|Hne].
        * rewrite Nat.eqb_refl. rewrite H1. rewrite H2 in IH2. destruct IH2 as [rest ->].
          exists rest. reflexivity.
        * destruct (Nat.eqb t0 t) eqn:E; [apply Nat.eqb_eq in E; contradiction|].
          rewrite <- (H3 t) by congruence. exact IH2.
  Qed.
End LinearisationFacts.

(* ------------------------------------------------------------------ the hypotheses are satisfiable *)

(* the hypotheses of the theorem are satisfiable by a schedule with conflicting accesses: thread 0
   rewrites the nodes inside its critical section and later executes; thread 1 sees, in a later
   critical section, that analysis completed and executes outside the mutex *)
Definition hx_first : op := [Acq NsMu; Wr LNodes; Rel NsMu; Rd LNodes].
Definition hx_second : op := [Acq NsMu; Rd LEscapeErr; Rel NsMu; Rd LNodes].
Definition hx_threads : list thread := [[hx_first]; [hx_second]].
Definition hx_sched : list nat := [0; 0; 0; 1; 1; 1; 1; 0].
Definition hx_trace : list (nat * action) :=
  [(0, Acq NsMu); (0, Wr LNodes); (0, Rel NsMu); (1, Acq NsMu); (1, Rd LEscapeErr); (1, Rel NsMu);
   (1, Rd LNodes); (0, Rd LNodes)].
Definition hx_entries : list entry :=
  [(LNodes, true, ([NsMu], false)); (LNodes, false, ([], true)); (LEscapeErr, false, ([NsMu], false))].

Ltac idx_cases H i :=
  repeat (destruct i as [|i]; [simpl in H; try discriminate H | try (simpl in H; discriminate H)]).

Example hx_satisfiable :
  valid_schedule hx_threads hx_sched /\ trace_of hx_threads hx_sched = Some hx_trace /\
  discipline c09_policy hx_threads /\ publication_order c09_policy hx_trace /\
  (exists i j, nth_error hx_trace i = Some (0, Wr LNodes) /\ nth_error hx_trace j = Some (1, Rd LNodes)) /\
  ~ race hx_trace.
Proof.
  assert (Htr : trace_of hx_threads hx_sched = Some hx_trace) by (vm_compute; reflexivity).
  assert (Hok : mutex_ok hx_trace).
  { intros i e H. idx_cases H i; inversion H; subst; vm_compute; first [reflexivity | exact I]. }
  assert (Hd : discipline c09_policy hx_threads).
  { intros th Hin. apply discipline_concat. intros o Ho.
    apply (entry_ok_sound hx_entries).
    - intros e He. simpl in He. destruct He as [<- | [<- | [<- | []]]]; vm_compute; reflexivity.
    - apply conforms_b_conforms.
      destruct Hin as [<- | [<- | []]]; destruct Ho as [<- | []]; vm_compute; reflexivity. }
  assert (Hp : publication_order c09_policy hx_trace).
  { intros i j a t t' l m P Hi Hj Hne Hout Haj Ha Hlast.
    pose proof (c09_published_is_ns _ _ P) as ->.
    idx_cases Hi i. inversion Hi; subst.
    idx_cases Ha a; inversion Ha; subst; try lia; try congruence. }
  split; [exists hx_trace; split; assumption|]. split; [exact Htr|]. split; [exact Hd|]. split; [exact Hp|].
  split; [exists 1, 6; split; reflexivity|].
  eapply drf_generic; eassumption.
Qed.
