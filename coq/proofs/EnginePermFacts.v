(* C05: the failure is permanent (composition of the recorded failure with the sticky invariant),
   and non-vacuity examples for the history theorems of C06 / C07. *)
From V Require Import lib.Base gen.GenTemplate model.GoStrings model.TContext model.TTransition
     model.TEscapeText model.TSanitize model.TTree model.TEscaper model.Engine proofs.EngineFacts proofs.EngineHistFacts proofs.EngineInvFacts proofs.EngineOkFacts proofs.EngineIsoFacts.
From Coq Require Import Arith PeanoNat Lia.
Local Open Scope N_scope.

(* C05, the property as it reads: in every reachable world, if Execute through a handle answers with an
   analysis error, then after ANY further history (no redefinition by t.New) Execute through that handle
   answers with the same error again *)
Theorem failure_is_permanent ops0 h o code ops :
  let w0 := run_from world0 ops0 in
  handle w0 h = Some o ->
  snd (step w0 (OExecute h)) = RErrEscape code ->
  let w := fst (step w0 (OExecute h)) in
  no_redefine_hist w ops ->
  snd (step (run_from w ops) (OExecute h)) = RErrEscape code.
Proof.
  intros w0 Hh Hr w Hn.
  assert (I0 : Inv w0) by apply Inv_reachable.
  assert (Hreg : registered w0 o).
  { destruct I0 as (_ & _ & Hhb). destruct (Hhb h o Hh) as (_ & [Hr'|(K1 & K2)]); [exact Hr'|].
    exfalso. cbn [step] in Hr. rewrite Hh, K1, K2 in Hr. cbn [snd] in Hr. discriminate Hr. }
  pose proof (failed_execute_recorded w0 h o code Hh Hreg Hr) as He. fold w in He.
  assert (Hhw : handle w h = Some o).
  { destruct (step_keeps_error o code w0 (OExecute h)) as [_ K2].
    { cbn [allowed]. intros obj0 H0. rewrite Hh in H0. inversion H0. left. reflexivity. }
    fold w in K2. unfold handle in *. destruct (nth_error (w_handles w0) h) as [[x|]|] eqn:E; try discriminate.
    inversion Hh; subst x. rewrite (K2 h (Some o) E). reflexivity. }
  assert (Iw : Inv w) by (unfold w; apply Inv_step; exact I0).
  destruct (run_from_keeps_error_wf o code ops w Iw Hn) as [K1 K2].
  destruct (K1 (conj (err_in_range w o code He) He)) as [_ He'].
  assert (Hh' : handle (run_from w ops) h = Some o).
  { unfold handle in *. destruct (nth_error (w_handles w) h) as [[x|]|] eqn:E; try discriminate.
    inversion Hhw; subst x. rewrite (K2 h (Some o) E). reflexivity. }
  apply (sticky_execute (run_from w ops) h o code Hh' He').
Qed.

(* ---- non-vacuity ---- *)
Definition ok_tree : tree := [NText 1 (B "<b>x</b>")].
Definition ok_hist : list op := [ONew (B "t"); OParse 0 (Parsed [(B "t", ok_tree)]); OExecute 0].
Example idempotent_premises_satisfiable :
  let w0 := run_from world0 ok_hist in
  handle w0 0 = Some 0%nat /\ h_err (get_tmpl w0 0) = EEscOK /\
  no_redefine_hist (fst (step w0 (OExecute 0))) [OLookup 0 (B "t"); ONew (B "u"); OExecuteTemplate 0 (B "t"); OInfo 0].
Proof. cbn [no_redefine_hist no_redefine]. repeat split; try exact I; vm_compute; reflexivity. Qed.

(* a clone lives in another name space than the original: the isolation theorem applies to it *)
Definition clone_hist : list op := [ONew (B "t"); OParse 0 (Parsed [(B "t", ok_tree)]); OClone 0].
Example isolation_premises_satisfiable :
  let w := run_from world0 clone_hist in
  handle w 0 = Some 0%nat /\ handle w 1 = Some 2%nat /\
  h_ns (get_tmpl w 0) <> h_ns (get_tmpl w 2) /\
  (forall a, op_ns w (OExecute 1) = Some a -> h_ns (get_tmpl w 0) <> a) /\ (0 < length (w_tmpl w))%nat.
Proof.
  cbv zeta. split; [vm_compute; reflexivity|]. split; [vm_compute; reflexivity|].
  split; [vm_compute; discriminate|]. split; [|vm_compute; lia].
  intros a Ha. vm_compute in Ha. inversion Ha. vm_compute. discriminate.
Qed.
