(* Facts about the JSON text model (model/Script.v) and the RFC 8259 decoder (spec/Json.v):
   - utf8_head agrees with lib/Utf8's decode_runes,
   - a byte-level form of inertness ("clean") that composes under concatenation, and its
     consequence on runes; the string encoder, compact and Marshal produce clean text,
   - the decoder reads back what the string encoder, the number texts and Marshal wrote
     (round trip on the whole value ADT). *)
From V Require Import lib.Base lib.Utf8 model.Script spec.Json spec.ScriptSpec.
From V Require Import proofs.Utf8Facts.
From Coq Require Import ZifyBool ZifyN ZifyNat.
Local Open Scope N_scope.
Definition hi (b : N) : Prop := 128 <= b <= 191.

(* the four outcomes of utf8.DecodeRune on a byte >= 0x80 *)
Lemma utf8_head_cases b0 r0 c k : utf8_head b0 r0 = (c, k) -> 128 <= b0 ->
  (k = O /\ c = FFFD /\ decode_runes (b0 :: r0) = FFFD :: decode_runes r0) \/
  (exists b1 rest, k = 1%nat /\ r0 = b1 :: rest /\ 194 <= b0 <= 223 /\ hi b1 /\
     c = (b0 - 192) * 64 + (b1 - 128) /\ encode_rune c = [b0; b1] /\
     decode_runes (b0 :: r0) = c :: decode_runes rest) \/
  (exists b1 b2 rest, k = 2%nat /\ r0 = b1 :: b2 :: rest /\ 224 <= b0 <= 239 /\ hi b1 /\ hi b2 /\
     c = (b0 - 224) * 4096 + (b1 - 128) * 64 + (b2 - 128) /\ 2048 <= c /\ encode_rune c = [b0; b1; b2] /\
     decode_runes (b0 :: r0) = c :: decode_runes rest) \/
  (exists b1 b2 b3 rest, k = 3%nat /\ r0 = b1 :: b2 :: b3 :: rest /\ 240 <= b0 <= 244 /\
     hi b1 /\ hi b2 /\ hi b3 /\ 65536 <= c /\ encode_rune c = [b0; b1; b2; b3] /\
     decode_runes (b0 :: r0) = c :: decode_runes rest).
Proof.
  intros H Hb. unfold utf8_head in H. cbn [decode_runes].
  destruct (b0 <? 128) eqn:E0; [lia|].
  destruct ((194 <=? b0) && (b0 <=? 223)) eqn:E2.
  { destruct r0 as [|b1 r1]; [inversion H; subst; left; auto|].
    destruct (cont b1) eqn:C1; [|inversion H; subst; left; auto].
    inversion H; subst. right; left. exists b1, r1. unfold cont in C1. unfold hi.
    repeat split; try lia.
    unfold encode_rune.
    destruct ((b0 - 192) * 64 + (b1 - 128) <? 128) eqn:A1; [lia|].
    destruct ((b0 - 192) * 64 + (b1 - 128) <? 2048) eqn:A2; [|lia].
    f_equal; [lia | f_equal; lia]. }
  destruct ((224 <=? b0) && (b0 <=? 239)) eqn:E3.
  { destruct r0 as [|b1 [|b2 r2]]; try (inversion H; subst; left; auto; fail).
    destruct (acc3 b0 b1 && cont b2) eqn:C; [|inversion H; subst; left; auto].
    inversion H; subst. right; right; left. exists b1, b2, r2.
    assert (Hr : hi b1 /\ hi b2 /\ 2048 <= (b0 - 224) * 4096 + (b1 - 128) * 64 + (b2 - 128) < 65536 /\
                 ~ (55296 <= (b0 - 224) * 4096 + (b1 - 128) * 64 + (b2 - 128) <= 57343)).
    { unfold acc3, cont, hi in *. destruct (b0 =? 224) eqn:Ea; [lia|]. destruct (b0 =? 237) eqn:Eb; lia. }
    destruct Hr as (H1 & H2 & H3 & H4).
    repeat split; try lia; try apply H1; try apply H2.
    unfold encode_rune, is_surrogate.
    set (c := (b0 - 224) * 4096 + (b1 - 128) * 64 + (b2 - 128)) in *.
    destruct (c <? 128) eqn:A1; [lia|].
    destruct (c <? 2048) eqn:A2; [lia|].
    destruct ((55296 <=? c) && (c <=? 57343) || (1114111 <? c)) eqn:A3; [lia|].
    destruct (c <? 65536) eqn:A4; [|lia].
    unfold hi in *. subst c. f_equal; [lia | f_equal; [lia | f_equal; lia]]. }
  destruct ((240 <=? b0) && (b0 <=? 244)) eqn:E4.
  { destruct r0 as [|b1 [|b2 [|b3 r3]]]; try (inversion H; subst; left; auto; fail).
    destruct (acc4 b0 b1 && cont b2 && cont b3) eqn:C; [|inversion H; subst; left; auto].
    inversion H; subst. right; right; right. exists b1, b2, b3, r3.
    set (c := (b0 - 240) * 262144 + (b1 - 128) * 4096 + (b2 - 128) * 64 + (b3 - 128)) in *.
    assert (Hr : hi b1 /\ hi b2 /\ hi b3 /\ 65536 <= c <= 1114111).
    { unfold acc4, cont, hi in *. subst c. destruct (b0 =? 240) eqn:Ea; [lia|]. destruct (b0 =? 244) eqn:Eb; lia. }
    destruct Hr as (H1 & H2 & H3 & H4).
    repeat split; try lia; try apply H1; try apply H2; try apply H3.
    unfold encode_rune, is_surrogate.
    destruct (c <? 128) eqn:A1; [lia|].
    destruct (c <? 2048) eqn:A2; [lia|].
    destruct ((55296 <=? c) && (c <=? 57343) || (1114111 <? c)) eqn:A3; [lia|].
    destruct (c <? 65536) eqn:A4; [lia|].
    unfold hi in *. subst c. f_equal; [lia | f_equal; [lia | f_equal; [lia | f_equal; lia]]]. }
  inversion H; subst. left; auto.
Qed.

(* byte-level form of inertness: no '<' '>' '&' byte and nowhere the bytes E2 80 A8 / E2 80 A9 *)
Definition bad_byte (b : N) : bool := (b =? 60) || (b =? 62) || (b =? 38).
Fixpoint clean (s : bytes) : bool :=
  match s with
  | [] => true
  | b :: r =>
      negb (bad_byte b)
      && negb (match r with b1 :: b2 :: _ => is_linesep b b1 b2 | _ => false end)
      && clean r
  end.

Lemma clean_tail b r : clean (b :: r) = true -> clean r = true.
Proof. cbn [clean]. intros H. apply andb_true_iff in H. tauto. Qed.

Lemma clean_skipn k : forall s, clean s = true -> clean (skipn k s) = true.
Proof.
  induction k as [|k IH]; intros s H; [exact H|].
  destruct s as [|b r]; [exact H|]. simpl. apply IH. eapply clean_tail; exact H.
Qed.

Lemma clean_inert_len n : forall s, (length s <= n)%nat -> clean s = true -> inert s = true.
Proof.
  unfold inert.
  induction n as [|n IH]; intros [|b0 r0] Hl Hc; try reflexivity; simpl in Hl; try lia.
  pose proof (clean_tail _ _ Hc) as Hr.
  cbn [clean] in Hc. apply andb_true_iff in Hc as [Hc _]. apply andb_true_iff in Hc as [Hb Hls].
  unfold bad_byte in Hb.
  destruct (N.lt_ge_cases b0 128) as [Ha|Ha].
  { rewrite decode_ascii by exact Ha. cbn [forallb]. rewrite IH; [|lia|exact Hr].
    unfold forbidden_rune. lia. }
  destruct (utf8_head b0 r0) as [c k] eqn:E.
  destruct (utf8_head_cases _ _ _ _ E Ha) as
    [(-> & -> & D) | [(b1 & rest & -> & -> & Hb0 & H1 & Hc' & He & D)
    | [(b1 & b2 & rest & -> & -> & Hb0 & H1 & H2 & Hc' & Hc2 & He & D)
    | (b1 & b2 & b3 & rest & -> & -> & Hb0 & H1 & H2 & H3 & Hc' & He & D)]]];
    rewrite D; cbn [forallb].
  - rewrite IH; [|lia|exact Hr]. reflexivity.
  - rewrite IH; [| simpl in Hl; lia | apply (clean_skipn 1 _ Hr)].
    unfold forbidden_rune, hi in *. lia.
  - rewrite IH; [| simpl in Hl; lia | apply (clean_skipn 2 _ Hr)].
    assert (Hn : c <> 8232 /\ c <> 8233).
    { split; intros Ec; rewrite Ec in He; vm_compute in He; inversion He; subst b0 b1 b2;
        vm_compute in Hls; discriminate. }
    unfold forbidden_rune, hi in *. lia.
  - rewrite IH; [| simpl in Hl; lia | apply (clean_skipn 3 _ Hr)].
    unfold forbidden_rune, hi in *. lia.
Qed.

Lemma clean_inert s : clean s = true -> inert s = true.
Proof. apply (clean_inert_len (length s)). lia. Qed.

(* composition *)
Definition ascii_head (s : bytes) : Prop := match s with [] => True | b :: _ => b < 128 end.

Lemma clean_app a : forall b, clean a = true -> clean b = true -> ascii_head b -> clean (a ++ b) = true.
Proof.
  induction a as [|x a IH]; intros b Ha Hb Hh; [exact Hb|].
  pose proof (clean_tail _ _ Ha) as Ha'.
  cbn [clean] in Ha. apply andb_true_iff in Ha as [Ha _]. apply andb_true_iff in Ha as [Hx Hls].
  change ((x :: a) ++ b) with (x :: (a ++ b)). cbn [clean].
  rewrite Hx, (IH b Ha' Hb Hh). simpl.
  destruct a as [|y [|z a]]; simpl.
  - destruct b as [|c [|d b]]; try reflexivity. simpl in Hh. unfold is_linesep. lia.
  - destruct b as [|c b]; try reflexivity. simpl in Hh. unfold is_linesep. lia.
  - simpl in Hls. rewrite andb_true_r. exact Hls.
Qed.

(* bytes that are harmless wherever they stand *)
Definition plain_ascii (b : N) : bool := (b <? 128) && negb (bad_byte b).

Lemma clean_plain_app p : forall t, forallb plain_ascii p = true -> clean (p ++ t) = clean t.
Proof.
  induction p as [|x p IH]; intros t H; [reflexivity|].
  simpl in H. apply andb_true_iff in H as [Hx Hp].
  change ((x :: p) ++ t) with (x :: (p ++ t)). cbn [clean]. rewrite (IH t Hp).
  unfold plain_ascii in Hx.
  assert (Hl : match p ++ t with b1 :: b2 :: _ => is_linesep x b1 b2 | _ => false end = false).
  { destruct (p ++ t) as [|b1 [|b2 ?]]; try reflexivity. unfold is_linesep. lia. }
  rewrite Hl. destruct (bad_byte x); [simpl in Hx; lia|]. reflexivity.
Qed.

Lemma clean_hi b X : 128 <= b -> b <> 226 -> clean (b :: X) = clean X.
Proof.
  intros H1 H2. cbn [clean].
  assert (Hb : bad_byte b = false) by (unfold bad_byte; lia). rewrite Hb.
  assert (Hl : match X with b1 :: b2 :: _ => is_linesep b b1 b2 | _ => false end = false).
  { destruct X as [|b1 [|b2 ?]]; try reflexivity. unfold is_linesep. lia. }
  rewrite Hl. reflexivity.
Qed.

Lemma clean_plain_cons b X : plain_ascii b = true -> clean (b :: X) = clean X.
Proof. intros H. apply (clean_plain_app [b] X). simpl. rewrite H. reflexivity. Qed.

Lemma esc_byte_plain b : b < 128 -> forallb plain_ascii (esc_byte b) = true.
Proof.
  intros H.
  assert (H' : (128 <=? b) || forallb plain_ascii (esc_byte b) = true).
  { apply (forall_byte (fun b => (128 <=? b) || forallb plain_ascii (esc_byte b))); [vm_compute; reflexivity | lia]. }
  destruct (128 <=? b) eqn:E; [lia|exact H'].
Qed.

Lemma esc_html_plain b : b < 128 -> forallb plain_ascii (esc_html b) = true.
Proof.
  intros H.
  assert (H' : (128 <=? b) || forallb plain_ascii (esc_html b) = true).
  { apply (forall_byte (fun b => (128 <=? b) || forallb plain_ascii (esc_html b))); [vm_compute; reflexivity | lia]. }
  destruct (128 <=? b) eqn:E; [lia|exact H'].
Qed.

Lemma esc_go_clean n : forall s t, (length s <= n)%nat -> clean t = true ->
  clean (esc_go n s ++ t) = true.
Proof.
  induction n as [|n IH]; intros s t Hl Ht; [exact Ht|].
  destruct s as [|b0 r0]; [exact Ht|]. simpl in Hl. cbn [esc_go].
  destruct (b0 <? 128) eqn:E0.
  { rewrite <- app_assoc, clean_plain_app by (apply esc_byte_plain; lia). apply IH; [lia|exact Ht]. }
  destruct (utf8_head b0 r0) as [c k] eqn:E.
  destruct (utf8_head_cases _ _ _ _ E ltac:(lia)) as
    [(-> & -> & D) | [(b1 & rest & -> & -> & Hb0 & H1 & Hc' & He & D)
    | [(b1 & b2 & rest & -> & -> & Hb0 & H1 & H2 & Hc' & Hc2 & He & D)
    | (b1 & b2 & b3 & rest & -> & -> & Hb0 & H1 & H2 & H3 & Hc' & He & D)]]].
  - rewrite <- app_assoc, clean_plain_app by reflexivity. apply IH; [lia|exact Ht].
  - assert (Hc : (c =? 8232) || (c =? 8233) = false) by (unfold hi in *; lia). rewrite Hc.
    cbn [firstn skipn app]. unfold hi in *.
    rewrite !clean_hi by lia. apply IH; [simpl in Hl; lia|exact Ht].
  - destruct ((c =? 8232) || (c =? 8233)) eqn:Hc.
    { assert (Hp : forallb plain_ascii [92; 117; 50; 48; 50; hexd (c mod 16)] = true).
      { destruct (c =? 8232) eqn:E1; [apply N.eqb_eq in E1; rewrite E1; reflexivity|].
        destruct (c =? 8233) eqn:E2; [apply N.eqb_eq in E2; rewrite E2; reflexivity|discriminate]. }
      rewrite <- app_assoc, clean_plain_app by exact Hp. apply IH; [simpl in *; lia|exact Ht]. }
    cbn [firstn skipn app]. unfold hi in *.
    assert (Hrest : clean (b1 :: b2 :: esc_go n rest ++ t) = true).
    { rewrite !clean_hi by lia. apply IH; [simpl in Hl; lia|exact Ht]. }
    cbn [clean]. cbn [clean] in Hrest. rewrite Hrest.
    assert (Hb : bad_byte b0 = false) by (unfold bad_byte; lia). rewrite Hb. simpl.
    destruct (is_linesep b0 b1 b2) eqn:L; [|reflexivity].
    exfalso. unfold is_linesep in L.
    assert (Hx : b0 = 226 /\ b1 = 128 /\ (b2 = 168 \/ b2 = 169)) by lia.
    destruct Hx as (-> & -> & [-> | ->]); vm_compute in Hc'; subst c; discriminate.
  - assert (Hc : (c =? 8232) || (c =? 8233) = false) by lia. rewrite Hc.
    cbn [firstn skipn app]. unfold hi in *.
    rewrite !clean_hi by lia. apply IH; [simpl in Hl; lia|exact Ht].
Qed.

Lemma encode_string_clean (s : bytes) :
  clean (encode_string s) = true /\ ascii_head (encode_string s).
Proof.
  unfold encode_string. split; [|simpl; lia].
  rewrite (clean_plain_app [34]) by reflexivity. apply esc_go_clean; [lia|reflexivity].
Qed.

(* ---- compact ---- *)
Lemma compact_str_step c r :
  (exists t, compact_from CStr (c :: r) = 92 :: t) \/
  (exists t, compact_from CStr (c :: r) = 34 :: t) \/
  compact_from CStr (c :: r) = c :: compact_from CStr r.
Proof.
  cbn [compact_from].
  assert (Hplain :
    (exists t, (if c =? 34 then 34 :: compact_from COut r
                else if c =? 92 then 92 :: compact_from CEsc r
                else esc_html c ++ compact_from CStr r) = 92 :: t) \/
    (exists t, (if c =? 34 then 34 :: compact_from COut r
                else if c =? 92 then 92 :: compact_from CEsc r
                else esc_html c ++ compact_from CStr r) = 34 :: t) \/
    (if c =? 34 then 34 :: compact_from COut r
     else if c =? 92 then 92 :: compact_from CEsc r
     else esc_html c ++ compact_from CStr r) = c :: compact_from CStr r).
  { destruct (c =? 34); [right; left; eauto|].
    destruct (c =? 92); [left; eauto|].
    unfold esc_html, u00. destruct ((c =? 60) || (c =? 62) || (c =? 38)); [left; simpl; eauto|].
    right; right; reflexivity. }
  destruct r as [|b1 [|b2 r2]]; try exact Hplain.
  destruct (is_linesep c b1 b2); [left; simpl; eauto | exact Hplain].
Qed.

Lemma compact_str_head2 r y z rest :
  compact_from CStr r = y :: z :: rest -> y = 128 -> z = 168 \/ z = 169 ->
  exists r', r = 128 :: z :: r'.
Proof.
  intros H Hy Hz. destruct r as [|c1 r1]; [discriminate|].
  destruct (compact_str_step c1 r1) as [[t E] | [[t E] | E]]; rewrite E in H;
    try (inversion H; lia).
  inversion H as [[Hc H']]. subst c1.
  destruct r1 as [|c2 r2]; [discriminate|].
  destruct (compact_str_step c2 r2) as [[t E2] | [[t E2] | E2]]; rewrite E2 in H';
    try (inversion H'; lia).
  inversion H'. subst. eauto.
Qed.

(* a byte emitted as it stands inside a string, followed by the rest of the string *)
Lemma clean_raw_cons b r :
  match r with b1 :: b2 :: _ => is_linesep b b1 b2 | _ => false end = false ->
  bad_byte b = false ->
  clean (compact_from CStr r) = true ->
  clean (b :: compact_from CStr r) = true.
Proof.
  intros Hls Hb Hc. cbn [clean]. rewrite Hb, Hc. simpl. rewrite andb_true_r.
  destruct (compact_from CStr r) as [|y [|z rest]] eqn:E; try reflexivity.
  destruct (is_linesep b y z) eqn:L; [|reflexivity]. exfalso.
  unfold is_linesep in L.
  assert (Hx : b = 226 /\ y = 128 /\ (z = 168 \/ z = 169)) by lia.
  destruct Hx as (-> & -> & Hz).
  destruct (compact_str_head2 _ _ _ _ E eq_refl Hz) as [r' ->].
  unfold is_linesep in Hls. lia.
Qed.

Lemma esc_html_cons b X : bad_byte b = false -> esc_html b ++ X = b :: X.
Proof. unfold esc_html, bad_byte. intros ->. reflexivity. Qed.

Lemma esc_html_bad_plain b : bad_byte b = true -> forallb plain_ascii (esc_html b) = true.
Proof. intros H. apply esc_html_plain. unfold bad_byte in H. lia. Qed.

Lemma compact_clean n : forall s st, (length s <= n)%nat -> clean (compact_from st s) = true.
Proof.
  induction n as [|n IH]; intros [|b r] st Hl; try reflexivity; simpl in Hl; try lia.
  (* emitting b itself (escaped if need be) in front of the rest of a string *)
  assert (Hstr : match r with b1 :: b2 :: _ => is_linesep b b1 b2 | _ => false end = false ->
                 clean (esc_html b ++ compact_from CStr r) = true).
  { intros Hls. destruct (bad_byte b) eqn:Hb.
    - rewrite clean_plain_app by (apply esc_html_bad_plain; exact Hb). apply IH; lia.
    - rewrite esc_html_cons by exact Hb. apply clean_raw_cons; [exact Hls|exact Hb|apply IH; lia]. }
  assert (Hplain : forall st', st' <> COut ->
     match r with b1 :: b2 :: _ => is_linesep b b1 b2 | _ => false end = false ->
     clean (match st' with
            | CEsc => esc_html b ++ compact_from CStr r
            | _ => if b =? 34 then 34 :: compact_from COut r
                   else if b =? 92 then 92 :: compact_from CEsc r
                   else esc_html b ++ compact_from CStr r
            end) = true).
  { intros st' Hst Hls. destruct st'; [congruence| |apply Hstr; exact Hls].
    destruct (b =? 34); [rewrite clean_plain_cons by reflexivity; apply IH; lia|].
    destruct (b =? 92); [rewrite clean_plain_cons by reflexivity; apply IH; lia|].
    apply Hstr; exact Hls. }
  destruct st.
  - cbn [compact_from]. destruct (is_ws b); [apply IH; lia|].
    destruct (128 <=? b) eqn:E; [reflexivity|].
    destruct (b =? 34); [rewrite clean_plain_cons by reflexivity; apply IH; lia|].
    rewrite clean_plain_app by (apply esc_html_plain; lia). apply IH; lia.
  - cbn [compact_from]. destruct r as [|b1 [|b2 r2]]; try (apply (Hplain CStr); [discriminate|reflexivity]).
    destruct (is_linesep b b1 b2) eqn:L; [|apply (Hplain CStr); [discriminate|reflexivity]].
    assert (Hp : forallb plain_ascii [92; 117; 50; 48; 50; hexd (b2 mod 16)] = true).
    { unfold is_linesep in L. assert (Hz : b2 = 168 \/ b2 = 169) by lia. destruct Hz as [-> | ->]; reflexivity. }
    rewrite clean_plain_app by exact Hp. apply IH; simpl in *; lia.
  - cbn [compact_from]. destruct r as [|b1 [|b2 r2]]; try (apply (Hplain CEsc); [discriminate|reflexivity]).
    destruct (is_linesep b b1 b2) eqn:L; [|apply (Hplain CEsc); [discriminate|reflexivity]].
    assert (Hp : forallb plain_ascii [92; 117; 50; 48; 50; hexd (b2 mod 16)] = true).
    { unfold is_linesep in L. assert (Hz : b2 = 168 \/ b2 = 169) by lia. destruct Hz as [-> | ->]; reflexivity. }
    rewrite clean_plain_app by exact Hp. apply IH; simpl in *; lia.
Qed.

Lemma compact_out_ascii_head s : ascii_head (compact_from COut s).
Proof.
  induction s as [|b r IH]; [exact I|]. cbn [compact_from].
  destruct (is_ws b); [exact IH|].
  destruct (128 <=? b) eqn:E; [exact I|].
  destruct (b =? 34); [simpl; lia|].
  unfold esc_html, u00. destruct ((b =? 60) || (b =? 62) || (b =? 38)); simpl; lia.
Qed.

Lemma compact_escape_clean raw : clean (compact_escape raw) = true /\ ascii_head (compact_escape raw).
Proof. split; [apply (compact_clean (length raw)); lia | apply compact_out_ascii_head]. Qed.

(* structural induction through the nested lists *)
Definition jvalue_ind' (P : jvalue -> Prop)
  (Hnull : P JNull) (Hbool : forall b, P (JBool b)) (Hnum : forall t, P (JNum t))
  (Hstr : forall s, P (JStr s))
  (Harr : forall l, Forall P l -> P (JArr l))
  (Hobj : forall m, Forall (fun kv => P (snd kv)) m -> P (JObj m)) : forall d, P d :=
  fix rec (d : jvalue) : P d :=
    match d with
    | JNull => Hnull
    | JBool b => Hbool b
    | JNum t => Hnum t
    | JStr s => Hstr s
    | JArr l =>
        Harr l ((fix go (l : list jvalue) : Forall P l :=
                   match l with
                   | [] => Forall_nil P
                   | x :: l' => Forall_cons x (rec x) (go l')
                   end) l)
    | JObj m =>
        Hobj m ((fix go (m : list (bytes * jvalue)) : Forall (fun kv => P (snd kv)) m :=
                   match m with
                   | [] => Forall_nil _
                   | kv :: m' =>
                       Forall_cons kv
                         (match kv as kv0 return P (snd kv0) with (k, v) => rec v end) (go m')
                   end) m)
    end.

Definition gvalue_ind' (P : gvalue -> Prop)
  (Hnull : P GNull) (Hbool : forall b, P (GBool b)) (Hnum : forall t, P (GNum t))
  (Hstr : forall s, P (GStr s))
  (Harr : forall l, Forall P l -> P (GArr l))
  (Hobj : forall m, Forall (fun kv => P (snd kv)) m -> P (GObj m))
  (Hraw : forall raw, P (GRaw raw)) (Hbad : P GBad) : forall g, P g :=
  fix rec (g : gvalue) : P g :=
    match g with
    | GNull => Hnull
    | GBool b => Hbool b
    | GNum t => Hnum t
    | GStr s => Hstr s
    | GArr l =>
        Harr l ((fix go (l : list gvalue) : Forall P l :=
                   match l with
                   | [] => Forall_nil P
                   | x :: l' => Forall_cons x (rec x) (go l')
                   end) l)
    | GObj m =>
        Hobj m ((fix go (m : list (bytes * gvalue)) : Forall (fun kv => P (snd kv)) m :=
                   match m with
                   | [] => Forall_nil _
                   | kv :: m' =>
                       Forall_cons kv
                         (match kv as kv0 return P (snd kv0) with (k, v) => rec v end) (go m')
                   end) m)
    | GRaw raw => Hraw raw
    | GBad => Hbad
    end.

(* ---- the model on JSON values is the model on Go data ---- *)
Lemma g_marshal_of_j d : g_marshal (g_of_j d) = json_marshal d.
Proof.
  induction d as [| | | |l IH|m IH] using jvalue_ind'; try reflexivity.
  - cbn [g_of_j g_marshal json_marshal]. rewrite map_map. do 3 f_equal.
    apply map_ext_in. intros x Hx. rewrite Forall_forall in IH. apply IH; exact Hx.
  - cbn [g_of_j g_marshal json_marshal]. rewrite map_map. do 3 f_equal.
    apply map_ext_in. intros [k v] Hx. rewrite Forall_forall in IH.
    pose proof (IH _ Hx) as Hv. cbn [snd] in Hv. cbn beta iota. rewrite Hv. reflexivity.
Qed.

Lemma g_encodable_of_j d : g_encodable (g_of_j d) = true.
Proof.
  induction d as [| | | |l IH|m IH] using jvalue_ind'; try reflexivity.
  - cbn [g_of_j g_encodable]. apply forallb_forall. intros x Hx. apply in_map_iff in Hx as (y & <- & Hy).
    rewrite Forall_forall in IH. apply IH; exact Hy.
  - cbn [g_of_j g_encodable]. apply forallb_forall. intros x Hx. apply in_map_iff in Hx as ([k v] & <- & Hy).
    rewrite Forall_forall in IH. apply (IH _ Hy).
Qed.

Lemma wf_gvalue_of_j d : wf_gvalue (g_of_j d) = wf_jvalue d.
Proof.
  induction d as [| | | |l IH|m IH] using jvalue_ind'; try reflexivity.
  - cbn [g_of_j wf_gvalue wf_jvalue].
    induction IH as [|x l Hx Hl IHl]; [reflexivity|]. cbn [map forallb]. rewrite Hx, IHl. reflexivity.
  - cbn [g_of_j wf_gvalue wf_jvalue].
    induction IH as [|[k v] l Hx Hl IHl]; [reflexivity|]. cbn [map forallb snd] in *. rewrite Hx, IHl. reflexivity.
Qed.

Lemma script_from_go_of_j n d s : script_from_go n (g_of_j d) s = script_from_data n d s.
Proof.
  unfold script_from_go, script_from_data. rewrite g_encodable_of_j, g_marshal_of_j. reflexivity.
Qed.

(* ---- the output of Marshal is clean ---- *)
Definition cleanA (s : bytes) : Prop := clean s = true /\ ascii_head s.

Lemma cleanA_plain p : forallb plain_ascii p = true -> cleanA p.
Proof.
  intros H. split.
  - rewrite <- (app_nil_r p). rewrite clean_plain_app by exact H. reflexivity.
  - destruct p as [|b p]; [exact I|]. simpl in *. unfold plain_ascii in H. lia.
Qed.

Lemma cleanA_app a b : cleanA a -> cleanA b -> cleanA (a ++ b).
Proof.
  intros [Ha Ha'] [Hb Hb']. split; [apply clean_app; assumption|].
  destruct a as [|x a]; [exact Hb'|exact Ha'].
Qed.

Lemma join_comma_cons x y l : join_comma (x :: y :: l) = x ++ [44] ++ join_comma (y :: l).
Proof. reflexivity. Qed.

Lemma join_cleanA l : Forall cleanA l -> cleanA (join_comma l).
Proof.
  induction 1 as [|x l Hx Hl IH]; [split; [reflexivity|exact I]|].
  destruct l as [|y l]; [exact Hx|]. rewrite join_comma_cons.
  apply cleanA_app; [exact Hx|]. apply cleanA_app; [apply cleanA_plain; reflexivity | exact IH].
Qed.

Lemma num_char_plain t : forallb num_char t = true -> forallb plain_ascii t = true.
Proof.
  intros H. apply forallb_forall. intros c Hc. rewrite forallb_forall in H. specialize (H c Hc).
  unfold num_char in H. unfold plain_ascii, bad_byte. lia.
Qed.

Lemma g_marshal_cleanA g : wf_gvalue g = true -> cleanA (g_marshal g).
Proof.
  induction g as [|b|t|s|l IH|m IH|raw|] using gvalue_ind'; intros Hwf.
  - apply cleanA_plain; reflexivity.
  - destruct b; apply cleanA_plain; reflexivity.
  - apply cleanA_plain, num_char_plain. exact Hwf.
  - apply encode_string_clean.
  - cbn [g_marshal]. apply cleanA_app; [apply cleanA_plain; reflexivity|].
    apply cleanA_app; [|apply cleanA_plain; reflexivity].
    apply join_cleanA. cbn [wf_gvalue] in Hwf. rewrite forallb_forall in Hwf.
    apply Forall_forall. intros x Hx. apply in_map_iff in Hx as (y & <- & Hy).
    rewrite Forall_forall in IH. apply IH; [exact Hy | apply Hwf; exact Hy].
  - cbn [g_marshal]. apply cleanA_app; [apply cleanA_plain; reflexivity|].
    apply cleanA_app; [|apply cleanA_plain; reflexivity].
    apply join_cleanA. cbn [wf_gvalue] in Hwf. rewrite forallb_forall in Hwf.
    apply Forall_forall. intros x Hx. apply in_map_iff in Hx as ([k v] & <- & Hy).
    rewrite Forall_forall in IH.
    apply cleanA_app; [apply encode_string_clean|].
    apply cleanA_app; [apply cleanA_plain; reflexivity|].
    apply (IH _ Hy). apply (Hwf _ Hy).
  - apply compact_escape_clean.
  - split; [reflexivity|exact I].
Qed.

Lemma g_marshal_inert g : wf_gvalue g = true -> inert (g_marshal g) = true.
Proof. intros H. apply clean_inert, g_marshal_cleanA, H. Qed.

Lemma json_marshal_inert d : wf_jvalue d = true -> inert (json_marshal d) = true.
Proof.
  intros H. rewrite <- g_marshal_of_j. apply g_marshal_inert. rewrite wf_gvalue_of_j. exact H.
Qed.

Lemma compact_escape_inert raw : inert (compact_escape raw) = true.
Proof. apply clean_inert, compact_escape_clean. Qed.

Lemma encode_string_inert (s : bytes) : inert (encode_string s) = true.
Proof. apply clean_inert, encode_string_clean. Qed.

(* ---- decoding what the string encoder wrote ---- *)

Definition prepend (p : bytes) (o : option (bytes * bytes)) : option (bytes * bytes) :=
  match o with Some (q, r) => Some (p ++ q, r) | None => None end.

Lemma parse_str_item p dec T f :
  str_item (p ++ T) = Some (dec, T) -> hd 0 (p ++ T) <> 34 -> p ++ T <> [] ->
  parse_str (S f) (p ++ T) = prepend dec (parse_str f T).
Proof.
  intros Hi Hh Hn. cbn [parse_str]. destruct (p ++ T) as [|c r] eqn:E; [congruence|].
  simpl in Hh. destruct (c =? 34) eqn:E34; [lia|].
  rewrite Hi. unfold prepend. destruct (parse_str f T) as [[q r'']|]; reflexivity.
Qed.

Lemma hexval_hexd x : x < 16 -> hexval (hexd x) = Some x.
Proof.
  intros H. unfold hexval, hexd, j_digit.
  destruct (x <? 10) eqn:E.
  - assert (H1 : (48 <=? 48 + x) && (48 + x <=? 57) = true) by lia. rewrite H1. f_equal. lia.
  - assert (H1 : (48 <=? 87 + x) && (87 + x <=? 57) = false) by lia. rewrite H1.
    assert (H2 : (97 <=? 87 + x) && (87 + x <=? 102) = true) by lia. rewrite H2. f_equal. lia.
Qed.

Lemma str_item_u00 b T : b < 128 -> str_item (u00 b ++ T) = Some ([b], T).
Proof.
  intros H. unfold u00. cbn [app str_item N.eqb Pos.eqb hex4].
  change (hexval 48) with (Some 0).
  rewrite !hexval_hexd by (try apply N.mod_lt; try apply N.div_lt_upper_bound; lia).
  assert (Hu : ((0 * 16 + 0) * 16 + b / 16) * 16 + b mod 16 = b) by lia. rewrite Hu.
  assert (Hs : (55296 <=? b) && (b <=? 56319) = false) by lia. rewrite Hs.
  rewrite encode_rune_ascii by exact H. reflexivity.
Qed.

Lemma str_item_esc_byte b T : b < 128 -> str_item (esc_byte b ++ T) = Some ([b], T).
Proof.
  intros H. unfold esc_byte.
  destruct (b =? 34) eqn:E1; [apply N.eqb_eq in E1; subst; reflexivity|].
  destruct (b =? 92) eqn:E2; [apply N.eqb_eq in E2; subst; reflexivity|].
  destruct (b =? 8) eqn:E3; [apply N.eqb_eq in E3; subst; reflexivity|].
  destruct (b =? 12) eqn:E4; [apply N.eqb_eq in E4; subst; reflexivity|].
  destruct (b =? 10) eqn:E5; [apply N.eqb_eq in E5; subst; reflexivity|].
  destruct (b =? 13) eqn:E6; [apply N.eqb_eq in E6; subst; reflexivity|].
  destruct (b =? 9) eqn:E7; [apply N.eqb_eq in E7; subst; reflexivity|].
  destruct ((b <? 32) || (b =? 60) || (b =? 62) || (b =? 38)) eqn:E8;
    [apply str_item_u00; exact H|].
  cbn [app str_item]. rewrite E2, E1.
  assert (E9 : (b <? 32) = false) by lia. rewrite E9. reflexivity.
Qed.

Lemma esc_byte_head b T : b < 128 -> hd 0 (esc_byte b ++ T) <> 34 /\ esc_byte b ++ T <> [].
Proof.
  intros H. unfold esc_byte, u00.
  repeat match goal with |- context [if ?c then _ else _] => destruct c eqn:? end;
    simpl; split; try discriminate; lia.
Qed.

(* bytes >= 0x80 are copied *)
Lemma parse_str_hi p : forall f T, Forall (fun b => 128 <= b) p ->
  parse_str (length p + f) (p ++ T) = prepend p (parse_str f T).
Proof.
  induction p as [|b p IH]; intros f T H.
  - simpl. unfold prepend. destruct (parse_str f T) as [[q r]|]; reflexivity.
  - inversion H as [|? ? Hb Hp]; subst.
    change (length (b :: p) + f)%nat with (S (length p + f)).
    change ((b :: p) ++ T) with ([b] ++ (p ++ T)).
    rewrite parse_str_item with (dec := [b]).
    + rewrite IH by exact Hp. unfold prepend. destruct (parse_str f T) as [[q r]|]; reflexivity.
    + cbn [app str_item].
      assert (E1 : (b =? 92) = false) by lia. assert (E2 : (b =? 34) = false) by lia.
      assert (E3 : (b <? 32) = false) by lia. rewrite E1, E2, E3. reflexivity.
    + simpl. lia.
    + discriminate.
Qed.

Lemma sanitize_cons b0 r0 c rest :
  decode_runes (b0 :: r0) = c :: decode_runes rest -> sanitize (b0 :: r0) = encode_rune c ++ sanitize rest.
Proof. unfold sanitize, encode_runes. intros ->. reflexivity. Qed.

Lemma parse_str_esc_go n : forall (s : bytes) f rest, (length s <= n)%nat ->
  (length (esc_go n s) < f)%nat ->
  parse_str f (esc_go n s ++ 34 :: rest) = Some (sanitize s, rest).
Proof.
  induction n as [|n IH]; intros s f rest Hl Hf.
  { destruct s; [|simpl in Hl; lia]. destruct f; [simpl in Hf; lia|]. reflexivity. }
  destruct s as [|b0 r0].
  { destruct f; [simpl in Hf; lia|]. reflexivity. }
  simpl in Hl. cbn [esc_go] in *.
  destruct (b0 <? 128) eqn:E0.
  { assert (Hb : b0 < 128) by lia.
    destruct (esc_byte_head b0 (esc_go n r0 ++ 34 :: rest) Hb) as [Hh Hn].
    rewrite app_length in Hf.
    assert (Hlen : (1 <= length (esc_byte b0))%nat).
    { destruct (esc_byte b0) eqn:Ee; [simpl in Hn|simpl; lia]. unfold esc_byte, u00 in Ee.
      repeat match type of Ee with context [if ?c then _ else _] => destruct c end; discriminate. }
    destruct f as [|f]; [lia|].
    rewrite <- app_assoc.
    rewrite parse_str_item with (dec := [b0]); [|apply str_item_esc_byte; exact Hb|exact Hh|exact Hn].
    rewrite IH by lia. unfold prepend.
    rewrite (sanitize_cons b0 r0 b0 r0) by (apply decode_ascii; exact Hb).
    rewrite encode_rune_ascii by exact Hb. reflexivity. }
  destruct (utf8_head b0 r0) as [c k] eqn:E.
  destruct (utf8_head_cases _ _ _ _ E ltac:(lia)) as
    [(-> & -> & D) | [(b1 & rest' & -> & -> & Hb0 & H1 & Hc' & He & D)
    | [(b1 & b2 & rest' & -> & -> & Hb0 & H1 & H2 & Hc' & Hc2 & He & D)
    | (b1 & b2 & b3 & rest' & -> & -> & Hb0 & H1 & H2 & H3 & Hc' & He & D)]]].
  - (* invalid byte: � *)
    rewrite app_length in Hf. simpl in Hf. destruct f as [|f]; [lia|].
    rewrite <- app_assoc.
    rewrite parse_str_item with (dec := encode_rune FFFD); [|reflexivity|simpl; lia|discriminate].
    rewrite IH by lia. unfold prepend. rewrite (sanitize_cons _ _ _ _ D). reflexivity.
  - assert (Hc : (c =? 8232) || (c =? 8233) = false) by (unfold hi in *; lia). rewrite Hc in *.
    cbn [firstn skipn] in *. rewrite <- app_assoc.
    rewrite app_length in Hf. cbn [length] in Hf.
    replace f with (length [b0; b1] + (f - 2))%nat by (simpl; lia).
    rewrite parse_str_hi by (unfold hi in *; repeat constructor; lia).
    rewrite IH by (simpl in *; lia). unfold prepend.
    rewrite (sanitize_cons _ _ _ _ D), He. reflexivity.
  - destruct ((c =? 8232) || (c =? 8233)) eqn:Hc.
    { (* U+2028 / U+2029 *)
      cbn [skipn] in *. rewrite app_length in Hf. cbn [length] in Hf. destruct f as [|f]; [lia|].
      rewrite <- app_assoc.
      rewrite parse_str_item with (dec := encode_rune c).
      - rewrite IH by (simpl in *; lia). unfold prepend. rewrite (sanitize_cons _ _ _ _ D). reflexivity.
      - destruct (c =? 8232) eqn:E1; [apply N.eqb_eq in E1; rewrite E1; reflexivity|].
        destruct (c =? 8233) eqn:E2; [apply N.eqb_eq in E2; rewrite E2; reflexivity|discriminate].
      - simpl. lia.
      - discriminate. }
    cbn [firstn skipn] in *. rewrite <- app_assoc.
    rewrite app_length in Hf. cbn [length] in Hf.
    replace f with (length [b0; b1; b2] + (f - 3))%nat by (simpl; lia).
    rewrite parse_str_hi by (unfold hi in *; repeat constructor; lia).
    rewrite IH by (simpl in *; lia). unfold prepend.
    rewrite (sanitize_cons _ _ _ _ D), He. reflexivity.
  - assert (Hc : (c =? 8232) || (c =? 8233) = false) by lia. rewrite Hc in *.
    cbn [firstn skipn] in *. rewrite <- app_assoc.
    rewrite app_length in Hf. cbn [length] in Hf.
    replace f with (length [b0; b1; b2; b3] + (f - 4))%nat by (simpl; lia).
    rewrite parse_str_hi by (unfold hi in *; repeat constructor; lia).
    rewrite IH by (simpl in *; lia). unfold prepend.
    rewrite (sanitize_cons _ _ _ _ D), He. reflexivity.
Qed.

(* the string encoder round-trips, for every byte string *)
Lemma parse_encode_string (s : bytes) rest :
  parse_str (length (esc_go (length s) s ++ 34 :: rest)) (esc_go (length s) s ++ 34 :: rest)
  = Some (sanitize s, rest).
Proof. apply parse_str_esc_go; [lia|]. rewrite app_length. simpl. lia. Qed.

(* ---- numbers: the scanner finds the whole text again when what follows cannot continue it ---- *)
Definition num_cont (c : N) : bool := j_digit c || (c =? 46) || (c =? 101) || (c =? 69).
Definition stopb (rest : bytes) : bool :=
  match rest with [] => true | c :: _ => negb (num_cont c) end.

Lemma span_digits_app a : forall rest ds r', span_digits a = (ds, r') ->
  (r' = [] -> stopb rest = true) -> span_digits (a ++ rest) = (ds, r' ++ rest).
Proof.
  induction a as [|c a IH]; intros rest ds r' H Hs.
  - inversion H; subst. specialize (Hs eq_refl). simpl.
    destruct rest as [|x rest]; [reflexivity|]. simpl in Hs. unfold num_cont in Hs.
    cbn [span_digits]. destruct (j_digit x); [simpl in Hs; discriminate|reflexivity].
  - cbn [span_digits app] in *. destruct (j_digit c).
    + destruct (span_digits a) as [x y] eqn:E. inversion H; subst.
      rewrite (IH rest x r' eq_refl Hs). reflexivity.
    + inversion H; subst. reflexivity.
Qed.

Lemma num_exp_app acc a rest t r' : num_exp acc a = Some (t, r') ->
  (r' = [] -> stopb rest = true) -> num_exp acc (a ++ rest) = Some (t, r' ++ rest).
Proof.
  intros H Hs. destruct a as [|e r].
  - inversion H; subst. specialize (Hs eq_refl). simpl.
    destruct rest as [|x rest]; [reflexivity|]. simpl in Hs. unfold num_cont in Hs.
    cbn [num_exp]. destruct ((x =? 101) || (x =? 69)) eqn:E; [lia|reflexivity].
  - cbn [num_exp app] in *. destruct ((e =? 101) || (e =? 69)); [|inversion H; subst; reflexivity].
    destruct r as [|x r''].
    + simpl in H. discriminate.
    + cbn [app]. destruct ((x =? 43) || (x =? 45)).
      * destruct (span_digits r'') as [ds r2] eqn:E. destruct ds as [|d ds]; [discriminate|].
        inversion H; subst. rewrite (span_digits_app _ _ _ _ E Hs). reflexivity.
      * destruct (span_digits (x :: r'')) as [ds r2] eqn:E. destruct ds as [|d ds]; [discriminate|].
        inversion H; subst.
        change (x :: r'' ++ rest) with ((x :: r'') ++ rest).
        rewrite (span_digits_app _ _ _ _ E Hs). reflexivity.
Qed.

Lemma num_frac_app acc a rest t r' : num_frac acc a = Some (t, r') ->
  (r' = [] -> stopb rest = true) -> num_frac acc (a ++ rest) = Some (t, r' ++ rest).
Proof.
  intros H Hs. destruct a as [|d r].
  - cbn [num_frac] in H. cbn [app].
    pose proof (num_exp_app acc [] rest t r' H Hs) as H'. cbn [app] in H'.
    destruct rest as [|x rest]; [exact H'|]. cbn [num_frac].
    inversion H; subst. specialize (Hs eq_refl). simpl in Hs. unfold num_cont in Hs.
    destruct (x =? 46) eqn:E; [lia|]. exact H'.
  - cbn [num_frac app] in *. destruct (d =? 46).
    + destruct (span_digits r) as [ds r2] eqn:E. destruct ds as [|x ds]; [discriminate|].
      assert (Hsp : span_digits (r ++ rest) = (x :: ds, r2 ++ rest)).
      { apply span_digits_app; [exact E|]. intros ->. apply Hs.
        cbn [num_exp] in H. inversion H. reflexivity. }
      destruct r2 as [|y r2].
      * rewrite Hsp. cbn [app]. apply (num_exp_app _ [] rest t r' H Hs).
      * rewrite Hsp. apply (num_exp_app _ (y :: r2) rest t r' H Hs).
    + apply (num_exp_app acc (d :: r) rest t r' H Hs).
Qed.

Lemma num_int_app acc a rest t r' : num_int acc a = Some (t, r') ->
  (r' = [] -> stopb rest = true) -> num_int acc (a ++ rest) = Some (t, r' ++ rest).
Proof.
  intros H Hs. destruct a as [|c r]; [discriminate|].
  cbn [num_int app] in *. destruct (c =? 48).
  - apply num_frac_app; assumption.
  - destruct ((49 <=? c) && (c <=? 57)); [|discriminate].
    destruct (span_digits r) as [ds r2] eqn:E.
    assert (Hsp : span_digits (r ++ rest) = (ds, r2 ++ rest)).
    { apply span_digits_app; [exact E|]. intros ->. apply Hs.
      cbn [num_frac num_exp] in H. inversion H. reflexivity. }
    rewrite Hsp. apply num_frac_app; assumption.
Qed.

Lemma scan_number_app a rest t r' : scan_number a = Some (t, r') ->
  (r' = [] -> stopb rest = true) -> scan_number (a ++ rest) = Some (t, r' ++ rest).
Proof.
  intros H Hs. destruct a as [|c r]; [discriminate|].
  cbn [scan_number app] in *. destruct (c =? 45).
  - apply num_int_app; assumption.
  - apply (num_int_app [] (c :: r) rest t r' H Hs).
Qed.

Lemma scan_number_text t rest : is_json_number t = true -> stopb rest = true ->
  scan_number (t ++ rest) = Some (t, rest).
Proof.
  unfold is_json_number. intros H Hs.
  destruct (scan_number t) as [[t' r']|] eqn:E; [|discriminate].
  destruct r' as [|? ?]; [|discriminate]. apply bytes_eqb_eq in H. subst t'.
  apply (scan_number_app t rest t [] E). intros _. exact Hs.
Qed.

Lemma json_number_head t : is_json_number t = true ->
  exists c r, t = c :: r /\ (c = 45 \/ j_digit c = true).
Proof.
  unfold is_json_number. intros H.
  destruct (scan_number t) as [[t' r']|] eqn:E; [|discriminate].
  destruct t as [|c r]; [discriminate|]. exists c, r. split; [reflexivity|].
  cbn [scan_number] in E. destruct (c =? 45) eqn:E1; [left; lia|]. right.
  cbn [num_int] in E. unfold j_digit.
  destruct (c =? 48) eqn:E2; [lia|].
  destruct ((49 <=? c) && (c <=? 57)) eqn:E3; [lia|discriminate].
Qed.

Definition is_val_head (c : N) : bool :=
  (c =? 110) || (c =? 116) || (c =? 102) || (c =? 34) || (c =? 91) || (c =? 123) || (c =? 45)
  || j_digit c.

Lemma marshal_head d : num_jvalue d = true ->
  exists c t, json_marshal d = c :: t /\ is_val_head c = true.
Proof.
  destruct d as [|b|t|s|l|m]; intros H.
  - eexists; eexists; split; reflexivity.
  - destruct b; eexists; eexists; split; reflexivity.
  - destruct (json_number_head t H) as (c & r & -> & Hc). exists c, r. split; [reflexivity|].
    unfold is_val_head. destruct Hc as [-> | Hc]; [reflexivity|]. rewrite Hc. lia.
  - eexists; eexists; split; reflexivity.
  - eexists; eexists; split; reflexivity.
  - eexists; eexists; split; reflexivity.
Qed.

Lemma skip_ws_head c t : is_val_head c = true -> skip_ws (c :: t) = c :: t.
Proof.
  intros H. cbn [skip_ws].
  assert (E : j_ws c = false) by (unfold is_val_head, j_digit, j_ws in *; lia). rewrite E. reflexivity.
Qed.

Lemma parse_value_number f c r : c = 45 \/ j_digit c = true ->
  parse_value (S f) (c :: r) =
  match scan_number (c :: r) with Some (t, r') => Some (JNum t, r') | None => None end.
Proof.
  intros H. cbn [parse_value skip_ws].
  assert (E0 : j_ws c = false) by (unfold j_digit, j_ws in *; lia). rewrite E0.
  assert (E1 : (c =? 34) = false) by (unfold j_digit in *; lia).
  assert (E2 : (c =? 91) = false) by (unfold j_digit in *; lia).
  assert (E3 : (c =? 123) = false) by (unfold j_digit in *; lia).
  assert (E4 : (c =? 116) = false) by (unfold j_digit in *; lia).
  assert (E5 : (c =? 102) = false) by (unfold j_digit in *; lia).
  assert (E6 : (c =? 110) = false) by (unfold j_digit in *; lia).
  rewrite E1, E2, E3, E4, E5, E6. reflexivity.
Qed.

Lemma parse_value_string f r :
  parse_value (S f) (34 :: r) =
  match parse_str (length r) r with Some (b, r') => Some (JStr b, r') | None => None end.
Proof. reflexivity. Qed.

Lemma parse_value_array f c t : is_val_head c = true ->
  parse_value (S f) (91 :: c :: t) =
  match parse_elems f (c :: t) with Some (l, r') => Some (JArr l, r') | None => None end.
Proof.
  intros H. change (parse_value (S f) (91 :: c :: t)) with
    (match skip_ws (c :: t) with
     | [] => None
     | c2 :: r2 => if c2 =? 93 then Some (JArr [], r2)
                   else match parse_elems f (c2 :: r2) with
                        | Some (l, r') => Some (JArr l, r')
                        | None => None
                        end
     end).
  rewrite skip_ws_head by exact H.
  assert (E : (c =? 93) = false) by (unfold is_val_head, j_digit in *; lia). rewrite E. reflexivity.
Qed.

Lemma parse_value_object f t :
  parse_value (S f) (123 :: 34 :: t) =
  match parse_members f (34 :: t) with Some (m, r') => Some (JObj m, r') | None => None end.
Proof. reflexivity. Qed.

Lemma parse_value_object' f s t : s = 34 :: t ->
  parse_value (S f) (123 :: s) =
  match parse_members f s with Some (m, r') => Some (JObj m, r') | None => None end.
Proof. intros ->. reflexivity. Qed.

(* the round-trip statement, generalised over what follows the value and the fuel *)
Definition RT (d : jvalue) : Prop :=
  num_jvalue d = true -> forall f rest, (length (json_marshal d) <= f)%nat -> stopb rest = true ->
  parse_value f (json_marshal d ++ rest) = Some (canon d, rest).

Lemma elems_rt l : Forall RT l -> l <> [] -> forallb num_jvalue l = true ->
  forall f rest, (length (join_comma (map json_marshal l)) + 1 <= f)%nat ->
  parse_elems f (join_comma (map json_marshal l) ++ 93 :: rest) = Some (map canon l, rest).
Proof.
  induction 1 as [|x l Hx Hl IH]; intros Hne Hn f rest Hf; [congruence|].
  cbn [forallb] in Hn. apply andb_true_iff in Hn as [Hnx Hnl].
  destruct l as [|y l'].
  - cbn [map join_comma] in *. destruct f as [|f]; [lia|].
    cbn [parse_elems]. rewrite (Hx Hnx f (93 :: rest)) by (try reflexivity; lia). reflexivity.
  - change (map json_marshal (x :: y :: l')) with (json_marshal x :: json_marshal y :: map json_marshal l') in *.
    rewrite join_comma_cons in *. rewrite !app_length in Hf. cbn [length] in Hf.
    rewrite <- !app_assoc. cbn [app].
    destruct f as [|f]; [lia|]. cbn [parse_elems].
    rewrite (Hx Hnx f) by (try reflexivity; lia).
    change (skip_ws (44 :: join_comma (json_marshal y :: map json_marshal l') ++ 93 :: rest))
      with (44 :: join_comma (json_marshal y :: map json_marshal l') ++ 93 :: rest).
    cbn [N.eqb Pos.eqb].
    change (json_marshal y :: map json_marshal l') with (map json_marshal (y :: l')).
    rewrite IH; [reflexivity|discriminate|exact Hnl|].
    change (map json_marshal (y :: l')) with (json_marshal y :: map json_marshal l'). lia.
Qed.

Definition memb (kv : bytes * jvalue) : bytes :=
  match kv with (k, v) => encode_string k ++ [58] ++ json_marshal v end.
Definition canon_kv (kv : bytes * jvalue) : bytes * jvalue :=
  match kv with (k, v) => (sanitize k, canon v) end.

Lemma parse_members_step f (k : bytes) v tail :
  RT v -> num_jvalue v = true -> (length (json_marshal v) <= f)%nat -> stopb tail = true ->
  parse_members (S f) (memb (k, v) ++ tail) =
  match skip_ws tail with
  | [] => None
  | c3 :: r4 =>
      if c3 =? 44 then
        match parse_members f r4 with
        | Some (m, r5) => Some ((sanitize k, canon v) :: m, r5)
        | None => None
        end
      else if c3 =? 125 then Some ([(sanitize k, canon v)], r4) else None
  end.
Proof.
  intros Hv Hn Hf Hs. unfold memb, encode_string. rewrite <- !app_assoc. cbn [app].
  change (parse_members (S f) (34 :: esc_go (length k) k ++ 34 :: 58 :: json_marshal v ++ tail)) with
    (match parse_str (length (esc_go (length k) k ++ 34 :: 58 :: json_marshal v ++ tail))
                     (esc_go (length k) k ++ 34 :: 58 :: json_marshal v ++ tail) with
     | None => None
     | Some (k', r1) =>
         match skip_ws r1 with
         | [] => None
         | c1 :: r2 =>
             if c1 =? 58 then
               match parse_value f r2 with
               | None => None
               | Some (v', r3) =>
                   match skip_ws r3 with
                   | [] => None
                   | c3 :: r4 =>
                       if c3 =? 44 then
                         match parse_members f r4 with
                         | Some (m, r5) => Some ((k', v') :: m, r5)
                         | None => None
                         end
                       else if c3 =? 125 then Some ([(k', v')], r4) else None
                   end
               end
             else None
         end
     end).
  rewrite parse_encode_string.
  change (skip_ws (58 :: json_marshal v ++ tail)) with (58 :: json_marshal v ++ tail).
  cbn [N.eqb Pos.eqb]. rewrite (Hv Hn f tail Hf Hs). reflexivity.
Qed.

Lemma members_rt m : Forall (fun kv => RT (snd kv)) m -> m <> [] ->
  forallb (fun kv => match kv with (_, v) => num_jvalue v end) m = true ->
  forall f rest, (length (join_comma (map memb m)) + 1 <= f)%nat ->
  parse_members f (join_comma (map memb m) ++ 125 :: rest) = Some (map canon_kv m, rest).
Proof.
  induction 1 as [|[k v] m Hx Hm IH]; intros Hne Hn f rest Hf; [congruence|].
  cbn [forallb snd] in *. apply andb_true_iff in Hn as [Hnx Hnm].
  assert (Hlen : (length (json_marshal v) <= length (memb (k, v)))%nat).
  { unfold memb. rewrite !app_length. lia. }
  destruct m as [|y m'].
  - cbn [map join_comma] in *. destruct f as [|f]; [lia|].
    rewrite parse_members_step by (try assumption; try reflexivity; lia). reflexivity.
  - change (map memb ((k, v) :: y :: m')) with (memb (k, v) :: memb y :: map memb m') in *.
    rewrite join_comma_cons in *. rewrite !app_length in Hf. cbn [length] in Hf.
    rewrite <- !app_assoc. cbn [app].
    destruct f as [|f]; [lia|].
    rewrite parse_members_step by (try assumption; try reflexivity; lia).
    change (skip_ws (44 :: join_comma (memb y :: map memb m') ++ 125 :: rest))
      with (44 :: join_comma (memb y :: map memb m') ++ 125 :: rest).
    cbn [N.eqb Pos.eqb].
    change (memb y :: map memb m') with (map memb (y :: m')).
    rewrite IH; [reflexivity|discriminate|exact Hnm|].
    change (map memb (y :: m')) with (memb y :: map memb m'). lia.
Qed.

Lemma roundtrip_gen d : RT d.
Proof.
  induction d as [|b|t|s|l IH|m IH] using jvalue_ind'; intros Hn f rest Hf Hs.
  - cbn [json_marshal] in *. do 4 (destruct f as [|f]; [simpl in Hf; lia|]). reflexivity.
  - destruct b; cbn [json_marshal] in *; do 4 (destruct f as [|f]; [simpl in Hf; lia|]); reflexivity.
  - cbn [json_marshal canon num_jvalue] in *.
    destruct (json_number_head t Hn) as (c & r & -> & Hc).
    destruct f as [|f]; [simpl in Hf; lia|].
    change ((c :: r) ++ rest) with (c :: (r ++ rest)).
    rewrite parse_value_number by exact Hc.
    change (c :: (r ++ rest)) with ((c :: r) ++ rest).
    rewrite (scan_number_text _ _ Hn Hs). reflexivity.
  - cbn [json_marshal canon] in *. unfold encode_string in *.
    destruct f as [|f]; [simpl in Hf; lia|].
    rewrite <- !app_assoc. cbn [app]. rewrite parse_value_string, parse_encode_string. reflexivity.
  - cbn [json_marshal canon num_jvalue] in *.
    rewrite !app_length in Hf. cbn [length] in Hf.
    destruct f as [|f]; [lia|].
    rewrite <- !app_assoc. cbn [app].
    destruct l as [|x l'].
    + reflexivity.
    + inversion IH as [|? ? Hx Hl']; subst.
      assert (Hnx : num_jvalue x = true) by (cbn [forallb] in Hn; apply andb_true_iff in Hn; tauto).
      destruct (marshal_head x Hnx) as (c & t & Ex & Hc).
      assert (Eh : exists t', join_comma (map json_marshal (x :: l')) ++ 93 :: rest = c :: t').
      { cbn [map]. destruct l' as [|y l'']; [cbn [map join_comma]; rewrite Ex; eexists; reflexivity|].
        change (map json_marshal (y :: l'')) with (json_marshal y :: map json_marshal l'').
        rewrite join_comma_cons, Ex. eexists; reflexivity. }
      destruct Eh as [t' Eh]. rewrite Eh, parse_value_array by exact Hc. rewrite <- Eh.
      rewrite elems_rt; [reflexivity|exact IH|discriminate|exact Hn|lia].
  - cbn [json_marshal canon num_jvalue] in *.
    change (fun kv : bytes * jvalue => let (k, v) := kv in encode_string k ++ [58] ++ json_marshal v) with memb in *.
    change (fun kv : bytes * jvalue => let (k, v) := kv in (sanitize k, canon v)) with canon_kv.
    rewrite !app_length in Hf. cbn [length] in Hf.
    destruct f as [|f]; [lia|].
    rewrite <- !app_assoc. cbn [app].
    destruct m as [|[k v] m'].
    + reflexivity.
    + assert (Eh : exists t', join_comma (map memb ((k, v) :: m')) ++ 125 :: rest = 34 :: t').
      { cbn [map]. destruct m' as [|y m'']; [cbn [map join_comma]; unfold memb, encode_string; eexists; reflexivity|].
        change (map memb (y :: m'')) with (memb y :: map memb m'').
        rewrite join_comma_cons. unfold memb at 1. unfold encode_string. eexists; reflexivity. }
      destruct Eh as [t' Eh]. erewrite parse_value_object'; [|exact Eh].
      rewrite members_rt; [reflexivity|exact IH|discriminate|exact Hn|apply le_S_n; exact Hf].
Qed.

Theorem json_roundtrip d : num_jvalue d = true -> json_decode (json_marshal d) = Some (canon d).
Proof.
  intros H. unfold json_decode.
  pose proof (roundtrip_gen d H (length (json_marshal d)) [] (le_n _) eq_refl) as R.
  rewrite app_nil_r in R. rewrite R. reflexivity.
Qed.

Theorem string_roundtrip (s : bytes) : json_decode (encode_string s) = Some (JStr (sanitize s)).
Proof. apply (json_roundtrip (JStr s)). reflexivity. Qed.

