(* Reusable facts about the shapes of specification expressions. *)
From V Require Import lib.Base lib.Regex proofs.RegexFacts.

Lemma M_star_cls rs p s n :
  M (Star (Cls rs)) p s n -> Forall (fun c => in_ranges c rs = true) s.
Proof.
  remember (Star (Cls rs)) as r eqn:E. intros H. revert E.
  induction H; intros E; try discriminate; [constructor|].
  inversion E; subst.
  match goal with H : M (Cls rs) _ _ _ |- _ => apply M_Cls_inv in H as (c & -> & Hc) end.
  simpl. constructor; [exact Hc | auto].
Qed.

Lemma star_cls_M rs s : Forall (fun c => in_ranges c rs = true) s ->
  forall p n, M (Star (Cls rs)) p s n.
Proof.
  induction 1 as [|c s Hc Hs IH]; intros p n; [constructor|].
  change (c :: s) with ([c] ++ s). apply MStarS; [discriminate | constructor; exact Hc | apply IH].
Qed.

(* ^ [cls] .*   accepted  ->  the subject starts with a rune of cls *)
Lemma accepts_begin_cls rs w :
  accepts (Cat BeginText (Cat (Cls rs) any_star)) w = true ->
  exists c t, w = c :: t /\ in_ranges c rs = true.
Proof.
  intros H. apply accepts_M in H.
  apply M_Cat_inv in H as (s1 & s2 & -> & H1 & H2).
  apply M_BeginText_inv in H1 as [-> _]. simpl in *.
  apply M_Cat_inv in H2 as (s3 & s4 & -> & H3 & _).
  apply M_Cls_inv in H3 as (c & -> & Hc). exists c, s4. auto.
Qed.

(* ^ [cls]* $   accepted  <->  every rune is in cls *)
Lemma accepts_all_cls rs w :
  accepts (Cat BeginText (Cat (Star (Cls rs)) EndText)) w = true ->
  Forall (fun c => in_ranges c rs = true) w.
Proof.
  intros H. apply accepts_M in H.
  apply M_Cat_inv in H as (s1 & s2 & -> & H1 & H2).
  apply M_BeginText_inv in H1 as [-> _]. simpl in *.
  apply M_Cat_inv in H2 as (s3 & s4 & -> & H3 & H4).
  apply M_EndText_inv in H4 as [-> _]. rewrite app_nil_r.
  eapply M_star_cls; exact H3.
Qed.

Lemma all_cls_accepts rs w :
  Forall (fun c => in_ranges c rs = true) w ->
  accepts (Cat BeginText (Cat (Star (Cls rs)) EndText)) w = true.
Proof.
  intros H. apply accepts_M.
  change w with ([] ++ w). constructor; [constructor|]. simpl.
  rewrite <- (app_nil_r w). constructor; [apply star_cls_M; exact H | constructor].
Qed.
