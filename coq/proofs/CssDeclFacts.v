From V Require Import lib.Base lib.Utf8 spec.CssSyntax spec.StyleSpec proofs.CssTokFacts.
From Coq Require Import Arith ZifyBool ZifyN ZifyNat.
Local Open Scope N_scope.

(* ------------------------------------------------------------------ property names *)
Definition is_name_char (c : N) : bool := ((97 <=? c) && (c <=? 122)) || (c =? 45).
Definition is_css_name (n : list N) : bool :=
  match n with c :: p => (97 <=? c) && (c <=? 122) && forallb is_name_char p | [] => false end.

Lemma name_char_hv sep p : is_sep sep = true -> forallb is_name_char p = true -> hv sep p.
Proof.
  intros Hs H. apply Forall_forall. intros c Hc. rewrite forallb_forall in H. specialize (H c Hc).
  unfold is_name_char in H. unfold is_sep in Hs.
  unfold hch, is_doc_regular_char_comma, is_doc_regular_char, is_alnum. lia.
Qed.

Lemma ident_seq_all sep : is_sep sep = true -> forall p fuel rest, forallb is_name_char p = true ->
  (length p < fuel)%nat -> ident_seq fuel (p ++ sep :: rest) = (p, sep :: rest).
Proof.
  intros Hs. induction p as [|c p IH]; intros fuel rest Hp Hf.
  - destruct fuel; [simpl in Hf; lia|]. cbn [app ident_seq]. unfold is_sep in Hs.
    replace (is_ident_cp sep) with false by (unfold is_ident_cp, is_ident_start, is_letter, is_non_ascii, is_digit; lia).
    unfold valid_escape. cbn [ois otest]. replace (92 =? sep) with false by lia. reflexivity.
  - destruct fuel as [|f]; [simpl in Hf; lia|]. cbn [forallb] in Hp. apply andb_true_iff in Hp as [Hc Hp].
    cbn [app ident_seq].
    replace (is_ident_cp c) with true
      by (unfold is_name_char in Hc; unfold is_ident_cp, is_ident_start, is_letter, is_non_ascii, is_digit; lia).
    rewrite IH; [reflexivity | exact Hp | simpl in Hf; lia].
Qed.

(* a property name followed by ':' is one ident token *)
Lemma consume_token_name sep n rest : is_sep sep = true -> is_css_name n = true ->
  consume_token (n ++ sep :: rest) = (TIdent n, sep :: rest).
Proof.
  intros Hs Hn. destruct n as [|c p]; [discriminate|]. cbn [is_css_name] in Hn.
  apply andb_true_iff in Hn as [Hc Hp].
  assert (Hcp : forallb is_name_char (c :: p) = true).
  { cbn [forallb]. rewrite Hp. unfold is_name_char. replace ((97 <=? c) && (c <=? 122)) with true by lia. reflexivity. }
  cbn [app consume_token].
  replace (c =? 47) with false by lia. cbn [andb].
  replace (is_ws c) with false by (unfold is_ws; lia).
  replace (c =? 34) with false by lia. replace (c =? 35) with false by lia. replace (c =? 39) with false by lia.
  replace (c =? 40) with false by lia. replace (c =? 41) with false by lia. replace (c =? 43) with false by lia.
  replace (c =? 44) with false by lia. replace (c =? 45) with false by lia. replace (c =? 46) with false by lia.
  replace (c =? 58) with false by lia. replace (c =? 59) with false by lia. replace (c =? 60) with false by lia.
  replace (c =? 64) with false by lia. replace (c =? 91) with false by lia. replace (c =? 92) with false by lia.
  replace (c =? 93) with false by lia. replace (c =? 123) with false by lia. replace (c =? 125) with false by lia.
  replace (is_digit c) with false by (unfold is_digit; lia).
  replace (is_ident_start c) with true by (unfold is_ident_start, is_letter; lia).
  unfold consume_ident_like.
  change (c :: p ++ sep :: rest) with ((c :: p) ++ sep :: rest).
  rewrite (ident_seq_all sep Hs (c :: p) _ rest Hcp) by (rewrite app_length; simpl; lia).
  unfold is_sep in Hs. cbn [pk1 ois otest]. replace (40 =? sep) with false by lia. rewrite andb_false_r. reflexivity.
Qed.

(* ------------------------------------------------------------------ the parser on value tokens *)
(* tokens a declaration value is made of: harmless tokens, terminated strings, and
   function( one terminated string ) *)
Inductive vtoks : list token -> Prop :=
| vt_nil : vtoks []
| vt_simple t ts : harmless_token t = true -> vtoks ts -> vtoks (t :: ts)
| vt_str s ts : vtoks ts -> vtoks (TString s true :: ts)
| vt_fun n s ts : vtoks ts -> vtoks (TFunction n :: TString s true :: TRParen :: ts).

Lemma vtoks_app a b : vtoks a -> vtoks b -> vtoks (a ++ b).
Proof.
  induction 1 as [|t ts Ht Hts IH|s ts Hts IH|n s ts Hts IH]; intros Hb; cbn [app].
  - exact Hb.
  - apply vt_simple; auto.
  - apply vt_str; auto.
  - apply vt_fun; auto.
Qed.

Lemma vtoks_harmless ts : forallb harmless_token ts = true -> vtoks ts.
Proof.
  induction ts as [|t ts IH]; [constructor|]. cbn [forallb]. intros H.
  apply andb_true_iff in H as [H1 H2]. apply vt_simple; auto.
Qed.

Lemma consume_cv_simple fuel t rest : block_end t = None -> (forall n, t <> TFunction n) ->
  consume_cv fuel t rest = (CVTok t, rest).
Proof.
  intros Hb Hf. destruct fuel; [reflexivity|]. cbn [consume_cv]. rewrite Hb.
  destruct t; try reflexivity. exfalso. eapply Hf. reflexivity.
Qed.

Lemma consume_cv_fun k n s rest :
  consume_cv (S (S (S k))) (TFunction n) (TString s true :: TRParen :: rest) =
  (CVFunc n [CVTok (TString s true)] true, rest).
Proof.
  cbn [consume_cv block_end consume_block].
  change (token_eqb (TString s true) TRParen) with false. cbv iota.
  rewrite consume_cv_simple by (try reflexivity; intros; discriminate).
  change (token_eqb TRParen TRParen) with true. reflexivity.
Qed.

Lemma cvs_until_semicolon_vtoks ts : vtoks ts -> forall fuel more, (length ts < fuel)%nat ->
  exists cvs, cvs_until_semicolon fuel (ts ++ TSemicolon :: more) = (cvs, TSemicolon :: more) /\
              forallb cv_closed cvs = true.
Proof.
  induction 1 as [|t ts Ht Hts IH|s ts Hts IH|n s ts Hts IH]; intros fuel more Hf.
  - destruct fuel; [simpl in Hf; lia|]. exists []. split; reflexivity.
  - destruct fuel as [|f]; [simpl in Hf; lia|].
    destruct (IH f more) as (cvs & E & Hc); [simpl in Hf; lia|].
    exists (CVTok t :: cvs). cbn [app cvs_until_semicolon].
    destruct t; try discriminate Ht;
      (rewrite consume_cv_simple by (try reflexivity; intros; discriminate); rewrite E; split; [reflexivity | exact Hc]).
  - destruct fuel as [|f]; [simpl in Hf; lia|].
    destruct (IH f more) as (cvs & E & Hc); [simpl in Hf; lia|].
    exists (CVTok (TString s true) :: cvs). cbn [app cvs_until_semicolon].
    rewrite consume_cv_simple by (try reflexivity; intros; discriminate). rewrite E. split; [reflexivity | exact Hc].
  - destruct fuel as [|f]; [simpl in Hf; lia|].
    destruct (IH f more) as (cvs & E & Hc); [simpl in Hf; lia|].
    exists (CVFunc n [CVTok (TString s true)] true :: cvs). cbn [app cvs_until_semicolon].
    unfold pfuel. cbn [length Nat.mul Nat.add].
    rewrite consume_cv_fun. rewrite E. split; [reflexivity | exact Hc].
Qed.

Lemma cvs_step_colon F rest :
  cvs_until_semicolon (S F) (TColon :: rest) =
  let '(cs, r2) := cvs_until_semicolon F rest in (CVTok TColon :: cs, r2).
Proof.
  cbn [cvs_until_semicolon]. rewrite consume_cv_simple by (try reflexivity; intros; discriminate). reflexivity.
Qed.

(* one declaration  name : value ;  *)
Lemma decl_list_chunk f n ts more : vtoks ts ->
  exists v imp, decl_list (S (S f)) (TIdent n :: TColon :: ts ++ TSemicolon :: more) =
                DDecl n v imp :: decl_list f more /\ forallb cv_closed v = true.
Proof.
  intros Hts. cbn [decl_list].
  destruct (cvs_until_semicolon_vtoks ts Hts (S (length (ts ++ TSemicolon :: more))) more) as (cvs & E & Hc).
  { rewrite app_length. simpl. lia. }
  change (length (TColon :: ts ++ TSemicolon :: more)) with (S (length (ts ++ TSemicolon :: more))).
  rewrite cvs_step_colon. rewrite E.
  unfold consume_declaration. cbn [drop_ws_cvs is_ws_cv].
  destruct (strip_important (drop_ws_cvs cvs)) as [v imp] eqn:Es.
  exists (trim_trailing_ws v), imp. split; [reflexivity|].
  (* closedness is preserved by the trimming functions *)
  assert (Hdrop : forall l, forallb cv_closed l = true -> forallb cv_closed (drop_ws_cvs l) = true).
  { induction l as [|x l IHl]; [reflexivity|]. cbn [drop_ws_cvs forallb]. intros H.
    apply andb_true_iff in H as [H1 H2]. destruct (is_ws_cv x); [auto|]. cbn [forallb]. rewrite H1, H2. reflexivity. }
  assert (Hrev : forall l, forallb cv_closed l = true -> forallb cv_closed (rev l) = true).
  { intros l H. apply forallb_forall. intros x Hx. rewrite forallb_forall in H. apply H. apply in_rev. exact Hx. }
  assert (Hv : forallb cv_closed v = true).
  { unfold strip_important in Es. pose proof (Hdrop _ Hc) as H0.
    destruct (drop_ws_cvs (rev (drop_ws_cvs cvs))) as [|x r1] eqn:E1; [inversion Es; subst; exact H0|].
    assert (Hr1 : forallb cv_closed (x :: r1) = true) by (rewrite <- E1; apply Hdrop; apply Hrev; exact H0).
    destruct x as [t|? ? ?|? ? ?]; try (inversion Es; subst; exact H0).
    destruct t; try (inversion Es; subst; exact H0).
    destruct (eq_nocase v0 _); [|inversion Es; subst; exact H0].
    cbn [forallb] in Hr1. apply andb_true_iff in Hr1 as [_ Hr1].
    destruct (drop_ws_cvs r1) as [|y r2] eqn:E2; [inversion Es; subst; exact H0|].
    assert (Hr2 : forallb cv_closed (y :: r2) = true) by (rewrite <- E2; apply Hdrop; exact Hr1).
    destruct y as [t|? ? ?|? ? ?]; try (inversion Es; subst; exact H0).
    destruct t; try (inversion Es; subst; exact H0).
    destruct c as [|pc]; try (inversion Es; subst; exact H0).
    repeat (destruct pc as [pc|pc|]; try (inversion Es; subst; exact H0)).
    inversion Es; subst. apply Hrev. cbn [forallb] in Hr2. apply andb_true_iff in Hr2. tauto. }
  unfold trim_trailing_ws. apply Hrev. apply Hdrop. apply Hrev. exact Hv.
Qed.

(* ------------------------------------------------------------------ declaration token lists *)
Inductive dtoks : list (list N) -> list token -> Prop :=
| dt_nil : dtoks [] []
| dt_cons n ts names more : vtoks ts -> dtoks names more ->
    dtoks (n :: names) (TIdent n :: TColon :: ts ++ TSemicolon :: more).

Lemma decl_list_nil fuel : decl_list fuel [] = [].
Proof. destruct fuel; reflexivity. Qed.

Definition is_decl_item (d : decl_item) : bool := match d with DDecl _ _ _ => true | _ => false end.

Lemma decl_list_dtoks names T : dtoks names T -> forall fuel, (2 * length names <= fuel)%nat ->
  map decl_name (decl_list fuel T) = map Some names /\
  forallb is_decl_item (decl_list fuel T) = true /\
  forallb (fun d => forallb cv_closed (decl_value d)) (decl_list fuel T) = true.
Proof.
  induction 1 as [|n ts names more Hts Hd IH]; intros fuel Hf.
  - rewrite decl_list_nil. repeat split.
  - cbn [length] in Hf. destruct fuel as [|[|f]]; try lia.
    destruct (decl_list_chunk f n ts more Hts) as (v & imp & E & Hc). rewrite E.
    destruct (IH f) as (I1 & I2 & I3); [lia|].
    cbn [map forallb decl_name decl_value is_decl_item]. rewrite I1, I2, I3, Hc. repeat split.
Qed.

Lemma vtoks_clean ts : vtoks ts -> existsb is_bad_token ts = false /\ strip_comments ts = ts.
Proof.
  induction 1 as [|t ts Ht Hts [I1 I2]|s ts Hts [I1 I2]|n s ts Hts [I1 I2]].
  - split; reflexivity.
  - unfold strip_comments in *. cbn [existsb filter]. rewrite I1.
    destruct t; try discriminate Ht; cbn; rewrite ?I2; split; reflexivity.
  - unfold strip_comments in *. cbn [existsb filter is_bad_token is_comment negb]. rewrite I1, I2. split; reflexivity.
  - unfold strip_comments in *. cbn [existsb filter is_bad_token is_comment negb]. rewrite I1, I2. split; reflexivity.
Qed.

Lemma existsb_app' {A} (f : A -> bool) a b : existsb f (a ++ b) = existsb f a || existsb f b.
Proof. apply existsb_app. Qed.

Lemma strip_comments_app a b : strip_comments (a ++ b) = strip_comments a ++ strip_comments b.
Proof. unfold strip_comments. apply filter_app. Qed.

Lemma dtoks_clean names T : dtoks names T -> existsb is_bad_token T = false /\ strip_comments T = T.
Proof.
  induction 1 as [|n ts names more Hts Hd [I1 I2]]; [split; reflexivity|].
  destruct (vtoks_clean ts Hts) as [V1 V2].
  change (TIdent n :: TColon :: ts ++ TSemicolon :: more) with ([TIdent n; TColon] ++ ts ++ [TSemicolon] ++ more).
  rewrite !existsb_app', !strip_comments_app, V1, V2, I1, I2. split; reflexivity.
Qed.

(* the declaration list of a clean declaration token list *)
Theorem parse_dtoks names T : dtoks names T ->
  map decl_name (parse_declaration_list T) = map Some names /\
  forallb is_decl_item (parse_declaration_list T) = true /\
  forallb (fun d => forallb cv_closed (decl_value d)) (parse_declaration_list T) = true /\
  existsb is_bad_token T = false.
Proof.
  intros H. destruct (dtoks_clean names T H) as [C1 C2].
  unfold parse_declaration_list. rewrite C2.
  assert (Hl : (2 * length names <= S (length T))%nat).
  { clear C1 C2. induction H as [|n ts names more Hts Hd IH]; [simpl; lia|].
    cbn [length]. rewrite app_length. cbn [length]. lia. }
  destruct (decl_list_dtoks names T H _ Hl) as (D1 & D2 & D3). auto.
Qed.

(* ------------------------------------------------------------------ from runes to declaration tokens *)
(* a value (as runes), followed by ';', is tokenized into value tokens and the semicolon *)
Definition VT (val : list N) : Prop := forall fuel rest, (length (val ++ 59%N :: rest) < fuel)%nat ->
  exists ts fuel', tokenize_fuel fuel (val ++ 59 :: rest) = ts ++ TSemicolon :: tokenize_fuel fuel' rest /\
                   vtoks ts /\ (length rest < fuel')%nat.

Lemma VT_harmless val : hv 59 val -> no_comment_marker val = true -> VT val.
Proof.
  intros Hv Hm fuel rest Hf.
  destruct (tokens_app_separator 59 eq_refl val rest fuel Hv Hm Hf) as (ts & fuel' & E & Hts & Hfu).
  exists ts, fuel'. split; [exact E|]. split; [apply vtoks_harmless; exact Hts | exact Hfu].
Qed.

Inductive rchunks : list (list N) -> list N -> Prop :=
| rc_nil : rchunks [] []
| rc_cons n val names rest : is_css_name n = true -> VT val -> rchunks names rest ->
    rchunks (n :: names) (n ++ 58 :: val ++ 59 :: rest).

Lemma tokenize_fuel_nil fuel : tokenize_fuel fuel [] = [].
Proof. destruct fuel; reflexivity. Qed.

Lemma tokenize_rchunks names R : rchunks names R -> forall fuel, (length R < fuel)%nat ->
  dtoks names (tokenize_fuel fuel R).
Proof.
  induction 1 as [|n val names rest Hn Hval Hr IH]; intros fuel Hf.
  - rewrite tokenize_fuel_nil. constructor.
  - destruct fuel as [|[|f]].
    + lia.
    + rewrite app_length in Hf. cbn [length] in Hf. lia.
    + destruct n as [|c p]; [discriminate|].
      pose proof (consume_token_name 58 (c :: p) (val ++ 59 :: rest) eq_refl Hn) as Hc.
      cbn [app] in Hc |- *. rewrite (tokenize_fuel_step' (S f) c _ _ _ Hc).
      rewrite (tokenize_fuel_step' f 58 _ _ _ (consume_token_sep 58 eq_refl _)).
      destruct (Hval f rest) as (ts & fuel' & E & Hts & Hfu).
      { rewrite !app_length in Hf. cbn [length] in Hf. rewrite app_length in Hf. cbn [length] in Hf.
        rewrite app_length. cbn [length]. lia. }
      rewrite E. change (sep_token 58) with TColon. constructor; [exact Hts | apply IH; exact Hfu].
Qed.
