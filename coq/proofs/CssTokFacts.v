(* CSS tokenizer on "harmless" text: the central lemma of C15 (DESIGN: tokens_app_semicolon). *)
From V Require Import lib.Base lib.Utf8 spec.CssSyntax model.Style spec.StyleSpec.
From Coq Require Import Arith ZifyBool ZifyN ZifyNat.
Local Open Scope N_scope.


(* ---- prefix bookkeeping ---- *)
Lemma split_at_sep (sep : N) : forall pre v rest r,
  v ++ sep :: rest = pre ++ r -> Forall (fun c => c <> sep) v -> Forall (fun c => c <> sep) pre ->
  exists v', v = pre ++ v' /\ r = v' ++ sep :: rest.
Proof.
  induction pre as [|p pre IH]; intros v rest r E Hv Hp.
  - exists v. split; [reflexivity | symmetry; exact E].
  - destruct v as [|c v].
    + cbn [app] in E. inversion E; subst. inversion Hp; subst. congruence.
    + cbn [app] in E. inversion E; subst. inversion Hv; subst. inversion Hp; subst.
      destruct (IH v rest r H1 H3 H5) as (v' & -> & ->). exists v'. split; reflexivity.
Qed.

(* ---- the sub-consumers only eat their own character class ---- *)
Lemma skip_ws_prefix l : exists pre, l = pre ++ skip_ws l /\ Forall (fun c => is_ws c = true) pre.
Proof.
  induction l as [|c l IH]; [exists []; split; [reflexivity|constructor]|].
  cbn [skip_ws]. destruct (is_ws c) eqn:E.
  - destruct IH as (pre & E1 & E2). exists (c :: pre). split; [cbn [app]; f_equal; exact E1|].
    constructor; assumption.
  - exists []. split; [reflexivity|constructor].
Qed.

Lemma digits_prefix l : l = fst (digits l) ++ snd (digits l) /\ Forall (fun c => is_digit c = true) (fst (digits l)).
Proof.
  induction l as [|c l IH]; [split; [reflexivity|constructor]|].
  cbn [digits]. destruct (is_digit c) eqn:E.
  - destruct (digits l) as [d r]. cbn [fst snd] in *. destruct IH as [E1 E2].
    split; [cbn [app]; f_equal; exact E1 | constructor; assumption].
  - cbn [fst snd]. split; [reflexivity|constructor].
Qed.

Definition numc (c : N) : bool := is_digit c || (c =? 43) || (c =? 45) || (c =? 46) || (c =? 69) || (c =? 101).

Lemma digits_numc l : Forall (fun c => numc c = true) (fst (digits l)).
Proof.
  eapply Forall_impl; [|apply (digits_prefix l)]. intros c Hc. unfold numc. rewrite Hc. reflexivity.
Qed.

Lemma consume_number_prefix l :
  l = fst (consume_number l) ++ snd (consume_number l) /\
  Forall (fun c => numc c = true) (fst (consume_number l)).
Proof.
  unfold consume_number.
  (* sign *)
  set (s1 := match l with c :: r => if (c =? 43) || (c =? 45) then ([c], r) else ([], l) | [] => ([], l) end).
  assert (H1 : l = fst s1 ++ snd s1 /\ Forall (fun c => numc c = true) (fst s1)).
  { unfold s1. destruct l as [|c r]; [split; [reflexivity|constructor]|].
    destruct ((c =? 43) || (c =? 45)) eqn:E; cbn [fst snd]; split; try reflexivity; try constructor; try constructor.
    unfold numc. lia. }
  destruct s1 as [sign l1]. cbn [fst snd] in H1. destruct H1 as [E1 F1].
  pose proof (digits_prefix l1) as [E2 _]. pose proof (digits_numc l1) as F2.
  destruct (digits l1) as [ip l2]. cbn [fst snd] in *.
  (* fraction *)
  set (s3 := if ois 46 (pk1 l2) && otest is_digit (pk2 l2)
             then match l2 with dot :: r => let '(d, r') := digits r in (dot :: d, r') | [] => ([], l2) end
             else ([], l2)).
  assert (H3 : l2 = fst s3 ++ snd s3 /\ Forall (fun c => numc c = true) (fst s3)).
  { unfold s3. destruct (ois 46 (pk1 l2) && otest is_digit (pk2 l2)) eqn:E; [|split; [reflexivity|constructor]].
    destruct l2 as [|dot r]; [split; [reflexivity|constructor]|].
    pose proof (digits_prefix r) as [E3 _]. pose proof (digits_numc r) as F3.
    destruct (digits r) as [d r']. cbn [fst snd] in *.
    split; [cbn [app]; f_equal; exact E3|]. constructor; [|exact F3].
    apply andb_true_iff in E as [E _]. cbn [ois otest pk1] in E. unfold numc. lia. }
  destruct s3 as [fp l3]. cbn [fst snd] in H3. destruct H3 as [E3 F3].
  (* exponent *)
  set (s4 := if (ois 69 (pk1 l3) || ois 101 (pk1 l3)) &&
       (otest is_digit (pk2 l3) || ((ois 43 (pk2 l3) || ois 45 (pk2 l3)) && otest is_digit (pk3 l3)))
    then match l3 with
      | e :: s :: r =>
          if is_digit s then let '(d, r') := digits (s :: r) in (e :: d, r')
          else let '(d, r') := digits r in (e :: s :: d, r')
      | _ => ([], l3)
      end
    else ([], l3)).
  assert (H4 : l3 = fst s4 ++ snd s4 /\ Forall (fun c => numc c = true) (fst s4)).
  { unfold s4. destruct ((ois 69 (pk1 l3) || ois 101 (pk1 l3)) &&
       (otest is_digit (pk2 l3) || ((ois 43 (pk2 l3) || ois 45 (pk2 l3)) && otest is_digit (pk3 l3)))) eqn:E;
      [|split; [reflexivity|constructor]].
    destruct l3 as [|e [|s r]]; try (split; [reflexivity|constructor]).
    apply andb_true_iff in E as [Ee E].
    assert (He : numc e = true) by (cbn [ois otest pk1] in Ee; unfold numc; lia).
    destruct (is_digit s) eqn:Es.
    - pose proof (digits_prefix (s :: r)) as [E4 _]. pose proof (digits_numc (s :: r)) as F4.
      destruct (digits (s :: r)) as [d r']. cbn [fst snd] in *.
      split; [cbn [app]; f_equal; exact E4 | constructor; assumption].
    - pose proof (digits_prefix r) as [E4 _]. pose proof (digits_numc r) as F4.
      destruct (digits r) as [d r']. cbn [fst snd] in *.
      split; [cbn [app]; do 2 f_equal; exact E4|].
      constructor; [exact He|]. constructor; [|exact F4].
      cbn [pk2 otest] in E. rewrite Es in E. cbn [orb] in E. apply andb_true_iff in E as [E _].
      cbn [ois otest pk2] in E. unfold numc. lia. }
  destruct s4 as [ep l4]. cbn [fst snd] in H4. destruct H4 as [E4 F4].
  cbn [fst snd]. split.
  - rewrite E1, E2, E3, E4 at 1. rewrite <- !app_assoc. reflexivity.
  - repeat (apply Forall_app; split); assumption.
Qed.

Lemma tokenize_fuel_step' f c l t r :
  consume_token (c :: l) = (t, r) -> tokenize_fuel (S f) (c :: l) = t :: tokenize_fuel f r.
Proof. intros H. cbn [tokenize_fuel]. rewrite H. reflexivity. Qed.

Lemma hch_cases c : hch c = true ->
  c = 9 \/ c = 32 \/ c = 33 \/ c = 35 \/ c = 37 \/ 42 <= c <= 57 \/ 65 <= c <= 90 \/ c = 95 \/ 97 <= c <= 122.
Proof. unfold hch, is_doc_regular_char_comma, is_doc_regular_char, is_alnum. lia. Qed.

Section Harmless.
Variable sep : N.
Hypothesis Hsep : is_sep sep = true.

Definition hv (v : list N) : Prop := Forall (fun c => hch c = true /\ c <> sep) v.

Lemma sep_cases : sep = 44 \/ sep = 58 \/ sep = 59.
Proof. unfold is_sep in Hsep. lia. Qed.

Lemma hv_app a b : hv (a ++ b) <-> hv a /\ hv b.
Proof. apply Forall_app. Qed.

Lemma hv_ne v : hv v -> Forall (fun c => c <> sep) v.
Proof. apply Forall_impl. tauto. Qed.

(* the head of what follows harmless text *)
Lemma head_h v rest x : hv v -> pk1 (v ++ sep :: rest) = Some x -> hch x = true \/ x = sep.
Proof.
  destruct v as [|c v]; cbn; intros Hv E; inversion E; subst; [right; reflexivity|].
  inversion Hv; subst. left. tauto.
Qed.
Lemma head2_h v rest x : hv v -> pk2 (v ++ sep :: rest) = Some x -> hch x = true \/ x = sep \/ v = [].
Proof.
  destruct v as [|c [|d v]]; cbn; intros Hv E; [tauto| |].
  - inversion E; subst. tauto.
  - inversion E; subst. inversion Hv as [|? ? _ Hv']; subst. inversion Hv'; subst. tauto.
Qed.

Lemma ident_seq_h : forall v fuel rest, hv v -> (length v < fuel)%nat ->
  exists pre v', v = pre ++ v' /\ ident_seq fuel (v ++ sep :: rest) = (pre, v' ++ sep :: rest) /\
                 (forall c t, v = c :: t -> is_ident_cp c = true -> exists p, pre = c :: p).
Proof.
  induction v as [|c v IH]; intros fuel rest Hv Hf.
  - destruct fuel as [|f]; [simpl in Hf; lia|]. exists [], []. split; [reflexivity|].
    cbn [app ident_seq]. pose proof sep_cases as Hs.
    replace (is_ident_cp sep) with false by (unfold is_ident_cp, is_ident_start, is_letter, is_non_ascii, is_digit; lia).
    unfold valid_escape. cbn [ois otest]. replace (92 =? sep) with false by lia. cbn [andb].
    split; [reflexivity|]. intros c t E. discriminate.
  - destruct fuel as [|f]; [simpl in Hf; lia|]. inversion Hv as [|? ? [Hc Hcs] Hv']; subst.
    cbn [app ident_seq]. destruct (is_ident_cp c) eqn:Ei.
    + destruct (IH f rest Hv') as (pre & v' & -> & E & _); [simpl in Hf; lia|].
      rewrite E. exists (c :: pre), v'. split; [reflexivity|]. split; [reflexivity|].
      intros c0 t E0 _. inversion E0; subst. eauto.
    + unfold valid_escape. cbn [ois otest]. apply hch_cases in Hc.
      replace (92 =? c) with false by lia. cbn [andb].
      exists [], (c :: v). split; [reflexivity|]. split; [reflexivity|].
      intros c0 t E0 Hi. inversion E0; subst. congruence.
Qed.

Lemma numc_not_sep c : numc c = true -> c <> sep.
Proof. pose proof sep_cases. unfold numc, is_digit. lia. Qed.

Lemma ws_not_sep c : is_ws c = true -> c <> sep.
Proof. pose proof sep_cases. unfold is_ws. lia. Qed.

Lemma digits_nondigit c r : is_digit c = false -> digits (c :: r) = ([], c :: r).
Proof. intros H. cbn [digits]. rewrite H. reflexivity. Qed.
Lemma digits_digit c r : is_digit c = true -> digits (c :: r) = (c :: fst (digits r), snd (digits r)).
Proof. intros H. cbn [digits]. rewrite H. destruct (digits r); reflexivity. Qed.

Lemma consume_number_nonempty c r : starts_number (Some c) (pk1 r) (pk2 r) = true ->
  exists xs, fst (consume_number (c :: r)) = c :: xs.
Proof.
  intros H. unfold consume_number. unfold starts_number in H. cbn [ois otest] in H.
  destruct ((c =? 43) || (c =? 45)) eqn:Es.
  - destruct (digits r) as [ip l2].
    match goal with |- context [let '(fp, l3) := ?X in _] => destruct X as [fp l3] end.
    match goal with |- context [let '(ep, l4) := ?X in _] => destruct X as [ep l4] end.
    cbn [fst app]. eauto.
  - replace ((43 =? c) || (45 =? c)) with false in H by lia.
    destruct (46 =? c) eqn:E46.
    + apply N.eqb_eq in E46. subst c.
      rewrite digits_nondigit by reflexivity.
      change (pk2 (46 :: r)) with (pk1 r). change (ois 46 (pk1 (46 :: r))) with true. rewrite H. cbn [andb].
      destruct (digits r) as [dd rr].
      match goal with |- context [let '(ep, l4) := ?X in _] => destruct X as [ep l4] end.
      cbn [fst app]. eauto.
    + rewrite digits_digit by exact H.
      match goal with |- context [let '(fp, l3) := ?X in _] => destruct X as [fp l3] end.
      match goal with |- context [let '(ep, l4) := ?X in _] => destruct X as [ep l4] end.
      cbn [fst app]. eauto.
Qed.

Lemma hv_suffix pre v' : hv (pre ++ v') -> hv v'.
Proof. intros H. apply hv_app in H. tauto. Qed.

(* 4.3.3 on harmless text *)
Lemma consume_numeric_h c v rest : hv (c :: v) ->
  starts_number (Some c) (pk1 (v ++ sep :: rest)) (pk2 (v ++ sep :: rest)) = true ->
  exists t v', consume_numeric (c :: v ++ sep :: rest) = (t, v' ++ sep :: rest) /\
               harmless_token t = true /\ exists pre, v = pre ++ v'.
Proof.
  intros Hv Hs. unfold consume_numeric.
  destruct (consume_number_nonempty c _ Hs) as (xs & Ex).
  pose proof (consume_number_prefix (c :: v ++ sep :: rest)) as [E F].
  destruct (consume_number (c :: v ++ sep :: rest)) as [repr r]. cbn [fst snd] in *. subst repr.
  assert (Fs : Forall (fun x => x <> sep) (c :: xs)).
  { eapply Forall_impl; [|exact F]. intros x Hx. apply numc_not_sep. exact Hx. }
  change (c :: v ++ sep :: rest) with ((c :: v) ++ sep :: rest) in E.
  destruct (split_at_sep sep (c :: xs) (c :: v) rest r E (hv_ne _ Hv) Fs) as (v' & Ev & ->).
  cbn [app] in Ev. inversion Ev as [Ev']. clear Ev.
  assert (Hv' : hv v').
  { rewrite Ev' in Hv. inversion Hv; subst. eapply hv_suffix. eassumption. }
  destruct (would_start_ident _ _ _).
  - destruct (ident_seq_h v' (S (length (v' ++ sep :: rest))) rest Hv') as (pre & v'' & -> & Ei & _).
    { rewrite app_length. simpl. lia. }
    rewrite Ei. exists (TDimension (c :: xs) pre), v''. split; [reflexivity|]. split; [reflexivity|].
    exists (xs ++ pre). rewrite <- app_assoc. reflexivity.
  - destruct (ois 37 (pk1 (v' ++ sep :: rest))) eqn:E37.
    + destruct v' as [|d v''].
      { cbn [app pk1 ois otest] in E37. pose proof sep_cases. lia. }
      cbn [app pk1 ois otest] in E37. apply N.eqb_eq in E37. subst d.
      exists (TPercentage (c :: xs)), v''. split; [reflexivity|]. split; [reflexivity|].
      exists (xs ++ [37]). rewrite <- app_assoc. reflexivity.
    + exists (TNumber (c :: xs)), v'. split; [reflexivity|]. split; [reflexivity|]. exists xs. reflexivity.
Qed.

(* 4.3.4 on harmless text *)
Lemma consume_ident_like_h c v rest : hv (c :: v) -> is_ident_cp c = true ->
  exists t v', consume_ident_like (c :: v ++ sep :: rest) = (t, v' ++ sep :: rest) /\
               harmless_token t = true /\ exists pre, v = pre ++ v'.
Proof.
  intros Hv Hi. unfold consume_ident_like.
  change (c :: v ++ sep :: rest) with ((c :: v) ++ sep :: rest).
  destruct (ident_seq_h (c :: v) (S (length ((c :: v) ++ sep :: rest))) rest Hv) as (pre & v' & Ev & Ei & Hp).
  { rewrite app_length. simpl. lia. }
  rewrite Ei. destruct (Hp c v eq_refl Hi) as (p & ->).
  cbn [app] in Ev. inversion Ev as [Ev'].
  assert (Hv' : hv v').
  { rewrite Ev' in Hv. inversion Hv; subst. eapply hv_suffix. eassumption. }
  assert (H40 : ois 40 (pk1 (v' ++ sep :: rest)) = false).
  { destruct (pk1 (v' ++ sep :: rest)) as [x|] eqn:Ex; [|reflexivity].
    destruct (head_h _ _ _ Hv' Ex) as [Hx| ->]; cbn [ois otest].
    - apply hch_cases in Hx. lia.
    - pose proof sep_cases. lia. }
  rewrite H40, andb_false_r.
  exists (TIdent (c :: p)), v'. split; [reflexivity|]. split; [reflexivity|]. exists p. reflexivity.
Qed.

Lemma skip_ws_h v rest : hv v ->
  exists v', skip_ws (v ++ sep :: rest) = v' ++ sep :: rest /\ exists pre, v = pre ++ v'.
Proof.
  intros Hv. destruct (skip_ws_prefix (v ++ sep :: rest)) as (pre & E & F).
  assert (Fs : Forall (fun x => x <> sep) pre).
  { eapply Forall_impl; [|exact F]. intros x Hx. apply ws_not_sep. exact Hx. }
  destruct (split_at_sep sep pre v rest _ E (hv_ne _ Hv) Fs) as (v' & -> & E2).
  exists v'. split; [exact E2 | exists pre; reflexivity].
Qed.

(* 4.3.1 on harmless text: one harmless token, and the rest is again harmless text + separator *)
Lemma consume_token_h c v rest : hv (c :: v) ->
  (c = 47 -> pk1 (v ++ sep :: rest) <> Some 42) ->
  exists t v', consume_token (c :: v ++ sep :: rest) = (t, v' ++ sep :: rest) /\
               harmless_token t = true /\ exists pre, v = pre ++ v'.
Proof.
  intros Hv Hcm. inversion Hv as [|? ? [Hc Hcs] Hv']; subst.
  pose proof (hch_cases c Hc) as Hcc. pose proof sep_cases as Hss.
  assert (Triv : forall t, harmless_token t = true ->
            exists t0 v', (t, v ++ sep :: rest) = (t0, v' ++ sep :: rest) /\ harmless_token t0 = true /\ exists pre, v = pre ++ v').
  { intros t Ht. exists t, v. split; [reflexivity|]. split; [exact Ht | exists []; reflexivity]. }
  cbn [consume_token].
  (* comment *)
  destruct ((c =? 47) && ois 42 (pk1 (v ++ sep :: rest))) eqn:Ecm.
  { exfalso. apply andb_true_iff in Ecm as [E1 E2]. apply N.eqb_eq in E1.
    apply (Hcm E1). destruct (pk1 (v ++ sep :: rest)) as [x|]; [|discriminate].
    cbn [ois otest] in E2. apply N.eqb_eq in E2. subst x. reflexivity. }
  destruct (is_ws c) eqn:Ews.
  { destruct (skip_ws_h v rest Hv') as (v' & E & Hp). rewrite E.
    exists TWhitespace, v'. split; [reflexivity|]. split; [reflexivity | exact Hp]. }
  replace (c =? 34) with false by lia.
  destruct (c =? 35) eqn:E35.
  { destruct (otest is_ident_cp (pk1 (v ++ sep :: rest)) || valid_escape (pk1 (v ++ sep :: rest)) (pk2 (v ++ sep :: rest))).
    - destruct (ident_seq_h v (S (length (v ++ sep :: rest))) rest Hv') as (pre & v' & -> & Ei & _).
      { rewrite app_length. simpl. lia. }
      rewrite Ei. eexists; exists v'. split; [reflexivity|]. split; [reflexivity | exists pre; reflexivity].
    - apply Triv. reflexivity. }
  replace (c =? 39) with false by lia. replace (c =? 40) with false by lia. replace (c =? 41) with false by lia.
  destruct (c =? 43) eqn:E43.
  { destruct (starts_number (Some c) (pk1 (v ++ sep :: rest)) (pk2 (v ++ sep :: rest))) eqn:Es.
    - apply consume_numeric_h; assumption.
    - apply Triv. reflexivity. }
  destruct (c =? 44) eqn:E44; [apply Triv; reflexivity|].
  destruct (c =? 45) eqn:E45.
  { destruct (starts_number (Some c) (pk1 (v ++ sep :: rest)) (pk2 (v ++ sep :: rest))) eqn:Es.
    { apply consume_numeric_h; assumption. }
    assert (Hcdc : ois 45 (pk1 (v ++ sep :: rest)) && ois 62 (pk2 (v ++ sep :: rest)) = false).
    { destruct (pk2 (v ++ sep :: rest)) as [x|] eqn:Ex; [|apply andb_false_r].
      destruct (head2_h _ _ _ Hv' Ex) as [Hx|[->| ->]].
      - apply hch_cases in Hx. replace (ois 62 (Some x)) with false by (cbn [ois otest]; lia). apply andb_false_r.
      - replace (ois 62 (Some sep)) with false by (cbn [ois otest]; lia). apply andb_false_r.
      - cbn [app pk1 pk2 ois otest]. replace (45 =? sep) with false by lia. reflexivity. }
    rewrite Hcdc.
    destruct (would_start_ident (Some c) (pk1 (v ++ sep :: rest)) (pk2 (v ++ sep :: rest))).
    - apply consume_ident_like_h; [exact Hv|]. unfold is_ident_cp. rewrite E45. apply orb_true_r.
    - apply Triv. reflexivity. }
  destruct (c =? 46) eqn:E46.
  { destruct (starts_number (Some c) (pk1 (v ++ sep :: rest)) (pk2 (v ++ sep :: rest))) eqn:Es.
    - apply consume_numeric_h; assumption.
    - apply Triv. reflexivity. }
  replace (c =? 58) with false by lia. replace (c =? 59) with false by lia. replace (c =? 60) with false by lia.
  replace (c =? 64) with false by lia. replace (c =? 91) with false by lia. replace (c =? 92) with false by lia.
  replace (c =? 93) with false by lia. replace (c =? 123) with false by lia. replace (c =? 125) with false by lia.
  destruct (is_digit c) eqn:Ed.
  { apply consume_numeric_h; [exact Hv|]. unfold starts_number. cbn [ois otest].
    replace ((43 =? c) || (45 =? c)) with false by lia. replace (46 =? c) with false by lia. exact Ed. }
  destruct (is_ident_start c) eqn:Eis.
  { apply consume_ident_like_h; [exact Hv|]. unfold is_ident_cp. rewrite Eis. reflexivity. }
  apply Triv. reflexivity.
Qed.

Lemma consume_token_sep rest : consume_token (sep :: rest) = (sep_token sep, rest).
Proof. destruct sep_cases as [-> | [-> | ->]]; reflexivity. Qed.

Lemma ncm_tail x r : no_comment_marker (x :: r) = true -> no_comment_marker r = true.
Proof.
  destruct r as [|y r]; [reflexivity|]. cbn [no_comment_marker]. intros H.
  apply andb_true_iff in H. tauto.
Qed.
Lemma ncm_suffix pre v : no_comment_marker (pre ++ v) = true -> no_comment_marker v = true.
Proof. induction pre as [|x pre IH]; [tauto|]. cbn [app]. intros H. apply IH. eapply ncm_tail. exact H. Qed.

Lemma ncm_head c v rest : hv (c :: v) -> no_comment_marker (c :: v) = true ->
  c = 47 -> pk1 (v ++ sep :: rest) <> Some 42.
Proof.
  intros Hv H E. subst c. destruct v as [|d v]; cbn [app pk1].
  - pose proof sep_cases. intros X. inversion X. lia.
  - cbn [no_comment_marker] in H. intros X. inversion X. subst d. cbn in H. discriminate.
Qed.

(* DESIGN C15 "tokens_app_semicolon": harmless text followed by a separator is tokenized into
   harmless tokens, then the separator's own token, then whatever the rest gives *)
Lemma tokenize_h n : forall v, (length v <= n)%nat -> hv v -> no_comment_marker v = true ->
  forall fuel rest, (length v < fuel)%nat ->
  exists ts fuel', tokenize_fuel fuel (v ++ sep :: rest) = ts ++ tokenize_fuel fuel' (sep :: rest) /\
                   forallb harmless_token ts = true /\ (fuel <= fuel' + length v)%nat.
Proof.
  induction n as [|n IH]; intros v Hl Hv Hm fuel rest Hf.
  { destruct v; [|simpl in Hl; lia]. exists [], fuel. split; [reflexivity|]. split; [reflexivity|simpl; lia]. }
  destruct v as [|c v].
  { exists [], fuel. split; [reflexivity|]. split; [reflexivity|simpl; lia]. }
  destruct fuel as [|f]; [simpl in Hf; lia|].
  destruct (consume_token_h c v rest Hv (ncm_head c v rest Hv Hm)) as (t & v' & Ec & Ht & pre & Ep).
  cbn [app]. rewrite (tokenize_fuel_step' f c (v ++ sep :: rest) t _ Ec).
  assert (Hv' : hv v'). { inversion Hv; subst. eapply hv_suffix. eassumption. }
  assert (Hm' : no_comment_marker v' = true).
  { apply ncm_tail in Hm. rewrite Ep in Hm. eapply ncm_suffix. exact Hm. }
  assert (Hl' : (length v' <= length v)%nat) by (rewrite Ep, app_length; lia).
  destruct (IH v' ltac:(simpl in Hl; lia) Hv' Hm' f rest ltac:(simpl in Hf; lia)) as (ts & fuel' & E & Hts & Hfu).
  exists (t :: ts), fuel'. split; [rewrite E; reflexivity|]. split; [cbn [forallb]; rewrite Ht; exact Hts|].
  simpl. lia.
Qed.

Theorem tokens_app_separator v rest fuel : hv v -> no_comment_marker v = true ->
  (length (v ++ sep :: rest) < fuel)%nat ->
  exists ts fuel', tokenize_fuel fuel (v ++ sep :: rest) = ts ++ sep_token sep :: tokenize_fuel fuel' rest /\
                   forallb harmless_token ts = true /\ (length rest < fuel')%nat.
Proof.
  intros Hv Hm Hf. rewrite app_length in Hf. cbn [length] in Hf.
  destruct (tokenize_h (length v) v (le_n _) Hv Hm fuel rest) as (ts & f1 & E & Hts & Hfu); [lia|].
  destruct f1 as [|f2]; [lia|].
  exists ts, f2. split; [|split; [exact Hts | lia]].
  rewrite E. rewrite (tokenize_fuel_step' f2 sep rest _ _ (consume_token_sep rest)). reflexivity.
Qed.
End Harmless.
