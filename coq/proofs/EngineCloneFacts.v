(* C07: "cloning a template that has already been executed fails" - over histories.
   Once Execute through a handle has answered with an analysis error, or the template it denotes has been
   executed successfully, Clone through that handle is refused after ANY further history of API calls
   (t.New only for names the set does not define yet): the recorded status is never lost (EngineInvFacts.v,
   EngineOkFacts.v) and Clone looks at nothing else. *)
From V Require Import lib.Base gen.GenTemplate model.GoStrings model.TContext model.TTransition
     model.TEscapeText model.TSanitize model.TTree model.TEscaper model.Engine proofs.EngineFacts proofs.EngineHistFacts proofs.EngineInvFacts proofs.EngineOkFacts.
From Coq Require Import Arith PeanoNat Lia.
Local Open Scope N_scope.

Lemma clone_refused_if_analysed w h o : handle w h = Some o -> h_err (get_tmpl w o) <> ENotYet ->
  step w (OClone h) = (w, RErrCannotClone).
Proof. intros Hh He. cbn [step]. rewrite Hh. destruct (h_err (get_tmpl w o)); [contradiction He; reflexivity | reflexivity | reflexivity]. Qed.

Theorem clone_refused_forever ops0 h o ops :
  let w0 := run_from world0 ops0 in
  handle w0 h = Some o ->
  (exists code, snd (step w0 (OExecute h)) = RErrEscape code) \/ h_err (get_tmpl w0 o) = EEscOK ->
  let w := fst (step w0 (OExecute h)) in
  no_redefine_hist w ops ->
  let w' := run_from w ops in
  step w' (OClone h) = (w', RErrCannotClone).
Proof.
  intros w0 Hh Hcase w Hn w'.
  assert (I0 : Inv w0) by apply Inv_reachable.
  assert (Iw : Inv w) by (unfold w; apply Inv_step; exact I0).
  destruct Hcase as [(code & Hr) | He].
  - (* the analysis failed: the error is recorded and sticks *)
    assert (Hreg : registered w0 o).
    { destruct I0 as (_ & _ & Hhb). destruct (Hhb h o Hh) as (_ & [Hr'|(K1 & K2)]); [exact Hr'|].
      exfalso. cbn [step] in Hr. rewrite Hh, K1, K2 in Hr. cbn [snd] in Hr. discriminate Hr. }
    pose proof (failed_execute_recorded w0 h o code Hh Hreg Hr) as He. fold w in He.
    assert (Hhw : handle w h = Some o).
    { destruct (step_keeps_error o code w0 (OExecute h)) as [_ K2].
      { cbn [allowed]. intros obj0 H0. rewrite Hh in H0. inversion H0. left. reflexivity. }
      fold w in K2. unfold handle in *. destruct (nth_error (w_handles w0) h) as [[x|]|] eqn:E; try discriminate.
      inversion Hh; subst x. rewrite (K2 h (Some o) E). reflexivity. }
    destruct (run_from_keeps_error_wf o code ops w Iw Hn) as [K1 K2].
    destruct (K1 (conj (err_in_range w o code He) He)) as [_ He'].
    assert (Hh' : handle w' h = Some o).
    { unfold handle in *. destruct (nth_error (w_handles w) h) as [[x|]|] eqn:E; try discriminate.
      inversion Hhw; subst x. unfold w'. rewrite (K2 h (Some o) E). reflexivity. }
    apply (clone_refused_if_analysed w' h o Hh'). fold w' in He'. rewrite He'. discriminate.
  - (* executed successfully before: the status sticks *)
    set (n := h_ns (get_tmpl w0 o)).
    assert (Ew : w = set_escaped w0 n) by (unfold w; cbn [step]; rewrite Hh, He; reflexivity).
    assert (Ol : (o < length (w_tmpl w0))%nat) by (destruct I0 as (_ & _ & Hhb); destruct (Hhb h o Hh) as ((A1 & _) & _); exact A1).
    assert (S0 : okst w o (h_text (get_tmpl w0 o)) n).
    { rewrite Ew. destruct (set_escaped_spec w0 n) as (E1 & E2 & E3 & E4).
      assert (G : get_tmpl (set_escaped w0 n) o = get_tmpl w0 o) by reflexivity.
      unfold okst. rewrite G, E3. split; [exact Ol|]. split; [exact He|]. split; [reflexivity|]. split; [reflexivity|]. split; [|exact E1].
      destruct (Nat.lt_ge_cases n (length (w_ns (set_escaped w0 n)))) as [Hl|Hl]; [exact Hl|].
      unfold get_ns in E1. rewrite nth_overflow in E1 by exact Hl. discriminate E1. }
    pose proof (run_from_keeps_ok o (h_text (get_tmpl w0 o)) n ops w Iw Hn S0) as (B1 & B2 & _).
    fold w' in B1, B2.
    assert (Hh' : handle w' h = Some o).
    { destruct (run_from_keeps_error_wf o 0 ops w Iw Hn) as [_ K2]. fold w' in K2.
      assert (Hw : handle w h = Some o) by (rewrite Ew; exact Hh).
      unfold handle in *. destruct (nth_error (w_handles w) h) as [[x|]|] eqn:E; try discriminate.
      inversion Hw; subst x. rewrite (K2 h (Some o) E). reflexivity. }
    apply (clone_refused_if_analysed w' h o Hh'). rewrite B2. discriminate.
Qed.

(* non-vacuity: a set that has been executed successfully, and one whose analysis failed *)
Definition cl_ok_hist : list op := [ONew (B "t"); OParse 0 (Parsed [(B "t", [NText 1 (B "<b>x</b>")])]); OExecute 0].
Definition cl_bad_hist : list op := [ONew (B "t"); OParse 0 (Parsed [(B "t", [NText 1 (B "<a href=")])])].
Example clone_refused_premises_satisfiable :
  (let w0 := run_from world0 cl_ok_hist in handle w0 0 = Some 0%nat /\ h_err (get_tmpl w0 0) = EEscOK) /\
  (let w0 := run_from world0 cl_bad_hist in handle w0 0 = Some 0%nat /\ exists code, snd (step w0 (OExecute 0)) = RErrEscape code).
Proof.
  split; cbv zeta; (split; [vm_compute; reflexivity|]); [vm_compute; reflexivity|].
  eexists. vm_compute. reflexivity.
Qed.
