(* C14: data interpolated after a static URL prefix stays inside its URL component.  All proofs. *)
From V Require Import lib.Base lib.Regex lib.RegexDecide lib.Utf8 gen.GenRegex gen.GenPolicy gen.GenEntities.
From V Require Import model.Html model.HtmlUnescape model.Url model.UrlProc model.UrlSet model.GoStrings model.TContext
     model.TSanitize model.TSanitizers.
From V Require Import spec.Rfc3986 spec.WhatwgUrl spec.HtmlSpec spec.TrurlSpec spec.UrlPrefixSpec.
From V Require Import proofs.RegexFacts proofs.RegexDecideFacts proofs.RegexSpecs proofs.Utf8Facts proofs.Utf8AsciiFacts
     proofs.HtmlFacts proofs.TrurlFacts proofs.UrlFacts proofs.PolicyFacts.
From Coq Require Import ZifyBool ZifyN ZifyNat.
Local Open Scope N_scope.

(* ================================================================== *)
(* side conditions on the regenerated data, evaluated by the kernel *)
Lemma bridge_ws_ok : bridge_ws = true. Proof. vm_compute. reflexivity. Qed.
Lemma bridge_charref_ok : bridge_charref = true. Proof. vm_compute. reflexivity. Qed.
Lemma bridge_pct_ok : bridge_pct = true. Proof. vm_compute. reflexivity. Qed.
Lemma bridge_scheme_ok : bridge_scheme = true. Proof. vm_compute. reflexivity. Qed.
Lemma entity_names_ok_ok : entity_names_ok = true. Proof. vm_compute. reflexivity. Qed.

(* ================================================================== *)
(* Part A: the two URL processors, byte by byte *)

Lemma is_hex_sp c : UrlProc.is_hex c = sp_hex c.
Proof. unfold UrlProc.is_hex, sp_hex, sp_digit. lia. Qed.

Lemma is_alnum_sp c : UrlProc.is_alnum c = sp_alnum c.
Proof. unfold UrlProc.is_alnum, sp_alnum, sp_alpha, sp_digit. lia. Qed.

Definition lookahead (t : bytes) : bool :=
  match t with h1 :: h2 :: _ => sp_hex h1 && sp_hex h2 | _ => false end.

Lemma keep_byte_37 t : keep_byte true 37 t = lookahead t.
Proof.
  unfold keep_byte, lookahead. change (mem_N 37 url_reserved) with false.
  change (mem_N 37 url_unreserved_marks) with false. change (37 =? 37) with true. cbn [andb].
  destruct t as [|h1 [|h2 r]]; try reflexivity. rewrite !is_hex_sp. reflexivity.
Qed.

Lemma keep_byte_other_indep norm c t : (c =? 37) = false -> keep_byte norm c t = keep_byte norm c [].
Proof. intros H. unfold keep_byte. rewrite H. reflexivity. Qed.

Lemma keep_norm_table :
  forallb (fun c => (c =? 37) || Bool.eqb (keep_byte true c []) (normalized_byte c)) all_bytes = true.
Proof. vm_compute. reflexivity. Qed.

Lemma keep_norm_other c t : c < 256 -> (c =? 37) = false -> keep_byte true c t = normalized_byte c.
Proof.
  intros Hc H. rewrite (keep_byte_other_indep _ _ _ H).
  pose proof (forall_byte _ keep_norm_table c Hc) as E. cbn beta in E. rewrite H in E. cbn [orb] in E.
  apply eqb_prop in E. exact E.
Qed.

Lemma normalized_byte_small c : normalized_byte c = true -> c < 128.
Proof.
  unfold normalized_byte, sp_alnum, sp_alpha, sp_digit, normalized_marks, mem_N. cbn [existsb]. lia.
Qed.

Lemma normalized_37 : normalized_byte 37 = true. Proof. reflexivity. Qed.

(* the triplet written for a byte *)
Definition triplet_ok (c : N) : bool :=
  match pct_encode c with
  | [p; d1; d2] =>
      (p =? 37) && sp_hex d1 && sp_hex d2 && normalized_byte d1 && normalized_byte d2 &&
      negb (d1 =? 37) && negb (d2 =? 37) && (16 * hex_val_of d1 + hex_val_of d2 =? c) &&
      TrurlSpec.is_lower_hex d1 && TrurlSpec.is_lower_hex d2
  | _ => false
  end.
Lemma triplet_table : forallb triplet_ok all_bytes = true.
Proof. vm_compute. reflexivity. Qed.

Lemma pct_encode_shape c : c < 256 -> exists d1 d2,
  pct_encode c = [37; d1; d2] /\ sp_hex d1 = true /\ sp_hex d2 = true /\
  normalized_byte d1 = true /\ normalized_byte d2 = true /\ (d1 =? 37) = false /\ (d2 =? 37) = false /\
  16 * hex_val_of d1 + hex_val_of d2 = c.
Proof.
  intros Hc. pose proof (forall_byte _ triplet_table c Hc) as E. unfold triplet_ok in E.
  unfold pct_encode in *. exists (hex_digit (c / 16)), (hex_digit (c mod 16)).
  repeat (apply andb_true_iff in E as [E ?]).
  apply N.eqb_eq in E.
  repeat split; try assumption; try (apply negb_true_iff; assumption).
  apply N.eqb_eq. assumption.
Qed.

Lemma url_processor_cons norm c t :
  url_processor norm (c :: t) =
  if keep_byte norm c t then c :: url_processor norm t else pct_encode c ++ url_processor norm t.
Proof. reflexivity. Qed.

Lemma pct_ok_cons c t : pct_ok (c :: t) = (if c =? 37 then lookahead t else true) && pct_ok t.
Proof. reflexivity. Qed.

Lemma pct_ok_other c t : (c =? 37) = false -> pct_ok (c :: t) = pct_ok t.
Proof. intros H. rewrite pct_ok_cons, H. reflexivity. Qed.

Lemma keep_hex h t : sp_hex h = true -> keep_byte true h t = true.
Proof.
  intros H. assert (Hh : h < 256) by (unfold sp_hex, sp_digit in H; lia).
  assert (H37 : (h =? 37) = false) by (unfold sp_hex, sp_digit in H; lia).
  rewrite (keep_norm_other h t Hh H37). unfold normalized_byte, sp_alnum, sp_alpha. unfold sp_hex in H.
  destruct (sp_digit h); [rewrite orb_true_r; reflexivity|]. cbn [orb] in *.
  assert (((65 <=? h) && (h <=? 90) || (97 <=? h) && (h <=? 122)) = true) by lia.
  rewrite H0. reflexivity.
Qed.

(* the normalised text consists of allowed bytes only *)
Lemma normalize_alphabet (v : bytes) : wf_bytes v -> forallb normalized_byte (normalize_url v) = true.
Proof.
  unfold normalize_url. induction 1 as [|c t Hc Ht IH]; [reflexivity|].
  rewrite url_processor_cons. destruct (keep_byte true c t) eqn:K.
  - cbn [forallb]. rewrite IH, andb_true_r.
    destruct (c =? 37) eqn:E37; [apply N.eqb_eq in E37; subst; reflexivity|].
    rewrite <- (keep_norm_other c t Hc E37). exact K.
  - destruct (pct_encode_shape c Hc) as (d1 & d2 & -> & _ & _ & N1 & N2 & _).
    cbn [app forallb]. rewrite N1, N2, IH. reflexivity.
Qed.

(* in it every percent sign is followed by two hex digits *)
Lemma normalize_pct_ok (v : bytes) : wf_bytes v -> pct_ok (normalize_url v) = true.
Proof.
  unfold normalize_url. induction 1 as [|c t Hc Ht IH]; [reflexivity|].
  rewrite url_processor_cons. destruct (keep_byte true c t) eqn:K.
  - destruct (c =? 37) eqn:E37.
    + apply N.eqb_eq in E37; subst c. rewrite keep_byte_37 in K. unfold lookahead in K.
      destruct t as [|h1 [|h2 r]]; try discriminate. apply andb_true_iff in K as [K1 K2].
      rewrite !url_processor_cons in *. rewrite (keep_hex h1 _ K1) in *. rewrite (keep_hex h2 _ K2) in *.
      rewrite pct_ok_cons. cbn [N.eqb Pos.eqb lookahead]. rewrite K1, K2. cbn [andb]. exact IH.
    + rewrite pct_ok_other by exact E37. exact IH.
  - destruct (pct_encode_shape c Hc) as (d1 & d2 & -> & H1 & H2 & _ & _ & E1 & E2 & _).
    cbn [app]. rewrite pct_ok_cons. cbn [N.eqb Pos.eqb lookahead]. rewrite H1, H2. cbn [andb].
    rewrite (pct_ok_other _ _ E1), (pct_ok_other _ _ E2). exact IH.
Qed.

(* such a text is a fixed point of the normaliser *)
Lemma normalize_fixed (n : bytes) :
  forallb normalized_byte n = true -> pct_ok n = true -> normalize_url n = n.
Proof.
  unfold normalize_url. induction n as [|c t IH]; [reflexivity|]. intros Ha Hp.
  cbn [forallb] in Ha. apply andb_true_iff in Ha as [Hc Ha].
  rewrite pct_ok_cons in Hp. apply andb_true_iff in Hp as [Hl Hp].
  rewrite url_processor_cons.
  assert (K : keep_byte true c t = true).
  { destruct (c =? 37) eqn:E37.
    - apply N.eqb_eq in E37; subst c. rewrite keep_byte_37. exact Hl.
    - rewrite (keep_norm_other c t) by (try exact E37; pose proof (normalized_byte_small c Hc); lia). exact Hc. }
  rewrite K, IH by assumption. reflexivity.
Qed.

Lemma normalize_idempotent (v : bytes) : wf_bytes v -> normalize_url (normalize_url v) = normalize_url v.
Proof. intros H. apply normalize_fixed; [apply normalize_alphabet | apply normalize_pct_ok]; exact H. Qed.

(* a byte that is not a hex digit cuts the look-ahead exactly like the end of the text *)
Lemma lookahead_app_nonhex a c b : sp_hex c = false -> lookahead (a ++ c :: b) = lookahead a.
Proof.
  intros Hc. destruct a as [|x [|y a']]; cbn [app lookahead].
  - destruct b; [reflexivity|]. rewrite Hc. reflexivity.
  - rewrite Hc, andb_false_r. reflexivity.
  - reflexivity.
Qed.

Lemma keep_byte_app_nonhex norm x a c b : sp_hex c = false ->
  keep_byte norm x (a ++ c :: b) = keep_byte norm x a.
Proof.
  intros Hc. unfold keep_byte. destruct (mem_N x url_reserved); [reflexivity|].
  destruct (mem_N x url_unreserved_marks); [reflexivity|]. destruct (x =? 37); [|reflexivity].
  f_equal. destruct a as [|h1 [|h2 r]]; cbn [app].
  - destruct b; [reflexivity|]. rewrite !is_hex_sp, Hc. reflexivity.
  - rewrite !is_hex_sp, Hc, andb_false_r. reflexivity.
  - reflexivity.
Qed.

Lemma url_processor_app_nonhex norm (a : bytes) c b : sp_hex c = false ->
  url_processor norm (a ++ c :: b) = url_processor norm a ++ url_processor norm (c :: b).
Proof.
  intros Hc. induction a as [|x a IH]; [reflexivity|].
  change ((x :: a) ++ c :: b) with (x :: (a ++ c :: b)). rewrite !url_processor_cons.
  rewrite (keep_byte_app_nonhex norm x a c b Hc), IH.
  destruct (keep_byte norm x a); [reflexivity | rewrite app_assoc; reflexivity].
Qed.

(* valid escapes of the input are kept, wherever they stand *)
Lemma normalize_keeps_escapes (a b : bytes) h1 h2 : sp_hex h1 = true -> sp_hex h2 = true ->
  normalize_url (a ++ [37; h1; h2] ++ b) = normalize_url a ++ [37; h1; h2] ++ normalize_url b.
Proof.
  intros H1 H2. unfold normalize_url. cbn [app].
  rewrite (url_processor_app_nonhex true a 37 (h1 :: h2 :: b)) by reflexivity. f_equal.
  rewrite url_processor_cons, keep_byte_37. cbn [lookahead]. rewrite H1, H2. cbn [andb].
  rewrite url_processor_cons, (keep_hex h1 _ H1). rewrite url_processor_cons, (keep_hex h2 _ H2). reflexivity.
Qed.

(* an incomplete escape at the very end is encoded *)
Lemma normalize_partial_escape_end (a : bytes) :
  normalize_url (a ++ [37]) = normalize_url a ++ B "%25" /\
  forall h, sp_hex h = true -> normalize_url (a ++ [37; h]) = normalize_url a ++ B "%25" ++ [h].
Proof.
  unfold normalize_url. split.
  - rewrite (url_processor_app_nonhex true a 37 []) by reflexivity. reflexivity.
  - intros h Hh. rewrite (url_processor_app_nonhex true a 37 [h]) by reflexivity. f_equal.
    rewrite url_processor_cons, keep_byte_37. cbn [lookahead app].
    rewrite url_processor_cons, (keep_hex h _ Hh). reflexivity.
Qed.

(* the normaliser satisfies the relation the oracle applies to the implementation's outputs *)
Lemma norm_rel_cons c v' n :
  norm_rel (c :: v') n =
  match n with
  | x :: n' =>
      ((if c =? 37 then lookahead v' else normalized_byte c) && (x =? c) && norm_rel v' n')
      || (negb ((c =? 37) && lookahead v') &&
          match n with
          | 37 :: h1 :: h2 :: n'' =>
              sp_hex h1 && sp_hex h2 && (16 * hex_val_of h1 + hex_val_of h2 =? c) && norm_rel v' n''
          | _ => false
          end)
  | [] => false
  end.
Proof. destruct n; reflexivity. Qed.

Lemma normalize_norm_rel (v : bytes) : wf_bytes v -> norm_rel v (normalize_url v) = true.
Proof.
  unfold normalize_url. induction 1 as [|c t Hc Ht IH]; [reflexivity|].
  rewrite url_processor_cons. destruct (keep_byte true c t) eqn:K.
  - rewrite norm_rel_cons. apply orb_true_iff. left. rewrite N.eqb_refl, IH, !andb_true_r.
    destruct (c =? 37) eqn:E37.
    + apply N.eqb_eq in E37; subst c. rewrite <- keep_byte_37. exact K.
    + rewrite <- (keep_norm_other c t Hc E37). exact K.
  - destruct (pct_encode_shape c Hc) as (d1 & d2 & -> & H1 & H2 & _ & _ & _ & _ & Ev).
    cbn [app]. rewrite norm_rel_cons. apply orb_true_iff. right.
    rewrite H1, H2, IH, Ev, N.eqb_refl, !andb_true_r.
    destruct (c =? 37) eqn:E37; [|reflexivity].
    apply N.eqb_eq in E37. rewrite E37 in K. rewrite keep_byte_37 in K. rewrite K. reflexivity.
Qed.

(* ================================================================== *)
(* Part B: query escaping; HTML escaping and the browser's decoding leave such text alone *)

Lemma unreserved_sp c : Rfc3986.unreserved c = sp_unreserved c.
Proof.
  unfold Rfc3986.unreserved, Rfc3986.is_alpha, Rfc3986.is_digit, sp_unreserved, sp_alnum, sp_alpha, sp_digit. lia.
Qed.

Lemma sp_unreserved_not_pct c : sp_unreserved c = true -> (c =? 37) = false.
Proof. unfold sp_unreserved, sp_alnum, sp_alpha, sp_digit. lia. Qed.

Lemma lower_hex_sp c : TrurlSpec.is_lower_hex c = true -> sp_hex c = true.
Proof. unfold TrurlSpec.is_lower_hex, Rfc3986.is_digit, sp_hex, sp_digit. lia. Qed.

Lemma unreserved_or_pct_other c t : sp_unreserved c = true -> unreserved_or_pct (c :: t) = unreserved_or_pct t.
Proof. intros H. cbn [unreserved_or_pct]. rewrite (sp_unreserved_not_pct c H), H. reflexivity. Qed.

Lemma escape_unreserved_or_pct (v : bytes) : wf_bytes v -> unreserved_or_pct (query_escape_url v) = true.
Proof.
  unfold query_escape_url. induction 1 as [|c t Hc Ht IH]; [reflexivity|].
  rewrite url_processor_cons, keep_unreserved, unreserved_sp. destruct (sp_unreserved c) eqn:U.
  - rewrite unreserved_or_pct_other by exact U. exact IH.
  - destruct (pct_encode_shape c Hc) as (d1 & d2 & -> & H1 & H2 & _).
    cbn [app unreserved_or_pct N.eqb Pos.eqb]. rewrite H1, H2, IH. reflexivity.
Qed.

(* the bytes of fully percent-encoded text *)
Definition plain_byte (c : N) : Prop := sp_unreserved c = true \/ c = 37 \/ sp_hex c = true.

Lemma escape_plain (v : bytes) : wf_bytes v -> Forall plain_byte (query_escape_url v).
Proof.
  intros H. rewrite query_escape_spec. pose proof (escape_delimiter_free v H) as D. unfold delimiter_free in D.
  eapply Forall_impl; [|exact D]. intros c [U|[E|L]].
  - left. rewrite <- unreserved_sp. exact U.
  - right; left; exact E.
  - right; right. apply lower_hex_sp. exact L.
Qed.

Lemma plain_byte_range c : plain_byte c -> 37 <= c < 127.
Proof. unfold plain_byte, sp_unreserved, sp_hex, sp_alnum, sp_alpha, sp_digit. lia. Qed.

(* none of the characters that separate URL components or parameters, or end an attribute value *)
Lemma plain_byte_excludes c : plain_byte c ->
  c <> 38 /\ c <> 61 /\ c <> 35 /\ c <> 47 /\ c <> 63 /\ c <> 92 /\ c <> 34 /\ c <> 39 /\ c <> 60 /\ c <> 62 /\
  c <> 58 /\ c <> 64 /\ c <> 59 /\ c <> 43 /\ c <> 32.
Proof. unfold plain_byte, sp_unreserved, sp_hex, sp_alnum, sp_alpha, sp_digit. lia. Qed.

(* printable ASCII other than the five HTML-special bytes is a fixed point of HTMLEscaped and
   of html.UnescapeString *)
Definition inert_byte (c : N) : bool :=
  (32 <=? c) && (c <? 127) && negb (mem_N c [38; 39; 60; 62; 34]).

Lemma inert_table :
  forallb (fun c => negb (inert_byte c) ||
                    (negb (spec_bad c) && bytes_eqb (html_escape_byte c) [c] && (c <? 128))) all_bytes = true.
Proof. vm_compute. reflexivity. Qed.

Lemma inert_facts c : inert_byte c = true ->
  c < 128 /\ spec_bad c = false /\ html_escape_byte c = [c].
Proof.
  intros H. assert (Hc : c < 256) by (unfold inert_byte in H; lia).
  pose proof (forall_byte _ inert_table c Hc) as E. cbn beta in E. rewrite H in E. cbn [negb orb] in E.
  apply andb_true_iff in E as [E E3]. apply andb_true_iff in E as [E1 E2].
  apply negb_true_iff in E1. apply bytes_eqb_eq in E2. repeat split; [lia | exact E1 | exact E2].
Qed.

Lemma decode_runes_ascii (s : bytes) : Forall (fun c => c < 128) s -> decode_runes s = s.
Proof. intros H. pose proof (decode_ascii_prefix s [] H) as E. rewrite app_nil_r in E. cbn [decode_runes] in E. rewrite app_nil_r in E. exact E. Qed.

Lemma coerce_spec_inert (s : bytes) : forallb inert_byte s = true -> coerce_spec s = s.
Proof.
  intros H. unfold coerce_spec.
  assert (Ha : Forall (fun c => c < 128) s).
  { apply Forall_forall. intros c Hin. rewrite forallb_forall in H. destruct (inert_facts c (H c Hin)) as [? _]. assumption. }
  rewrite (decode_runes_ascii s Ha). unfold encode_runes.
  induction s as [|c t IH]; [reflexivity|]. cbn [forallb] in H. apply andb_true_iff in H as [Hc Ht].
  destruct (inert_facts c Hc) as (C1 & C2 & _). inversion Ha; subst.
  cbn [map flat_map]. unfold coerce_spec_rune at 1. rewrite C2, (encode_rune_ascii c C1). cbn [app].
  f_equal. apply IH; assumption.
Qed.

Lemma html_escape_string_inert (s : bytes) : forallb inert_byte s = true -> html_escape_string s = s.
Proof.
  unfold html_escape_string. induction s as [|c t IH]; [reflexivity|]. cbn [forallb flat_map]. intros H.
  apply andb_true_iff in H as [Hc Ht]. destruct (inert_facts c Hc) as (_ & _ & ->). cbn [app]. f_equal. exact (IH Ht).
Qed.

Lemma html_escaped_inert (s : bytes) : forallb inert_byte s = true -> html_escaped s = s.
Proof.
  intros H. unfold html_escaped. rewrite coerce_eq_spec, (coerce_spec_inert s H). apply html_escape_string_inert; exact H.
Qed.

Lemma html_roundtrip_inert (s : bytes) : forallb inert_byte s = true ->
  html_escaped s = s /\ html_unescape (html_escaped s) = s.
Proof.
  intros H. split; [apply html_escaped_inert; exact H|]. rewrite html_unescape_escaped. apply coerce_spec_inert; exact H.
Qed.

Lemma plain_inert (s : bytes) : Forall plain_byte s -> forallb inert_byte s = true.
Proof.
  intros H. apply forallb_forall. intros c Hin. rewrite Forall_forall in H. specialize (H c Hin).
  pose proof (plain_byte_range c H). pose proof (plain_byte_excludes c H).
  unfold inert_byte, mem_N. cbn [existsb]. lia.
Qed.

(* C14_query_confined *)
Theorem query_confined (v : bytes) : wf_bytes v ->
  let q := query_escape_url v in
  html_escaped q = q /\ html_unescape (html_escaped q) = q /\
  unreserved_or_pct q = true /\ pct_decode q = v /\
  forall c, In c q ->
    c <> 38 /\ c <> 61 /\ c <> 35 /\ c <> 47 /\ c <> 63 /\ c <> 92 /\ c <> 34 /\ c <> 39 /\ c <> 60 /\ c <> 62 /\
    c <> 58 /\ c <> 64 /\ c <> 59 /\ c <> 43 /\ c <> 32.
Proof.
  intros H q. pose proof (escape_plain v H) as P.
  destruct (html_roundtrip_inert q (plain_inert q P)) as [E1 E2].
  split; [exact E1|]. split; [exact E2|]. split; [apply escape_unreserved_or_pct; exact H|].
  split; [apply escape_alphabet_roundtrip; exact H|].
  intros c Hin. apply plain_byte_excludes. unfold q in Hin. rewrite Forall_forall in P. apply P. exact Hin.
Qed.

(* ---- the chain after a TrustedResourceURL prefix ---- *)
Ltac eval_closed_in H :=
  repeat match type of H with
         | context [bytes_eqb ?a ?b] =>
             let r := eval vm_compute in (bytes_eqb a b) in change (bytes_eqb a b) with r in H
         end.

Lemma apply_validate x : apply_sanitizer N_validateTRUSubst x =
  if contains_double_dot (stringify x) then None else Some (stringify x).
Proof. reflexivity. Qed.
Lemma apply_query_escape x : apply_sanitizer N_queryEscapeURL x = Some (query_escape_url (stringify x)).
Proof. reflexivity. Qed.
Lemma apply_normalize x : apply_sanitizer N_normalizeURL x = Some (normalize_url (stringify x)).
Proof. reflexivity. Qed.
Lemma apply_html_str s : apply_sanitizer N_sanitizeHTML (VStr s) = Some (html_escaped s).
Proof. reflexivity. Qed.

Lemma chain_tru x : apply_chain [N_validateTRUSubst; N_queryEscapeURL; N_sanitizeHTML] x =
  if contains_double_dot (stringify x) then None else Some (html_escaped (query_escape_url (stringify x))).
Proof.
  cbn [apply_chain]. rewrite apply_validate. destruct (contains_double_dot (stringify x)); [reflexivity|].
  rewrite apply_query_escape, apply_html_str. reflexivity.
Qed.
Lemma chain_query x : apply_chain [N_queryEscapeURL; N_sanitizeHTML] x = Some (html_escaped (query_escape_url (stringify x))).
Proof. cbn [apply_chain]. rewrite apply_query_escape, apply_html_str. reflexivity. Qed.
Lemma chain_normalize x : apply_chain [N_normalizeURL; N_sanitizeHTML] x = Some (html_escaped (normalize_url (stringify x))).
Proof. cbn [apply_chain]. rewrite apply_normalize, apply_html_str. reflexivity. Qed.

(* C14_tru_confined *)
Theorem tru_confined x o : wf_bytes (stringify x) ->
  apply_chain [N_validateTRUSubst; N_queryEscapeURL; N_sanitizeHTML] x = Some o ->
  contains_double_dot (stringify x) = false /\
  o = query_escape_url (stringify x) /\ html_unescape o = query_escape_url (stringify x) /\
  unreserved_or_pct (html_unescape o) = true /\ pct_decode (html_unescape o) = stringify x /\
  ~ In 47 (html_unescape o) /\ ~ In 92 (html_unescape o).
Proof.
  intros Hw H. rewrite chain_tru in H. destruct (contains_double_dot (stringify x)); [discriminate|].
  inversion H; subst o. clear H.
  destruct (query_confined (stringify x) Hw) as (E1 & E2 & U & D & Ex). cbn zeta in *.
  split; [reflexivity|]. split; [exact E1|]. rewrite E2. split; [reflexivity|]. split; [exact U|]. split; [exact D|].
  split; intros Hin; destruct (Ex _ Hin) as (_ & _ & _ & A & _ & Bk & _); congruence.
Qed.

(* what the two other chains write, decoded again by the browser *)
Theorem query_chain_confined x o : wf_bytes (stringify x) ->
  apply_chain [N_queryEscapeURL; N_sanitizeHTML] x = Some o ->
  o = query_escape_url (stringify x) /\ html_unescape o = query_escape_url (stringify x).
Proof.
  intros Hw H. rewrite chain_query in H. inversion H; subst o.
  destruct (query_confined (stringify x) Hw) as (E1 & E2 & _). cbn zeta in *. rewrite E2. split; [exact E1 | reflexivity].
Qed.

(* the normalised text may contain '&', which is written as a reference and decoded back *)
Lemma normalized_no_ctrl (n : bytes) : forallb normalized_byte n = true ->
  forallb (fun c => negb (spec_bad c) && (c <? 128)) n = true.
Proof.
  intros H. apply forallb_forall. intros c Hin. rewrite forallb_forall in H. specialize (H c Hin).
  assert (Hc : c < 256) by (pose proof (normalized_byte_small c H); lia).
  assert (T : forallb (fun c => negb (normalized_byte c) || (negb (spec_bad c) && (c <? 128))) all_bytes = true)
    by (vm_compute; reflexivity).
  pose proof (forall_byte _ T c Hc) as E. cbn beta in E. rewrite H in E. exact E.
Qed.

Lemma coerce_spec_ascii_clean (s : bytes) :
  forallb (fun c => negb (spec_bad c) && (c <? 128)) s = true -> coerce_spec s = s.
Proof.
  intros H. unfold coerce_spec.
  assert (Ha : Forall (fun c => c < 128) s).
  { apply Forall_forall. intros c Hin. rewrite forallb_forall in H. specialize (H c Hin). lia. }
  rewrite (decode_runes_ascii s Ha). unfold encode_runes.
  induction s as [|c t IH]; [reflexivity|]. cbn [forallb] in H. apply andb_true_iff in H as [Hc Ht].
  inversion Ha; subst. cbn [map flat_map]. unfold coerce_spec_rune at 1.
  assert (C2 : spec_bad c = false) by (destruct (spec_bad c); [discriminate | reflexivity]).
  rewrite C2, (encode_rune_ascii c) by assumption. cbn [app]. f_equal. apply IH; assumption.
Qed.

Theorem normalize_chain_decoded x o : wf_bytes (stringify x) ->
  apply_chain [N_normalizeURL; N_sanitizeHTML] x = Some o ->
  html_unescape o = normalize_url (stringify x) /\
  no_quote_or_angle o = true /\ amp_ok o = true.
Proof.
  intros Hw H. rewrite chain_normalize in H. inversion H; subst o.
  rewrite html_unescape_escaped. split.
  - apply coerce_spec_ascii_clean. apply normalized_no_ctrl. apply normalize_alphabet. exact Hw.
  - apply html_escaped_alphabet.
Qed.

(* ================================================================== *)
(* Part C: which chain an action after a static URL prefix gets *)

Lemma url_classes sc : sc_is_url sc = true -> sc = SC_TRU \/ sc = SC_TRUOrURL \/ sc = SC_URL.
Proof.
  unfold sc_is_url, sc_info. destruct (find (fun e => fst e =? sc) P_contexts) as [[k i]|] eqn:F; [|discriminate].
  apply find_some in F as [Hin Hk]. cbn [fst] in Hk. apply N.eqb_eq in Hk. subst k.
  unfold P_contexts in Hin. cbn [In] in Hin.
  repeat (destruct Hin as [Hin|Hin]; [inversion Hin; subst; clear Hin; cbn; intros Hu; try discriminate Hu|]).
  - left. vm_compute. reflexivity.
  - right; left. vm_compute. reflexivity.
  - right; right. vm_compute. reflexivity.
  - destruct Hin.
Qed.

Lemma sc_constants_distinct :
  (SC_TRU =? SC_URL) = false /\ (SC_TRU =? SC_TRUOrURL) = false /\ (SC_TRUOrURL =? SC_TRU) = false /\ (SC_URL =? SC_TRU) = false.
Proof. repeat split; vm_compute; reflexivity. Qed.

Lemma index_any_has_qf (p : bytes) :
  (match index_any [35; 63] p with Some _ => true | None => false end) = has_qf p.
Proof.
  induction p as [|c t IH]; [reflexivity|]. cbn [index_any has_qf existsb]. unfold mem_N. cbn [existsb].
  rewrite orb_false_r. fold (has_qf t). rewrite <- IH.
  destruct (c =? 35) eqn:E1; destruct (c =? 63) eqn:E2; cbn [orb]; try reflexivity.
  destruct (index_any [35; 63] t); reflexivity.
Qed.

Theorem chain_choice c chain sc0 :
  all_same_sc (attr_pairs c) (c_link_rel c) None = Some sc0 ->
  sc_is_url sc0 = true -> c_attr_value c <> [] ->
  sanitizers_for_attr_value c = Some chain ->
  c_attr_amb c = false /\
  ((sc0 = SC_TRU /\ validate_tru_prefix (c_attr_value c) = true /\
    chain = [N_validateTRUSubst; N_queryEscapeURL; N_sanitizeHTML]) \/
   ((sc0 = SC_URL \/ sc0 = SC_TRUOrURL) /\ validate_url_prefix (c_attr_value c) = true /\
    chain = if has_qf (c_attr_value c) then [N_queryEscapeURL; N_sanitizeHTML] else [N_normalizeURL; N_sanitizeHTML])).
Proof.
  intros Hsc Hu Hne. unfold sanitizers_for_attr_value. rewrite Hsc.
  destruct (sc_is_enum sc0 && negb (bytes_eqb (c_attr_value c) [])); [discriminate|].
  destruct ((sc0 =? SC_Style) && negb (bytes_eqb (c_attr_value c) [])
            && negb (validate_no_charref_prefix (c_attr_value c))); [discriminate|].
  rewrite Hu. cbn [negb].
  destruct (c_attr_value c) as [|b0 v] eqn:Ev; [contradiction|].
  destruct (c_attr_amb c); [discriminate|].
  destruct sc_constants_distinct as (D1 & D2 & D3 & D4).
  destruct (url_classes sc0 Hu) as [->|[->| ->]]; unfold url_prefix_validator.
  - rewrite D1, D2, N.eqb_refl. cbn [orb].
    destruct (validate_tru_prefix (b0 :: v)) eqn:Ep; cbn [negb]; [|discriminate].
    intros H. inversion H. split; [reflexivity|]. left. auto.
  - rewrite N.eqb_refl, orb_true_r.
    destruct (validate_url_prefix (b0 :: v)) eqn:Ep; cbn [negb]; [|discriminate].
    rewrite D3, index_any_has_qf. intros H. split; [reflexivity|]. right. split; [auto|]. split; [reflexivity|].
    destruct (has_qf (b0 :: v)); inversion H; reflexivity.
  - rewrite N.eqb_refl. cbn [orb].
    destruct (validate_url_prefix (b0 :: v)) eqn:Ep; cbn [negb]; [|discriminate].
    rewrite D4, index_any_has_qf. intros H. split; [reflexivity|]. right. split; [auto|]. split; [reflexivity|].
    destruct (has_qf (b0 :: v)); inversion H; reflexivity.
Qed.

(* the same over the DECODED prefix, outside finding D16 *)
Theorem chain_choice_decoded c chain sc0 :
  all_same_sc (attr_pairs c) (c_link_rel c) None = Some sc0 ->
  sc_is_url sc0 = true -> c_attr_value c <> [] ->
  finding_D16 (c_attr_value c) = false ->
  sanitizers_for_attr_value c = Some chain ->
  c_attr_amb c = false /\
  ((sc0 = SC_TRU /\ validate_tru_prefix (c_attr_value c) = true /\
    chain = [N_validateTRUSubst; N_queryEscapeURL; N_sanitizeHTML]) \/
   ((sc0 = SC_URL \/ sc0 = SC_TRUOrURL) /\ validate_url_prefix (c_attr_value c) = true /\
    chain = if has_qf (html_unescape (c_attr_value c)) then [N_queryEscapeURL; N_sanitizeHTML]
            else [N_normalizeURL; N_sanitizeHTML])).
Proof.
  intros Hsc Hu Hne Hd H. destruct (chain_choice c chain sc0 Hsc Hu Hne H) as [Ha Hc]. split; [exact Ha|].
  unfold finding_D16 in Hd. apply negb_false_iff in Hd. apply eqb_prop in Hd. rewrite <- Hd. exact Hc.
Qed.

(* non-vacuity: the contexts of  <a href="/foo?x={{.}}">, <a href="/foo/{{.}}"> and <script src="/a/{{.}}"> *)
Definition ctx_of (e a p : bytes) : context := mkctx StAttr DDoubleQuote e [] a p false [] None [] [].
Example chain_query_example :
  sanitizers_for_attr_value (ctx_of (B "a") (B "href") (B "/foo?x=")) = Some [N_queryEscapeURL; N_sanitizeHTML].
Proof. vm_compute. reflexivity. Qed.
Example chain_path_example :
  sanitizers_for_attr_value (ctx_of (B "a") (B "href") (B "/foo/")) = Some [N_normalizeURL; N_sanitizeHTML].
Proof. vm_compute. reflexivity. Qed.
Example chain_tru_example :
  sanitizers_for_attr_value (ctx_of (B "script") (B "src") (B "/a/")) = Some [N_validateTRUSubst; N_queryEscapeURL; N_sanitizeHTML].
Proof. vm_compute. reflexivity. Qed.
Example chain_rejected_example : sanitizers_for_attr_value (ctx_of (B "a") (B "href") (B "java")) = None.
Proof. vm_compute. reflexivity. Qed.
Example chain_example_hyps :
  all_same_sc (attr_pairs (ctx_of (B "a") (B "href") (B "/foo?x="))) [] None = Some SC_TRUOrURL /\ sc_is_url SC_TRUOrURL = true.
Proof. split; vm_compute; reflexivity. Qed.
