(* C14: data interpolated after a static URL prefix stays inside its URL component.  All proofs. *)
From V Require Import lib.Base lib.Regex lib.RegexDecide lib.Utf8 gen.GenRegex gen.GenPolicy gen.GenEntities.
From V Require Import model.Html model.HtmlUnescape model.Url model.UrlProc model.UrlSet model.GoStrings model.TContext
     model.TSanitize model.TSanitizers.
From V Require Import spec.Rfc3986 spec.WhatwgUrl spec.HtmlSpec spec.UrlPrefixSpec.
From V Require Import proofs.RegexFacts proofs.RegexDecideFacts proofs.RegexSpecs proofs.Utf8Facts proofs.Utf8AsciiFacts
     proofs.HtmlFacts proofs.UrlFacts.
(* (proofs/TrurlFacts.v and proofs/PolicyFacts.v prove neighbouring facts -- the escaping alphabet of
   C13 and attr_chain_shape of C04 -- but take minutes to compile; the few lemmas needed here are
   proved directly so that a check of C14 stays fast after the generated data changes) *)
From Coq Require Import ZifyBool ZifyN ZifyNat.
Local Open Scope N_scope.

(* ================================================================== *)
(* side conditions on the regenerated data, evaluated by the kernel *)
Lemma bridge_ws_ok : bridge_ws = true. Proof. vm_compute. reflexivity. Qed.
Lemma bridge_charref_ok : bridge_charref = true. Proof. vm_compute. reflexivity. Qed.
Lemma bridge_pct_ok : bridge_pct = true. Proof. vm_compute. reflexivity. Qed.
Lemma bridge_scheme_ok : bridge_scheme = true. Proof. vm_compute. reflexivity. Qed.
Lemma entity_names_ok_ok : entity_names_ok = true. Proof. vm_compute. reflexivity. Qed.

(* ================================================================== *)
(* Part A: the two URL processors, byte by byte *)

Lemma is_hex_sp c : UrlProc.is_hex c = sp_hex c.
Proof. unfold UrlProc.is_hex, sp_hex, sp_digit. lia. Qed.

Lemma is_alnum_sp c : UrlProc.is_alnum c = sp_alnum c.
Proof. unfold UrlProc.is_alnum, sp_alnum, sp_alpha, sp_digit. lia. Qed.

Definition lookahead (t : bytes) : bool :=
  match t with h1 :: h2 :: _ => sp_hex h1 && sp_hex h2 | _ => false end.

Lemma keep_byte_37 t : keep_byte true 37 t = lookahead t.
Proof.
  unfold keep_byte, lookahead. change (mem_N 37 url_reserved) with false.
  change (mem_N 37 url_unreserved_marks) with false. change (37 =? 37) with true. cbn [andb].
  destruct t as [|h1 [|h2 r]]; try reflexivity. rewrite !is_hex_sp. reflexivity.
Qed.

Lemma keep_byte_other_indep norm c t : (c =? 37) = false -> keep_byte norm c t = keep_byte norm c [].
Proof. intros H. unfold keep_byte. rewrite H. reflexivity. Qed.

Lemma keep_norm_table :
  forallb (fun c => (c =? 37) || Bool.eqb (keep_byte true c []) (normalized_byte c)) all_bytes = true.
Proof. vm_compute. reflexivity. Qed.

Lemma keep_norm_other c t : c < 256 -> (c =? 37) = false -> keep_byte true c t = normalized_byte c.
Proof.
  intros Hc H. rewrite (keep_byte_other_indep _ _ _ H).
  pose proof (forall_byte _ keep_norm_table c Hc) as E. cbn beta in E. rewrite H in E. cbn [orb] in E.
  apply eqb_prop in E. exact E.
Qed.

Lemma normalized_byte_small c : normalized_byte c = true -> c < 128.
Proof.
  unfold normalized_byte, sp_alnum, sp_alpha, sp_digit, normalized_marks, mem_N. cbn [existsb]. lia.
Qed.

Lemma normalized_37 : normalized_byte 37 = true. Proof. reflexivity. Qed.

(* the triplet written for a byte *)
Definition triplet_ok (c : N) : bool :=
  match pct_encode c with
  | [p; d1; d2] =>
      (p =? 37) && sp_hex d1 && sp_hex d2 && normalized_byte d1 && normalized_byte d2 &&
      negb (d1 =? 37) && negb (d2 =? 37) && (16 * hex_val_of d1 + hex_val_of d2 =? c) &&
      match pct_octet d1 d2 with Some x => x =? c | None => false end
  | _ => false
  end.
Lemma triplet_table : forallb triplet_ok all_bytes = true.
Proof. vm_compute. reflexivity. Qed.

Lemma pct_encode_shape c : c < 256 -> exists d1 d2,
  pct_encode c = [37; d1; d2] /\ sp_hex d1 = true /\ sp_hex d2 = true /\
  normalized_byte d1 = true /\ normalized_byte d2 = true /\ (d1 =? 37) = false /\ (d2 =? 37) = false /\
  16 * hex_val_of d1 + hex_val_of d2 = c /\ pct_octet d1 d2 = Some c.
Proof.
  intros Hc. pose proof (forall_byte _ triplet_table c Hc) as E. unfold triplet_ok in E.
  unfold pct_encode in *. exists (hex_digit (c / 16)), (hex_digit (c mod 16)).
  apply andb_true_iff in E as [E Eo].
  repeat (apply andb_true_iff in E as [E ?]).
  apply N.eqb_eq in E.
  repeat split; try assumption; try (apply negb_true_iff; assumption).
  - apply N.eqb_eq. assumption.
  - destruct (pct_octet _ _) as [x|]; [|discriminate]. apply N.eqb_eq in Eo. congruence.
Qed.

Lemma url_processor_cons norm c t :
  url_processor norm (c :: t) =
  if keep_byte norm c t then c :: url_processor norm t else pct_encode c ++ url_processor norm t.
Proof. reflexivity. Qed.

Lemma pct_ok_cons c t : pct_ok (c :: t) = (if c =? 37 then lookahead t else true) && pct_ok t.
Proof. reflexivity. Qed.

Lemma pct_ok_other c t : (c =? 37) = false -> pct_ok (c :: t) = pct_ok t.
Proof. intros H. rewrite pct_ok_cons, H. reflexivity. Qed.

Lemma keep_hex h t : sp_hex h = true -> keep_byte true h t = true.
Proof.
  intros H. assert (Hh : h < 256) by (unfold sp_hex, sp_digit in H; lia).
  assert (H37 : (h =? 37) = false) by (unfold sp_hex, sp_digit in H; lia).
  rewrite (keep_norm_other h t Hh H37). unfold normalized_byte, sp_alnum, sp_alpha. unfold sp_hex in H.
  destruct (sp_digit h); [rewrite orb_true_r; reflexivity|]. cbn [orb] in *.
  assert (((65 <=? h) && (h <=? 90) || (97 <=? h) && (h <=? 122)) = true) by lia.
  rewrite H0. reflexivity.
Qed.

(* the normalised text consists of allowed bytes only *)
Lemma normalize_alphabet (v : bytes) : wf_bytes v -> forallb normalized_byte (normalize_url v) = true.
Proof.
  unfold normalize_url. induction 1 as [|c t Hc Ht IH]; [reflexivity|].
  rewrite url_processor_cons. destruct (keep_byte true c t) eqn:K.
  - cbn [forallb]. rewrite IH, andb_true_r.
    destruct (c =? 37) eqn:E37; [apply N.eqb_eq in E37; subst; reflexivity|].
    rewrite <- (keep_norm_other c t Hc E37). exact K.
  - destruct (pct_encode_shape c Hc) as (d1 & d2 & -> & _ & _ & N1 & N2 & _).
    cbn [app forallb]. rewrite N1, N2, IH. reflexivity.
Qed.

(* in it every percent sign is followed by two hex digits *)
Lemma normalize_pct_ok (v : bytes) : wf_bytes v -> pct_ok (normalize_url v) = true.
Proof.
  unfold normalize_url. induction 1 as [|c t Hc Ht IH]; [reflexivity|].
  rewrite url_processor_cons. destruct (keep_byte true c t) eqn:K.
  - destruct (c =? 37) eqn:E37.
    + apply N.eqb_eq in E37; subst c. rewrite keep_byte_37 in K. unfold lookahead in K.
      destruct t as [|h1 [|h2 r]]; try discriminate. apply andb_true_iff in K as [K1 K2].
      rewrite !url_processor_cons in *. rewrite (keep_hex h1 _ K1) in *. rewrite (keep_hex h2 _ K2) in *.
      rewrite pct_ok_cons. cbn [N.eqb Pos.eqb lookahead]. rewrite K1, K2. cbn [andb]. exact IH.
    + rewrite pct_ok_other by exact E37. exact IH.
  - destruct (pct_encode_shape c Hc) as (d1 & d2 & -> & H1 & H2 & _ & _ & E1 & E2 & _).
    cbn [app]. rewrite pct_ok_cons. cbn [N.eqb Pos.eqb lookahead]. rewrite H1, H2. cbn [andb].
    rewrite (pct_ok_other _ _ E1), (pct_ok_other _ _ E2). exact IH.
Qed.

(* such a text is a fixed point of the normaliser *)
Lemma normalize_fixed (n : bytes) :
  forallb normalized_byte n = true -> pct_ok n = true -> normalize_url n = n.
Proof.
  unfold normalize_url. induction n as [|c t IH]; [reflexivity|]. intros Ha Hp.
  cbn [forallb] in Ha. apply andb_true_iff in Ha as [Hc Ha].
  rewrite pct_ok_cons in Hp. apply andb_true_iff in Hp as [Hl Hp].
  rewrite url_processor_cons.
  assert (K : keep_byte true c t = true).
  { destruct (c =? 37) eqn:E37.
    - apply N.eqb_eq in E37; subst c. rewrite keep_byte_37. exact Hl.
    - rewrite (keep_norm_other c t) by (try exact E37; pose proof (normalized_byte_small c Hc); lia). exact Hc. }
  rewrite K, IH by assumption. reflexivity.
Qed.

Lemma normalize_idempotent (v : bytes) : wf_bytes v -> normalize_url (normalize_url v) = normalize_url v.
Proof. intros H. apply normalize_fixed; [apply normalize_alphabet | apply normalize_pct_ok]; exact H. Qed.

(* a byte that is not a hex digit cuts the look-ahead exactly like the end of the text *)
Lemma lookahead_app_nonhex a c b : sp_hex c = false -> lookahead (a ++ c :: b) = lookahead a.
Proof.
  intros Hc. destruct a as [|x [|y a']]; cbn [app lookahead].
  - destruct b; [reflexivity|]. rewrite Hc. reflexivity.
  - rewrite Hc, andb_false_r. reflexivity.
  - reflexivity.
Qed.

Lemma keep_byte_app_nonhex norm x a c b : sp_hex c = false ->
  keep_byte norm x (a ++ c :: b) = keep_byte norm x a.
Proof.
  intros Hc. unfold keep_byte. destruct (mem_N x url_reserved); [reflexivity|].
  destruct (mem_N x url_unreserved_marks); [reflexivity|]. destruct (x =? 37); [|reflexivity].
  f_equal. destruct a as [|h1 [|h2 r]]; cbn [app].
  - destruct b; [reflexivity|]. rewrite !is_hex_sp, Hc. reflexivity.
  - rewrite !is_hex_sp, Hc, andb_false_r. reflexivity.
  - reflexivity.
Qed.

Lemma url_processor_app_nonhex norm (a : bytes) c b : sp_hex c = false ->
  url_processor norm (a ++ c :: b) = url_processor norm a ++ url_processor norm (c :: b).
Proof.
  intros Hc. induction a as [|x a IH]; [reflexivity|].
  change ((x :: a) ++ c :: b) with (x :: (a ++ c :: b)). rewrite !url_processor_cons.
  rewrite (keep_byte_app_nonhex norm x a c b Hc), IH.
  destruct (keep_byte norm x a); [reflexivity | rewrite app_assoc; reflexivity].
Qed.

(* valid escapes of the input are kept, wherever they stand *)
Lemma normalize_keeps_escapes (a b : bytes) h1 h2 : sp_hex h1 = true -> sp_hex h2 = true ->
  normalize_url (a ++ [37; h1; h2] ++ b) = normalize_url a ++ [37; h1; h2] ++ normalize_url b.
Proof.
  intros H1 H2. unfold normalize_url. cbn [app].
  rewrite (url_processor_app_nonhex true a 37 (h1 :: h2 :: b)) by reflexivity. f_equal.
  rewrite url_processor_cons, keep_byte_37. cbn [lookahead]. rewrite H1, H2. cbn [andb].
  rewrite url_processor_cons, (keep_hex h1 _ H1). rewrite url_processor_cons, (keep_hex h2 _ H2). reflexivity.
Qed.

(* an incomplete escape at the very end is encoded *)
Lemma normalize_partial_escape_end (a : bytes) :
  normalize_url (a ++ [37]) = normalize_url a ++ B "%25" /\
  forall h, sp_hex h = true -> normalize_url (a ++ [37; h]) = normalize_url a ++ B "%25" ++ [h].
Proof.
  unfold normalize_url. split.
  - rewrite (url_processor_app_nonhex true a 37 []) by reflexivity. reflexivity.
  - intros h Hh. rewrite (url_processor_app_nonhex true a 37 [h]) by reflexivity. f_equal.
    rewrite url_processor_cons, keep_byte_37. cbn [lookahead app].
    rewrite url_processor_cons, (keep_hex h _ Hh). reflexivity.
Qed.

(* the normaliser satisfies the relation the oracle applies to the implementation's outputs *)
Lemma norm_rel_cons c v' n :
  norm_rel (c :: v') n =
  match n with
  | x :: n' =>
      ((if c =? 37 then lookahead v' else normalized_byte c) && (x =? c) && norm_rel v' n')
      || (negb ((c =? 37) && lookahead v') &&
          match n with
          | 37 :: h1 :: h2 :: n'' =>
              sp_hex h1 && sp_hex h2 && (16 * hex_val_of h1 + hex_val_of h2 =? c) && norm_rel v' n''
          | _ => false
          end)
  | [] => false
  end.
Proof. destruct n; reflexivity. Qed.

Lemma normalize_norm_rel (v : bytes) : wf_bytes v -> norm_rel v (normalize_url v) = true.
Proof.
  unfold normalize_url. induction 1 as [|c t Hc Ht IH]; [reflexivity|].
  rewrite url_processor_cons. destruct (keep_byte true c t) eqn:K.
  - rewrite norm_rel_cons. apply orb_true_iff. left. rewrite N.eqb_refl, IH, !andb_true_r.
    destruct (c =? 37) eqn:E37.
    + apply N.eqb_eq in E37; subst c. rewrite <- keep_byte_37. exact K.
    + rewrite <- (keep_norm_other c t Hc E37). exact K.
  - destruct (pct_encode_shape c Hc) as (d1 & d2 & -> & H1 & H2 & _ & _ & _ & _ & Ev & _).
    cbn [app]. rewrite norm_rel_cons. apply orb_true_iff. right.
    rewrite H1, H2, IH, Ev, N.eqb_refl, !andb_true_r.
    destruct (c =? 37) eqn:E37; [|reflexivity].
    apply N.eqb_eq in E37. rewrite E37 in K. rewrite keep_byte_37 in K. rewrite K. reflexivity.
Qed.

(* ================================================================== *)
(* Part B: query escaping; HTML escaping and the browser's decoding leave such text alone *)

Lemma sp_unreserved_not_pct c : sp_unreserved c = true -> (c =? 37) = false.
Proof. unfold sp_unreserved, sp_alnum, sp_alpha, sp_digit. lia. Qed.

Lemma keep_escape_table :
  forallb (fun c => Bool.eqb (keep_byte false c []) (sp_unreserved c)) all_bytes = true.
Proof. vm_compute. reflexivity. Qed.

Lemma keep_escape c t : c < 256 -> keep_byte false c t = sp_unreserved c.
Proof.
  intros Hc. pose proof (forall_byte _ keep_escape_table c Hc) as E. apply eqb_prop in E. rewrite <- E.
  unfold keep_byte. destruct (mem_N c url_reserved); [reflexivity|].
  destruct (mem_N c url_unreserved_marks); [reflexivity|]. destruct (c =? 37); reflexivity.
Qed.

Lemma unreserved_or_pct_other c t : sp_unreserved c = true -> unreserved_or_pct (c :: t) = unreserved_or_pct t.
Proof. intros H. cbn [unreserved_or_pct]. rewrite (sp_unreserved_not_pct c H), H. reflexivity. Qed.

Lemma escape_unreserved_or_pct (v : bytes) : wf_bytes v -> unreserved_or_pct (query_escape_url v) = true.
Proof.
  unfold query_escape_url. induction 1 as [|c t Hc Ht IH]; [reflexivity|].
  rewrite url_processor_cons, (keep_escape c t Hc). destruct (sp_unreserved c) eqn:U.
  - rewrite unreserved_or_pct_other by exact U. exact IH.
  - destruct (pct_encode_shape c Hc) as (d1 & d2 & -> & H1 & H2 & _).
    cbn [app unreserved_or_pct N.eqb Pos.eqb]. rewrite H1, H2, IH. reflexivity.
Qed.

(* the bytes of fully percent-encoded text *)
Definition plain_byte (c : N) : Prop := sp_unreserved c = true \/ c = 37 \/ sp_hex c = true.

Lemma escape_plain (v : bytes) : wf_bytes v -> Forall plain_byte (query_escape_url v).
Proof.
  unfold query_escape_url. induction 1 as [|c t Hc Ht IH]; [constructor|].
  rewrite url_processor_cons, (keep_escape c t Hc). destruct (sp_unreserved c) eqn:U.
  - constructor; [left; exact U | exact IH].
  - destruct (pct_encode_shape c Hc) as (d1 & d2 & -> & H1 & H2 & _). cbn [app].
    constructor; [right; left; reflexivity|]. constructor; [right; right; exact H1|].
    constructor; [right; right; exact H2 | exact IH].
Qed.

(* percent-decoding gives the data back *)
Lemma escape_roundtrip (v : bytes) : wf_bytes v -> pct_decode (query_escape_url v) = v.
Proof.
  unfold query_escape_url. induction 1 as [|c t Hc Ht IH]; [reflexivity|].
  rewrite url_processor_cons, (keep_escape c t Hc). destruct (sp_unreserved c) eqn:U.
  - cbn [pct_decode]. rewrite (sp_unreserved_not_pct c U), IH. reflexivity.
  - destruct (pct_encode_shape c Hc) as (d1 & d2 & -> & _ & _ & _ & _ & _ & _ & _ & Eo).
    cbn [app pct_decode N.eqb Pos.eqb]. rewrite Eo, IH. reflexivity.
Qed.

Lemma plain_byte_range c : plain_byte c -> 37 <= c < 127.
Proof. unfold plain_byte, sp_unreserved, sp_hex, sp_alnum, sp_alpha, sp_digit. lia. Qed.

(* none of the characters that separate URL components or parameters, or end an attribute value *)
Lemma plain_byte_excludes c : plain_byte c ->
  c <> 38 /\ c <> 61 /\ c <> 35 /\ c <> 47 /\ c <> 63 /\ c <> 92 /\ c <> 34 /\ c <> 39 /\ c <> 60 /\ c <> 62 /\
  c <> 58 /\ c <> 64 /\ c <> 59 /\ c <> 43 /\ c <> 32.
Proof. unfold plain_byte, sp_unreserved, sp_hex, sp_alnum, sp_alpha, sp_digit. lia. Qed.

(* printable ASCII other than the five HTML-special bytes is a fixed point of HTMLEscaped and
   of html.UnescapeString *)
Definition inert_byte (c : N) : bool :=
  (32 <=? c) && (c <? 127) && negb (mem_N c [38; 39; 60; 62; 34]).

Lemma inert_table :
  forallb (fun c => negb (inert_byte c) ||
                    (negb (spec_bad c) && bytes_eqb (html_escape_byte c) [c] && (c <? 128))) all_bytes = true.
Proof. vm_compute. reflexivity. Qed.

Lemma inert_facts c : inert_byte c = true ->
  c < 128 /\ spec_bad c = false /\ html_escape_byte c = [c].
Proof.
  intros H. assert (Hc : c < 256) by (unfold inert_byte in H; lia).
  pose proof (forall_byte _ inert_table c Hc) as E. cbn beta in E. rewrite H in E. cbn [negb orb] in E.
  apply andb_true_iff in E as [E E3]. apply andb_true_iff in E as [E1 E2].
  apply negb_true_iff in E1. apply bytes_eqb_eq in E2. repeat split; [lia | exact E1 | exact E2].
Qed.

Lemma decode_runes_ascii (s : bytes) : Forall (fun c => c < 128) s -> decode_runes s = s.
Proof. intros H. pose proof (decode_ascii_prefix s [] H) as E. rewrite app_nil_r in E. cbn [decode_runes] in E. rewrite app_nil_r in E. exact E. Qed.

Lemma coerce_spec_inert (s : bytes) : forallb inert_byte s = true -> coerce_spec s = s.
Proof.
  intros H. unfold coerce_spec.
  assert (Ha : Forall (fun c => c < 128) s).
  { apply Forall_forall. intros c Hin. rewrite forallb_forall in H. destruct (inert_facts c (H c Hin)) as [? _]. assumption. }
  rewrite (decode_runes_ascii s Ha). unfold encode_runes.
  induction s as [|c t IH]; [reflexivity|]. cbn [forallb] in H. apply andb_true_iff in H as [Hc Ht].
  destruct (inert_facts c Hc) as (C1 & C2 & _). inversion Ha; subst.
  cbn [map flat_map]. unfold coerce_spec_rune at 1. rewrite C2, (encode_rune_ascii c C1). cbn [app].
  f_equal. apply IH; assumption.
Qed.

Lemma html_escape_string_inert (s : bytes) : forallb inert_byte s = true -> html_escape_string s = s.
Proof.
  unfold html_escape_string. induction s as [|c t IH]; [reflexivity|]. cbn [forallb flat_map]. intros H.
  apply andb_true_iff in H as [Hc Ht]. destruct (inert_facts c Hc) as (_ & _ & ->). cbn [app]. f_equal. exact (IH Ht).
Qed.

Lemma html_escaped_inert (s : bytes) : forallb inert_byte s = true -> html_escaped s = s.
Proof.
  intros H. unfold html_escaped. rewrite coerce_eq_spec, (coerce_spec_inert s H). apply html_escape_string_inert; exact H.
Qed.

Lemma html_roundtrip_inert (s : bytes) : forallb inert_byte s = true ->
  html_escaped s = s /\ html_unescape (html_escaped s) = s.
Proof.
  intros H. split; [apply html_escaped_inert; exact H|]. rewrite html_unescape_escaped. apply coerce_spec_inert; exact H.
Qed.

Lemma plain_inert (s : bytes) : Forall plain_byte s -> forallb inert_byte s = true.
Proof.
  intros H. apply forallb_forall. intros c Hin. rewrite Forall_forall in H. specialize (H c Hin).
  pose proof (plain_byte_range c H). pose proof (plain_byte_excludes c H).
  unfold inert_byte, mem_N. cbn [existsb]. lia.
Qed.

(* C14_query_confined *)
Theorem query_confined (v : bytes) : wf_bytes v ->
  let q := query_escape_url v in
  html_escaped q = q /\ html_unescape (html_escaped q) = q /\
  unreserved_or_pct q = true /\ pct_decode q = v /\
  forall c, In c q ->
    c <> 38 /\ c <> 61 /\ c <> 35 /\ c <> 47 /\ c <> 63 /\ c <> 92 /\ c <> 34 /\ c <> 39 /\ c <> 60 /\ c <> 62 /\
    c <> 58 /\ c <> 64 /\ c <> 59 /\ c <> 43 /\ c <> 32.
Proof.
  intros H q. pose proof (escape_plain v H) as P.
  destruct (html_roundtrip_inert q (plain_inert q P)) as [E1 E2].
  split; [exact E1|]. split; [exact E2|]. split; [apply escape_unreserved_or_pct; exact H|].
  split; [apply escape_roundtrip; exact H|].
  intros c Hin. apply plain_byte_excludes. unfold q in Hin. rewrite Forall_forall in P. apply P. exact Hin.
Qed.

(* ---- the chain after a TrustedResourceURL prefix ---- *)
Ltac eval_closed_in H :=
  repeat match type of H with
         | context [bytes_eqb ?a ?b] =>
             let r := eval vm_compute in (bytes_eqb a b) in change (bytes_eqb a b) with r in H
         end.

Lemma apply_validate x : apply_sanitizer N_validateTRUSubst x =
  if contains_double_dot (stringify x) then None else Some (stringify x).
Proof. reflexivity. Qed.
Lemma apply_query_escape x : apply_sanitizer N_queryEscapeURL x = Some (query_escape_url (stringify x)).
Proof. reflexivity. Qed.
Lemma apply_normalize x : apply_sanitizer N_normalizeURL x = Some (normalize_url (stringify x)).
Proof. reflexivity. Qed.
Lemma apply_html_str s : apply_sanitizer N_sanitizeHTML (VStr s) = Some (html_escaped s).
Proof. reflexivity. Qed.

Lemma chain_tru x : apply_chain [N_validateTRUSubst; N_queryEscapeURL; N_sanitizeHTML] x =
  if contains_double_dot (stringify x) then None else Some (html_escaped (query_escape_url (stringify x))).
Proof.
  cbn [apply_chain]. rewrite apply_validate. destruct (contains_double_dot (stringify x)); [reflexivity|].
  rewrite apply_query_escape, apply_html_str. reflexivity.
Qed.
Lemma chain_query x : apply_chain [N_queryEscapeURL; N_sanitizeHTML] x = Some (html_escaped (query_escape_url (stringify x))).
Proof. cbn [apply_chain]. rewrite apply_query_escape, apply_html_str. reflexivity. Qed.
Lemma chain_normalize x : apply_chain [N_normalizeURL; N_sanitizeHTML] x = Some (html_escaped (normalize_url (stringify x))).
Proof. cbn [apply_chain]. rewrite apply_normalize, apply_html_str. reflexivity. Qed.

(* C14_tru_confined *)
Theorem tru_confined x o : wf_bytes (stringify x) ->
  apply_chain [N_validateTRUSubst; N_queryEscapeURL; N_sanitizeHTML] x = Some o ->
  contains_double_dot (stringify x) = false /\
  o = query_escape_url (stringify x) /\ html_unescape o = query_escape_url (stringify x) /\
  unreserved_or_pct (html_unescape o) = true /\ pct_decode (html_unescape o) = stringify x /\
  ~ In 47 (html_unescape o) /\ ~ In 92 (html_unescape o).
Proof.
  intros Hw H. rewrite chain_tru in H. destruct (contains_double_dot (stringify x)); [discriminate|].
  inversion H; subst o. clear H.
  destruct (query_confined (stringify x) Hw) as (E1 & E2 & U & D & Ex). cbn zeta in *.
  split; [reflexivity|]. split; [exact E1|]. rewrite E2. split; [reflexivity|]. split; [exact U|]. split; [exact D|].
  split; intros Hin; destruct (Ex _ Hin) as (_ & _ & _ & A & _ & Bk & _); congruence.
Qed.

(* what the two other chains write, decoded again by the browser *)
Theorem query_chain_confined x o : wf_bytes (stringify x) ->
  apply_chain [N_queryEscapeURL; N_sanitizeHTML] x = Some o ->
  o = query_escape_url (stringify x) /\ html_unescape o = query_escape_url (stringify x).
Proof.
  intros Hw H. rewrite chain_query in H. inversion H; subst o.
  destruct (query_confined (stringify x) Hw) as (E1 & E2 & _). cbn zeta in *. rewrite E2. split; [exact E1 | reflexivity].
Qed.

(* the normalised text may contain '&', which is written as a reference and decoded back *)
Lemma normalized_no_ctrl (n : bytes) : forallb normalized_byte n = true ->
  forallb (fun c => negb (spec_bad c) && (c <? 128)) n = true.
Proof.
  intros H. apply forallb_forall. intros c Hin. rewrite forallb_forall in H. specialize (H c Hin).
  assert (Hc : c < 256) by (pose proof (normalized_byte_small c H); lia).
  assert (T : forallb (fun c => negb (normalized_byte c) || (negb (spec_bad c) && (c <? 128))) all_bytes = true)
    by (vm_compute; reflexivity).
  pose proof (forall_byte _ T c Hc) as E. cbn beta in E. rewrite H in E. exact E.
Qed.

Lemma coerce_spec_ascii_clean (s : bytes) :
  forallb (fun c => negb (spec_bad c) && (c <? 128)) s = true -> coerce_spec s = s.
Proof.
  intros H. unfold coerce_spec.
  assert (Ha : Forall (fun c => c < 128) s).
  { apply Forall_forall. intros c Hin. rewrite forallb_forall in H. specialize (H c Hin). lia. }
  rewrite (decode_runes_ascii s Ha). unfold encode_runes.
  induction s as [|c t IH]; [reflexivity|]. cbn [forallb] in H. apply andb_true_iff in H as [Hc Ht].
  inversion Ha; subst. cbn [map flat_map]. unfold coerce_spec_rune at 1.
  assert (C2 : spec_bad c = false) by (destruct (spec_bad c); [discriminate | reflexivity]).
  rewrite C2, (encode_rune_ascii c) by assumption. cbn [app]. f_equal. apply IH; assumption.
Qed.

Theorem normalize_chain_decoded x o : wf_bytes (stringify x) ->
  apply_chain [N_normalizeURL; N_sanitizeHTML] x = Some o ->
  html_unescape o = normalize_url (stringify x) /\
  no_quote_or_angle o = true /\ amp_ok o = true.
Proof.
  intros Hw H. rewrite chain_normalize in H. inversion H; subst o.
  rewrite html_unescape_escaped. split.
  - apply coerce_spec_ascii_clean. apply normalized_no_ctrl. apply normalize_alphabet. exact Hw.
  - apply html_escaped_alphabet.
Qed.

(* ================================================================== *)
(* Part C: which chain an action after a static URL prefix gets *)

Lemma url_classes sc : sc_is_url sc = true -> sc = SC_TRU \/ sc = SC_TRUOrURL \/ sc = SC_URL.
Proof.
  unfold sc_is_url, sc_info. destruct (find (fun e => fst e =? sc) P_contexts) as [[k i]|] eqn:F; [|discriminate].
  apply find_some in F as [Hin Hk]. cbn [fst] in Hk. apply N.eqb_eq in Hk. subst k.
  unfold P_contexts in Hin. cbn [In] in Hin.
  repeat (destruct Hin as [Hin|Hin]; [inversion Hin; subst; clear Hin; cbn; intros Hu; try discriminate Hu|]).
  - left. vm_compute. reflexivity.
  - right; left. vm_compute. reflexivity.
  - right; right. vm_compute. reflexivity.
  - destruct Hin.
Qed.

Lemma sc_constants_distinct :
  (SC_TRU =? SC_URL) = false /\ (SC_TRU =? SC_TRUOrURL) = false /\ (SC_TRUOrURL =? SC_TRU) = false /\ (SC_URL =? SC_TRU) = false.
Proof. repeat split; vm_compute; reflexivity. Qed.

Lemma index_any_has_qf (p : bytes) :
  (match index_any [35; 63] p with Some _ => true | None => false end) = has_qf p.
Proof.
  induction p as [|c t IH]; [reflexivity|]. cbn [index_any has_qf existsb]. unfold mem_N. cbn [existsb].
  rewrite orb_false_r. fold (has_qf t). rewrite <- IH.
  destruct (c =? 35) eqn:E1; destruct (c =? 63) eqn:E2; cbn [orb]; try reflexivity.
  destruct (index_any [35; 63] t); reflexivity.
Qed.

Theorem chain_choice c chain sc0 :
  all_same_sc (attr_pairs c) (c_link_rel c) None = Some sc0 ->
  sc_is_url sc0 = true -> c_attr_value c <> [] ->
  sanitizers_for_attr_value c = Some chain ->
  c_attr_amb c = false /\
  ((sc0 = SC_TRU /\ validate_tru_prefix (c_attr_value c) = true /\
    chain = [N_validateTRUSubst; N_queryEscapeURL; N_sanitizeHTML]) \/
   ((sc0 = SC_URL \/ sc0 = SC_TRUOrURL) /\ validate_url_prefix (c_attr_value c) = true /\
    chain = if has_qf (html_unescape (c_attr_value c)) then [N_queryEscapeURL; N_sanitizeHTML]
            else [N_normalizeURL; N_sanitizeHTML])).
Proof.
  intros Hsc Hu Hne. unfold sanitizers_for_attr_value. rewrite Hsc.
  destruct (sc_is_enum sc0 && negb (bytes_eqb (c_attr_value c) [])); [discriminate|].
  destruct ((sc0 =? SC_Style) && negb (bytes_eqb (c_attr_value c) [])
            && negb (validate_no_charref_prefix (c_attr_value c))); [discriminate|].
  rewrite Hu. cbn [negb].
  destruct (c_attr_value c) as [|b0 v] eqn:Ev; [contradiction|].
  destruct (c_attr_amb c); [discriminate|].
  destruct sc_constants_distinct as (D1 & D2 & D3 & D4).
  destruct (url_classes sc0 Hu) as [->|[->| ->]]; unfold url_prefix_validator.
  - rewrite D1, D2, N.eqb_refl. cbn [orb].
    destruct (validate_tru_prefix (b0 :: v)) eqn:Ep; cbn [negb]; [|discriminate].
    intros H. inversion H. split; [reflexivity|]. left. auto.
  - rewrite N.eqb_refl, orb_true_r.
    destruct (validate_url_prefix (b0 :: v)) eqn:Ep; cbn [negb]; [|discriminate].
    rewrite D3, index_any_has_qf. intros H. split; [reflexivity|]. right. split; [auto|]. split; [reflexivity|].
    destruct (has_qf (html_unescape (b0 :: v))); inversion H; reflexivity.
  - rewrite N.eqb_refl. cbn [orb].
    destruct (validate_url_prefix (b0 :: v)) eqn:Ep; cbn [negb]; [|discriminate].
    rewrite D4, index_any_has_qf. intros H. split; [reflexivity|]. right. split; [auto|]. split; [reflexivity|].
    destruct (has_qf (html_unescape (b0 :: v))); inversion H; reflexivity.
Qed.

(* kept for props/C14.v: the statement under the D16 hypothesis is an instance of the full one *)
Theorem chain_choice_decoded c chain sc0 :
  all_same_sc (attr_pairs c) (c_link_rel c) None = Some sc0 ->
  sc_is_url sc0 = true -> c_attr_value c <> [] ->
  finding_D16 (c_attr_value c) = false ->
  sanitizers_for_attr_value c = Some chain ->
  c_attr_amb c = false /\
  ((sc0 = SC_TRU /\ validate_tru_prefix (c_attr_value c) = true /\
    chain = [N_validateTRUSubst; N_queryEscapeURL; N_sanitizeHTML]) \/
   ((sc0 = SC_URL \/ sc0 = SC_TRUOrURL) /\ validate_url_prefix (c_attr_value c) = true /\
    chain = if has_qf (html_unescape (c_attr_value c)) then [N_queryEscapeURL; N_sanitizeHTML]
            else [N_normalizeURL; N_sanitizeHTML])).
Proof. intros Hsc Hu Hne _ H. exact (chain_choice c chain sc0 Hsc Hu Hne H). Qed.

(* non-vacuity: the contexts of  <a href="/foo?x={{.}}">, <a href="/foo/{{.}}"> and <script src="/a/{{.}}"> *)
Definition ctx_of (e a p : bytes) : context := mkctx StAttr DDoubleQuote e [] a p false [] None [] [].
Example chain_query_example :
  sanitizers_for_attr_value (ctx_of (B "a") (B "href") (B "/foo?x=")) = Some [N_queryEscapeURL; N_sanitizeHTML].
Proof. vm_compute. reflexivity. Qed.
Example chain_path_example :
  sanitizers_for_attr_value (ctx_of (B "a") (B "href") (B "/foo/")) = Some [N_normalizeURL; N_sanitizeHTML].
Proof. vm_compute. reflexivity. Qed.
Example chain_tru_example :
  sanitizers_for_attr_value (ctx_of (B "script") (B "src") (B "/a/")) = Some [N_validateTRUSubst; N_queryEscapeURL; N_sanitizeHTML].
Proof. vm_compute. reflexivity. Qed.
Example chain_rejected_example : sanitizers_for_attr_value (ctx_of (B "a") (B "href") (B "java")) = None.
Proof. vm_compute. reflexivity. Qed.
Example chain_example_hyps :
  all_same_sc (attr_pairs (ctx_of (B "a") (B "href") (B "/foo?x="))) [] None = Some SC_TRUOrURL /\ sc_is_url SC_TRUOrURL = true.
Proof. split; vm_compute; reflexivity. Qed.

(* ================================================================== *)
(* Part D: static prefixes that must be rejected are rejected *)

Lemma go_match_cls rs (w : list N) c : wf_runes w -> In c w -> in_ranges c rs = true ->
  go_match (Cls rs) w = true.
Proof.
  intros Hw Hin Hc. apply (go_match_M _ _ Hw). apply in_split in Hin as (a & b & ->).
  exists a, [c], b. split; [reflexivity|]. constructor. exact Hc.
Qed.

Lemma go_match_cls_inv rs (w : list N) : wf_runes w -> go_match (Cls rs) w = true ->
  exists c, In c w /\ in_ranges c rs = true.
Proof.
  intros Hw H. apply (go_match_M _ _ Hw) in H as (a & m & b & -> & H).
  apply M_Cls_inv in H as (c & -> & Hc). exists c. split; [|exact Hc].
  apply in_or_app. right. left. reflexivity.
Qed.

Lemma ws_or_ctrl_small c : ws_or_ctrl c = true -> c < 128 /\ in_ranges c [(0, 32); (127, 127)] = true.
Proof. unfold ws_or_ctrl, in_ranges, in_range. cbn [existsb fst snd]. lia. Qed.

Lemma ws_spec_match (p : bytes) : has_ws_or_ctrl p = true -> go_match S_ws (decode_runes p) = true.
Proof.
  unfold has_ws_or_ctrl. intros H. apply existsb_exists in H as (c & Hin & Hc).
  destruct (ws_or_ctrl_small c Hc) as [Hs Hr].
  apply (go_match_cls _ _ c (wf_decode p)); [|exact Hr]. apply (proj1 (decode_in_ascii p c Hs)). exact Hin.
Qed.

Lemma ws_rejected (p : bytes) : has_ws_or_ctrl p = true ->
  go_match_bytes G_containsWhitespaceOrControlPattern p = true.
Proof.
  intros H. unfold go_match_bytes. eapply go_incl; [exact bridge_ws_ok|]. apply ws_spec_match. exact H.
Qed.

(* conversely: where the code's pattern does not match there is no such code point *)
Lemma no_ws_runes (w : list N) : wf_runes w -> go_match G_containsWhitespaceOrControlPattern w = false ->
  Forall (fun c => c0_or_space c = false) w.
Proof.
  intros Hw H. apply Forall_forall. intros c Hin. destruct (c0_or_space c) eqn:E; [|reflexivity].
  assert (M : go_match S_ws w = true).
  { apply (go_match_cls _ _ c Hw Hin). unfold c0_or_space in E. unfold in_ranges, in_range. cbn [existsb fst snd]. lia. }
  pose proof (go_incl _ _ bridge_ws_ok w M) as G. congruence.
Qed.

(* ---- suffix recognisers ---- *)
Lemma M_cat_end a p (s : list N) : M a p s None -> M (Cat a EndText) p s None.
Proof. intros H. rewrite <- (app_nil_r s). constructor; [exact H | constructor]. Qed.

Lemma cls_forall (f : N -> bool) rs (l : list N) : (forall c, f c = true -> in_ranges c rs = true) ->
  forallb f l = true -> Forall (fun c => in_ranges c rs = true) l.
Proof.
  intros Hf H. apply Forall_forall. intros c Hin. rewrite forallb_forall in H. apply Hf. apply H. exact Hin.
Qed.

Lemma alpha_cls c : sp_alpha c = true -> in_ranges c C_alpha = true.
Proof. unfold sp_alpha, in_ranges, in_range, C_alpha. cbn [existsb fst snd]. lia. Qed.
Lemma alnum_cls c : sp_alnum c = true -> in_ranges c C_alnum = true.
Proof. unfold sp_alnum, sp_alpha, sp_digit, in_ranges, in_range, C_alnum. cbn [existsb fst snd]. lia. Qed.
Lemma digit_cls c : sp_digit c = true -> in_ranges c C_digit = true.
Proof. unfold sp_digit, in_ranges, in_range, C_digit. cbn [existsb fst snd]. lia. Qed.
Lemma hex_cls c : sp_hex c = true -> in_ranges c C_hex = true.
Proof. unfold sp_hex, sp_digit, in_ranges, in_range, C_hex. cbn [existsb fst snd]. lia. Qed.

Lemma ascii_forall (f : N -> bool) (l : list N) : (forall c, f c = true -> c < 128) ->
  forallb f l = true -> Forall (fun c => c < 128) l.
Proof.
  intros Hf H. apply Forall_forall. intros c Hin. rewrite forallb_forall in H. apply Hf. apply H. exact Hin.
Qed.
Lemma alnum_small c : sp_alnum c = true -> c < 128.
Proof. unfold sp_alnum, sp_alpha, sp_digit. lia. Qed.
Lemma hex_small c : sp_hex c = true -> c < 128.
Proof. unfold sp_hex, sp_digit. lia. Qed.
Lemma digit_small c : sp_digit c = true -> c < 128.
Proof. unfold sp_digit. lia. Qed.

Lemma charref_tail_ascii (r : bytes) : charref_tail r = true -> Forall (fun c => c < 128) r.
Proof.
  destruct r as [|d r]; [constructor|]. cbn [charref_tail]. destruct (sp_alpha d) eqn:Ea.
  - intros H. constructor; [unfold sp_alpha in Ea; lia | exact (ascii_forall _ _ alnum_small H)].
  - destruct (d =? 35) eqn:E35; [|discriminate]. apply N.eqb_eq in E35. subst d.
    destruct r as [|x r']; [intros _; repeat constructor|].
    destruct ((x =? 120) || (x =? 88)) eqn:Ex; intros H.
    + constructor; [reflexivity|]. constructor; [lia | exact (ascii_forall _ _ hex_small H)].
    + constructor; [reflexivity | exact (ascii_forall _ _ digit_small H)].
Qed.

Lemma charref_tail_M (r : bytes) p : charref_tail r = true -> M S_charref_tail p r None.
Proof.
  unfold S_charref_tail. destruct r as [|d r]; [intros _; apply MAltL; constructor|].
  cbn [charref_tail]. destruct (sp_alpha d) eqn:Ea.
  - intros H. apply MAltR, MAltL. change (d :: r) with ([d] ++ r). constructor.
    + constructor. apply alpha_cls. exact Ea.
    + apply star_cls_M. exact (cls_forall _ _ _ alnum_cls H).
  - destruct (d =? 35) eqn:E35; [|discriminate]. apply N.eqb_eq in E35. subst d.
    intros H. apply MAltR, MAltR. change (35 :: r) with ([35] ++ r). constructor; [constructor; reflexivity|].
    destruct r as [|x r']; [apply MAltL; constructor|].
    destruct ((x =? 120) || (x =? 88)) eqn:Ex.
    + apply MAltR. change (x :: r') with ([x] ++ r'). constructor.
      * constructor. unfold in_ranges, in_range. cbn [existsb fst snd]. lia.
      * apply star_cls_M. exact (cls_forall _ _ _ hex_cls H).
    + apply MAltL. apply star_cls_M. exact (cls_forall _ _ _ digit_cls H).
Qed.

Lemma partial_charref_split (p : bytes) : ends_with_partial_charref p = true ->
  exists a r, p = a ++ 38 :: r /\ charref_tail r = true.
Proof.
  induction p as [|c t IH]; [discriminate|]. cbn [ends_with_partial_charref]. intros H.
  apply orb_true_iff in H as [H|H].
  - apply andb_true_iff in H as [Hc Ht]. apply N.eqb_eq in Hc. subst c. exists [], t. split; [reflexivity | exact Ht].
  - destruct (IH H) as (a & r & -> & Hr). exists (c :: a), r. split; [reflexivity | exact Hr].
Qed.

Lemma charref_spec_match (p : bytes) : ends_with_partial_charref p = true ->
  go_match S_charref (decode_runes p) = true.
Proof.
  intros H. destruct (partial_charref_split p H) as (a & r & -> & Hr).
  apply (go_match_M _ _ (wf_decode _)).
  rewrite decode_app_ascii by reflexivity. rewrite (decode_runes_ascii r (charref_tail_ascii r Hr)).
  exists (decode_runes a), (38 :: r), []. split; [rewrite app_nil_r; reflexivity|].
  unfold S_charref. change (38 :: r) with ([38] ++ r). constructor; [constructor; reflexivity|].
  apply M_cat_end. apply charref_tail_M. exact Hr.
Qed.

Lemma charref_rejected (p : bytes) : ends_with_partial_charref p = true ->
  validate_no_charref_prefix p = false.
Proof.
  intros H. unfold validate_no_charref_prefix, go_match_bytes. apply negb_false_iff.
  eapply go_incl; [exact bridge_charref_ok|]. apply charref_spec_match. exact H.
Qed.

Lemma partial_pct_split (d : bytes) : ends_with_partial_pct d = true ->
  exists a r, d = a ++ 37 :: r /\ pct_tail r = true.
Proof.
  induction d as [|c t IH]; [discriminate|]. cbn [ends_with_partial_pct]. intros H.
  apply orb_true_iff in H as [H|H].
  - apply andb_true_iff in H as [Hc Ht]. apply N.eqb_eq in Hc. subst c. exists [], t. split; [reflexivity | exact Ht].
  - destruct (IH H) as (a & r & -> & Hr). exists (c :: a), r. split; [reflexivity | exact Hr].
Qed.

Lemma pct_spec_match (d : bytes) : ends_with_partial_pct d = true -> go_match S_pct (decode_runes d) = true.
Proof.
  intros H. destruct (partial_pct_split d H) as (a & r & -> & Hr).
  apply (go_match_M _ _ (wf_decode _)). rewrite decode_app_ascii by reflexivity.
  assert (Hra : Forall (fun c => c < 128) r).
  { destruct r as [|h [|? ?]]; try discriminate; [constructor|]. cbn [pct_tail] in Hr. repeat constructor. apply hex_small; exact Hr. }
  rewrite (decode_runes_ascii r Hra).
  exists (decode_runes a), (37 :: r), []. split; [rewrite app_nil_r; reflexivity|].
  unfold S_pct. change (37 :: r) with ([37] ++ r). constructor; [constructor; reflexivity|].
  apply M_cat_end. destruct r as [|h [|? ?]]; try discriminate.
  - apply MAltL. constructor.
  - apply MAltR. constructor. apply hex_cls. exact Hr.
Qed.

Lemma pct_rejected (d : bytes) : ends_with_partial_pct d = true ->
  go_match_bytes G_endsWithPercentEncodingPrefixPattern d = true.
Proof.
  intros H. unfold go_match_bytes. eapply go_incl; [exact bridge_pct_ok|]. apply pct_spec_match. exact H.
Qed.

Lemma decode_url_prefix_some (p d : bytes) : decode_url_prefix p = Some d ->
  d = html_unescape p /\
  go_match_bytes G_containsWhitespaceOrControlPattern p = false /\
  validate_no_charref_prefix p = true /\
  go_match_bytes G_containsWhitespaceOrControlPattern d = false /\
  go_match_bytes G_endsWithPercentEncodingPrefixPattern d = false.
Proof.
  unfold decode_url_prefix.
  destruct (go_match_bytes G_containsWhitespaceOrControlPattern p) eqn:E1; [discriminate|].
  destruct (validate_no_charref_prefix p) eqn:E2; cbn [negb]; [|discriminate].
  destruct (go_match_bytes G_containsWhitespaceOrControlPattern (html_unescape p)) eqn:E3; [discriminate|].
  destruct (go_match_bytes G_endsWithPercentEncodingPrefixPattern (html_unescape p)) eqn:E4; [discriminate|].
  intros H. inversion H; subst. auto.
Qed.

(* C14_prefix_rejected, first half *)
Theorem prefix_rejected_decode (p : bytes) :
  has_ws_or_ctrl p = true \/ has_ws_or_ctrl (html_unescape p) = true \/
  ends_with_partial_charref p = true \/ ends_with_partial_pct (html_unescape p) = true ->
  decode_url_prefix p = None.
Proof.
  intros H. destruct (decode_url_prefix p) as [d|] eqn:E; [|reflexivity]. exfalso.
  apply decode_url_prefix_some in E as (-> & E1 & E2 & E3 & E4).
  destruct H as [H|[H|[H|H]]].
  - rewrite (ws_rejected p H) in E1. discriminate.
  - rewrite (ws_rejected _ H) in E3. discriminate.
  - rewrite (charref_rejected p H) in E2. discriminate.
  - rewrite (pct_rejected _ H) in E4. discriminate.
Qed.

(* ---- a prefix that could still be completed into a scheme ---- *)
Lemma last_or_none_nil {A} (a : list A) : last_or a None = None -> a = [].
Proof.
  destruct a as [|x a]; [reflexivity|]. cbn [last_or].
  assert (G : forall (l : list A) y, last_or l (Some y) <> None).
  { induction l as [|z l IH]; intros y; cbn [last_or]; [discriminate | apply IH]. }
  intros H. exfalso. exact (G a x H).
Qed.

Lemma scheme_cls_sp c : in_ranges c C_scheme = true -> sp_scheme_char c = true /\ c < 128 /\ c <> 58.
Proof.
  unfold in_ranges, in_range, C_scheme, sp_scheme_char, sp_alnum, sp_alpha, sp_digit. cbn [existsb fst snd]. lia.
Qed.

Lemma scheme_tail_run (s r : bytes) : Forall (fun c => in_ranges c C_scheme = true) s ->
  scheme_tail (s ++ 58 :: r) = true.
Proof.
  induction 1 as [|c s Hc Hs IH]; [reflexivity|]. cbn [app scheme_tail].
  destruct (scheme_cls_sp c Hc) as (S1 & _ & S3).
  destruct (c =? 58) eqn:E; [reflexivity|]. rewrite S1, IH. reflexivity.
Qed.

Lemma scheme_spec_shape (d : bytes) : go_match S_scheme (decode_runes d) = true ->
  exists c s r, d = c :: s ++ 58 :: r /\ sp_alpha c = true /\ Forall (fun x => in_ranges x C_scheme = true) s.
Proof.
  intros H. apply (go_match_M _ _ (wf_decode d)) in H as (a & m & b & E & H).
  unfold S_scheme in H. apply M_Cat_inv in H as (s0 & m1 & -> & H0 & H).
  apply M_BeginText_inv in H0 as [-> Ha]. cbn [last_or app] in *.
  apply last_or_none_nil in Ha. subst a. cbn [app] in E.
  apply M_Cat_inv in H as (s1 & m2 & -> & H1 & H).
  apply M_Cls_inv in H1 as (c & -> & Hc).
  apply M_Cat_inv in H as (s2 & s3 & -> & H2 & H3).
  apply M_star_cls in H2. apply M_Cls_inv in H3 as (k & -> & Hk).
  assert (k = 58) by (unfold in_ranges, in_range in Hk; cbn [existsb fst snd] in Hk; lia). subst k.
  cbn [app] in E. rewrite <- app_assoc in E. cbn [app] in E.
  assert (Hca : sp_alpha c = true /\ c < 128).
  { unfold in_ranges, in_range, C_alpha in Hc. cbn [existsb fst snd] in Hc. unfold sp_alpha. lia. }
  destruct Hca as [Hca Hc128].
  change (c :: s2 ++ 58 :: b) with ((c :: s2) ++ 58 :: b) in E.
  destruct (decode_split_ascii d (c :: s2) 58 b eq_refl E) as (a' & b' & -> & Ea & _).
  assert (Hall : Forall (fun x => x < 128) (decode_runes a')).
  { rewrite Ea. constructor; [exact Hc128|]. eapply Forall_impl; [|exact H2].
    intros x Hx. destruct (scheme_cls_sp x Hx) as (_ & ? & _). assumption. }
  rewrite (decode_all_ascii a' Hall) in Ea. subst a'.
  exists c, s2, b'. split; [reflexivity|]. split; [exact Hca | exact H2].
Qed.

Lemma scheme_match_starts (d : bytes) : go_match_bytes G_startsWithFullySpecifiedSchemePattern d = true ->
  starts_with_scheme d = true /\ In 58 d.
Proof.
  intros H. unfold go_match_bytes in H. apply (go_incl _ _ bridge_scheme_ok) in H.
  destruct (scheme_spec_shape d H) as (c & s & r & -> & Hc & Hs). split.
  - cbn [starts_with_scheme]. rewrite Hc, (scheme_tail_run s r Hs). reflexivity.
  - right. apply in_or_app. right. left. reflexivity.
Qed.

Lemma no_delim_index (d : bytes) : existsb url_delim d = false -> index_any [47; 63; 35] d = None.
Proof.
  induction d as [|c t IH]; [reflexivity|]. cbn [existsb index_any]. intros H.
  apply orb_false_iff in H as [Hc Ht]. rewrite (IH Ht).
  unfold url_delim in Hc. unfold mem_N. cbn [existsb]. rewrite orb_false_r.
  rewrite orb_assoc, Hc. reflexivity.
Qed.

(* C14_prefix_rejected, second half *)
Theorem prefix_rejected_scheme (p : bytes) :
  could_complete_to_scheme (html_unescape p) = true -> validate_url_prefix p = false.
Proof.
  unfold could_complete_to_scheme, validate_url_prefix. intros H. apply andb_true_iff in H as [Hd Hs].
  apply negb_true_iff in Hd, Hs.
  destruct (decode_url_prefix p) as [d|] eqn:E; [|reflexivity].
  apply decode_url_prefix_some in E as (-> & _).
  destruct (go_match_bytes G_startsWithFullySpecifiedSchemePattern (html_unescape p)) eqn:G.
  - apply scheme_match_starts in G as [G _]. congruence.
  - rewrite (no_delim_index _ Hd). reflexivity.
Qed.

Theorem prefix_rejected (p : bytes) :
  (has_ws_or_ctrl p = true \/ has_ws_or_ctrl (html_unescape p) = true \/
   ends_with_partial_charref p = true \/ ends_with_partial_pct (html_unescape p) = true ->
   decode_url_prefix p = None /\ validate_url_prefix p = false /\ validate_tru_prefix p = false) /\
  (could_complete_to_scheme (html_unescape p) = true -> validate_url_prefix p = false).
Proof.
  split; [|apply prefix_rejected_scheme].
  intros H. pose proof (prefix_rejected_decode p H) as E. split; [exact E|].
  unfold validate_url_prefix, validate_tru_prefix. rewrite E. split; reflexivity.
Qed.

(* the whole rejection clause of the property, as the oracle evaluates it *)
Theorem must_reject_rejected (p : bytes) : must_reject html_unescape p = true -> validate_url_prefix p = false.
Proof.
  unfold must_reject. intros H.
  apply orb_true_iff in H as [H|H]; [|apply prefix_rejected_scheme; exact H].
  assert (X : has_ws_or_ctrl p = true \/ has_ws_or_ctrl (html_unescape p) = true \/
              ends_with_partial_charref p = true \/ ends_with_partial_pct (html_unescape p) = true).
  { apply orb_true_iff in H as [H|H]; [|auto].
    apply orb_true_iff in H as [H|H]; [|auto].
    apply orb_true_iff in H as [H|H]; auto. }
  unfold validate_url_prefix. rewrite (prefix_rejected_decode p X). reflexivity.
Qed.

Example rejects_tab_reference : validate_url_prefix (B "/a&Tab;") = false /\ has_ws_or_ctrl (html_unescape (B "/a&Tab;")) = true.
Proof. split; vm_compute; reflexivity. Qed.
Example rejects_partial_reference : validate_url_prefix (B "/a?x=1&am") = false /\ ends_with_partial_charref (B "/a?x=1&am") = true.
Proof. split; vm_compute; reflexivity. Qed.
Example rejects_partial_escape : validate_url_prefix (B "/a%4") = false /\ ends_with_partial_pct (B "/a%4") = true.
Proof. split; vm_compute; reflexivity. Qed.
Example rejects_scheme_prefix : validate_url_prefix (B "java") = false /\ could_complete_to_scheme (B "java") = true.
Proof. split; vm_compute; reflexivity. Qed.
Example accepts_path_prefix : validate_url_prefix (B "/foo/") = true /\ must_reject html_unescape (B "/foo/") = false.
Proof. split; vm_compute; reflexivity. Qed.

(* ================================================================== *)
(* Part E: an accepted prefix fixes the scheme, whatever normalised text follows *)

Lemma scheme_state_cut (q : list N) c r r' : scheme_char c = false ->
  forall buf, scheme_state (q ++ c :: r) buf = scheme_state (q ++ c :: r') buf.
Proof.
  intros Hc. induction q as [|x q IH]; intros buf; cbn [app scheme_state].
  - rewrite Hc. reflexivity.
  - destruct (scheme_char x); [apply IH | reflexivity].
Qed.

Lemma scheme_start_cut (q : list N) c r r' : scheme_char c = false ->
  scheme_start_state (q ++ c :: r) = scheme_start_state (q ++ c :: r').
Proof.
  intros Hc. destruct q as [|x q]; cbn [app scheme_start_state].
  - assert (E : ascii_alpha c = false).
    { unfold scheme_char, ascii_alphanumeric in Hc. destruct (ascii_alpha c); [|reflexivity].
      rewrite orb_true_r in Hc. discriminate. }
    rewrite E. reflexivity.
  - destruct (ascii_alpha x); [apply scheme_state_cut; exact Hc | reflexivity].
Qed.

Lemma strip_trailing_id (w : list N) : Forall (fun c => c0_or_space c = false) w -> strip_trailing w = w.
Proof.
  induction 1 as [|c t Hc Ht IH]; [reflexivity|]. cbn [strip_trailing]. rewrite IH.
  destruct t; [rewrite Hc|]; reflexivity.
Qed.

Lemma url_preprocess_id (w : list N) : Forall (fun c => c0_or_space c = false) w -> url_preprocess w = w.
Proof.
  intros H. unfold url_preprocess.
  assert (E : strip_leading w = w) by (destruct H as [|c t Hc Ht]; [reflexivity | cbn [strip_leading]; rewrite Hc; reflexivity]).
  rewrite E, (strip_trailing_id w H). apply remove_tab_newline_keep. exact H.
Qed.

Lemma decode_app_ascii_suffix (b d : bytes) : Forall (fun c => c < 128) d ->
  decode_runes (b ++ d) = decode_runes b ++ d.
Proof.
  intros H. destruct H as [|x d' Hx Hd]; [rewrite !app_nil_r; reflexivity|].
  rewrite (decode_app_ascii b x d' Hx), (decode_runes_ascii d' Hd). reflexivity.
Qed.

Lemma index_any_some (set s : bytes) n : index_any set s = Some n -> exists c, In c s /\ In c set.
Proof.
  revert n. induction s as [|c t IH]; intros n; [discriminate|]. cbn [index_any].
  destruct (mem_N c set) eqn:E.
  - intros _. exists c. split; [left; reflexivity | apply mem_N_In; exact E].
  - destruct (index_any set t) as [i|]; [|discriminate]. intros _.
    destruct (IH i eq_refl) as (x & Hx & Hs). exists x. split; [right; exact Hx | exact Hs].
Qed.

Lemma normalized_not_space c : normalized_byte c = true -> c0_or_space c = false.
Proof.
  unfold normalized_byte, sp_alnum, sp_alpha, sp_digit, normalized_marks, mem_N, c0_or_space. cbn [existsb]. lia.
Qed.

(* an accepted prefix contains a byte that ends the scheme question: ':' after a complete scheme,
   or one of  / ? #  *)
Lemma accepted_prefix_shape (p : bytes) : validate_url_prefix p = true ->
  decode_url_prefix p = Some (html_unescape p) /\
  Forall (fun c => c0_or_space c = false) (decode_runes (html_unescape p)) /\
  exists c, In c (html_unescape p) /\ (c = 58 \/ c = 47 \/ c = 63 \/ c = 35).
Proof.
  unfold validate_url_prefix. destruct (decode_url_prefix p) as [d|] eqn:E; [|discriminate].
  pose proof E as E'. apply decode_url_prefix_some in E' as (-> & _ & _ & E3 & _).
  intros H. split; [reflexivity|]. split; [apply no_ws_runes; [apply wf_decode | exact E3]|].
  destruct (go_match_bytes G_startsWithFullySpecifiedSchemePattern (html_unescape p)) eqn:G.
  - apply scheme_match_starts in G as [_ G]. exists 58. auto.
  - destruct (index_any [47; 63; 35] (html_unescape p)) as [i|] eqn:I; [|discriminate].
    destruct (index_any_some _ _ _ I) as (c & Hc & Hs). exists c. split; [exact Hc|].
    cbn [In] in Hs. intuition.
Qed.

(* C14_prefix_scheme_fixed *)
Theorem prefix_scheme_fixed (p : bytes) : validate_url_prefix p = true ->
  forall d, forallb normalized_byte d = true ->
  whatwg_scheme (decode_runes (html_unescape p ++ d)) = whatwg_scheme (decode_runes (html_unescape p)).
Proof.
  intros H d Hd. destruct (accepted_prefix_shape p H) as (_ & Hw & c & Hin & Hc).
  assert (Hc128 : c < 128) by lia.
  assert (Hsc : scheme_char c = false).
  { unfold scheme_char, ascii_alphanumeric, ascii_digit, ascii_alpha, ascii_upper_alpha, ascii_lower_alpha. lia. }
  assert (Hda : Forall (fun x => x < 128) d).
  { apply Forall_forall. intros x Hx. rewrite forallb_forall in Hd. apply normalized_byte_small. apply Hd. exact Hx. }
  assert (Hds : Forall (fun x => c0_or_space x = false) d).
  { apply Forall_forall. intros x Hx. rewrite forallb_forall in Hd. apply normalized_not_space. apply Hd. exact Hx. }
  apply in_split in Hin as (a & b & E). rewrite E in *. clear E.
  rewrite <- app_assoc. cbn [app].
  rewrite (decode_app_ascii a c (b ++ d) Hc128), (decode_app_ascii a c b Hc128) in *.
  rewrite (decode_app_ascii_suffix b d Hda).
  apply Forall_app in Hw as [Hwa Hwb]. inversion Hwb as [|? ? Hcs Hwb']; subst.
  unfold whatwg_scheme. rewrite !url_preprocess_id.
  - apply scheme_start_cut. exact Hsc.
  - apply Forall_app. split; [exact Hwa | constructor; assumption].
  - apply Forall_app. split; [exact Hwa|]. constructor; [exact Hcs|]. apply Forall_app. split; assumption.
Qed.

(* in particular for what the two processors write *)
Corollary prefix_scheme_fixed_normalized (p v : bytes) : validate_url_prefix p = true -> wf_bytes v ->
  whatwg_scheme (decode_runes (html_unescape p ++ normalize_url v)) = whatwg_scheme (decode_runes (html_unescape p)).
Proof. intros H Hv. apply prefix_scheme_fixed; [exact H | apply normalize_alphabet; exact Hv]. Qed.

Lemma plain_normalized c : plain_byte c -> normalized_byte c = true.
Proof.
  intros H. pose proof (plain_byte_range c H).
  assert (T : forallb (fun c => negb (sp_unreserved c || (c =? 37) || sp_hex c) || normalized_byte c) all_bytes = true)
    by (vm_compute; reflexivity).
  pose proof (forall_byte _ T c ltac:(lia)) as E. cbn beta in E.
  assert (X : sp_unreserved c || (c =? 37) || sp_hex c = true).
  { destruct H as [H|[H|H]]; [rewrite H; reflexivity | subst; reflexivity | rewrite H; apply orb_true_r]. }
  rewrite X in E. exact E.
Qed.

Corollary prefix_scheme_fixed_escaped (p v : bytes) : validate_url_prefix p = true -> wf_bytes v ->
  whatwg_scheme (decode_runes (html_unescape p ++ query_escape_url v)) = whatwg_scheme (decode_runes (html_unescape p)).
Proof.
  intros H Hv. apply prefix_scheme_fixed; [exact H|]. apply forallb_forall. intros c Hin.
  apply plain_normalized. pose proof (escape_plain v Hv) as P. rewrite Forall_forall in P. apply P. exact Hin.
Qed.

Example scheme_fixed_example :
  validate_url_prefix (B "j&sol;") = true /\
  whatwg_scheme (decode_runes (html_unescape (B "j&sol;") ++ B "avascript:alert(1)")) = None /\
  validate_url_prefix (B "mailto:") = true /\
  whatwg_scheme (decode_runes (html_unescape (B "mailto:") ++ B "javascript:x")) = Some (B "mailto").
Proof. repeat split; vm_compute; reflexivity. Qed.

(* ================================================================== *)
(* the statements of C14_normalized, collected *)
Theorem normalized_summary (v : bytes) : wf_bytes v ->
  let n := normalize_url v in
  forallb normalized_byte n = true /\ pct_ok n = true /\ normalize_url n = n /\ norm_rel v n = true /\
  (forall a b h1 h2, v = a ++ [37; h1; h2] ++ b -> sp_hex h1 = true -> sp_hex h2 = true ->
     n = normalize_url a ++ [37; h1; h2] ++ normalize_url b) /\
  (forall a, v = a ++ [37] -> n = normalize_url a ++ B "%25") /\
  (forall a h, v = a ++ [37; h] -> sp_hex h = true -> n = normalize_url a ++ B "%25" ++ [h]).
Proof.
  intros H n. split; [apply normalize_alphabet; exact H|]. split; [apply normalize_pct_ok; exact H|].
  split; [apply normalize_idempotent; exact H|]. split; [apply normalize_norm_rel; exact H|].
  split; [intros a b h1 h2 -> H1 H2; apply normalize_keeps_escapes; assumption|].
  split; [intros a ->; apply normalize_partial_escape_end|].
  intros a h -> Hh. apply (normalize_partial_escape_end a). exact Hh.
Qed.

Example normalized_example :
  normalize_url (B "a b%41%4<%zz'") = B "a%20b%41%254%3c%25zz%27" /\ query_escape_url (B "a&b=%41") = B "a%26b%3d%2541".
Proof. split; vm_compute; reflexivity. Qed.

(* ================================================================== *)
(* Part F: the remaining two bridges *)
Lemma bridge_tru_delim_ok : bridge_tru_delim = true. Proof. vm_compute. reflexivity. Qed.
Lemma bridge_dotdot14_ok : bridge_dotdot14 = true. Proof. vm_compute. reflexivity. Qed.

(* a prefix without '/', '?', '#' is no TrustedResourceURL prefix either *)
Theorem prefix_rejected_scheme_tru (p : bytes) :
  could_complete_to_scheme (html_unescape p) = true -> validate_tru_prefix p = false.
Proof.
  unfold could_complete_to_scheme, validate_tru_prefix. intros H. apply andb_true_iff in H as [Hd _].
  apply negb_true_iff in Hd.
  destruct (decode_url_prefix p) as [d|] eqn:E; [|reflexivity].
  apply decode_url_prefix_some in E as (-> & _).
  destruct (is_safe_tru_prefix (html_unescape p)) eqn:S; [|reflexivity]. exfalso.
  unfold is_safe_tru_prefix in S. apply (go_incl _ _ bridge_tru_delim_ok) in S.
  apply (go_match_cls_inv _ _ (wf_decode _)) in S as (c & Hin & Hc).
  assert (Hc' : (c = 35 \/ c = 47)) by (unfold in_ranges, in_range in Hc; cbn [existsb fst snd] in Hc; lia).
  assert (Hin' : In c (html_unescape p)) by (apply (proj2 (decode_in_ascii _ c ltac:(lia))); exact Hin).
  assert (X : existsb url_delim (html_unescape p) = true).
  { apply existsb_exists. exists c. split; [exact Hin'|]. unfold url_delim. lia. }
  congruence.
Qed.

(* dot-dot in the data, triplets for '.' counted *)
Definition is_dot (d : bytes) : Prop := d = [46] \/ d = [37; 50; 101] \/ d = [37; 50; 69].

Lemma dot_at_some (s r : bytes) : dot_at s = Some r -> exists d, s = d ++ r /\ is_dot d.
Proof.
  unfold dot_at. destruct s as [|c s]; [discriminate|].
  destruct (c =? 46) eqn:E46.
  - apply N.eqb_eq in E46. subst c. intros H. inversion H; subst. exists [46]. split; [reflexivity | left; reflexivity].
  - destruct s as [|x [|e s]]; try discriminate.
    destruct ((c =? 37) && (x =? 50) && ((e =? 101) || (e =? 69))) eqn:E; [|discriminate].
    intros H. inversion H; subst. apply andb_true_iff in E as [E Ee]. apply andb_true_iff in E as [Ec Ex].
    apply N.eqb_eq in Ec, Ex. subst c x. apply orb_true_iff in Ee as [Ee|Ee]; apply N.eqb_eq in Ee; subst e.
    + exists [37; 50; 101]. split; [reflexivity | right; left; reflexivity].
    + exists [37; 50; 69]. split; [reflexivity | right; right; reflexivity].
Qed.

Lemma spec_dotdot_split (v : bytes) : spec_dotdot v = true ->
  exists a d1 d2 b, v = a ++ d1 ++ d2 ++ b /\ is_dot d1 /\ is_dot d2.
Proof.
  induction v as [|c t IH]; [discriminate|]. cbn [spec_dotdot].
  assert (Rec : spec_dotdot t = true -> exists a d1 d2 b, c :: t = a ++ d1 ++ d2 ++ b /\ is_dot d1 /\ is_dot d2).
  { intros H. destruct (IH H) as (a & d1 & d2 & b & -> & H1 & H2). exists (c :: a), d1, d2, b. auto. }
  destruct (dot_at (c :: t)) as [r|] eqn:D1; [|exact Rec].
  destruct (dot_at r) as [r2|] eqn:D2; [|exact Rec].
  intros _. destruct (dot_at_some _ _ D1) as (d1 & E1 & H1). destruct (dot_at_some _ _ D2) as (d2 & E2 & H2).
  exists [], d1, d2, r2. rewrite E1, E2. auto.
Qed.

Lemma is_dot_ascii d : is_dot d -> Forall (fun c => c < 128) d /\ d <> [].
Proof. intros [->|[->| ->]]; split; try discriminate; repeat constructor. Qed.

Lemma is_dot_M d p n : is_dot d -> M S_dot p d n.
Proof.
  unfold S_dot. intros [->|[->| ->]].
  - apply MAltL. constructor. reflexivity.
  - apply MAltR. change [37; 50; 101] with ([37] ++ [50] ++ [101]).
    constructor; [constructor; reflexivity|]. constructor; constructor; reflexivity.
  - apply MAltR. change [37; 50; 69] with ([37] ++ [50] ++ [69]).
    constructor; [constructor; reflexivity|]. constructor; constructor; reflexivity.
Qed.

Lemma decode_app_ascii_mid (a d r : bytes) : Forall (fun c => c < 128) d -> d <> [] ->
  decode_runes (a ++ d ++ r) = decode_runes a ++ d ++ decode_runes r.
Proof.
  intros Hd Hne. destruct Hd as [|x d' Hx Hd']; [contradiction|]. cbn [app].
  rewrite (decode_app_ascii a x (d' ++ r) Hx), (decode_ascii_prefix d' r Hd'). reflexivity.
Qed.

Lemma dotdot_spec_match (v : bytes) : spec_dotdot v = true -> go_match S_dotdot (decode_runes v) = true.
Proof.
  intros H. destruct (spec_dotdot_split v H) as (a & d1 & d2 & b & -> & H1 & H2).
  destruct (is_dot_ascii d1 H1) as [A1 N1]. destruct (is_dot_ascii d2 H2) as [A2 N2].
  apply (go_match_M _ _ (wf_decode _)).
  rewrite (decode_app_ascii_mid a d1 (d2 ++ b) A1 N1).
  assert (E : decode_runes (d2 ++ b) = d2 ++ decode_runes b).
  { pose proof (decode_app_ascii_mid [] d2 b A2 N2) as X. exact X. }
  rewrite E. exists (decode_runes a), (d1 ++ d2), (decode_runes b). split; [rewrite <- app_assoc; reflexivity|].
  unfold S_dotdot. constructor; apply is_dot_M; assumption.
Qed.

Theorem dotdot_rejected (v : bytes) : contains_double_dot v = false -> spec_dotdot v = false.
Proof.
  intros H. destruct (spec_dotdot v) eqn:S; [|reflexivity].
  pose proof (go_incl _ _ bridge_dotdot14_ok _ (dotdot_spec_match v S)) as G.
  unfold contains_double_dot in H. congruence.
Qed.

Theorem tru_confined_all x o : wf_bytes (stringify x) ->
  apply_chain [N_validateTRUSubst; N_queryEscapeURL; N_sanitizeHTML] x = Some o ->
  contains_double_dot (stringify x) = false /\ spec_dotdot (stringify x) = false /\
  o = query_escape_url (stringify x) /\ html_unescape o = query_escape_url (stringify x) /\
  unreserved_or_pct (html_unescape o) = true /\ pct_decode (html_unescape o) = stringify x /\
  ~ In 47 (html_unescape o) /\ ~ In 92 (html_unescape o).
Proof.
  intros Hw H. destruct (tru_confined x o Hw H) as (D & R). split; [exact D|]. split; [apply dotdot_rejected; exact D | exact R].
Qed.

Example dotdot_examples :
  spec_dotdot (B "a/%2E./b") = true /\ contains_double_dot (B "a/%2E./b") = true /\
  apply_chain [N_validateTRUSubst; N_queryEscapeURL; N_sanitizeHTML] (VStr (B "..")) = None /\
  apply_chain [N_validateTRUSubst; N_queryEscapeURL; N_sanitizeHTML] (VStr (B "b/c")) = Some (B "b%2fc").
Proof. repeat split; vm_compute; reflexivity. Qed.

(* ================================================================== *)
(* statements of props/C14.v that combine the above *)
Theorem prefix_rejected_both (p : bytes) :
  (has_ws_or_ctrl p = true \/ has_ws_or_ctrl (html_unescape p) = true \/
   ends_with_partial_charref p = true \/ ends_with_partial_pct (html_unescape p) = true ->
   decode_url_prefix p = None /\ validate_url_prefix p = false /\ validate_tru_prefix p = false) /\
  (could_complete_to_scheme (html_unescape p) = true -> validate_url_prefix p = false /\ validate_tru_prefix p = false).
Proof.
  split; [apply (prefix_rejected p)|].
  intros H. split; [apply prefix_rejected_scheme | apply prefix_rejected_scheme_tru]; exact H.
Qed.

Theorem prefix_scheme_fixed_outputs (p v : bytes) : validate_url_prefix p = true -> wf_bytes v ->
  whatwg_scheme (decode_runes (html_unescape p ++ normalize_url v)) = whatwg_scheme (decode_runes (html_unescape p)) /\
  whatwg_scheme (decode_runes (html_unescape p ++ query_escape_url v)) = whatwg_scheme (decode_runes (html_unescape p)).
Proof.
  intros H Hv. split; [apply prefix_scheme_fixed_normalized | apply prefix_scheme_fixed_escaped]; assumption.
Qed.
