(* C10: HTMLEscaped yields inert, interchange-valid, round-tripping text. *)
From V Require Import lib.Base lib.Regex lib.Utf8 gen.GenUnicode gen.GenEntities.
From V Require Import lib.RegexDecide model.Html model.HtmlUnescape spec.HtmlSpec proofs.Utf8Facts proofs.RegexFacts proofs.RegexDecideFacts.
From Coq Require Import ZifyBool ZifyN ZifyNat PeanoNat.
Local Open Scope N_scope.

(* ---------- the regenerated table says what the property says ---------- *)
Lemma table_ok_ok : table_ok = true. Proof. vm_compute. reflexivity. Qed.

Lemma accepts_cls_single rs r : accepts (Cls rs) [r] = in_ranges r rs.
Proof. unfold accepts. cbn [accepts_from deriv]. destruct (in_ranges r rs); reflexivity. Qed.

Lemma table_spec r : in_ranges r control_and_nonchar_table = spec_bad r.
Proof.
  unfold spec_bad. rewrite <- !accepts_cls_single. apply equiv_ok_sound. exact table_ok_ok.
Qed.

Lemma coerce_rune_spec r : coerce_rune r = coerce_spec_rune r.
Proof. unfold coerce_rune, coerce_spec_rune. rewrite table_spec. reflexivity. Qed.

Lemma coerce_eq_spec s : coerce s = coerce_spec s.
Proof.
  unfold coerce, coerce_spec. f_equal. apply map_ext. intros r. apply coerce_rune_spec.
Qed.

(* ---------- the runes after coercion are clean scalars ---------- *)
Lemma coerce_spec_rune_clean r : scalar r -> clean_rune (coerce_spec_rune r) = true /\ scalar (coerce_spec_rune r).
Proof.
  intros [Hm Hs]. unfold coerce_spec_rune. destruct (spec_bad r) eqn:E.
  - split; [vm_compute; reflexivity | unfold scalar, FFFD; lia].
  - split; [|split; assumption]. unfold clean_rune. rewrite E. simpl. lia.
Qed.

(* ---------- per-rune view of html_escaped ---------- *)
Definition esc_rune (r : N) : bytes := html_escape_string (encode_rune r).

Lemma html_escape_string_app a b :
  html_escape_string (a ++ b) = html_escape_string a ++ html_escape_string b.
Proof. unfold html_escape_string. apply flat_map_app. Qed.

Lemma html_escaped_runes s :
  html_escaped s = flat_map esc_rune (map coerce_spec_rune (decode_runes s)).
Proof.
  unfold html_escaped. rewrite coerce_eq_spec. unfold coerce_spec, encode_runes.
  induction (map coerce_spec_rune (decode_runes s)) as [|r l IH]; [reflexivity|].
  simpl. rewrite html_escape_string_app, IH. reflexivity.
Qed.

Lemma html_escape_byte_high b : 128 <= b -> html_escape_byte b = [b].
Proof.
  intros H. unfold html_escape_byte.
  destruct (b =? 38) eqn:E1; [lia|]. destruct (b =? 39) eqn:E2; [lia|].
  destruct (b =? 60) eqn:E3; [lia|]. destruct (b =? 62) eqn:E4; [lia|].
  destruct (b =? 34) eqn:E5; [lia|]. reflexivity.
Qed.

Lemma esc_rune_high r : 128 <= r -> esc_rune r = encode_rune r.
Proof.
  intros H. unfold esc_rune, html_escape_string.
  pose proof (encode_rune_high r H) as Hh.
  induction Hh as [|b l Hb Hl IH]; [reflexivity|].
  simpl. rewrite html_escape_byte_high by lia. simpl. f_equal. exact IH.
Qed.

Lemma esc_rune_ascii r : r < 128 -> esc_rune r = html_escape_byte r.
Proof. intros H. unfold esc_rune. rewrite encode_rune_ascii by exact H. simpl. apply app_nil_r. Qed.

(* finite facts about the ASCII part, by computation *)
Definition ascii_chunk_ok (b : N) : bool :=
  let o := html_escape_byte b in
  no_quote_or_angle o &&
  (if b =? 38 then bytes_eqb o (B "&amp;") else
   if mem_N b [34; 39; 60; 62] then (match o with c :: t => (c =? 38) && starts_with_ref t && negb (mem_N 38 t) | [] => false end)
   else bytes_eqb o [b]).

Lemma ascii_chunks_ok : forallb ascii_chunk_ok all_bytes = true.
Proof. vm_compute. reflexivity. Qed.

(* ---------- C10_alphabet ---------- *)
Lemma no_qa_app a b : no_quote_or_angle (a ++ b) = no_quote_or_angle a && no_quote_or_angle b.
Proof. unfold no_quote_or_angle. apply forallb_app. Qed.

Lemma high_bytes_no_qa l : Forall (fun b => 128 <= b < 256) l -> no_quote_or_angle l = true.
Proof.
  induction 1 as [|b l Hb Hl IH]; [reflexivity|].
  simpl. rewrite IH. unfold quote_or_angle, mem_N. simpl.
  assert (b =? 34 = false) by lia. assert (b =? 39 = false) by lia.
  assert (b =? 60 = false) by lia. assert (b =? 62 = false) by lia.
  repeat match goal with H : _ = false |- _ => rewrite H; clear H end. reflexivity.
Qed.

Lemma esc_rune_no_qa r : no_quote_or_angle (esc_rune r) = true.
Proof.
  destruct (N.lt_ge_cases r 128) as [H|H].
  - rewrite esc_rune_ascii by exact H.
    pose proof (forall_byte _ ascii_chunks_ok r ltac:(lia)) as Hc.
    unfold ascii_chunk_ok in Hc. apply andb_true_iff in Hc as [Hc _]. exact Hc.
  - rewrite esc_rune_high by exact H. apply high_bytes_no_qa, encode_rune_high; exact H.
Qed.

Lemma html_escaped_no_qa s : no_quote_or_angle (html_escaped s) = true.
Proof.
  rewrite html_escaped_runes. induction (map coerce_spec_rune (decode_runes s)) as [|r l IH]; [reflexivity|].
  simpl. rewrite no_qa_app, esc_rune_no_qa, IH. reflexivity.
Qed.

Lemma mem_N_cons x c a : mem_N x (c :: a) = (x =? c) || mem_N x a.
Proof. reflexivity. Qed.

Lemma amp_ok_cons c t : amp_ok (c :: t) = (if c =? 38 then starts_with_ref t else true) && amp_ok t.
Proof. reflexivity. Qed.

(* amp_ok over chunks *)
Lemma amp_ok_app_noamp a b : mem_N 38 a = false -> amp_ok (a ++ b) = amp_ok b.
Proof.
  induction a as [|c a IH]; intros H; [reflexivity|].
  rewrite mem_N_cons in H. apply orb_false_iff in H as [H1 H2].
  rewrite <- app_comm_cons, amp_ok_cons. rewrite N.eqb_sym in H1. rewrite H1. cbn [andb]. apply IH. exact H2.
Qed.

Lemma starts_with_ref_app t b : starts_with_ref t = true -> starts_with_ref (t ++ b) = true.
Proof.
  unfold starts_with_ref. rewrite !existsb_exists. intros [r [Hin Hp]]. exists r. split; [exact Hin|].
  apply prefixb_spec in Hp as [x ->]. apply prefixb_spec. exists (x ++ b). rewrite app_assoc. reflexivity.
Qed.

Lemma amp_ok_ref_chunk t b :
  starts_with_ref t = true -> mem_N 38 t = false -> amp_ok ((38 :: t) ++ b) = amp_ok b.
Proof.
  intros Hr Hn. rewrite <- app_comm_cons, amp_ok_cons. rewrite N.eqb_refl.
  rewrite starts_with_ref_app by exact Hr. cbn [andb].
  apply amp_ok_app_noamp. exact Hn.
Qed.

Lemma high_bytes_noamp l : Forall (fun b => 128 <= b < 256) l -> mem_N 38 l = false.
Proof.
  induction 1 as [|b l Hb Hl IH]; [reflexivity|]. rewrite mem_N_cons, IH.
  assert (H : 38 =? b = false) by lia. rewrite H. reflexivity.
Qed.

Lemma amp_ok_esc_rune r b : amp_ok (esc_rune r ++ b) = amp_ok b.
Proof.
  destruct (N.lt_ge_cases r 128) as [H|H].
  - rewrite esc_rune_ascii by exact H.
    pose proof (forall_byte _ ascii_chunks_ok r ltac:(lia)) as Hc.
    unfold ascii_chunk_ok in Hc. apply andb_true_iff in Hc as [_ Hc].
    destruct (r =? 38) eqn:E38.
    + apply bytes_eqb_eq in Hc. rewrite Hc.
      change (B "&amp;") with (38 :: B "amp;"). apply amp_ok_ref_chunk; vm_compute; reflexivity.
    + destruct (mem_N r [34; 39; 60; 62]) eqn:Em.
      * destruct (html_escape_byte r) as [|c t]; [discriminate|].
        apply andb_true_iff in Hc as [Hc Hn]. apply andb_true_iff in Hc as [Hc1 Hc2].
        apply N.eqb_eq in Hc1. subst c. apply amp_ok_ref_chunk; [exact Hc2|].
        apply negb_true_iff in Hn. exact Hn.
      * apply bytes_eqb_eq in Hc. rewrite Hc. cbn [app]. rewrite amp_ok_cons, E38. reflexivity.
  - rewrite esc_rune_high by exact H. apply amp_ok_app_noamp, high_bytes_noamp, encode_rune_high; exact H.
Qed.

Lemma html_escaped_amp_ok s : amp_ok (html_escaped s) = true.
Proof.
  rewrite html_escaped_runes. induction (map coerce_spec_rune (decode_runes s)) as [|r l IH]; [reflexivity|].
  simpl. rewrite amp_ok_esc_rune. exact IH.
Qed.

(* ---------- C10_interchange_valid ---------- *)
(* the runes of an escaped chunk *)
Definition esc_runes (r : N) : list N := if r <? 128 then html_escape_byte r else [r].

Lemma ascii_chunks_ascii : forallb (fun b => forallb (fun c => c <? 128) (html_escape_byte b)) (N_seq 0 128) = true.
Proof. vm_compute. reflexivity. Qed.

Lemma all_ascii_chunk b : b < 128 -> Forall (fun c => c < 128) (html_escape_byte b).
Proof.
  intros H. pose proof ascii_chunks_ascii as Ha. rewrite forallb_forall in Ha.
  specialize (Ha b ltac:(apply N_seq_In; simpl; lia)). rewrite forallb_forall in Ha.
  apply Forall_forall. intros c Hc. apply N.ltb_lt. apply Ha. exact Hc.
Qed.

Lemma decode_ascii_app a rest : Forall (fun c => c < 128) a ->
  decode_runes (a ++ rest) = a ++ decode_runes rest.
Proof.
  induction 1 as [|c a Hc Ha IH]; [reflexivity|].
  simpl app. rewrite decode_ascii by exact Hc. f_equal. exact IH.
Qed.

Lemma decode_esc_rune r rest : scalar r ->
  decode_runes (esc_rune r ++ rest) = esc_runes r ++ decode_runes rest.
Proof.
  intros Hs. unfold esc_runes. destruct (r <? 128) eqn:E.
  - apply N.ltb_lt in E. rewrite esc_rune_ascii by exact E.
    apply decode_ascii_app, all_ascii_chunk; exact E.
  - apply N.ltb_ge in E. rewrite esc_rune_high by exact E. rewrite decode_encode by exact Hs. reflexivity.
Qed.

Lemma decode_flat_esc l : Forall scalar l ->
  decode_runes (flat_map esc_rune l) = flat_map esc_runes l.
Proof.
  induction 1 as [|r l Hr Hl IH]; [reflexivity|].
  simpl. rewrite decode_esc_rune by exact Hr. rewrite IH. reflexivity.
Qed.

Definition ascii_esc_runes_clean (b : N) : bool := forallb clean_rune (html_escape_byte b) || spec_bad b.
Lemma ascii_esc_runes_clean_ok : forallb ascii_esc_runes_clean (N_seq 0 128) = true.
Proof. vm_compute. reflexivity. Qed.

Lemma esc_runes_clean r : clean_rune r = true -> forallb clean_rune (esc_runes r) = true.
Proof.
  intros Hc. unfold esc_runes. destruct (r <? 128) eqn:E.
  - apply N.ltb_lt in E.
    pose proof ascii_esc_runes_clean_ok as H. rewrite forallb_forall in H.
    specialize (H r ltac:(apply N_seq_In; simpl; lia)). unfold ascii_esc_runes_clean in H.
    apply orb_true_iff in H as [H|H]; [exact H|].
    unfold clean_rune in Hc. rewrite H in Hc. discriminate.
  - simpl. rewrite Hc. reflexivity.
Qed.

Lemma coerced_runes_ok s :
  Forall (fun r => clean_rune r = true /\ scalar r) (map coerce_spec_rune (decode_runes s)).
Proof.
  pose proof (decode_runes_scalar s) as H. induction H as [|r l Hr Hl IH]; [constructor|].
  simpl. constructor; [apply coerce_spec_rune_clean; exact Hr | exact IH].
Qed.

Lemma html_escaped_decode s :
  decode_runes (html_escaped s) = flat_map esc_runes (map coerce_spec_rune (decode_runes s)).
Proof.
  rewrite html_escaped_runes. apply decode_flat_esc.
  eapply Forall_impl; [|apply coerced_runes_ok]. intros r [_ H]. exact H.
Qed.

Lemma html_escaped_clean s : forallb clean_rune (decode_runes (html_escaped s)) = true.
Proof.
  rewrite html_escaped_decode. pose proof (coerced_runes_ok s) as H.
  induction H as [|r l [Hc _] Hl IH]; [reflexivity|].
  simpl. rewrite forallb_app, esc_runes_clean by exact Hc. exact IH.
Qed.

Lemma encode_esc_runes r : encode_runes (esc_runes r) = esc_rune r.
Proof.
  unfold esc_runes. destruct (r <? 128) eqn:E.
  - apply N.ltb_lt in E. rewrite esc_rune_ascii by exact E.
    pose proof (all_ascii_chunk r E) as H. unfold encode_runes.
    induction H as [|c l Hc Hl IH]; [reflexivity|].
    simpl. rewrite encode_rune_ascii by exact Hc. simpl. f_equal. exact IH.
  - apply N.ltb_ge in E. rewrite esc_rune_high by exact E. unfold encode_runes. simpl. apply app_nil_r.
Qed.

Lemma html_escaped_utf8_valid s : utf8_valid (html_escaped s) = true.
Proof.
  unfold utf8_valid. apply bytes_eqb_eq. rewrite html_escaped_decode, html_escaped_runes.
  unfold encode_runes. induction (map coerce_spec_rune (decode_runes s)) as [|r l IH]; [reflexivity|].
  simpl. rewrite flat_map_app. fold (encode_runes (esc_runes r)). rewrite encode_esc_runes. f_equal. exact IH.
Qed.

(* ---------- C10_roundtrip ---------- *)
Lemma unescape_amp t : unescape_entity (B "&amp;" ++ t) = ([38], 5%nat).
Proof. vm_compute. reflexivity. Qed.
Lemma unescape_lt t : unescape_entity (B "&lt;" ++ t) = ([60], 4%nat).
Proof. vm_compute. reflexivity. Qed.
Lemma unescape_gt t : unescape_entity (B "&gt;" ++ t) = ([62], 4%nat).
Proof. vm_compute. reflexivity. Qed.
Lemma unescape_34 t : unescape_entity (B "&#34;" ++ t) = ([34], 5%nat).
Proof. vm_compute. reflexivity. Qed.
Lemma unescape_39 t : unescape_entity (B "&#39;" ++ t) = ([39], 5%nat).
Proof. vm_compute. reflexivity. Qed.

Lemma unescape_fuel_cons_noamp f c t : (c =? 38) = false ->
  unescape_fuel (S f) (c :: t) = c :: unescape_fuel f t.
Proof. intros H. cbn [unescape_fuel]. rewrite H. reflexivity. Qed.

Lemma unescape_fuel_noamp f a rest : mem_N 38 a = false -> (length a + length rest <= f)%nat ->
  unescape_fuel f (a ++ rest) = a ++ unescape_fuel (f - length a) rest.
Proof.
  revert f. induction a as [|c a IH]; intros f Hn Hl.
  - cbn [app length]. rewrite Nat.sub_0_r. reflexivity.
  - rewrite mem_N_cons in Hn. apply orb_false_iff in Hn as [H1 H2].
    destruct f as [|f]; [cbn [length] in Hl; lia|].
    rewrite <- app_comm_cons. rewrite unescape_fuel_cons_noamp by (rewrite N.eqb_sym; exact H1).
    cbn [length Nat.sub]. rewrite <- app_comm_cons. f_equal. apply IH; [exact H2 | cbn [length] in Hl; lia].
Qed.

Lemma unfold_unescape_amp f rest : unescape_fuel (S f) (38 :: (B "amp;" ++ rest)) = [38] ++ unescape_fuel f rest.
Proof. cbn [unescape_fuel]. rewrite N.eqb_refl. change (38 :: (B "amp;" ++ rest)) with (B "&amp;" ++ rest). rewrite unescape_amp. reflexivity. Qed.
Lemma unfold_unescape_lt f rest : unescape_fuel (S f) (38 :: (B "lt;" ++ rest)) = [60] ++ unescape_fuel f rest.
Proof. cbn [unescape_fuel]. rewrite N.eqb_refl. change (38 :: (B "lt;" ++ rest)) with (B "&lt;" ++ rest). rewrite unescape_lt. reflexivity. Qed.
Lemma unfold_unescape_gt f rest : unescape_fuel (S f) (38 :: (B "gt;" ++ rest)) = [62] ++ unescape_fuel f rest.
Proof. cbn [unescape_fuel]. rewrite N.eqb_refl. change (38 :: (B "gt;" ++ rest)) with (B "&gt;" ++ rest). rewrite unescape_gt. reflexivity. Qed.
Lemma unfold_unescape_34 f rest : unescape_fuel (S f) (38 :: (B "#34;" ++ rest)) = [34] ++ unescape_fuel f rest.
Proof. cbn [unescape_fuel]. rewrite N.eqb_refl. change (38 :: (B "#34;" ++ rest)) with (B "&#34;" ++ rest). rewrite unescape_34. reflexivity. Qed.
Lemma unfold_unescape_39 f rest : unescape_fuel (S f) (38 :: (B "#39;" ++ rest)) = [39] ++ unescape_fuel f rest.
Proof. cbn [unescape_fuel]. rewrite N.eqb_refl. change (38 :: (B "#39;" ++ rest)) with (B "&#39;" ++ rest). rewrite unescape_39. reflexivity. Qed.

(* one escaped chunk is undone, with enough fuel left for the rest *)
Lemma unescape_chunk r rest f : scalar r -> (length (esc_rune r ++ rest) <= f)%nat ->
  exists f', (length rest <= f')%nat /\
             unescape_fuel f (esc_rune r ++ rest) = encode_rune r ++ unescape_fuel f' rest.
Proof.
  intros Hs Hl. destruct (N.lt_ge_cases r 128) as [H|H].
  - rewrite esc_rune_ascii in * by exact H. rewrite encode_rune_ascii by exact H.
    unfold html_escape_byte in *.
    destruct (r =? 38) eqn:E1.
    { apply N.eqb_eq in E1. subst r. destruct f as [|f]; [simpl in Hl; lia|].
      change (B "&amp;" ++ rest) with (38 :: (B "amp;" ++ rest)).
      rewrite unfold_unescape_amp. exists f. split; [simpl in Hl; lia | reflexivity]. }
    destruct (r =? 39) eqn:E2.
    { apply N.eqb_eq in E2. subst r. destruct f as [|f]; [simpl in Hl; lia|].
      change (B "&#39;" ++ rest) with (38 :: (B "#39;" ++ rest)).
      rewrite unfold_unescape_39. exists f. split; [simpl in Hl; lia | reflexivity]. }
    destruct (r =? 60) eqn:E3.
    { apply N.eqb_eq in E3. subst r. destruct f as [|f]; [simpl in Hl; lia|].
      change (B "&lt;" ++ rest) with (38 :: (B "lt;" ++ rest)).
      rewrite unfold_unescape_lt. exists f. split; [simpl in Hl; lia | reflexivity]. }
    destruct (r =? 62) eqn:E4.
    { apply N.eqb_eq in E4. subst r. destruct f as [|f]; [simpl in Hl; lia|].
      change (B "&gt;" ++ rest) with (38 :: (B "gt;" ++ rest)).
      rewrite unfold_unescape_gt. exists f. split; [simpl in Hl; lia | reflexivity]. }
    destruct (r =? 34) eqn:E5.
    { apply N.eqb_eq in E5. subst r. destruct f as [|f]; [simpl in Hl; lia|].
      change (B "&#34;" ++ rest) with (38 :: (B "#34;" ++ rest)).
      rewrite unfold_unescape_34. exists f. split; [simpl in Hl; lia | reflexivity]. }
    exists (f - 1)%nat. split; [simpl in Hl; lia|].
    apply (unescape_fuel_noamp f [r] rest); [|simpl in *; lia].
    rewrite mem_N_cons. rewrite N.eqb_sym, E1. reflexivity.
  - rewrite esc_rune_high in * by exact H.
    exists (f - length (encode_rune r))%nat. rewrite app_length in Hl. split; [lia|].
    apply unescape_fuel_noamp; [apply high_bytes_noamp, encode_rune_high; exact H | lia].
Qed.

Lemma unescape_flat l : Forall scalar l -> forall f, (length (flat_map esc_rune l) <= f)%nat ->
  unescape_fuel f (flat_map esc_rune l) = encode_runes l.
Proof.
  induction 1 as [|r l Hr Hl IH]; intros f Hf.
  - simpl. destruct f; reflexivity.
  - cbn [flat_map] in *. destruct (unescape_chunk r (flat_map esc_rune l) f Hr Hf) as (f' & Hf' & E).
    rewrite E, (IH f' Hf'). reflexivity.
Qed.

Lemma html_unescape_escaped s : html_unescape (html_escaped s) = coerce_spec s.
Proof.
  unfold html_unescape. rewrite html_escaped_runes. unfold coerce_spec.
  apply unescape_flat; [|lia].
  eapply Forall_impl; [|apply coerced_runes_ok]. intros r [_ H]. exact H.
Qed.

Lemma html_concat_spec l : html_concat l = concat l.
Proof. reflexivity. Qed.

(* the whole output oracle holds of the model *)
Lemma html_escaped_output_ok s : c10_output_ok (html_escaped s) = true.
Proof.
  unfold c10_output_ok.
  rewrite html_escaped_no_qa, html_escaped_amp_ok, html_escaped_utf8_valid, html_escaped_clean. reflexivity.
Qed.

(* non-vacuity *)
Example escaped_example : html_escaped [60; 97; 0; 255; 38] = B "&lt;a" ++ [239; 191; 189; 239; 191; 189] ++ B "&amp;".
Proof. vm_compute. reflexivity. Qed.

Lemma html_escaped_alphabet s :
  no_quote_or_angle (html_escaped s) = true /\ amp_ok (html_escaped s) = true.
Proof. split; [apply html_escaped_no_qa | apply html_escaped_amp_ok]. Qed.

Lemma html_escaped_interchange s :
  utf8_valid (html_escaped s) = true /\ forallb clean_rune (decode_runes (html_escaped s)) = true.
Proof. split; [apply html_escaped_utf8_valid | apply html_escaped_clean]. Qed.
