(* C15 at the level of the CSS tokenizer and parser: the Style parses as exactly the documented
   declarations of the emitted fields. *)
From V Require Import lib.Base lib.Regex lib.Utf8 gen.GenRegex gen.GenStyle
  spec.CssSyntax model.Url model.Style spec.StyleSpec.
From V Require Import proofs.Utf8Facts proofs.CssUtf8Facts proofs.StyleFacts proofs.CssTokFacts proofs.CssDeclFacts.
From Coq Require Import ZArith Arith ZifyBool ZifyN ZifyNat.
Local Open Scope N_scope.
Ltac Zify.zify_post_hook ::= idtac.

Lemma decode_app_ascii a b : Forall (fun c => c < 128) a -> decode_runes (a ++ b) = a ++ decode_runes b.
Proof.
  induction 1 as [|c a Hc Ha IH]; [reflexivity|]. cbn [app]. rewrite decode_ascii by exact Hc. rewrite IH. reflexivity.
Qed.

(* a value at the byte level: its runes, well-behaved under preprocessing, tokenized as a value *)
Definition VTB (val : bytes) : Prop := exists rval,
  (forall restb, decode_runes (val ++ restb) = rval ++ decode_runes restb) /\ Forall pp_ok rval /\ VT rval.

Lemma hch_facts c : hch c = true -> c < 128 /\ pp_ok c /\ c <> 59.
Proof. intros H. apply hch_cases in H. unfold pp_ok, is_surrogate. lia. Qed.

Lemma VTB_harmless val : forallb hch val = true -> no_comment_marker val = true -> VTB val.
Proof.
  intros Ha Hm. exists val. rewrite forallb_forall in Ha. split; [|split].
  - intros restb. apply decode_app_ascii. apply Forall_forall. intros c Hc. apply hch_facts. auto.
  - apply Forall_forall. intros c Hc. apply hch_facts. auto.
  - apply VT_harmless; [|exact Hm]. apply Forall_forall. intros c Hc.
    split; [auto | apply hch_facts; auto].
Qed.

Lemma ncm_no_slash_star v : forallb (fun c => negb ((c =? 47) || (c =? 42))) v = true -> no_comment_marker v = true.
Proof.
  induction v as [|a v IH]; [reflexivity|]. cbn [forallb]. intros H. apply andb_true_iff in H as [Ha Hv].
  destruct v as [|b v]; [reflexivity|]. rewrite ncm_cons2, (IH Hv). unfold marker_pair.
  replace (a =? 47) with false by lia. replace (a =? 42) with false by lia. reflexivity.
Qed.

Lemma VTB_innocuous : VTB innocuous_property_value.
Proof. rewrite innocuous_eq. apply VTB_harmless; reflexivity. Qed.

Lemma VTB_filter_regular s : VTB (filter_value G_safeRegularPropertyValuePattern s).
Proof.
  destruct (filter_regular_spec s) as [(-> & Ha & Hm)| ->]; [|apply VTB_innocuous].
  apply VTB_harmless; assumption.
Qed.

Lemma VTB_filter_enum s : VTB (filter_value G_safeEnumPropertyValuePattern s).
Proof.
  destruct (filter_enum_spec s) as [(-> & He)| ->]; [|apply VTB_innocuous].
  unfold doc_enum in He. apply VTB_harmless.
  - apply forallb_forall. intros c Hc. rewrite forallb_forall in He. specialize (He c Hc).
    unfold is_doc_enum_char in He. unfold hch, is_doc_regular_char_comma, is_doc_regular_char, is_alnum. lia.
  - apply ncm_no_slash_star. apply forallb_forall. intros c Hc. rewrite forallb_forall in He. specialize (He c Hc).
    unfold is_doc_enum_char in He. lia.
Qed.

(* ------------------------------------------------------------------ the two list fields *)
(* text that is tokenized independently of what follows it *)
Definition LT (x : list N) : Prop := forall fuel rest, (length (x ++ rest) < fuel)%nat ->
  exists ts fuel', tokenize_fuel fuel (x ++ rest) = ts ++ tokenize_fuel fuel' rest /\
                   vtoks ts /\ (length rest < fuel')%nat.

Definition head_not_ws (x : list N) : Prop := exists h t, x = h :: t /\ is_ws h = false.

Inductive ritem (x : list N) : Prop :=
| ri_self : LT x -> head_not_ws x -> ritem x
| ri_ident : hv 44 x -> hv 59 x -> no_comment_marker x = true -> head_not_ws x -> ritem x.

Fixpoint rjoin (l : list (list N)) : list N :=
  match l with
  | [] => []
  | [x] => x
  | x :: r => x ++ [44; 32] ++ rjoin r
  end.

Lemma rjoin_cons2 x y r : rjoin (x :: y :: r) = x ++ 44 :: 32 :: rjoin (y :: r).
Proof. reflexivity. Qed.

Lemma rjoin_head y more : head_not_ws y -> head_not_ws (rjoin (y :: more)).
Proof.
  intros (h & t & -> & Hh). destruct more as [|z more].
  - exists h, t. split; [reflexivity | exact Hh].
  - rewrite rjoin_cons2. exists h, (t ++ 44 :: 32 :: rjoin (z :: more)). split; [reflexivity | exact Hh].
Qed.

Lemma consume_token_space l : consume_token (32 :: l) = (TWhitespace, skip_ws l).
Proof. reflexivity. Qed.

Lemma skip_ws_head x rest : head_not_ws x -> skip_ws (x ++ rest) = x ++ rest.
Proof. intros (h & t & -> & Hh). cbn [app skip_ws]. rewrite Hh. reflexivity. Qed.

(* ", " followed by the remaining items *)
Lemma comma_space_step fuel Y rest : head_not_ws Y -> (length (44%N :: 32%N :: Y ++ rest) < fuel)%nat ->
  exists fuel', tokenize_fuel fuel (44 :: 32 :: Y ++ rest) = TComma :: TWhitespace :: tokenize_fuel fuel' (Y ++ rest) /\
                (length (Y ++ rest) < fuel')%nat.
Proof.
  intros HY Hf. destruct fuel as [|[|f]]; cbn [length] in Hf; try lia.
  exists f. split; [|lia].
  rewrite (tokenize_fuel_step' (S f) 44 _ _ _ (consume_token_sep 44 eq_refl _)).
  rewrite (tokenize_fuel_step' f 32 _ _ _ (consume_token_space _)).
  rewrite (skip_ws_head Y rest HY). reflexivity.
Qed.

Lemma VT_list items : items <> [] -> Forall ritem items -> VT (rjoin items).
Proof.
  induction items as [|x items IH]; [congruence|]. intros _ Hall. inversion Hall as [|? ? Hx Hrest]; subst.
  destruct items as [|y more].
  - (* the last item *)
    cbn [rjoin]. intros fuel rest Hf. destruct Hx as [Hlt _|H44 H59 Hm _].
    + destruct (Hlt fuel (59 :: rest) Hf) as (ts & f1 & E & Hts & Hf1).
      destruct f1 as [|f2]; [cbn [length] in Hf1; lia|].
      exists ts, f2. rewrite E. rewrite (tokenize_fuel_step' f2 59 _ _ _ (consume_token_sep 59 eq_refl _)).
      split; [reflexivity|]. split; [exact Hts | cbn [length] in Hf1; lia].
    + destruct (tokens_app_separator 59 eq_refl x rest fuel H59 Hm Hf) as (ts & fuel' & E & Hts & Hfu).
      exists ts, fuel'. split; [exact E|]. split; [apply vtoks_harmless; exact Hts | exact Hfu].
  - rewrite rjoin_cons2. specialize (IH ltac:(discriminate) Hrest).
    assert (HY : head_not_ws (rjoin (y :: more))).
    { apply rjoin_head. inversion Hrest as [|? ? Hy _]; subst. destruct Hy; assumption. }
    set (Y := rjoin (y :: more)) in *.
    intros fuel rest Hf. rewrite <- app_assoc in Hf |- *. cbn [app] in Hf |- *.
    assert (Hmid : forall f1, (length (44%N :: 32%N :: Y ++ 59%N :: rest) < f1)%nat ->
              exists ts fuel', tokenize_fuel f1 (44 :: 32 :: Y ++ 59 :: rest) = ts ++ TSemicolon :: tokenize_fuel fuel' rest /\
                               vtoks ts /\ (length rest < fuel')%nat).
    { intros f1 Hf1. destruct (comma_space_step f1 Y (59 :: rest) HY Hf1) as (f2 & E2 & Hf2).
      destruct (IH f2 rest Hf2) as (tsY & f3 & E3 & HtsY & Hf3).
      exists (TComma :: TWhitespace :: tsY), f3. rewrite E2, E3. split; [reflexivity|]. split; [|exact Hf3].
      apply vt_simple; [reflexivity|]. apply vt_simple; [reflexivity | exact HtsY]. }
    destruct Hx as [Hlt _|H44 H59 Hm _].
    + destruct (Hlt fuel (44 :: 32 :: Y ++ 59 :: rest) Hf) as (ts & f1 & E & Hts & Hf1).
      destruct (Hmid f1 Hf1) as (ts2 & f2 & E2 & Hts2 & Hf2).
      exists (ts ++ ts2), f2. rewrite E, E2, <- app_assoc. split; [reflexivity|].
      split; [apply vtoks_app; assumption | exact Hf2].
    + destruct (tokens_app_separator 44 eq_refl x (32 :: Y ++ 59 :: rest) fuel H44 Hm Hf) as (ts & f1 & E & Hts & Hf1).
      destruct f1 as [|f2]; [cbn [length] in Hf1; lia|].
      rewrite E. rewrite (tokenize_fuel_step' f2 32 _ _ _ (consume_token_space _)).
      rewrite (skip_ws_head Y (59 :: rest) HY).
      destruct (IH f2 rest) as (tsY & f3 & E3 & HtsY & Hf3); [cbn [length] in Hf1; lia|].
      rewrite E3. exists (ts ++ TComma :: TWhitespace :: tsY), f3. rewrite <- app_assoc. split; [reflexivity|].
      split; [|exact Hf3]. apply vtoks_app; [apply vtoks_harmless; exact Hts|].
      apply vt_simple; [reflexivity|]. apply vt_simple; [reflexivity | exact HtsY].
Qed.

(* ---- the items ---- *)
Lemma consume_token_quoted l rest : Forall valid_rune l ->
  consume_token (34 :: flat_map esc_runes l ++ 34 :: rest) =
  (TString (swallow_spaces (nul_to_fffd l)) true, rest).
Proof.
  intros Hl. cbn [consume_token]. change (34 =? 47) with false. change (is_ws 34) with false.
  change (34 =? 34) with true. cbn [andb]. cbv iota.
  rewrite (consume_string_escaped (length l) l (le_n _) Hl); [reflexivity|].
  rewrite app_length. cbn [length]. lia.
Qed.

Definition quoted_runes (l : list N) : list N := 34 :: flat_map esc_runes l ++ [34].
Definition url_runes (l : list N) : list N := [117; 114; 108; 40; 34] ++ flat_map esc_runes l ++ [34; 41].

Lemma LT_quoted l : Forall valid_rune l -> LT (quoted_runes l).
Proof.
  intros Hl fuel rest Hf. unfold quoted_runes in *. destruct fuel as [|f]; [lia|].
  cbn [app] in Hf |- *. rewrite <- app_assoc in Hf |- *. cbn [app] in Hf |- *.
  rewrite (tokenize_fuel_step' f 34 _ _ _ (consume_token_quoted l rest Hl)).
  exists [TString (swallow_spaces (nul_to_fffd l)) true], f. split; [reflexivity|].
  split; [apply vt_str; constructor|]. cbn [length] in Hf. rewrite app_length in Hf. cbn [length] in Hf. lia.
Qed.

Lemma LT_url l : Forall valid_rune l -> LT (url_runes l).
Proof.
  intros Hl fuel rest Hf. unfold url_runes in *.
  cbn [app] in Hf |- *. rewrite <- app_assoc in Hf |- *. cbn [app] in Hf |- *.
  cbn [length] in Hf. rewrite app_length in Hf. cbn [length] in Hf.
  destruct fuel as [|[|[|f]]]; try lia.
  rewrite (tokenize_fuel_step' _ 117 _ _ _ (consume_url_open _)).
  rewrite (tokenize_fuel_step' _ 34 _ _ _ (consume_token_quoted l (41 :: rest) Hl)).
  rewrite (tokenize_fuel_step' f 41 rest TRParen rest eq_refl).
  exists [TFunction [117; 114; 108]; TString (swallow_spaces (nul_to_fffd l)) true; TRParen], f.
  split; [reflexivity|]. split; [apply vt_fun; constructor | lia].
Qed.

(* byte level -> rune level *)
Definition DI (x : bytes) (rx : list N) : Prop :=
  forall restb, decode_runes (x ++ restb) = rx ++ decode_runes restb.

Lemma DI_url u : DI (url_item u) (url_runes (decode_runes (url_sanitized u))).
Proof.
  intros restb. unfold url_item, url_runes. cbn [app]. rewrite !decode_ascii by lia.
  rewrite <- !app_assoc. rewrite decode_css_escape_string. cbn [app]. rewrite !decode_ascii by lia. reflexivity.
Qed.

Lemma DI_quoted s : DI ([34] ++ css_escape_string s ++ [34]) (quoted_runes (decode_runes s)).
Proof.
  intros restb. unfold quoted_runes. cbn [app]. rewrite decode_ascii by lia.
  rewrite <- !app_assoc. rewrite decode_css_escape_string. cbn [app]. rewrite decode_ascii by lia. reflexivity.
Qed.

Lemma DI_join items ritems : Forall2 DI items ritems -> DI (join_comma_space items) (rjoin ritems).
Proof.
  induction 1 as [|x rx items ritems Hx Hrest IH]; [intros restb; reflexivity|].
  destruct Hrest as [|y ry items ritems Hy Hrest].
  - exact Hx.
  - intros restb. change (join_comma_space (x :: y :: items)) with (x ++ [44; 32] ++ join_comma_space (y :: items)).
    rewrite rjoin_cons2. rewrite <- !app_assoc. rewrite Hx. cbn [app]. rewrite !decode_ascii by lia.
    rewrite IH. reflexivity.
Qed.

Lemma pp_ok_quoted l : Forall valid_rune l -> Forall pp_ok (quoted_runes l).
Proof.
  intros Hl. unfold quoted_runes. constructor; [unfold pp_ok, is_surrogate; lia|].
  apply Forall_app. split; [apply flat_esc_pp; exact Hl|]. repeat constructor; unfold is_surrogate; lia.
Qed.
Lemma pp_ok_url l : Forall valid_rune l -> Forall pp_ok (url_runes l).
Proof.
  intros Hl. unfold url_runes. apply Forall_app. split; [repeat constructor; unfold is_surrogate; lia|].
  apply Forall_app. split; [apply flat_esc_pp; exact Hl|]. repeat constructor; unfold is_surrogate; lia.
Qed.
Lemma pp_ok_rjoin items : Forall (Forall pp_ok) items -> Forall pp_ok (rjoin items).
Proof.
  induction 1 as [|x items Hx Hr IH]; [constructor|]. destruct items as [|y items]; [exact Hx|].
  rewrite rjoin_cons2. apply Forall_app. split; [exact Hx|].
  constructor; [unfold pp_ok, is_surrogate; lia|]. constructor; [unfold pp_ok, is_surrogate; lia | exact IH].
Qed.

(* every item of the two lists *)
Lemma url_item_ok u : exists rx, DI (url_item u) rx /\ ritem rx /\ Forall pp_ok rx.
Proof.
  exists (url_runes (decode_runes (url_sanitized u))). split; [apply DI_url|].
  split; [|apply pp_ok_url; apply decode_runes_valid].
  apply ri_self; [apply LT_url; apply decode_runes_valid|]. eexists; eexists; split; [reflexivity|reflexivity].
Qed.

Lemma font_item_ok name : exists rx, DI (font_item name) rx /\ ritem rx /\ Forall pp_ok rx.
Proof.
  unfold font_item. destruct (go_match G_identifierPattern (decode_runes name)) eqn:E.
  - apply font_ident_match_spec in E. unfold doc_font_ident in E.
    destruct name as [|c r]; [discriminate|]. apply andb_true_iff in E as [Ec Er].
    assert (Hall : forall x, In x (c :: r) -> is_doc_enum_char x = true).
    { intros x [<-|Hx]; [unfold is_latin in Ec; unfold is_doc_enum_char; lia|].
      rewrite forallb_forall in Er. auto. }
    exists (c :: r). split; [|split].
    + intros restb. apply decode_app_ascii. apply Forall_forall. intros x Hx.
      specialize (Hall x Hx). unfold is_doc_enum_char in Hall. lia.
    + apply ri_ident.
      * apply Forall_forall. intros x Hx. specialize (Hall x Hx). unfold is_doc_enum_char in Hall.
        unfold hch, is_doc_regular_char_comma, is_doc_regular_char, is_alnum. lia.
      * apply Forall_forall. intros x Hx. specialize (Hall x Hx). unfold is_doc_enum_char in Hall.
        unfold hch, is_doc_regular_char_comma, is_doc_regular_char, is_alnum. lia.
      * apply ncm_no_slash_star. apply forallb_forall. intros x Hx. specialize (Hall x Hx).
        unfold is_doc_enum_char in Hall. lia.
      * exists c, r. split; [reflexivity|]. unfold is_latin in Ec. unfold is_ws. lia.
    + apply Forall_forall. intros x Hx. specialize (Hall x Hx). unfold is_doc_enum_char in Hall.
      unfold pp_ok, is_surrogate. lia.
  - match goal with |- context [css_escape_string ?s] => set (inner := s) end.
    exists (quoted_runes (decode_runes inner)). split; [apply DI_quoted|].
    split; [|apply pp_ok_quoted; apply decode_runes_valid].
    apply ri_self; [apply LT_quoted; apply decode_runes_valid|]. eexists; eexists; split; [reflexivity|reflexivity].
Qed.

Lemma VTB_list (f : bytes -> bytes) l : l <> [] ->
  (forall x, exists rx, DI (f x) rx /\ ritem rx /\ Forall pp_ok rx) ->
  VTB (join_comma_space (map f l)).
Proof.
  intros Hl Hf.
  assert (H : exists ritems, Forall2 DI (map f l) ritems /\ Forall ritem ritems /\ Forall (Forall pp_ok) ritems).
  { clear Hl. induction l as [|x l IH].
    - exists []. repeat split; constructor.
    - destruct IH as (ritems & H1 & H2 & H3). destruct (Hf x) as (rx & D & R & P).
      exists (rx :: ritems). cbn [map]. repeat split; constructor; assumption. }
  destruct H as (ritems & H1 & H2 & H3).
  assert (Hne : ritems <> []).
  { destruct l as [|x l]; [congruence|]. cbn [map] in H1. inversion H1; subst. discriminate. }
  exists (rjoin ritems). split; [apply DI_join; exact H1|].
  split; [apply pp_ok_rjoin; exact H3 | apply VT_list; assumption].
Qed.

(* the value of every emitted field *)
Lemma field_value_VTB kind v val : field_value kind v = Some val -> VTB val.
Proof.
  unfold field_value. destruct v as [l|s].
  - destruct (is_nil l) eqn:En; [discriminate|].
    assert (Hl : l <> []) by (destruct l; [discriminate | congruence]).
    destruct (kind =? 0).
    { intros H. assert (E : val = join_comma_space (map url_item l)) by congruence. rewrite E.
      apply VTB_list; [exact Hl | apply url_item_ok]. }
    destruct (kind =? 1); [|discriminate].
    intros H. assert (E : val = join_comma_space (map font_item l)) by congruence. rewrite E.
    apply VTB_list; [exact Hl | apply font_item_ok].
  - destruct (is_nil s); [discriminate|].
    destruct (kind =? 2).
    { intros H. assert (E : val = filter_value G_safeEnumPropertyValuePattern s) by congruence. rewrite E. apply VTB_filter_enum. }
    destruct (kind =? 3); [|discriminate].
    intros H. assert (E : val = filter_value G_safeRegularPropertyValuePattern s) by congruence. rewrite E. apply VTB_filter_regular.
Qed.

(* ------------------------------------------------------------------ the whole Style *)
Lemma documented_names_css :
  forallb (fun e => is_css_name (snd (fst e))) documented_fields = true.
Proof. reflexivity. Qed.

Lemma css_name_ascii n : is_css_name n = true -> Forall (fun c => c < 128) n /\ Forall pp_ok n.
Proof.
  destruct n as [|c p]; [discriminate|]. cbn [is_css_name]. intros H. apply andb_true_iff in H as [Hc Hp].
  assert (Hall : forall x, In x (c :: p) -> 45 <= x <= 122).
  { intros x [<-|Hx]; [lia|]. rewrite forallb_forall in Hp. specialize (Hp x Hx). unfold is_name_char in Hp. lia. }
  split; apply Forall_forall; intros x Hx; specialize (Hall x Hx); unfold pp_ok, is_surrogate; lia.
Qed.

Lemma style_runes p fs : (forall e, In e fs -> In e documented_fields) ->
  exists R, decode_runes (flat_map (doc_emit p) fs) = R /\ Forall pp_ok R /\
            rchunks (flat_map (fun e => match doc_emit p e with [] => [] | _ => [snd (fst e)] end) fs) R.
Proof.
  induction fs as [|e fs IH]; intros Hin.
  - exists []. repeat split; constructor.
  - destruct IH as (R & ER & PR & CR); [intros x Hx; apply Hin; right; exact Hx|].
    assert (He : In e documented_fields) by (apply Hin; left; reflexivity).
    pose proof documented_names_css as Hn. rewrite forallb_forall in Hn. specialize (Hn e He).
    destruct e as [[fname css] kind]. cbn [fst snd] in Hn. cbn [flat_map].
    unfold doc_emit at 1 3. cbn [fst snd].
    destruct (field_by_name p fname) as [v|]; [|exists R; auto].
    destruct (field_value kind v) as [val|] eqn:Ev; [|exists R; auto].
    destruct (field_value_VTB _ _ _ Ev) as (rval & Dv & Pv & Tv).
    destruct (css_name_ascii css Hn) as [Ac Pc].
    exists (css ++ 58 :: rval ++ 59 :: R). split; [|split].
    + rewrite <- !app_assoc. rewrite decode_app_ascii by exact Ac. f_equal. cbn [app].
      rewrite decode_ascii by lia. f_equal. rewrite Dv. f_equal. cbn [app].
      rewrite decode_ascii by lia. f_equal. exact ER.
    + apply Forall_app. split; [exact Pc|]. constructor; [unfold pp_ok, is_surrogate; lia|].
      apply Forall_app. split; [exact Pv|]. constructor; [unfold pp_ok, is_surrogate; lia | exact PR].
    + destruct css as [|c0 css']; [discriminate|].
      exact (rc_cons (c0 :: css') rval _ R Hn Tv CR).
Qed.

(* C15, tokenizer level: a CSS Syntax Level 3 parser sees exactly one declaration per emitted field,
   bearing the documented property name, in the documented order; no bad-string / bad-url /
   unterminated / comment token occurs, and every block or function in a value is closed *)
Theorem style_declarations p :
  let toks := css_tokens (style_from_properties p) in
  let ds := parse_declaration_list toks in
  map decl_name ds = map (fun n => Some n) (emitted_names p) /\
  forallb is_decl_item ds = true /\
  forallb (fun d => forallb cv_closed (decl_value d)) ds = true /\
  existsb is_bad_token toks = false.
Proof.
  cbv zeta. rewrite style_structure.
  destruct (style_runes p documented_fields (fun e H => H)) as (R & ER & PR & CR).
  unfold css_tokens. rewrite ER. rewrite (preprocess_id R PR).
  apply parse_dtoks. unfold tokenize. apply (tokenize_rchunks _ R CR). lia.
Qed.
