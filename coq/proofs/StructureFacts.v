(* C01: what the run-time sanitizers can emit for an untrusted value never contains a quote or an angle
   bracket (layer 1 of DESIGN C01, complete over all contexts, chains and byte strings), hence the
   tokenizer specification consumes it without leaving the text / RCDATA / quoted-attribute-value
   state it is in.  Plus: the boolean oracle predicates of spec/StructureSpec.v mean what they say. *)
From V Require Import lib.Base lib.Utf8 gen.GenPolicy.
From V Require Import model.Html model.HtmlUnescape model.Url model.UrlProc model.UrlSet model.TContext model.TSanitize
     model.TSanitizers model.TEscapeText spec.HtmlSpec spec.HtmlTok spec.SanitizerSpec spec.StructureSpec
     proofs.HtmlFacts proofs.PolicyFacts proofs.SanitizerFacts proofs.HtmlTokFacts.
Local Open Scope N_scope.

(* ------------------------------------------------------------------ the oracle predicates *)

Lemma bool_eqb_eq a b : Bool.eqb a b = true <-> a = b.
Proof. destruct a, b; simpl; split; intros H; try reflexivity; discriminate. Qed.

Lemma names_eqb_eq (a b : list bytes) : list_eqb bytes_eqb a b = true <-> a = b.
Proof. apply list_eqb_eq. exact bytes_eqb_eq. Qed.

Lemma stoken_eqb_eq a b : stoken_eqb a b = true <-> a = b.
Proof.
  destruct a as [n an sc|n|d|n]; destruct b as [n' an' sc'|n'|d'|n']; cbn [stoken_eqb];
    try (split; intros H; discriminate H).
  - rewrite !andb_true_iff, bytes_eqb_eq, names_eqb_eq, bool_eqb_eq. split.
    + intros [[-> ->] ->]. reflexivity.
    + intros H. inversion H. auto.
  - rewrite bytes_eqb_eq. split; [intros ->; reflexivity | intros H; inversion H; reflexivity].
  - rewrite bytes_eqb_eq. split; [intros ->; reflexivity | intros H; inversion H; reflexivity].
  - rewrite bytes_eqb_eq. split; [intros ->; reflexivity | intros H; inversion H; reflexivity].
Qed.

Lemma skel_eqb_eq a b : skel_eqb a b = true <-> a = b.
Proof.
  destruct a as [ta sa]; destruct b as [tb sb]. unfold skel_eqb. cbn [fst snd].
  rewrite andb_true_iff, hstate_eqb_eq, (list_eqb_eq stoken_eqb stoken_eqb_eq). split.
  - intros [-> ->]. reflexivity.
  - intros H. inversion H. auto.
Qed.

(* same_structure decides equality of skeletons: structure tokens and final tokenizer state *)
Theorem same_structure_spec (o o' : bytes) : same_structure o o' = true <-> skel o = skel o'.
Proof. unfold same_structure. apply skel_eqb_eq. Qed.

Theorem ends_in_data_spec (o : bytes) : ends_in_data o = true <-> r_final (html_tokenize SData o) = SData.
Proof. unfold ends_in_data. rewrite skel_final. apply hstate_eqb_eq. Qed.

Theorem pair_verdict_spec (o o' : bytes) :
  c01_pair_verdict o o' = None <->
  (skel o = skel o' /\ no_comment_tokens o = true /\ no_comment_tokens o' = true).
Proof.
  unfold c01_pair_verdict, no_comments.
  rewrite <- same_structure_spec.
  destruct (no_comment_tokens o); cbn [negb]; [|split; [discriminate | intros (_ & H & _); discriminate H]].
  destruct (no_comment_tokens o'); cbn [negb]; [|split; [discriminate | intros (_ & _ & H); discriminate H]].
  destruct (same_structure o o'); cbn [negb]; [|split; [discriminate | intros (H & _); discriminate H]].
  split; [intros _; repeat split; reflexivity | reflexivity].
Qed.

(* the final tokenizer state is a component of the skeleton: equal skeletons end in the same state *)
Theorem same_structure_same_final (o o' : bytes) :
  same_structure o o' = true -> r_final (html_tokenize SData o) = r_final (html_tokenize SData o').
Proof. intros H. apply same_structure_spec in H. rewrite <- !skel_final. rewrite H. reflexivity. Qed.

(* non-vacuity of the oracle *)
Example ex_same_structure :
  same_structure (B "<b title=" ++ [34] ++ B "zq" ++ [34] ++ B ">zq</b>")
                 (B "<b title=" ++ [34] ++ B "&#34;&gt;&lt;i" ++ [34] ++ B ">&lt;/b&gt;</b>") = true.
Proof. vm_compute. reflexivity. Qed.
Example ex_structure_changed :
  same_structure (B "<b zq>z</b>") (B "<b onmouseover=alert(1)>z</b>") = false.
Proof. vm_compute. reflexivity. Qed.
Example ex_not_in_data : ends_in_data (B "<b title=" ++ [34] ++ B "zq") = false.
Proof. vm_compute. reflexivity. Qed.
Example ex_placement :
  placement_ok (B "<b title='zq'>zq</b><title>zq</title>") [(10, 2); (14, 2); (27, 2)]%nat = true /\
  placement_ok (B "<b zq>z</b>") [(3, 2)]%nat = false /\
  placement_ok (B "<!DOCTYPE zq>") [(10, 2)]%nat = false /\
  placement_ok (B "<b title=zq>") [(9, 2)]%nat = false.
Proof. vm_compute. repeat split; reflexivity. Qed.

(* ------------------------------------------------------------------ side condition on the policy *)

Lemma content_sanitizers_ok_ok : content_sanitizers_ok = true. Proof. vm_compute. reflexivity. Qed.

Lemma special_elements_ok_ok : special_elements_ok = true. Proof. vm_compute. reflexivity. Qed.
Lemma special_elements_text_bodies : forall e, In e GenTemplate.T_specialElements -> mem_bytes e text_body_elements = true.
Proof. pose proof special_elements_ok_ok as H. unfold special_elements_ok in H. rewrite forallb_forall in H. exact H. Qed.

Lemma content_name_cases n : content_name_ok n = true ->
  n = B "_sanitizeHTML" \/ n = B "_sanitizeRCDATA" \/ n = B "_sanitizeScript" \/ n = B "_sanitizeStyleSheet".
Proof.
  unfold content_name_ok, content_sanitizer_names, mem_bytes. cbn [existsb].
  rewrite !orb_true_iff, !bytes_eqb_eq. intros [H|[H|[H|[H|H]]]]; auto. discriminate H.
Qed.

Lemma sc_html_name_allowed : content_name_ok (sc_sanitizer_name SC_HTML) = true.
Proof.
  pose proof content_sanitizers_ok_ok as H. unfold content_sanitizers_ok in H.
  apply andb_true_iff in H as [H _]. exact H.
Qed.

Lemma content_lookup_name_allowed e sc :
  sc_for_element_content e = Some sc -> content_name_ok (sc_sanitizer_name sc) = true.
Proof.
  unfold sc_for_element_content. intros H.
  pose proof content_sanitizers_ok_ok as Hok. unfold content_sanitizers_ok in Hok.
  apply andb_true_iff in Hok as [_ Hall].
  exact (lookup_forallb (fun kv : bytes * N => content_name_ok (sc_sanitizer_name (snd kv))) P_elementContent Hall e sc H).
Qed.

(* whatever context the element-content loop settles on names one of the four sanitizers *)
Lemma all_same_content_name_allowed : forall elems acc sc0,
  all_same_content_sc elems acc = Some sc0 ->
  (forall s, acc = Some s -> content_name_ok (sc_sanitizer_name s) = true) ->
  content_name_ok (sc_sanitizer_name sc0) = true.
Proof.
  induction elems as [|e elems IH]; intros acc sc0 H Hacc; cbn [all_same_content_sc] in H.
  - apply Hacc. exact H.
  - destruct (if bytes_eqb e [] then Some SC_HTML else sc_for_element_content e) as [sc|] eqn:E; [|discriminate H].
    destruct acc as [s0|].
    + destruct (sc =? s0); [|discriminate H]. exact (IH _ _ H Hacc).
    + apply (IH _ _ H). intros s Hs. inversion Hs; subst s.
      destruct (bytes_eqb e []).
      * inversion E; subst sc. exact sc_html_name_allowed.
      * exact (content_lookup_name_allowed e sc E).
Qed.

(* ------------------------------------------------------------------ layer 1: action inertness *)

Lemma untrusted_str (s : bytes) : untrusted (VStr s) = true. Proof. reflexivity. Qed.
Lemma untrusted_other t : untrusted (VOther t) = true. Proof. reflexivity. Qed.
Lemma untrusted_nil : untrusted VNil = true. Proof. reflexivity. Qed.
Lemma untrusted_ptr v : untrusted (VPtr v) = untrusted v. Proof. reflexivity. Qed.

(* the HTML escaper on a value that is not a safehtml.HTML *)
Lemma html_sanitizer_untrusted v o :
  untrusted v = true -> apply_sanitizer N_sanitizeHTML v = Some o -> o = html_escaped (stringify v).
Proof.
  unfold apply_sanitizer, untrusted.
  change (bytes_eqb N_sanitizeHTML (B "_sanitizeHTML")) with true. cbv iota.
  destruct (indirect v); intros Hu H; try discriminate Hu; congruence.
Qed.

Lemma typed_only_untrusted k v : untrusted v = true -> typed_only k v = None.
Proof. unfold untrusted, typed_only. destruct (indirect v); intros H; try reflexivity; discriminate H. Qed.

(* the four element-content sanitizers on an untrusted value: HTML-escaped text or refusal *)
Lemma content_sanitizer_untrusted n v o :
  content_name_ok n = true -> untrusted v = true ->
  apply_chain (nonempty_names [n]) v = Some o -> o = html_escaped (stringify v).
Proof.
  intros Hn Hu. apply content_name_cases in Hn as [-> | [-> | [-> | ->]]].
  - change (nonempty_names [B "_sanitizeHTML"]) with [N_sanitizeHTML]. cbn [apply_chain].
    apply html_sanitizer_untrusted. exact Hu.
  - change (nonempty_names [B "_sanitizeRCDATA"]) with [B "_sanitizeRCDATA"]. cbn [apply_chain].
    unfold apply_sanitizer. eval_closed. cbv iota. congruence.
  - change (nonempty_names [B "_sanitizeScript"]) with [B "_sanitizeScript"]. cbn [apply_chain].
    unfold apply_sanitizer. eval_closed. cbv iota. rewrite (typed_only_untrusted _ _ Hu). discriminate.
  - change (nonempty_names [B "_sanitizeStyleSheet"]) with [B "_sanitizeStyleSheet"]. cbn [apply_chain].
    unfold apply_sanitizer. eval_closed. cbv iota. rewrite (typed_only_untrusted _ _ Hu). discriminate.
Qed.

(* sanitizerForContext after its first two cases, for the states in which it goes on *)
Definition sfc_tail (c : context) (st : state) : option (list bytes) :=
  if (match c_elem_names c with [] => true | _ => false end) && bytes_eqb (c_elem c) []
     && state_eqb st StText
  then Some [N_sanitizeHTML]
  else if negb (bytes_eqb (c_attr c) []) || (match c_attr_names c with [] => false | _ => true end)
  then match c_delim c with
       | DDoubleQuote | DSingleQuote => sanitizers_for_attr_value c
       | _ => None
       end
  else match sanitizer_for_element_content c with
       | None => None
       | Some n => Some (nonempty_names [n])
       end.

Lemma sfc_tail_inert c st chain v o :
  untrusted v = true -> sfc_tail c st = Some chain -> apply_chain chain v = Some o ->
  no_quote_or_angle o = true.
Proof.
  intros Hu Hc Ha. unfold sfc_tail in Hc.
  destruct ((match c_elem_names c with [] => true | _ => false end) && bytes_eqb (c_elem c) []
            && state_eqb st StText).
  { (* text outside every element *)
    inversion Hc; subst chain. cbn [apply_chain] in Ha.
    rewrite (html_sanitizer_untrusted v o Hu Ha). apply html_escaped_no_qa. }
  destruct (negb (bytes_eqb (c_attr c) []) || (match c_attr_names c with [] => false | _ => true end)).
  { (* attribute value: every chain ends with the HTML escaper *)
    assert (Hs : sanitizers_for_attr_value c = Some chain) by (destruct (c_delim c); try discriminate Hc; exact Hc).
    apply attr_chain_shape in Hs as (sc0 & _ & _ & _ & _ & _ & pre & ->).
    destruct pre as [|f pre].
    - cbn [app apply_chain] in Ha. rewrite (html_sanitizer_untrusted v o Hu Ha). apply html_escaped_no_qa.
    - destruct (apply_chain_last (f :: pre) v (fun Hx => nil_cons (eq_sym Hx)) o Ha) as [s ->].
      apply html_escaped_no_qa. }
  (* element content *)
  destruct (sanitizer_for_element_content c) as [n|] eqn:En; [|discriminate Hc].
  inversion Hc; subst chain.
  unfold sanitizer_for_element_content in En. cbv zeta in En.
  match type of En with
  | match ?X with _ => _ end = _ => destruct X as [sc0|] eqn:Esc; [|discriminate En]
  end.
  inversion En; subst n.
  assert (Hn : content_name_ok (sc_sanitizer_name sc0) = true).
  { apply (all_same_content_name_allowed _ None sc0 Esc). intros s Hs. discriminate Hs. }
  rewrite (content_sanitizer_untrusted _ v o Hn Hu Ha). apply html_escaped_no_qa.
Qed.

(* Layer 1, complete: for EVERY context in which the engine accepts an action, every chain it
   builds, and every value that does not carry a safehtml type (strings, Stringers, errors, numbers,
   nil, pointers to them): what is written contains no quote and no angle bracket. *)
Theorem action_inert_untrusted c chain v o :
  untrusted v = true ->
  sanitizer_for_context c = Some chain -> apply_chain chain v = Some o ->
  no_quote_or_angle o = true.
Proof.
  intros Hu Hc Ha. unfold sanitizer_for_context in Hc.
  destruct (c_state c) eqn:Est; try discriminate Hc;
    try exact (sfc_tail_inert c _ chain v o Hu Hc Ha).
  (* inside an HTML comment nothing is written *)
  inversion Hc; subst chain. cbn [apply_chain] in Ha. revert Ha.
  unfold apply_sanitizer, N_sanitizeHTMLComment. eval_closed. cbv iota.
  intros Ha. inversion Ha. reflexivity.
Qed.

Theorem action_inert c chain (s : bytes) o :
  sanitizer_for_context c = Some chain -> apply_chain chain (VStr s) = Some o ->
  no_quote_or_angle o = true.
Proof. apply action_inert_untrusted. reflexivity. Qed.

(* also: every ampersand of the output starts one of the five references HTMLEscaped writes, in every
   context but the comment one (where the output is empty) -- the attribute / text cannot be left
   through a character reference either.  Stated for strings. *)

(* non-vacuity: contexts of every kind do get a chain, and hostile strings do get through it *)
Example ex_chain_text :
  sanitizer_for_context ctx0 = Some [N_sanitizeHTML] /\
  apply_chain [N_sanitizeHTML] (VStr ([34] ++ B "><script>")) = Some (B "&#34;&gt;&lt;script&gt;").
Proof. vm_compute. split; reflexivity. Qed.
Example ex_chain_attr :
  sanitizer_for_context (mkctx StAttr DDoubleQuote (B "a") [] (B "href") [] false [] None [] [])
  = Some [B "_sanitizeTrustedResourceURLOrURL"; N_normalizeURL; N_sanitizeHTML].
Proof. vm_compute. reflexivity. Qed.
Example ex_chain_rcdata :
  sanitizer_for_context (mkctx StSpecialElementBody DNone (B "title") [] [] [] false [] None [] [])
  = Some [B "_sanitizeRCDATA"] /\
  apply_chain [B "_sanitizeRCDATA"] (VStr (B "</title>")) = Some (B "&lt;/title&gt;").
Proof. vm_compute. split; reflexivity. Qed.
Example ex_chain_script_refuses :
  sanitizer_for_context (mkctx StSpecialElementBody DNone (B "script") [] [] [] false [] None [] [])
  = Some [B "_sanitizeScript"] /\
  apply_chain [B "_sanitizeScript"] (VStr (B "alert(1)")) = None.
Proof. vm_compute. split; reflexivity. Qed.

(* ------------------------------------------------------------------ layer 1 meets the tokenizer *)

Lemma no_qa_inert (o : bytes) : no_quote_or_angle o = true -> inert o.
Proof.
  unfold no_quote_or_angle, inert. rewrite forallb_forall, Forall_forall.
  intros H b Hb. specialize (H b Hb). unfold quote_or_angle, mem_N in H. cbn [existsb] in H.
  apply negb_true_iff in H. rewrite !orb_false_iff in H. destruct H as (H34 & H39 & H60 & H62 & _).
  apply N.eqb_neq in H34, H39, H60, H62. unfold inert_byte. auto.
Qed.

(* An untrusted value written where the tokenizer reads text, RCDATA or a quoted attribute value:
   the tokenizer state is the same afterwards, no token has been emitted, the tag under construction
   is unchanged but for the attribute value, and every byte was consumed as text of that construct. *)
Theorem action_preserves_tokenizer c chain v o :
  untrusted v = true ->
  sanitizer_for_context c = Some chain -> apply_chain chain v = Some o ->
  (forall t, t_state t = SData ->
     let t' := tok_run t o in
     t_state t' = SData /\ t_toks t' = t_toks t /\ t_tag t' = t_tag t /\
     t_text t' = rev (norm_nl (t_cr t) o) ++ t_text t /\
     t_classes t' = rev (map (fun _ => PText) o) ++ t_classes t) /\
  (forall n t, t_state t = SRcdata n ->
     let t' := tok_run t o in
     t_state t' = SRcdata n /\ t_toks t' = t_toks t /\ t_tag t' = t_tag t /\
     t_text t' = rev (norm_nul (norm_nl (t_cr t) o)) ++ t_text t /\
     t_classes t' = rev (map (fun _ => PRcdata n) o) ++ t_classes t) /\
  (forall t, t_state t = SAttrValueDQ ->
     let t' := tok_run t o in
     t_state t' = SAttrValueDQ /\ t_toks t' = t_toks t /\ t_text t' = t_text t /\
     t_tag t' = with_aval (t_tag t) (rev (norm_nul (norm_nl (t_cr t) o)) ++ g_aval (t_tag t)) /\
     t_classes t' = rev (map (fun _ => aval_class (t_tag t) Qdq) o) ++ t_classes t) /\
  (forall t, t_state t = SAttrValueSQ ->
     let t' := tok_run t o in
     t_state t' = SAttrValueSQ /\ t_toks t' = t_toks t /\ t_text t' = t_text t /\
     t_tag t' = with_aval (t_tag t) (rev (norm_nul (norm_nl (t_cr t) o)) ++ g_aval (t_tag t)) /\
     t_classes t' = rev (map (fun _ => aval_class (t_tag t) Qsq) o) ++ t_classes t).
Proof.
  intros Hu Hc Ha. apply inertness. apply no_qa_inert. exact (action_inert_untrusted c chain v o Hu Hc Ha).
Qed.

(* A whole output that consists of static text st1, the rendering o of an untrusted value, and
   static text st2: if the tokenizer is in the data state / RCDATA / a quoted attribute value after
   st1, then the run over st1 ++ o ++ st2 is the run over st2 from a machine state that differs from
   the one after st1 only in the pending text or attribute value and in the recorded classes - in
   particular the tokens emitted so far and the state are the same, whatever the value was. *)
Corollary action_between_static c chain v o (st1 st2 : bytes) init :
  untrusted v = true ->
  sanitizer_for_context c = Some chain -> apply_chain chain v = Some o ->
  let t1 := tok_run (tok_init init) st1 in
  (t_state t1 = SData \/ (exists n, t_state t1 = SRcdata n) \/ t_state t1 = SAttrValueDQ \/ t_state t1 = SAttrValueSQ) ->
  let t2 := tok_run t1 o in
  tok_run (tok_init init) (st1 ++ o ++ st2) = tok_run t2 st2 /\
  t_state t2 = t_state t1 /\ t_toks t2 = t_toks t1.
Proof.
  intros Hu Hc Ha t1 Hst t2.
  destruct (action_preserves_tokenizer c chain v o Hu Hc Ha) as (Hd & Hr & Hq & Hs).
  split; [unfold t2, t1; rewrite !tok_run_app; reflexivity|].
  destruct Hst as [H|[[n H]|[H|H]]].
  - destruct (Hd t1 H) as (A & B0 & _). unfold t2. rewrite A, H. auto.
  - destruct (Hr n t1 H) as (A & B0 & _). unfold t2. rewrite A, H. auto.
  - destruct (Hq t1 H) as (A & B0 & _). unfold t2. rewrite A, H. auto.
  - destruct (Hs t1 H) as (A & B0 & _). unfold t2. rewrite A, H. auto.
Qed.

(* ------------------------------------------------------------------ a first step of layer 2 *)

(* stated in unfolded form on purpose: the kernel then never has to convert the constant
   align_policy_ok against its 35,000-case expansion outside the virtual machine *)
Lemma align_policy_ok_ok :
  forallb (fun q => forallb (fun e => forallb (fun a => align_open_attr q e a) policy_attrs) policy_elems) [34; 39] = true.
Proof. vm_compute. reflexivity. Qed.

Lemma forallb3_In {A B C} (f : A -> B -> C -> bool) la lb lc :
  forallb (fun x => forallb (fun y => forallb (fun z => f x y z) lc) lb) la = true ->
  forall x y z, In x la -> In y lb -> In z lc -> f x y z = true.
Proof.
  intros H x y z Hx Hy Hz.
  rewrite forallb_forall in H. specialize (H x Hx). cbv beta in H.
  rewrite forallb_forall in H. specialize (H y Hy). cbv beta in H.
  rewrite forallb_forall in H. exact (H z Hz).
Qed.

(* for every element and attribute name of the policy tables and both quote characters: after the
   static text  <E A=q  engine context and tokenizer state agree *)
Theorem align_open_attr_policy q e a :
  q = 34 \/ q = 39 -> In e policy_elems -> In a policy_attrs ->
  (exists c edited out,
     escape_text false ctx0 (open_attr_text q e a) = EOk c edited out /\
     c_state c = StAttr /\ c_delim c = (if q =? 34 then DDoubleQuote else DSingleQuote) /\
     c_elem c = e /\ c_attr c = a) /\
  (let t := tok_run (tok_init SData) (open_attr_text q e a) in
   t_state t = (if q =? 34 then SAttrValueDQ else SAttrValueSQ) /\
   g_is_end (t_tag t) = false /\ g_name (t_tag t) = e /\ g_aname (t_tag t) = a).
Proof.
  intros Hq He Ha.
  assert (Hin : In q [34; 39]) by (destruct Hq as [->| ->]; simpl; auto).
  pose proof (forallb3_In align_open_attr [34; 39] policy_elems policy_attrs align_policy_ok_ok q e a Hin He Ha) as Hal.
  unfold align_open_attr in Hal. apply andb_true_iff in Hal as [Hc Ht]. split.
  - destruct (escape_text false ctx0 (open_attr_text q e a)) as [c edited out|]; [|discriminate Hc].
    exists c, edited, out. split; [reflexivity|].
    rewrite !andb_true_iff in Hc. destruct Hc as [[[Hs Hd] Hel] Hat].
    apply bytes_eqb_eq in Hel, Hat. repeat split; try assumption.
    + destruct (c_state c); try discriminate Hs. reflexivity.
    + destruct (q =? 34); destruct (c_delim c); try discriminate Hd; reflexivity.
  - cbv zeta in Ht. unfold html_tokenize in Ht. cbn [r_end] in Ht.
    rewrite !andb_true_iff in Ht. destruct Ht as [[[Hs Hend] Hn] Han].
    apply hstate_eqb_eq in Hs. apply negb_true_iff in Hend. apply bytes_eqb_eq in Hn, Han.
    cbv zeta. auto.
Qed.

(* the scripting-disabled reading: same length (marker spans stay valid), noscript bodies become markup *)
Lemma without_scripting_aux_length s : forall k, length (without_scripting_aux k s) = length s.
Proof. induction s as [|c t IH]; intros k; simpl; [reflexivity | rewrite IH; reflexivity]. Qed.
Lemma without_scripting_length s : length (without_scripting s) = length s.
Proof. apply without_scripting_aux_length. Qed.
Example without_scripting_example :
  without_scripting (B "<noscript><a zq>k</a></NoScript>") = B "<noscr1pt><a zq>k</a></NoScr1pt>" /\
  placement_ok (B "<noscript><a zq>k</a></noscript>") [(13, 2)]%nat = true /\
  placement_ok_without_scripting (B "<noscript><a zq>k</a></noscript>") [(13, 2)]%nat = false /\
  placement_ok_without_scripting (B "<noscript><a title='zq'>k</a></noscript>") [(20, 2)]%nat = true.
Proof. vm_compute. repeat split. Qed.
