(* Well-formedness of every world the API can reach (model/Engine.v) and what follows from it:
   the handles a client holds denote registered members or empty shells (REG), and the sticky
   failure of C05 holds through every history without the hypothesis on Execute. *)
From V Require Import lib.Base gen.GenTemplate model.GoStrings model.TContext model.TTransition
     model.TEscapeText model.TSanitize model.TTree model.TEscaper model.Engine proofs.EngineFacts proofs.EngineHistFacts.
From Coq Require Import Arith PeanoNat Lia.
Local Open Scope N_scope.

(* ---- well-formedness of reachable worlds ---- *)
Definition tmpl_ok (w : world) (o : nat) : Prop :=
  (o < length (w_tmpl w))%nat /\ (h_text (get_tmpl w o) < length (w_text w))%nat.
(* set consistency: a member registered under a name in a name space lives in that name space and
   its text template has that name *)
Definition SC (w : world) : Prop :=
  forall nsid name o, assoc_get name (n_set (get_ns w nsid)) = Some o ->
    tmpl_ok w o /\ h_ns (get_tmpl w o) = nsid /\ x_name (get_text w (h_text (get_tmpl w o))) = name.
(* association consistency: a text template listed under a name has that name *)
Definition CC (w : world) : Prop :=
  forall cid name tid, In (name, tid) (get_common w cid) ->
    (tid < length (w_text w))%nat /\ x_name (get_text w tid) = name.
Definition husk (w : world) (o : nat) : Prop :=
  h_err (get_tmpl w o) = ENotYet /\ h_tree_nil (get_tmpl w o) = true.
(* every handle the client holds denotes the member its set registers under its own name, or an
   empty shell left behind by a redefinition *)
Definition HB (w : world) : Prop :=
  forall h o, handle w h = Some o -> tmpl_ok w o /\ (registered w o \/ husk w o).
Definition Inv (w : world) : Prop := SC w /\ CC w /\ HB w.

Lemma assoc_get_In {A} k (l : list (bytes * A)) v : assoc_get k l = Some v -> exists k', bytes_eqb k k' = true /\ In (k', v) l.
Proof.
  induction l as [|[k' v'] l IH]; simpl; [discriminate|].
  destruct (bytes_eqb k k') eqn:E; intros H.
  - inversion H; subst. exists k'. split; [exact E | left; reflexivity].
  - destruct (IH H) as (k2 & E2 & I2). exists k2. split; [exact E2 | right; exact I2].
Qed.

Lemma assoc_get_set_same {A} k (v : A) l : assoc_get k (assoc_set k v l) = Some v.
Proof.
  induction l as [|[k' v'] l IH]; simpl.
  - rewrite bytes_eqb_refl. reflexivity.
  - destruct (bytes_eqb k k') eqn:E; simpl; rewrite E; [reflexivity | exact IH].
Qed.

Lemma assoc_get_set_other {A} k k' (v : A) l : bytes_eqb k k' = false -> assoc_get k (assoc_set k' v l) = assoc_get k l.
Proof.
  intros Hne. induction l as [|[k2 v2] l IH]; simpl.
  - rewrite Hne. reflexivity.
  - destruct (bytes_eqb k' k2) eqn:E; simpl.
    + destruct (bytes_eqb k k2) eqn:E2; [|reflexivity].
      apply bytes_eqb_eq in E, E2. subst. rewrite bytes_eqb_refl in Hne. discriminate.
    + destruct (bytes_eqb k k2); [reflexivity | exact IH].
Qed.

Lemma In_assoc_set {A} k (v : A) l k2 v2 : In (k2, v2) (assoc_set k v l) -> In (k2, v2) l \/ (k2 = k \/ bytes_eqb k k2 = true) /\ v2 = v.
Proof.
  induction l as [|[k3 v3] l IH]; simpl.
  - intros [H|[]]. inversion H; subst. right. split; [left; reflexivity | reflexivity].
  - destruct (bytes_eqb k k3) eqn:E; simpl.
    + intros [H|H]; [inversion H; subst; right; split; [right; exact E | reflexivity] | left; right; exact H].
    + intros [H|H]; [left; left; exact H|]. destruct (IH H) as [H1|H1]; [left; right; exact H1 | right; exact H1].
Qed.

(* reading the heaps after the primitive updates *)
Lemma get_text_new_text_old w x tid : (tid < length (w_text w))%nat -> get_text (fst (new_text w x)) tid = get_text w tid.
Proof. intros H. unfold get_text. cbn. apply app_nth1. exact H. Qed.
Lemma get_text_new_text_new w x : get_text (fst (new_text w x)) (length (w_text w)) = x.
Proof. unfold get_text. cbn. rewrite app_nth2 by lia. rewrite Nat.sub_diag. reflexivity. Qed.
Lemma get_tmpl_new_tmpl_old w t o : (o < length (w_tmpl w))%nat -> get_tmpl (fst (new_tmpl w t)) o = get_tmpl w o.
Proof. intros H. unfold get_tmpl. cbn. apply app_nth1. exact H. Qed.
Lemma get_tmpl_new_tmpl_new w t : get_tmpl (fst (new_tmpl w t)) (length (w_tmpl w)) = t.
Proof. unfold get_tmpl. cbn. rewrite app_nth2 by lia. rewrite Nat.sub_diag. reflexivity. Qed.
Lemma get_ns_new_ns_other w x n : n <> length (w_ns w) -> get_ns (fst (new_ns w x)) n = get_ns w n.
Proof.
  intros H. unfold get_ns. cbn. destruct (Nat.lt_ge_cases n (length (w_ns w))) as [Hl|Hl].
  - apply app_nth1. exact Hl.
  - rewrite app_nth2 by exact Hl. rewrite (nth_overflow (w_ns w)) by exact Hl.
    destruct (n - length (w_ns w))%nat as [|k] eqn:Ek; [lia|]. destruct k; reflexivity.
Qed.
Lemma get_ns_new_ns_new w x : get_ns (fst (new_ns w x)) (length (w_ns w)) = x.
Proof. unfold get_ns. cbn. rewrite app_nth2 by lia. rewrite Nat.sub_diag. reflexivity. Qed.
Lemma get_common_new_common w c : get_common (fst (new_common w)) c = get_common w c.
Proof.
  unfold get_common. cbn. destruct (Nat.lt_ge_cases c (length (w_common w))) as [Hl|Hl].
  - apply app_nth1. exact Hl.
  - rewrite app_nth2 by exact Hl. rewrite (nth_overflow (w_common w)) by exact Hl.
    destruct (c - length (w_common w))%nat as [|k]; [reflexivity|]. destruct k; reflexivity.
Qed.
Lemma get_common_put_common_same w c m : get_common (put_common w c m) c = m.
Proof. unfold get_common, put_common. cbn. apply nth_set_nth_same. Qed.
Lemma get_common_put_common_other w c c' m : c <> c' -> get_common (put_common w c m) c' = get_common w c'.
Proof. intros H. unfold get_common, put_common. cbn. apply nth_set_nth_other. exact H. Qed.
Lemma get_text_put_text_other w i j x : i <> j -> get_text (put_text w i x) j = get_text w j.
Proof. intros H. unfold get_text, put_text. cbn. apply nth_set_nth_other. exact H. Qed.
Lemma length_put_text w i x : (i < length (w_text w))%nat -> length (w_text (put_text w i x)) = length (w_text w).
Proof.
  unfold put_text. cbn. generalize (w_text w). intros l. revert l. induction i as [|i IH]; intros [|h t] H; simpl in *; try lia.
  rewrite IH by lia. reflexivity.
Qed.
Lemma length_put_tmpl w i x : (i < length (w_tmpl w))%nat -> length (w_tmpl (put_tmpl w i x)) = length (w_tmpl w).
Proof.
  unfold put_tmpl. cbn. generalize (w_tmpl w). intros l. revert l. induction i as [|i IH]; intros [|h t] H; simpl in *; try lia.
  rewrite IH by lia. reflexivity.
Qed.

(* ---- primitives preserve the invariant ---- *)
Lemma registered_iff w w' o :
  get_tmpl w' o = get_tmpl w o ->
  get_text w' (h_text (get_tmpl w o)) = get_text w (h_text (get_tmpl w o)) ->
  n_set (get_ns w' (h_ns (get_tmpl w o))) = n_set (get_ns w (h_ns (get_tmpl w o))) ->
  registered w o -> registered w' o.
Proof. unfold registered. intros H1 H2 H3 H. rewrite H1, H2, H3. exact H. Qed.

Lemma Inv_new_text w x : Inv w -> Inv (fst (new_text w x)).
Proof.
  intros (Hsc & Hcc & Hhb). set (w' := fst (new_text w x)).
  assert (Ht : forall o, get_tmpl w' o = get_tmpl w o) by reflexivity.
  assert (Hn : forall n, get_ns w' n = get_ns w n) by reflexivity.
  assert (Hc : forall c, get_common w' c = get_common w c) by reflexivity.
  assert (Hl : length (w_text w') = S (length (w_text w))) by (unfold w'; cbn; rewrite app_length; cbn; lia).
  assert (Hx : forall tid, (tid < length (w_text w))%nat -> get_text w' tid = get_text w tid) by (intros; apply get_text_new_text_old; assumption).
  unfold Inv, SC, CC, HB, tmpl_ok. split; [|split].
  - intros nsid name o H. rewrite Hn in H. destruct (Hsc nsid name o H) as ((A1 & A2) & A3 & A4).
    rewrite Ht. split; [split; [exact A1 | rewrite Hl; lia]|]. split; [exact A3|]. rewrite Hx by exact A2. exact A4.
  - intros cid name tid H. rewrite Hc in H. destruct (Hcc cid name tid H) as (A1 & A2).
    split; [rewrite Hl; lia|]. rewrite Hx by exact A1. exact A2.
  - intros h o H. assert (H' : handle w h = Some o) by exact H.
    destruct (Hhb h o H') as ((A1 & A2) & A3).
    split; [split; [exact A1 | rewrite Ht, Hl; lia]|].
    destruct A3 as [A3|A3]; [left | right; exact A3].
    apply (registered_iff w w' o); auto.
Qed.

Lemma Inv_new_common w : Inv w -> Inv (fst (new_common w)).
Proof.
  intros (Hsc & Hcc & Hhb). split; [|split].
  - exact Hsc.
  - intros cid name tid H. rewrite get_common_new_common in H. exact (Hcc cid name tid H).
  - exact Hhb.
Qed.

Lemma Inv_put_common w c m : Inv w ->
  (forall name tid, In (name, tid) m -> (tid < length (w_text w))%nat /\ x_name (get_text w tid) = name) ->
  Inv (put_common w c m).
Proof.
  intros (Hsc & Hcc & Hhb) Hm. split; [|split].
  - exact Hsc.
  - intros cid name tid H. destruct (Nat.eq_dec c cid) as [->|Hne].
    + rewrite get_common_put_common_same in H. exact (Hm name tid H).
    + rewrite get_common_put_common_other in H by exact Hne. exact (Hcc cid name tid H).
  - exact Hhb.
Qed.

Lemma Inv_put_text w tid x : Inv w -> (tid < length (w_text w))%nat -> x_name x = x_name (get_text w tid) -> Inv (put_text w tid x).
Proof.
  intros (Hsc & Hcc & Hhb) Hl Hx. set (w' := put_text w tid x).
  assert (Ht : forall o, get_tmpl w' o = get_tmpl w o) by reflexivity.
  assert (Hn : forall n, get_ns w' n = get_ns w n) by reflexivity.
  assert (Hc : forall c, get_common w' c = get_common w c) by reflexivity.
  assert (Hlen : length (w_text w') = length (w_text w)) by (apply length_put_text; exact Hl).
  assert (Hnm : forall t, x_name (get_text w' t) = x_name (get_text w t)).
  { intros t. destruct (Nat.eq_dec tid t) as [->|Hne]; [unfold w'; rewrite get_text_put_text_same; exact Hx | unfold w'; rewrite get_text_put_text_other by exact Hne; reflexivity]. }
  unfold Inv, SC, CC, HB, tmpl_ok. split; [|split].
  - intros nsid name o H. rewrite Hn in H. destruct (Hsc nsid name o H) as ((A1 & A2) & A3 & A4).
    rewrite Ht, Hlen, Hnm. auto.
  - intros cid name t H. rewrite Hc in H. destruct (Hcc cid name t H) as (A1 & A2). rewrite Hlen, Hnm. auto.
  - intros h o H. assert (H' : handle w h = Some o) by exact H.
    destruct (Hhb h o H') as ((A1 & A2) & A3). rewrite Ht, Hlen.
    split; [auto|]. destruct A3 as [A3|A3]; [left | right; exact A3].
    unfold registered in *. rewrite Ht, Hn, Hnm. exact A3.
Qed.

Lemma Inv_new_tmpl w t : Inv w -> Inv (fst (new_tmpl w t)).
Proof.
  intros (Hsc & Hcc & Hhb). set (w' := fst (new_tmpl w t)).
  assert (Hn : forall n, get_ns w' n = get_ns w n) by reflexivity.
  assert (Hc : forall c, get_common w' c = get_common w c) by reflexivity.
  assert (Hx : forall tid, get_text w' tid = get_text w tid) by reflexivity.
  assert (Hl : length (w_tmpl w') = S (length (w_tmpl w))) by (unfold w'; cbn; rewrite app_length; cbn; lia).
  assert (Ht : forall o, (o < length (w_tmpl w))%nat -> get_tmpl w' o = get_tmpl w o) by (intros; apply get_tmpl_new_tmpl_old; assumption).
  unfold Inv, SC, CC, HB, tmpl_ok. split; [|split].
  - intros nsid name o H. rewrite Hn in H. destruct (Hsc nsid name o H) as ((A1 & A2) & A3 & A4).
    rewrite (Ht o A1). split; [split; [rewrite Hl; lia | exact A2]|]. rewrite Hx. auto.
  - exact Hcc.
  - intros h o H. assert (H' : handle w h = Some o) by exact H.
    destruct (Hhb h o H') as ((A1 & A2) & A3). rewrite (Ht o A1).
    split; [split; [rewrite Hl; lia | exact A2]|].
    destruct A3 as [A3|A3]; [left | right].
    + unfold registered in *. rewrite (Ht o A1), Hn, Hx. exact A3.
    + unfold husk in *. rewrite (Ht o A1). exact A3.
Qed.

Lemma Inv_add_handle w r : Inv w ->
  (forall o, r = Some o -> tmpl_ok w o /\ (registered w o \/ husk w o)) -> Inv (add_handle w r).
Proof.
  intros (Hsc & Hcc & Hhb) Hr. unfold Inv, SC, CC, HB, tmpl_ok in *. split; [exact Hsc | split; [exact Hcc|]].
  intros h o H. unfold handle in H. cbn in H.
  destruct (Nat.lt_ge_cases h (length (w_handles w))) as [Hl|Hl].
  - rewrite nth_error_app1 in H by exact Hl. exact (Hhb h o H).
  - rewrite nth_error_app2 in H by exact Hl. destruct (h - length (w_handles w))%nat as [|k]; cbn in H.
    + destruct r as [o'|]; [|discriminate]. inversion H; subst. apply Hr. reflexivity.
    + destruct k; discriminate.
Qed.

(* a set member is updated in place without changing its name space or the name of its text *)
Lemma Inv_put_tmpl_member w o t nsid name : Inv w ->
  assoc_get name (n_set (get_ns w nsid)) = Some o ->
  h_ns t = nsid -> (h_text t < length (w_text w))%nat -> x_name (get_text w (h_text t)) = name ->
  Inv (put_tmpl w o t).
Proof.
  intros (Hsc & Hcc & Hhb) Hm Hns Hlt Hnm. set (w' := put_tmpl w o t).
  destruct (Hsc nsid name o Hm) as ((O1 & O2) & O3 & O4).
  assert (Hn : forall n, get_ns w' n = get_ns w n) by reflexivity.
  assert (Hx : forall tid, get_text w' tid = get_text w tid) by reflexivity.
  assert (Hl : length (w_tmpl w') = length (w_tmpl w)) by (apply length_put_tmpl; exact O1).
  assert (Hlx : length (w_text w') = length (w_text w)) by reflexivity.
  assert (Hsame : get_tmpl w' o = t) by (apply get_tmpl_put_tmpl_same).
  assert (Hoth : forall o', o <> o' -> get_tmpl w' o' = get_tmpl w o') by (intros; apply get_tmpl_put_tmpl_other; assumption).
  unfold Inv, SC, CC, HB, tmpl_ok, registered, husk in *. split; [|split].
  - intros nsid' name' o' H. rewrite Hn in H. destruct (Hsc nsid' name' o' H) as ((A1 & A2) & A3 & A4).
    destruct (Nat.eq_dec o o') as [<-|Hne].
    + rewrite Hsame, Hx, Hl, Hlx.
      assert (En : nsid' = nsid) by congruence. assert (Em : name' = name) by congruence. rewrite En, Em. auto.
    + rewrite (Hoth o' Hne), Hx, Hl, Hlx. auto.
  - exact Hcc.
  - intros h o' H. assert (H' : handle w h = Some o') by exact H.
    destruct (Hhb h o' H') as ((A1 & A2) & A3).
    destruct (Nat.eq_dec o o') as [<-|Hne].
    + rewrite Hsame, Hl, Hlx, Hn, Hx, Hns, Hnm. split; [auto|]. left. exact Hm.
    + rewrite (Hoth o' Hne), Hl, Hlx, Hn, Hx. auto.
Qed.

(* a name space whose set is still empty gets its first members *)
Lemma Inv_put_ns_fresh w n x : Inv w -> n_set (get_ns w n) = [] ->
  (forall name o, assoc_get name (n_set x) = Some o ->
     tmpl_ok w o /\ h_ns (get_tmpl w o) = n /\ x_name (get_text w (h_text (get_tmpl w o))) = name) ->
  Inv (put_ns w n x).
Proof.
  intros (Hsc & Hcc & Hhb) He Hx. set (w' := put_ns w n x).
  assert (Ht : forall o, get_tmpl w' o = get_tmpl w o) by reflexivity.
  assert (Hxx : forall tid, get_text w' tid = get_text w tid) by reflexivity.
  assert (Hsame : get_ns w' n = x) by apply get_ns_put_ns_same.
  assert (Hoth : forall m, n <> m -> get_ns w' m = get_ns w m) by (intros; apply get_ns_put_ns_other; assumption).
  unfold Inv, SC, CC, HB, tmpl_ok, registered, husk in *. split; [|split].
  - intros nsid name o H. destruct (Nat.eq_dec n nsid) as [<-|Hne].
    + rewrite Hsame in H. rewrite Ht, Hxx. exact (Hx name o H).
    + rewrite (Hoth nsid Hne) in H. rewrite Ht, Hxx. exact (Hsc nsid name o H).
  - exact Hcc.
  - intros h o H. assert (H' : handle w h = Some o) by exact H.
    destruct (Hhb h o H') as (A1 & A3). rewrite Ht, Hxx. split; [exact A1|].
    destruct A3 as [A3|A3]; [left | right; exact A3].
    destruct (Nat.eq_dec n (h_ns (get_tmpl w o))) as [E|Hne].
    + rewrite <- E in A3. rewrite He in A3. discriminate A3.
    + rewrite (Hoth _ Hne). exact A3.
Qed.

(* flags of a name space change, its set does not *)
Lemma Inv_put_ns_same_set w n x : Inv w -> n_set x = n_set (get_ns w n) -> Inv (put_ns w n x).
Proof.
  intros (Hsc & Hcc & Hhb) He. set (w' := put_ns w n x).
  assert (Ht : forall o, get_tmpl w' o = get_tmpl w o) by reflexivity.
  assert (Hxx : forall tid, get_text w' tid = get_text w tid) by reflexivity.
  assert (Hset : forall m, n_set (get_ns w' m) = n_set (get_ns w m)).
  { intros m. destruct (Nat.eq_dec n m) as [<-|Hne]; [unfold w'; rewrite get_ns_put_ns_same; exact He | unfold w'; rewrite get_ns_put_ns_other by exact Hne; reflexivity]. }
  unfold Inv, SC, CC, HB, tmpl_ok, registered, husk in *. split; [|split].
  - intros nsid name o H. rewrite Hset in H. rewrite Ht, Hxx. exact (Hsc nsid name o H).
  - exact Hcc.
  - intros h o H. assert (H' : handle w h = Some o) by exact H.
    destruct (Hhb h o H') as (A1 & A3). rewrite Ht, Hxx, Hset. auto.
Qed.

Lemma Inv_alloc_new w name : Inv w ->
  Inv (fst (alloc_new w name)) /\
  let o := snd (alloc_new w name) in let w' := fst (alloc_new w name) in
  tmpl_ok w' o /\ registered w' o /\ husk w' o /\ o = length (w_tmpl w) /\
  h_ns (get_tmpl w' o) = length (w_ns w) /\ h_text (get_tmpl w' o) = length (w_text w) /\
  (forall o', (o' < length (w_tmpl w))%nat -> get_tmpl w' o' = get_tmpl w o') /\
  (forall t, (t < length (w_text w))%nat -> get_text w' t = get_text w t) /\
  (forall m, m <> length (w_ns w) -> get_ns w' m = get_ns w m) /\
  (forall c, get_common w' c = get_common w c) /\ w_handles w' = w_handles w /\
  (length (w_tmpl w) <= length (w_tmpl w'))%nat /\ (length (w_text w) <= length (w_text w'))%nat.
Proof.
  intros HI. unfold alloc_new. cbn [new_common new_text new_ns new_tmpl fst snd].
  set (w1 := mkworld (w_text w) (w_common w ++ [[]]) (w_tmpl w) (w_ns w) (w_handles w)).
  set (w2 := mkworld (w_text w1 ++ [mktext name None (length (w_common w))]) (w_common w1) (w_tmpl w1) (w_ns w1) (w_handles w1)).
  set (w3 := mkworld (w_text w2) (w_common w2) (w_tmpl w2) (w_ns w2 ++ [mknsp [] false false esc_empty]) (w_handles w2)).
  set (w4 := mkworld (w_text w3) (w_common w3) (w_tmpl w3 ++ [mktmpl ENotYet (length (w_text w1)) true (length (w_ns w2))]) (w_ns w3) (w_handles w3)).
  change (length (w_tmpl w3)) with (length (w_tmpl w)). change (length (w_ns w2)) with (length (w_ns w)) in *. change (length (w_text w1)) with (length (w_text w)) in *.
  assert (I1 : Inv w1) by (apply (Inv_new_common w HI)).
  assert (I2 : Inv w2) by (apply (Inv_new_text w1 (mktext name None (length (w_common w))) I1)).
  assert (I3 : Inv w3).
  { destruct I2 as (Hsc & Hcc & Hhb).
    assert (Hn : forall m, m <> length (w_ns w) -> get_ns w3 m = get_ns w2 m) by (intros m Hm; apply (get_ns_new_ns_other w2 _ m Hm)).
    assert (Hnn : get_ns w3 (length (w_ns w)) = mknsp [] false false esc_empty) by (apply (get_ns_new_ns_new w2)).
    assert (Hd : n_set (get_ns w2 (length (w_ns w))) = []).
    { unfold get_ns. cbn. rewrite nth_overflow by lia. reflexivity. }
    assert (Hset : forall m, n_set (get_ns w3 m) = n_set (get_ns w2 m)).
    { intros m. destruct (Nat.eq_dec m (length (w_ns w))) as [->|Hm]; [rewrite Hnn, Hd; reflexivity | rewrite (Hn m Hm); reflexivity]. }
    unfold Inv, SC, CC, HB, tmpl_ok, registered, husk in *. split; [|split].
    - intros nsid nm o H. rewrite Hset in H. exact (Hsc nsid nm o H).
    - exact Hcc.
    - intros h o H. assert (H' : handle w2 h = Some o) by exact H. destruct (Hhb h o H') as (A1 & A3).
      split; [exact A1|]. rewrite Hset. exact A3. }
  assert (I4 : Inv w4) by (apply (Inv_new_tmpl w3 _ I3)).
  assert (G4 : get_tmpl w4 (length (w_tmpl w)) = mktmpl ENotYet (length (w_text w)) true (length (w_ns w))) by (apply (get_tmpl_new_tmpl_new w3)).
  assert (X4 : get_text w4 (length (w_text w)) = mktext name None (length (w_common w))) by (apply (get_text_new_text_new w1)).
  assert (N4 : n_set (get_ns w4 (length (w_ns w))) = []).
  { assert (Q : get_ns w3 (length (w_ns w)) = mknsp [] false false esc_empty) by (apply (get_ns_new_ns_new w2)).
    change (get_ns w4 (length (w_ns w))) with (get_ns w3 (length (w_ns w))). rewrite Q. reflexivity. }
  split.
  - apply Inv_put_ns_fresh; [exact I4 | exact N4 |].
    intros nm o H. cbn [n_set assoc_get] in H. destruct (bytes_eqb nm name) eqn:E; [|discriminate].
    assert (Eo : o = length (w_tmpl w)) by (inversion H; reflexivity). subst o.
    apply bytes_eqb_eq in E. subst nm. unfold tmpl_ok. rewrite G4. cbn [h_text h_ns]. rewrite X4. cbn [x_name].
    split; [split; unfold w4, w3, w2, w1; cbn; rewrite app_length; cbn; lia | auto].
  - cbv zeta. set (w5 := put_ns w4 _ _).
    assert (T5 : forall o, get_tmpl w5 o = get_tmpl w4 o) by reflexivity.
    assert (X5 : forall t, get_text w5 t = get_text w4 t) by reflexivity.
    unfold tmpl_ok, registered, husk. rewrite !T5, G4. cbn [h_text h_ns h_err h_tree_nil]. rewrite X5, X4. cbn [x_name].
    split; [split; unfold w5, w4, w3, w2, w1; cbn; rewrite app_length; cbn; lia|].
    split; [unfold w5; rewrite get_ns_put_ns_same; cbn; rewrite bytes_eqb_refl; reflexivity|].
    split; [auto|]. split; [reflexivity|]. split; [reflexivity|]. split; [reflexivity|].
    split; [intros o' Ho'; rewrite T5; apply (get_tmpl_new_tmpl_old w3 _ o' Ho')|].
    split; [intros t Ht; rewrite X5; apply (get_text_new_text_old w1 _ t Ht)|].
    split; [intros m Hm; unfold w5; rewrite get_ns_put_ns_other by auto; apply (get_ns_new_ns_other w2 _ m Hm)|].
    split; [intros c; apply (get_common_new_common w c)|].
    split; [reflexivity|]. split; unfold w5, w4, w3, w2, w1; cbn; rewrite app_length; lia.
Qed.

Lemma assoc_get_set_cases {A} k k' (v : A) l :
  assoc_get k (assoc_set k' v l) = if bytes_eqb k k' then Some v else assoc_get k l.
Proof.
  destruct (bytes_eqb k k') eqn:E.
  - apply bytes_eqb_eq in E. subst. apply assoc_get_set_same.
  - apply assoc_get_set_other. exact E.
Qed.

(* a new member is registered under a name that the set does not have yet *)
Lemma Inv_put_ns_add w n x name o' : Inv w ->
  assoc_get name (n_set (get_ns w n)) = None ->
  n_set x = assoc_set name o' (n_set (get_ns w n)) ->
  tmpl_ok w o' -> h_ns (get_tmpl w o') = n -> x_name (get_text w (h_text (get_tmpl w o'))) = name ->
  Inv (put_ns w n x).
Proof.
  intros (Hsc & Hcc & Hhb) Hnone Hx Ok1 Ok2 Ok3. set (w' := put_ns w n x).
  assert (Ht : forall o, get_tmpl w' o = get_tmpl w o) by reflexivity.
  assert (Hxx : forall tid, get_text w' tid = get_text w tid) by reflexivity.
  assert (Hsame : get_ns w' n = x) by apply get_ns_put_ns_same.
  assert (Hoth : forall m, n <> m -> get_ns w' m = get_ns w m) by (intros; apply get_ns_put_ns_other; assumption).
  unfold Inv, SC, CC, HB, tmpl_ok, registered, husk in *. split; [|split].
  - intros nsid nm o H. rewrite Ht, Hxx. destruct (Nat.eq_dec n nsid) as [<-|Hne].
    + rewrite Hsame, Hx, assoc_get_set_cases in H. destruct (bytes_eqb nm name) eqn:E.
      * inversion H; subst o. apply bytes_eqb_eq in E. subst nm. auto.
      * exact (Hsc n nm o H).
    + rewrite (Hoth nsid Hne) in H. exact (Hsc nsid nm o H).
  - exact Hcc.
  - intros h o H. assert (H' : handle w h = Some o) by exact H.
    destruct (Hhb h o H') as (A1 & A3). rewrite Ht, Hxx. split; [exact A1|].
    destruct A3 as [A3|A3]; [left | right; exact A3].
    destruct (Nat.eq_dec n (h_ns (get_tmpl w o))) as [E|Hne].
    + rewrite <- E in *. rewrite Hsame, Hx, assoc_get_set_cases.
      destruct (bytes_eqb (x_name (get_text w (h_text (get_tmpl w o)))) name) eqn:E2; [|exact A3].
      apply bytes_eqb_eq in E2. rewrite E2 in A3. rewrite Hnone in A3. discriminate A3.
    + rewrite (Hoth _ Hne). exact A3.
Qed.

(* t.New(name) for a name the set already has: the old member becomes an empty shell that belongs
   to a fresh set of its own (it takes over the fields of a freshly allocated template), and the
   name is registered for the new member *)
Lemma Inv_redefine w n x name existing fresh o' : Inv w ->
  assoc_get name (n_set (get_ns w n)) = Some existing ->
  n_set x = assoc_set name o' (n_set (get_ns w n)) ->
  tmpl_ok w o' -> h_ns (get_tmpl w o') = n -> x_name (get_text w (h_text (get_tmpl w o'))) = name ->
  o' <> existing ->
  tmpl_ok w fresh -> husk w fresh ->
  Inv (put_ns (put_tmpl w existing (get_tmpl w fresh)) n x).
Proof.
  intros (Hsc & Hcc & Hhb) Hex Hx Ok1 Ok2 Ok3 Hne' Fk Fh.
  set (w1 := put_tmpl w existing (get_tmpl w fresh)). set (w' := put_ns w1 n x).
  destruct (Hsc n name existing Hex) as ((E1 & E2) & E3 & E4).
  assert (Hxx : forall tid, get_text w' tid = get_text w tid) by reflexivity.
  assert (Tsame : get_tmpl w' existing = get_tmpl w fresh) by (apply (get_tmpl_put_tmpl_same w existing)).
  assert (Toth : forall o, existing <> o -> get_tmpl w' o = get_tmpl w o) by (intros o Ho; apply (get_tmpl_put_tmpl_other w existing o _ Ho)).
  assert (Hl : length (w_tmpl w') = length (w_tmpl w)) by (apply (length_put_tmpl w existing _ E1)).
  assert (Hlx : length (w_text w') = length (w_text w)) by reflexivity.
  assert (Hsame : get_ns w' n = x) by apply get_ns_put_ns_same.
  assert (Hoth : forall m, n <> m -> get_ns w' m = get_ns w m) by (intros m Hm; unfold w'; rewrite get_ns_put_ns_other by exact Hm; reflexivity).
  (* the old member is no longer registered anywhere *)
  assert (Hgone : forall nsid nm, assoc_get nm (n_set (get_ns w' nsid)) <> Some existing).
  { intros nsid nm H. destruct (Nat.eq_dec n nsid) as [<-|Hn].
    - rewrite Hsame, Hx, assoc_get_set_cases in H. destruct (bytes_eqb nm name) eqn:E.
      + inversion H. congruence.
      + destruct (Hsc n nm existing H) as (_ & _ & B4). rewrite E4 in B4. subst nm. rewrite bytes_eqb_refl in E. discriminate.
    - rewrite (Hoth nsid Hn) in H. destruct (Hsc nsid nm existing H) as (_ & B3 & _). congruence. }
  unfold Inv, SC, CC, HB, tmpl_ok, registered, husk in *. split; [|split].
  - intros nsid nm o H. assert (Hoe : existing <> o) by (intros ->; exact (Hgone nsid nm H)).
    rewrite (Toth o Hoe), Hxx, Hl, Hlx. destruct (Nat.eq_dec n nsid) as [<-|Hn].
    + rewrite Hsame, Hx, assoc_get_set_cases in H. destruct (bytes_eqb nm name) eqn:E.
      * inversion H; subst o. apply bytes_eqb_eq in E. subst nm. auto.
      * exact (Hsc n nm o H).
    + rewrite (Hoth nsid Hn) in H. exact (Hsc nsid nm o H).
  - exact Hcc.
  - intros h o H. assert (H' : handle w h = Some o) by exact H.
    destruct (Hhb h o H') as (A1 & A3). rewrite Hl, Hlx.
    destruct (Nat.eq_dec existing o) as [<-|Hoe].
    + rewrite Tsame, Hxx. split; [split; [exact E1 | apply Fk]|]. right. exact Fh.
    + rewrite (Toth o Hoe), Hxx. split; [exact A1|].
      destruct A3 as [A3|A3]; [left | right; exact A3].
      destruct (Nat.eq_dec n (h_ns (get_tmpl w o))) as [E|Hn].
      * rewrite <- E in *. rewrite Hsame, Hx, assoc_get_set_cases.
        destruct (bytes_eqb (x_name (get_text w (h_text (get_tmpl w o)))) name) eqn:Eq2; [|exact A3].
        apply bytes_eqb_eq in Eq2. rewrite Eq2 in A3. rewrite Hex in A3. inversion A3. congruence.
      * rewrite (Hoth _ Hn). exact A3.
Qed.

(* t.New(name), unfolded into named intermediate worlds *)
Definition sn_w2 (w : world) (obj : nat) (name : bytes) : world :=
  fst (new_tmpl (fst (new_text w (mktext name None (x_common (get_text w (h_text (get_tmpl w obj)))))))
                (mktmpl ENotYet (length (w_text w)) true (h_ns (get_tmpl w obj)))).
Definition sn_w4 (w : world) (obj : nat) (name : bytes) : world :=
  let w2 := sn_w2 w obj name in
  match assoc_get name (n_set (get_ns w2 (h_ns (get_tmpl w obj)))) with
  | Some existing =>
      let a := alloc_new w2 (x_name (get_text w2 (h_text (get_tmpl w2 existing)))) in
      put_tmpl (fst a) existing (get_tmpl (fst a) (snd a))
  | None => w2
  end.
Lemma sub_new_eq w obj name :
  sub_new w obj name =
  (let w4 := sn_w4 w obj name in let n := h_ns (get_tmpl w obj) in
   put_ns w4 n (mknsp (assoc_set name (length (w_tmpl w)) (n_set (get_ns w4 n))) (n_escaped (get_ns w4 n)) (n_csp (get_ns w4 n)) (n_esc (get_ns w4 n))),
   length (w_tmpl w)).
Proof.
  unfold sub_new, sn_w4, sn_w2. cbn [new_text new_tmpl fst snd].
  destruct (assoc_get name _) as [existing|]; [|reflexivity].
  destruct (alloc_new _ _) as [w3 fresh]. reflexivity.
Qed.

Lemma Inv_sub_new w obj name : Inv w ->
  let w' := fst (sub_new w obj name) in let o' := snd (sub_new w obj name) in
  Inv w' /\ tmpl_ok w' o' /\ registered w' o' /\ husk w' o' /\ w_handles w' = w_handles w.
Proof.
  intros HI. rewrite sub_new_eq. cbv zeta. cbn [fst snd].
  set (n := h_ns (get_tmpl w obj)). set (o' := length (w_tmpl w)).
  set (w1 := fst (new_text w (mktext name None (x_common (get_text w (h_text (get_tmpl w obj))))))).
  assert (I1 : Inv w1) by (apply Inv_new_text; exact HI).
  assert (I2 : Inv (sn_w2 w obj name)) by (unfold sn_w2; apply Inv_new_tmpl; exact I1).
  set (w2 := sn_w2 w obj name) in *.
  assert (G2 : get_tmpl w2 o' = mktmpl ENotYet (length (w_text w)) true n) by (apply (get_tmpl_new_tmpl_new w1)).
  assert (X2 : get_text w2 (length (w_text w)) = mktext name None (x_common (get_text w (h_text (get_tmpl w obj))))) by (apply (get_text_new_text_new w)).
  assert (L2t : length (w_tmpl w2) = S (length (w_tmpl w))) by (unfold w2, sn_w2; cbn; rewrite app_length; cbn; lia).
  assert (L2x : length (w_text w2) = S (length (w_text w))) by (unfold w2, sn_w2; cbn; rewrite app_length; cbn; lia).
  assert (N2 : forall m, get_ns w2 m = get_ns w m) by reflexivity.
  assert (H2 : w_handles w2 = w_handles w) by reflexivity.
  assert (Ok2 : tmpl_ok w2 o') by (unfold tmpl_ok; rewrite G2; cbn [h_text]; rewrite L2t, L2x; unfold o'; lia).
  unfold sn_w4. fold w2. fold n.
  destruct (assoc_get name (n_set (get_ns w2 n))) as [existing|] eqn:Ex.
  - (* redefinition *)
    destruct (Inv_alloc_new w2 (x_name (get_text w2 (h_text (get_tmpl w2 existing)))) I2)
      as (I3 & F1 & F2 & F3 & F4 & F5 & F6 & F7 & F8 & F9 & F10 & F11 & F12 & F13).
    destruct (alloc_new w2 _) as [w3 fresh]. cbn [fst snd] in *.
    destruct I2 as (Hsc2 & _ & _). destruct (Hsc2 n name existing Ex) as ((B1 & B2) & B3 & B4).
    assert (Hn : n <> length (w_ns w2)).
    { intros E. rewrite E in Ex. unfold get_ns in Ex. rewrite nth_overflow in Ex by lia. discriminate Ex. }
    assert (Hne : o' <> existing).
    { destruct HI as (Hsc & _ & _). rewrite N2 in Ex. destruct (Hsc n name existing Ex) as ((C1 & _) & _). unfold o'. lia. }
    set (w4 := put_tmpl w3 existing (get_tmpl w3 fresh)).
    assert (N4 : get_ns w4 n = get_ns w2 n) by (change (get_ns w4 n) with (get_ns w3 n); apply F9; exact Hn).
    rewrite N4.
    assert (G3 : get_tmpl w3 o' = get_tmpl w2 o') by (apply F7; rewrite L2t; unfold o'; lia).
    assert (X3 : get_text w3 (length (w_text w)) = get_text w2 (length (w_text w))) by (apply F8; rewrite L2x; lia).
    assert (Ex3 : assoc_get name (n_set (get_ns w3 n)) = Some existing) by (rewrite (F9 n Hn); exact Ex).
    assert (IR : Inv (put_ns w4 n (mknsp (assoc_set name o' (n_set (get_ns w2 n))) (n_escaped (get_ns w2 n)) (n_csp (get_ns w2 n)) (n_esc (get_ns w2 n))))).
    { apply (Inv_redefine w3 n _ name existing fresh o' I3 Ex3).
      - cbn [n_set]. rewrite (F9 n Hn). reflexivity.
      - unfold tmpl_ok in *. rewrite G3, G2. cbn [h_text]. split; lia.
      - rewrite G3, G2. reflexivity.
      - rewrite G3, G2. cbn [h_text]. rewrite X3, X2. reflexivity.
      - exact Hne.
      - exact F1.
      - exact F3. }
    set (w5 := put_ns w4 n _) in *.
    assert (T5 : get_tmpl w5 o' = get_tmpl w2 o').
    { change (get_tmpl w5 o') with (get_tmpl w4 o'). unfold w4. rewrite get_tmpl_put_tmpl_other by auto. exact G3. }
    assert (X5 : get_text w5 (length (w_text w)) = get_text w2 (length (w_text w))) by exact X3.
    split; [exact IR|]. unfold tmpl_ok, registered, husk. rewrite T5, G2. cbn [h_text h_ns h_err h_tree_nil]. rewrite X5, X2. cbn [x_name].
    split; [split; [change (length (w_tmpl w5)) with (length (w_tmpl w4)); unfold w4; rewrite length_put_tmpl by lia; lia
                   | change (length (w_text w5)) with (length (w_text w3)); lia]|].
    split; [unfold w5; rewrite get_ns_put_ns_same; cbn [n_set]; apply assoc_get_set_same|].
    split; [auto|]. change (w_handles w5) with (w_handles w3). rewrite F11. exact H2.
  - (* a new name *)
    assert (IA : Inv (put_ns w2 n (mknsp (assoc_set name o' (n_set (get_ns w2 n))) (n_escaped (get_ns w2 n)) (n_csp (get_ns w2 n)) (n_esc (get_ns w2 n))))).
    { apply (Inv_put_ns_add w2 n _ name o' I2 Ex); [reflexivity | exact Ok2 | rewrite G2; reflexivity | rewrite G2; cbn [h_text]; rewrite X2; reflexivity]. }
    set (w5 := put_ns w2 n _) in *.
    split; [exact IA|]. unfold tmpl_ok, registered, husk.
    change (get_tmpl w5 o') with (get_tmpl w2 o'). rewrite G2. cbn [h_text h_ns h_err h_tree_nil].
    change (get_text w5 (length (w_text w))) with (get_text w2 (length (w_text w))). rewrite X2. cbn [x_name].
    split; [split; [change (length (w_tmpl w5)) with (length (w_tmpl w2)); lia | change (length (w_text w5)) with (length (w_text w2)); lia]|].
    split; [unfold w5; rewrite get_ns_put_ns_same; cbn [n_set]; apply assoc_get_set_same|].
    split; [auto | exact H2].
Qed.

(* text heaps only grow and text names never change *)
Definition text_ext (w w' : world) : Prop :=
  (length (w_text w) <= length (w_text w'))%nat /\
  forall t, (t < length (w_text w))%nat -> x_name (get_text w' t) = x_name (get_text w t).
Lemma text_ext_refl w : text_ext w w. Proof. split; auto. Qed.
Lemma text_ext_trans a b c : text_ext a b -> text_ext b c -> text_ext a c.
Proof. intros [A1 A2] [B1 B2]. split; [lia|]. intros t Ht. rewrite B2 by lia. apply A2. exact Ht. Qed.

Lemma Inv_add_parse_tree w tid name tr : Inv w -> (tid < length (w_text w))%nat ->
  Inv (add_parse_tree w tid name tr) /\ text_ext w (add_parse_tree w tid name tr).
Proof.
  intros HI Hl. unfold add_parse_tree.
  set (t := get_text w tid).
  assert (S1 : exists w1 nt, (if bytes_eqb name (x_name t) then (w, tid) else new_text w (mktext name None (x_common t))) = (w1, nt) /\
               Inv w1 /\ text_ext w w1 /\ (nt < length (w_text w1))%nat /\ x_name (get_text w1 nt) = name /\
               (forall c, get_common w1 c = get_common w c)).
  { destruct (bytes_eqb name (x_name t)) eqn:E.
    - exists w, tid. apply bytes_eqb_eq in E. split; [reflexivity|]. split; [exact HI|]. split; [apply text_ext_refl|].
      split; [exact Hl|]. split; [symmetry; exact E | reflexivity].
    - exists (fst (new_text w (mktext name None (x_common t)))), (length (w_text w)).
      split; [reflexivity|]. split; [apply Inv_new_text; exact HI|].
      split; [split; [cbn; rewrite app_length; lia | intros t0 Ht0; rewrite get_text_new_text_old by exact Ht0; reflexivity]|].
      split; [cbn; rewrite app_length; cbn; lia|]. split; [rewrite get_text_new_text_new; reflexivity | reflexivity]. }
  destruct S1 as (w1 & nt & -> & I1 & E1 & Hnt & Hnm & Hc1).
  set (cm := get_common w1 (x_common t)).
  set (keep := match assoc_get name cm with Some old => is_empty_tree tr && match x_tree (get_text w1 old) with Some _ => true | None => false end | None => false end).
  set (w2 := if keep then w1 else put_common w1 (x_common t) (assoc_set name nt cm)).
  assert (I2 : Inv w2).
  { unfold w2. destruct keep; [exact I1|]. apply Inv_put_common; [exact I1|].
    intros k2 v2 Hin. apply In_assoc_set in Hin. destruct Hin as [Hin|[Hk ->]].
    - destruct I1 as (_ & Hcc & _). exact (Hcc _ _ _ Hin).
    - split; [exact Hnt|]. destruct Hk as [->|Hk]; [exact Hnm | apply bytes_eqb_eq in Hk; subst k2; exact Hnm]. }
  assert (X2 : forall q, get_text w2 q = get_text w1 q) by (intros q; unfold w2; destruct keep; reflexivity).
  assert (L2 : length (w_text w2) = length (w_text w1)) by (unfold w2; destruct keep; reflexivity).
  destruct (negb keep || match x_tree (get_text w2 nt) with None => true | Some _ => false end).
  - split.
    + apply Inv_put_text; [exact I2 | rewrite L2; exact Hnt | reflexivity].
    + eapply text_ext_trans; [exact E1|]. split.
      * rewrite length_put_text by (rewrite L2; exact Hnt). rewrite L2. lia.
      * intros q Hq. destruct (Nat.eq_dec nt q) as [->|Hne].
        -- rewrite get_text_put_text_same. cbn [x_name]. rewrite X2. reflexivity.
        -- rewrite get_text_put_text_other by exact Hne. rewrite X2. reflexivity.
  - split; [exact I2|]. eapply text_ext_trans; [exact E1|]. split; [rewrite L2; lia | intros q Hq; rewrite X2; reflexivity].
Qed.

Lemma fold_Inv_text {A} (f : world -> A -> world) (l : list A) (P : world -> Prop) :
  (forall w a, Inv w -> P w -> Inv (f w a) /\ text_ext w (f w a) /\ P (f w a)) ->
  forall w, Inv w -> P w -> Inv (fold_left f l w) /\ text_ext w (fold_left f l w) /\ P (fold_left f l w).
Proof.
  intros Hf. induction l as [|a l IH]; intros w HI HP; simpl; [split; [exact HI | split; [apply text_ext_refl | exact HP]]|].
  destruct (Hf w a HI HP) as (I1 & E1 & P1). destruct (IH _ I1 P1) as (I2 & E2 & P2).
  split; [exact I2 | split; [eapply text_ext_trans; eassumption | exact P2]].
Qed.

Lemma Inv_commit w nsid : Inv w -> Inv (commit w nsid) /\ text_ext w (commit w nsid).
Proof.
  intros HI. unfold commit. destruct (n_set (get_ns w nsid)) as [|[nm o] rest] eqn:Es; [split; [exact HI | apply text_ext_refl]|].
  assert (Hm : assoc_get nm (n_set (get_ns w nsid)) = Some o) by (rewrite Es; cbn; rewrite bytes_eqb_refl; reflexivity).
  destruct HI as (Hsc & Hcc & Hhb). destruct (Hsc nsid nm o Hm) as ((O1 & O2) & _). pose proof (conj Hsc (conj Hcc Hhb)) as HI.
  set (tid := h_text (get_tmpl w o)) in *.
  set (f1 := fun (w0 : world) (kv : bytes * option tree) => _).
  destruct (fold_Inv_text f1 (e_derived (n_esc (get_ns w nsid))) (fun w0 => (tid < length (w_text w0))%nat)) with (w := w) as (I1 & E1 & P1); [| exact HI | exact O2 |].
  { intros w0 [k v] I0 P0. unfold f1. cbn [fst snd]. destruct v as [tr|]; [|split; [exact I0 | split; [apply text_ext_refl | exact P0]]].
    destruct (assoc_get k _); [split; [exact I0 | split; [apply text_ext_refl | exact P0]]|].
    destruct (Inv_add_parse_tree w0 tid k tr I0 P0) as (Ia & Ea). split; [exact Ia | split; [exact Ea | destruct Ea; lia]]. }
  set (w1 := fold_left f1 _ w) in *.
  set (f2 := fun (w0 : world) (name : bytes) => _).
  destruct (fold_Inv_text f2 (edited_names (n_esc (get_ns w nsid))) (fun _ => True)) with (w := w1) as (I2 & E2 & _); [| exact I1 | exact I |].
  { intros w0 name I0 _. unfold f2.
    destruct (assoc_get name (get_common w0 _)) as [xt|] eqn:Ea; [|split; [exact I0 | split; [apply text_ext_refl | exact I]]].
    destruct (x_tree (get_text w0 xt)) as [tr|]; [|split; [exact I0 | split; [apply text_ext_refl | exact I]]].
    destruct (assoc_get_In _ _ _ Ea) as (k' & _ & Hin). destruct I0 as (Hsc0 & Hcc0 & Hhb0). destruct (Hcc0 _ _ _ Hin) as (B1 & _).
    split; [apply Inv_put_text; [exact (conj Hsc0 (conj Hcc0 Hhb0)) | exact B1 | reflexivity]|]. split; [|exact I].
    split; [rewrite length_put_text by exact B1; lia|]. intros q Hq. destruct (Nat.eq_dec xt q) as [->|Hne].
    - rewrite get_text_put_text_same. reflexivity.
    - rewrite get_text_put_text_other by exact Hne. reflexivity. }
  set (w2 := fold_left f2 _ w1) in *.
  split; [apply Inv_put_ns_same_set; [exact I2 | reflexivity] | eapply text_ext_trans; [exact E1 | exact E2]].
Qed.

Lemma text_ext_same w w' : w_text w' = w_text w -> text_ext w w'.
Proof. intros H. unfold text_ext, get_text. rewrite H. auto. Qed.

Lemma Inv_escape_template w nsid name : Inv w ->
  Inv (fst (escape_template w nsid name)) /\ text_ext w (fst (escape_template w nsid name)).
Proof.
  intros HI. unfold escape_template.
  destruct (ns_view w nsid) as [view|]; [|split; [exact HI | apply text_ext_refl]].
  destruct (escape_tree view analysis_fuel ctx0 name (n_esc (get_ns w nsid))) as [[[c dn] e1]|p]; [|split; [exact HI | apply text_ext_refl]].
  set (w1 := put_ns w nsid _).
  assert (I1 : Inv w1) by (apply Inv_put_ns_same_set; [exact HI | reflexivity]).
  assert (S1 : n_set (get_ns w1 nsid) = n_set (get_ns w nsid)) by (unfold w1; rewrite get_ns_put_ns_same; reflexivity).
  assert (E1 : text_ext w w1) by (apply text_ext_same; reflexivity).
  destruct (match c_err c with Some code => Some code | None => if state_eqb (c_state c) StText then None else Some ErrEndContext end) as [code|].
  - destruct (assoc_get name (n_set (get_ns w nsid))) as [o|] eqn:Em; cbn [fst]; [|split; [exact I1 | exact E1]].
    assert (Em1 : assoc_get name (n_set (get_ns w1 nsid)) = Some o) by (rewrite S1; exact Em).
    destruct I1 as (Hsc & Hcc & Hhb). destruct (Hsc nsid name o Em1) as ((O1 & O2) & O3 & O4). pose proof (conj Hsc (conj Hcc Hhb)) as I1.
    set (t := get_tmpl w1 o) in *.
    set (w2 := put_tmpl w1 o (mktmpl (EErr code) (h_text t) true (h_ns t))).
    assert (I2 : Inv w2) by (apply (Inv_put_tmpl_member w1 o _ nsid name I1 Em1); [exact O3 | exact O2 | exact O4]).
    split.
    + apply Inv_put_text; [exact I2 | exact O2 | reflexivity].
    + eapply text_ext_trans; [exact E1|]. split.
      * rewrite length_put_text by exact O2. cbn. lia.
      * intros q Hq. destruct (Nat.eq_dec (h_text t) q) as [<-|Hne].
        -- rewrite get_text_put_text_same. reflexivity.
        -- rewrite get_text_put_text_other by exact Hne. reflexivity.
  - destruct (Inv_commit w1 nsid I1) as (Ic & Ec).
    destruct (commit_frame w1 nsid) as (C1 & C2 & C3 & C4 & C5).
    destruct (assoc_get name (n_set (get_ns w nsid))) as [o|] eqn:Em; cbn [fst].
    + assert (Emc : assoc_get name (n_set (get_ns (commit w1 nsid) nsid)) = Some o) by (rewrite C4, S1; exact Em).
      destruct Ic as (Hsc & Hcc & Hhb). destruct (Hsc nsid name o Emc) as ((O1 & O2) & O3 & O4). pose proof (conj Hsc (conj Hcc Hhb)) as Ic.
      split.
      * apply (Inv_put_tmpl_member (commit w1 nsid) o _ nsid name Ic Emc); [exact O3 | exact O2 | exact O4].
      * eapply text_ext_trans; [exact E1|]. eapply text_ext_trans; [exact Ec|]. apply text_ext_same. reflexivity.
    + split; [exact Ic | eapply text_ext_trans; [exact E1 | exact Ec]].
Qed.

(* a member is registered under a name; a member it displaces is not referenced by any handle *)
Lemma Inv_put_ns_set w n x name o' : Inv w ->
  (forall e, assoc_get name (n_set (get_ns w n)) = Some e -> forall h, handle w h <> Some e) ->
  n_set x = assoc_set name o' (n_set (get_ns w n)) ->
  tmpl_ok w o' -> h_ns (get_tmpl w o') = n -> x_name (get_text w (h_text (get_tmpl w o'))) = name ->
  Inv (put_ns w n x).
Proof.
  intros (Hsc & Hcc & Hhb) Hdis Hx Ok1 Ok2 Ok3. set (w' := put_ns w n x).
  assert (Ht : forall o, get_tmpl w' o = get_tmpl w o) by reflexivity.
  assert (Hxx : forall tid, get_text w' tid = get_text w tid) by reflexivity.
  assert (Hsame : get_ns w' n = x) by apply get_ns_put_ns_same.
  assert (Hoth : forall m, n <> m -> get_ns w' m = get_ns w m) by (intros; apply get_ns_put_ns_other; assumption).
  unfold Inv, SC, CC, HB, tmpl_ok, registered, husk in *. split; [|split].
  - intros nsid nm o H. rewrite Ht, Hxx. destruct (Nat.eq_dec n nsid) as [<-|Hne].
    + rewrite Hsame, Hx, assoc_get_set_cases in H. destruct (bytes_eqb nm name) eqn:E.
      * inversion H; subst o. apply bytes_eqb_eq in E. subst nm. auto.
      * exact (Hsc n nm o H).
    + rewrite (Hoth nsid Hne) in H. exact (Hsc nsid nm o H).
  - exact Hcc.
  - intros h o H. assert (H' : handle w h = Some o) by exact H.
    destruct (Hhb h o H') as (A1 & A3). rewrite Ht, Hxx. split; [exact A1|].
    destruct A3 as [A3|A3]; [left | right; exact A3].
    destruct (Nat.eq_dec n (h_ns (get_tmpl w o))) as [E|Hne].
    + rewrite <- E in *. rewrite Hsame, Hx, assoc_get_set_cases.
      destruct (bytes_eqb (x_name (get_text w (h_text (get_tmpl w o)))) name) eqn:E2; [|exact A3].
      apply bytes_eqb_eq in E2. rewrite E2 in A3. exfalso. exact (Hdis o A3 h H').
    + rewrite (Hoth _ Hne). exact A3.
Qed.

(* a list of (name, text id) entries that is consistent in a world *)
Definition entries_ok (w : world) (l : list (bytes * nat)) : Prop :=
  forall name tid, In (name, tid) l -> (tid < length (w_text w))%nat /\ x_name (get_text w tid) = name.
Lemma entries_ok_ext w w' l : text_ext w w' -> entries_ok w l -> entries_ok w' l.
Proof. intros [E1 E2] H name tid Hin. destruct (H name tid Hin) as [A1 A2]. split; [lia | rewrite E2 by exact A1; exact A2]. Qed.

Definition ct_f (cid : nat) (xname : bytes) (w : world) (kv : bytes * nat) : world :=
  if bytes_eqb (fst kv) xname then w
  else let src := get_text w (snd kv) in
       let '(w, c) := new_text w (mktext (x_name src) (x_tree src) cid) in
       put_common w cid (assoc_set (fst kv) c (get_common w cid)).
Definition ct_wc (w : world) (x : textobj) : world :=
  let wb := fst (new_text (fst (new_common w)) (mktext (x_name x) (x_tree x) (length (w_common w)))) in
  match assoc_get (x_name x) (get_common wb (x_common x)) with
  | Some _ => put_common wb (length (w_common w)) [(x_name x, length (w_text w))]
  | None => wb
  end.
Lemma clone_text_eq w x :
  clone_text w x = (fold_left (ct_f (length (w_common w)) (x_name x)) (get_common w (x_common x)) (ct_wc w x),
                    length (w_common w), length (w_text w)).
Proof. reflexivity. Qed.

Lemma Inv_clone_text w x : Inv w ->
  let r := clone_text w x in let w1 := fst (fst r) in let cid := snd (fst r) in let ntid := snd r in
  Inv w1 /\ text_ext w w1 /\ (ntid < length (w_text w1))%nat /\ x_name (get_text w1 ntid) = x_name x /\
  entries_ok w1 (get_common w1 cid).
Proof.
  intros HI. rewrite clone_text_eq. cbn [fst snd]. unfold ct_wc.
  set (cid := length (w_common w)). set (ntid := length (w_text w)).
  set (wa := fst (new_common w)). assert (Ia : Inv wa) by (apply Inv_new_common; exact HI).
  set (wb := fst (new_text wa (mktext (x_name x) (x_tree x) cid))). assert (Ib : Inv wb) by (apply Inv_new_text; exact Ia).
  assert (Eb : text_ext w wb).
  { split; [unfold wb, wa; cbn; rewrite app_length; lia|]. intros t Ht. unfold wb. rewrite get_text_new_text_old by exact Ht. reflexivity. }
  assert (Xb : get_text wb ntid = mktext (x_name x) (x_tree x) cid) by (apply (get_text_new_text_new wa)).
  assert (Lb : (ntid < length (w_text wb))%nat) by (unfold wb, wa, ntid; cbn; rewrite app_length; cbn; lia).
  set (wc := match assoc_get (x_name x) (get_common wb (x_common x)) with Some _ => put_common wb cid [(x_name x, ntid)] | None => wb end).
  assert (Ic : Inv wc).
  { unfold wc. destruct (assoc_get _ _); [|exact Ib]. apply Inv_put_common; [exact Ib|].
    intros k t [H|[]]. inversion H; subst. split; [exact Lb | rewrite Xb; reflexivity]. }
  assert (Xc : forall t, get_text wc t = get_text wb t) by (intros t; unfold wc; destruct (assoc_get _ _); reflexivity).
  assert (Lc : length (w_text wc) = length (w_text wb)) by (unfold wc; destruct (assoc_get _ _); reflexivity).
  assert (Ec : text_ext w wc) by (eapply text_ext_trans; [exact Eb|]; split; [rewrite Lc; lia | intros t Ht; rewrite Xc; reflexivity]).
  (* the fold over the source association *)
  set (src := get_common w (x_common x)).
  assert (Hsrc : entries_ok w src) by (destruct HI as (_ & Hcc & _); intros k t Hin; exact (Hcc _ _ _ Hin)).
  fold wa. fold wb. fold wc. fold src. set (f0 := ct_f cid (x_name x)).
  assert (HF : forall l w0, Inv w0 -> text_ext wc w0 -> incl l src ->
               Inv (fold_left f0 l w0) /\ text_ext wc (fold_left f0 l w0)).
  { induction l as [|[k t] l IH]; intros w0 I0 E0 Hincl; cbn [fold_left]; [split; assumption|].
    assert (Hin : In (k, t) src) by (apply Hincl; left; reflexivity).
    assert (Hl' : incl l src) by (intros z Hz; apply Hincl; right; exact Hz).
    assert (Hstep : Inv (f0 w0 (k, t)) /\ text_ext w0 (f0 w0 (k, t))).
    { unfold f0, ct_f. cbn [fst snd]. destruct (bytes_eqb k (x_name x)); [split; [exact I0 | apply text_ext_refl]|].
      destruct (entries_ok_ext w w0 src (text_ext_trans _ _ _ Ec E0) Hsrc k t Hin) as (T1 & T2).
      cbn [new_text].
      set (w0a := mkworld (w_text w0 ++ [mktext (x_name (get_text w0 t)) (x_tree (get_text w0 t)) cid]) (w_common w0) (w_tmpl w0) (w_ns w0) (w_handles w0)).
      assert (I0a : Inv w0a) by (apply (Inv_new_text w0 _ I0)).
      assert (X0a : get_text w0a (length (w_text w0)) = mktext (x_name (get_text w0 t)) (x_tree (get_text w0 t)) cid) by (apply (get_text_new_text_new w0)).
      assert (E0a : text_ext w0 w0a).
      { split; [unfold w0a; cbn; rewrite app_length; lia|]. intros q Hq.
        assert (Q : get_text w0a q = get_text w0 q) by (apply (get_text_new_text_old w0 _ q Hq)). rewrite Q. reflexivity. }
      split; [| eapply text_ext_trans; [exact E0a|]; apply text_ext_same; reflexivity].
      apply Inv_put_common; [exact I0a|].
      intros k2 v2 Hin2. apply In_assoc_set in Hin2. destruct Hin2 as [Hin2|[Hk ->]].
      - destruct I0a as (_ & Hcc & _). exact (Hcc _ _ _ Hin2).
      - split; [unfold w0a; cbn; rewrite app_length; cbn; lia|]. rewrite X0a. cbn [x_name]. rewrite T2.
        destruct Hk as [->|Hk]; [reflexivity | apply bytes_eqb_eq in Hk; exact Hk]. }
    destruct Hstep as (Is & Es). apply IH; [exact Is | eapply text_ext_trans; [exact E0 | exact Es] | exact Hl']. }
  destruct (HF src wc Ic (text_ext_refl wc) (incl_refl src)) as (If & Ef).
  set (wf := fold_left f0 src wc) in *.
  split; [exact If|]. split; [eapply text_ext_trans; [exact Ec | exact Ef]|].
  destruct Ef as (Ef1 & Ef2).
  split; [rewrite Lc in Ef1; lia|]. split; [rewrite Ef2 by (rewrite Lc; exact Lb); rewrite Xc, Xb; reflexivity|].
  destruct If as (_ & Hcc & _). intros k t Hin. exact (Hcc _ _ _ Hin).
Qed.

(* ---- every API operation preserves the invariant ---- *)
Lemma fold_opt_Inv {A} (f : option world -> A -> option world) (P : world -> Prop) (l0 : list A) :
  (forall a, f None a = None) ->
  (forall w a w', In a l0 -> Inv w -> P w -> f (Some w) a = Some w' -> Inv w' /\ P w') ->
  forall l, incl l l0 -> forall w w', Inv w -> P w -> fold_left f l (Some w) = Some w' -> Inv w' /\ P w'.
Proof.
  intros Hn Hf. induction l as [|a l IH]; intros Hincl w w' HI HP H; simpl in H.
  - inversion H; subst. split; assumption.
  - destruct (f (Some w) a) as [w1|] eqn:E.
    + destruct (Hf w a w1 (Hincl a (or_introl eq_refl)) HI HP E) as (I1 & P1).
      apply (IH (fun z Hz => Hincl z (or_intror Hz)) w1 w' I1 P1 H).
    + exfalso. clear -H Hn. induction l as [|b l IHl]; simpl in H; [discriminate|]. rewrite Hn in H. auto.
Qed.

Lemma Inv_set_escaped w n : Inv w -> Inv (set_escaped w n).
Proof. intros H. unfold set_escaped. apply Inv_put_ns_same_set; [exact H | reflexivity]. Qed.

Lemma lookup_handle_ok w n name o : Inv w -> assoc_get name (n_set (get_ns w n)) = Some o ->
  tmpl_ok w o /\ (registered w o \/ husk w o).
Proof.
  intros (Hsc & _ & _) H. destruct (Hsc n name o H) as (A1 & A2 & A3). split; [exact A1|]. left.
  unfold registered. rewrite A2, A3. exact H.
Qed.

Lemma Inv_step_clone w h : Inv w -> Inv (fst (step w (OClone h))).
Proof.
  intros HI. cbn [step]. destruct (handle w h) as [obj|] eqn:Eh; [|exact HI].
  destruct (h_err (get_tmpl w obj)); try exact HI.
  set (x := get_text w (h_text (get_tmpl w obj))).
  destruct (Inv_clone_text w x HI) as (I1 & E1 & L1 & X1 & C1).
  pose proof (clone_text_frame w x) as (F1 & F2 & F3).
  destruct (clone_text w x) as [[w1 cid] ntid]. cbn [fst snd] in *.
  cbn [new_ns new_tmpl].
  set (nsid := length (w_ns w1)). set (ret := length (w_tmpl w1)).
  set (w2 := mkworld (w_text w1) (w_common w1) (w_tmpl w1) (w_ns w1 ++ [mknsp [] false false esc_empty]) (w_handles w1)).
  set (t0 := mktmpl ENotYet ntid (match x_tree x with None => true | Some _ => false end) nsid).
  set (w3 := mkworld (w_text w2) (w_common w2) (w_tmpl w2 ++ [t0]) (w_ns w2) (w_handles w2)).
  change (length (w_tmpl w2)) with ret.
  (* the new, still empty name space *)
  assert (I2 : Inv w2).
  { destruct I1 as (Hsc & Hcc & Hhb).
    assert (Hset : forall m, n_set (get_ns w2 m) = n_set (get_ns w1 m)).
    { intros m. destruct (Nat.eq_dec m nsid) as [->|Hm].
      - assert (Q : get_ns w2 nsid = mknsp [] false false esc_empty) by (apply (get_ns_new_ns_new w1)). rewrite Q.
        unfold get_ns. rewrite nth_overflow by (unfold nsid; lia). reflexivity.
      - assert (Q : get_ns w2 m = get_ns w1 m) by (apply (get_ns_new_ns_other w1 _ m Hm)). rewrite Q. reflexivity. }
    unfold Inv, SC, CC, HB, tmpl_ok, registered, husk in *. split; [|split].
    - intros n nm o H. rewrite Hset in H. exact (Hsc n nm o H).
    - exact Hcc.
    - intros h0 o H. assert (H' : handle w1 h0 = Some o) by exact H. destruct (Hhb h0 o H') as (A1 & A3).
      split; [exact A1|]. rewrite Hset. exact A3. }
  assert (I3 : Inv w3) by (apply (Inv_new_tmpl w2 t0 I2)).
  assert (G3 : get_tmpl w3 ret = t0) by (apply (get_tmpl_new_tmpl_new w2)).
  assert (N3 : n_set (get_ns w3 nsid) = []).
  { assert (Q : get_ns w2 nsid = mknsp [] false false esc_empty) by (apply (get_ns_new_ns_new w1)).
    change (get_ns w3 nsid) with (get_ns w2 nsid). rewrite Q. reflexivity. }
  set (w4 := put_ns w3 nsid (mknsp [(x_name x, ret)] false false esc_empty)).
  assert (I4 : Inv w4).
  { apply Inv_put_ns_fresh; [exact I3 | exact N3|].
    intros nm o H. cbn [n_set assoc_get] in H. destruct (bytes_eqb nm (x_name x)) eqn:E; [|discriminate].
    assert (Eo : o = ret) by (inversion H; reflexivity). subst o. apply bytes_eqb_eq in E. subst nm.
    unfold tmpl_ok. rewrite G3. cbn [h_text h_ns].
    split; [split; [unfold w3, w2, ret; cbn; rewrite app_length; cbn; lia | exact L1]|]. split; [reflexivity | exact X1]. }
  (* the members *)
  set (P := fun w0 : world => w_handles w0 = w_handles w1 /\ text_ext w1 w0 /\ (length (w_tmpl w1) <= length (w_tmpl w0))%nat /\
                              (forall e nm, assoc_get nm (n_set (get_ns w0 nsid)) = Some e -> (length (w_tmpl w1) <= e)%nat)).
  assert (P4 : P w4).
  { unfold P. split; [reflexivity|]. split; [apply text_ext_same; reflexivity|].
    split; [unfold w4, w3, w2; cbn; rewrite app_length; lia|].
    intros e nm H. unfold w4 in H. rewrite get_ns_put_ns_same in H. cbn [n_set assoc_get] in H.
    destruct (bytes_eqb nm (x_name x)); [|discriminate]. inversion H. unfold ret. lia. }
  assert (Hb1 : forall h0 o, handle w1 h0 = Some o -> (o < length (w_tmpl w1))%nat).
  { intros h0 o H. destruct I1 as (_ & _ & Hhb). destruct (Hhb h0 o H) as ((A1 & _) & _). exact A1. }
  destruct (fold_left (clone_member (get_ns w (h_ns (get_tmpl w obj))) nsid) (get_common w4 cid) (Some w4)) as [w5|] eqn:Ef; [|exact HI].
  cbn [fst].
  assert (Hents : entries_ok w1 (get_common w4 cid)) by exact C1.
  destruct (fold_opt_Inv (clone_member (get_ns w (h_ns (get_tmpl w obj))) nsid) P (get_common w4 cid)) with (l := get_common w4 cid) (w := w4) (w' := w5) as (I5 & P5);
    [| | apply incl_refl | exact I4 | exact P4 | exact Ef |].
  { intros a. reflexivity. }
  { intros w0 kv w' Hin I0 (Q1 & Q2 & Q3 & Q4) Hm. unfold clone_member in Hm.
    destruct (assoc_get (fst kv) _) as [srcm|]; [|discriminate].
    destruct (h_err (get_tmpl w0 srcm)); try discriminate.
    cbn [new_tmpl] in Hm.
    set (m := length (w_tmpl w0)) in *.
    set (tm := mktmpl ENotYet (snd kv) (match x_tree (get_text w0 (snd kv)) with None => true | Some _ => false end) nsid) in *.
    set (w0a := mkworld (w_text w0) (w_common w0) (w_tmpl w0 ++ [tm]) (w_ns w0) (w_handles w0)) in *.
    inversion Hm; subst w'. clear Hm.
    assert (I0a : Inv w0a) by (apply (Inv_new_tmpl w0 tm I0)).
    assert (G0a : get_tmpl w0a m = tm) by (apply (get_tmpl_new_tmpl_new w0)).
    destruct kv as [k tid]. cbn [fst snd] in *.
    destruct (entries_ok_ext w1 w0 _ Q2 Hents k tid Hin) as (T1 & T2).
    split.
    - apply (Inv_put_ns_set w0a nsid _ k m I0a).
      + intros e He h0 Hh. change (get_ns w0a nsid) with (get_ns w0 nsid) in He. pose proof (Q4 e k He) as Hge.
        assert (Hh1 : handle w1 h0 = Some e) by (unfold handle in *; change (w_handles w0a) with (w_handles w0) in Hh; rewrite Q1 in Hh; exact Hh).
        pose proof (Hb1 h0 e Hh1). lia.
      + reflexivity.
      + unfold tmpl_ok. rewrite G0a. cbn [h_text]. split; [unfold w0a, m; cbn; rewrite app_length; cbn; lia | exact T1].
      + rewrite G0a. reflexivity.
      + rewrite G0a. cbn [h_text]. exact T2.
    - unfold P. split; [exact Q1|]. split; [eapply text_ext_trans; [exact Q2 | apply text_ext_same; reflexivity]|].
      split; [cbn; rewrite app_length; lia|].
      intros e nm He. rewrite get_ns_put_ns_same in He. cbn [n_set] in He. rewrite assoc_get_set_cases in He.
      destruct (bytes_eqb nm k); [inversion He; unfold m; lia | exact (Q4 e nm He)]. }
  apply Inv_add_handle; [exact I5|]. intros o Ho. eapply lookup_handle_ok; [exact I5 | exact Ho].
Qed.

Lemma sub_new_lookup w obj name :
  assoc_get name (n_set (get_ns (fst (sub_new w obj name)) (h_ns (get_tmpl w obj)))) = Some (snd (sub_new w obj name)).
Proof. rewrite sub_new_eq. cbv zeta. cbn [fst snd]. rewrite get_ns_put_ns_same. cbn [n_set]. apply assoc_get_set_same. Qed.

Lemma sub_new_fresh_text_ext w obj name :
  assoc_get name (n_set (get_ns w (h_ns (get_tmpl w obj)))) = None -> text_ext w (fst (sub_new w obj name)).
Proof.
  intros Hn. rewrite sub_new_eq. cbv zeta. cbn [fst]. unfold sn_w4.
  assert (E : get_ns (sn_w2 w obj name) (h_ns (get_tmpl w obj)) = get_ns w (h_ns (get_tmpl w obj))) by reflexivity.
  rewrite E, Hn. eapply text_ext_trans; [|apply text_ext_same; reflexivity].
  unfold sn_w2. set (wa := fst (new_text w (mktext name None (x_common (get_text w (h_text (get_tmpl w obj))))))).
  assert (Ea : text_ext w wa).
  { split; [unfold wa; cbn; rewrite app_length; lia|]. intros t Ht. unfold wa. rewrite get_text_new_text_old by exact Ht. reflexivity. }
  eapply text_ext_trans; [exact Ea | apply text_ext_same; reflexivity].
Qed.

Lemma Inv_step_parse w h p : Inv w -> Inv (fst (step w (OParse h p))).
Proof.
  intros HI. cbn [step]. destruct (handle w h) as [obj|] eqn:Eh; [|exact HI].
  destruct (n_escaped _); [exact HI|]. destruct p as [|trees]; [exact HI|]. cbn [fst].
  set (t := get_tmpl w obj). set (nsid0 := h_ns t).
  assert (Htid : (h_text t < length (w_text w))%nat) by (destruct HI as (_ & _ & Hhb); destruct (Hhb h obj Eh) as ((_ & A2) & _); exact A2).
  match goal with |- Inv (fold_left ?f2 (get_common (fold_left ?f1 trees w) ?c) (fold_left ?f1 trees w)) => set (F1 := f1); set (F2 := f2) end.
  destruct (fold_Inv_text F1 trees (fun w0 => (h_text t < length (w_text w0))%nat /\ w_tmpl w0 = w_tmpl w)) with (w := w) as (I1 & E1 & P1 & T1); [| exact HI | split; [exact Htid | reflexivity] |].
  { intros w0 kv I0 (P0 & T0). unfold F1. destruct (Inv_add_parse_tree w0 (h_text t) (fst kv) (snd kv) I0 P0) as (Ia & Ea).
    split; [exact Ia|]. split; [exact Ea|]. split; [destruct Ea; lia|].
    destruct (add_parse_tree_frame w0 (h_text t) (fst kv) (snd kv)) as (_ & B2 & _). rewrite B2. exact T0. }
  set (w1 := fold_left F1 trees w) in *.
  set (L := get_common w1 (x_common (get_text w1 (h_text t)))).
  assert (HL : entries_ok w1 L) by (destruct I1 as (_ & Hcc & _); intros k x Hin; exact (Hcc _ _ _ Hin)).
  assert (Hobj1 : h_ns (get_tmpl w1 obj) = nsid0) by (unfold get_tmpl; rewrite T1; reflexivity).
  assert (HF : forall l w0, incl l L -> Inv w0 -> text_ext w1 w0 -> h_ns (get_tmpl w0 obj) = nsid0 -> Inv (fold_left F2 l w0)).
  { induction l as [|[name xt] l IH]; intros w0 Hincl I0 E0 Ho; cbn [fold_left]; [exact I0|].
    assert (Hin : In (name, xt) L) by (apply Hincl; left; reflexivity).
    assert (Hl' : incl l L) by (intros z Hz; apply Hincl; right; exact Hz).
    destruct (entries_ok_ext w1 w0 L E0 HL name xt Hin) as (X1 & X2).
    assert (Hstep : Inv (F2 w0 (name, xt)) /\ text_ext w0 (F2 w0 (name, xt)) /\ h_ns (get_tmpl (F2 w0 (name, xt)) obj) = nsid0).
    { unfold F2. cbn [fst snd]. fold t. fold nsid0.
      destruct (assoc_get name (n_set (get_ns w0 nsid0))) as [m|] eqn:Em.
      - destruct I0 as (Hsc & Hcc & Hhb). destruct (Hsc nsid0 name m Em) as (_ & M3 & _). pose proof (conj Hsc (conj Hcc Hhb)) as I0.
        split; [apply (Inv_put_tmpl_member w0 m _ nsid0 name I0 Em); [exact M3 | exact X1 | exact X2]|].
        split; [apply text_ext_same; reflexivity|].
        destruct (Nat.eq_dec m obj) as [->|Hne]; [rewrite get_tmpl_put_tmpl_same; cbn [h_ns]; exact Ho | rewrite get_tmpl_put_tmpl_other by exact Hne; exact Ho].
      - assert (Hn : assoc_get name (n_set (get_ns w0 (h_ns (get_tmpl w0 obj)))) = None) by (rewrite Ho; exact Em).
        destruct (Inv_sub_new w0 obj name I0) as (Is & _).
        pose proof (sub_new_lookup w0 obj name) as Hlk. rewrite Ho in Hlk.
        pose proof (sub_new_fresh_text_ext w0 obj name Hn) as Es.
        pose proof (sub_new_fresh_h_ns w0 obj name Hn obj) as Hh.
        destruct (sub_new w0 obj name) as [w' member]. cbn [fst snd] in *.
        destruct (entries_ok_ext w1 w' L (text_ext_trans _ _ _ E0 Es) HL name xt Hin) as (Y1 & Y2).
        destruct Is as (Hsc & Hcc & Hhb). destruct (Hsc nsid0 name member Hlk) as (_ & M3 & _). pose proof (conj Hsc (conj Hcc Hhb)) as Is.
        assert (Ho' : h_ns (get_tmpl w' obj) = nsid0) by (destruct Hh as [E|E]; rewrite E; exact Ho).
        split; [apply (Inv_put_tmpl_member w' member _ nsid0 name Is Hlk); [exact M3 | exact Y1 | exact Y2]|].
        split; [eapply text_ext_trans; [exact Es | apply text_ext_same; reflexivity]|].
        destruct (Nat.eq_dec member obj) as [->|Hne]; [rewrite get_tmpl_put_tmpl_same; cbn [h_ns]; exact Ho' | rewrite get_tmpl_put_tmpl_other by exact Hne; exact Ho']. }
    destruct Hstep as (Is & Es & Hs). apply IH; [exact Hl' | exact Is | eapply text_ext_trans; [exact E0 | exact Es] | exact Hs]. }
  apply HF; [apply incl_refl | exact I1 | apply text_ext_refl | exact Hobj1].
Qed.

Theorem Inv_step w op : Inv w -> Inv (fst (step w op)).
Proof.
  intros HI. destruct op as [name|h name|h p|h|h name|h|h name|h|h].
  - (* New *) cbn [step]. destruct (Inv_alloc_new w name HI) as (I1 & F1 & F2 & F3 & _).
    destruct (alloc_new w name) as [w1 obj]. cbn [fst snd] in *.
    apply Inv_add_handle; [exact I1|]. intros o Ho. inversion Ho; subst o. split; [exact F1 | left; exact F2].
  - (* t.New *) cbn [step]. destruct (handle w h) as [obj|]; [|exact HI].
    destruct (Inv_sub_new w obj name HI) as (I1 & F1 & F2 & F3 & _).
    destruct (sub_new w obj name) as [w1 o']. cbn [fst snd] in *.
    apply Inv_add_handle; [exact I1|]. intros o Ho. inversion Ho; subst o. split; [exact F1 | left; exact F2].
  - apply Inv_step_parse. exact HI.
  - apply Inv_step_clone. exact HI.
  - (* Lookup *) cbn [step]. destruct (handle w h) as [obj|]; [|exact HI]. cbn [fst].
    apply Inv_add_handle; [exact HI|]. intros o Ho. eapply lookup_handle_ok; [exact HI | exact Ho].
  - (* Execute *) cbn [step]. destruct (handle w h) as [obj|]; [|exact HI].
    pose proof (Inv_set_escaped w (h_ns (get_tmpl w obj)) HI) as IS.
    destruct (h_err (get_tmpl w obj)); cbn [fst]; try exact IS.
    destruct (h_tree_nil (get_tmpl w obj)); cbn [fst]; [exact IS|].
    match goal with |- context [escape_template ?a ?b ?c] =>
      pose proof (Inv_escape_template a b c IS) as (IE & _); destruct (escape_template a b c) as [w2 [[[code|]|pp]|]] end; cbn [fst] in *; exact IE.
  - (* ExecuteTemplate *) cbn [step]. destruct (handle w h) as [obj|]; [|exact HI].
    pose proof (Inv_set_escaped w (h_ns (get_tmpl w obj)) HI) as IS.
    destruct (assoc_get name _) as [m|]; cbn [fst]; [|exact IS].
    destruct (h_err (get_tmpl _ m)); cbn [fst]; try exact IS;
      destruct (x_tree _); cbn [fst]; try exact IS;
      destruct (assoc_get name (get_common _ _)); cbn [fst]; try exact IS.
    match goal with |- context [escape_template ?a ?b ?c] =>
      pose proof (Inv_escape_template a b c IS) as (IE & _); destruct (escape_template a b c) as [w2 [[[code|]|pp]|]] end; cbn [fst] in *; exact IE.
  - cbn [step]. destruct (handle w h); exact HI.
  - cbn [step]. destruct (handle w h) as [obj|]; [|exact HI]. cbn [fst]. apply Inv_put_ns_same_set; [exact HI | reflexivity].
Qed.

Lemma Inv_world0 : Inv world0.
Proof.
  unfold Inv, SC, CC, HB. split; [|split].
  - intros nsid name o H. unfold get_ns in H. cbn in H. destruct nsid; discriminate H.
  - intros cid name tid H. unfold get_common in H. cbn in H. destruct cid; contradiction.
  - intros h o H. unfold handle in H. cbn in H. destruct h; discriminate H.
Qed.

Theorem Inv_run_from ops : forall w, Inv w -> Inv (run_from w ops).
Proof. induction ops as [|op ops IH]; intros w H; cbn [run_from fold_left]; [exact H | apply IH, Inv_step, H]. Qed.

(* every world the API can reach is well formed *)
Theorem Inv_reachable ops : Inv (run_from world0 ops).
Proof. apply Inv_run_from, Inv_world0. Qed.

(* REG: in every reachable world, every handle the client holds either denotes the member its set
   registers under its own name, or an empty shell that can never be executed *)
Theorem handles_registered ops h obj :
  let w := run_from world0 ops in
  handle w h = Some obj -> registered w obj \/ husk w obj.
Proof. intros w H. destruct (Inv_reachable ops) as (_ & _ & Hhb). exact (proj2 (Hhb h obj H)). Qed.

(* ---- the sticky failure, without the hypothesis on Execute ---- *)
Definition no_redefine (w : world) (op : op) : Prop :=
  match op with
  | OSubNew h name => forall obj, handle w h = Some obj -> assoc_get name (n_set (get_ns w (h_ns (get_tmpl w obj)))) = None
  | _ => True
  end.
Fixpoint no_redefine_hist (w : world) (ops : list op) : Prop :=
  match ops with
  | [] => True
  | op :: rest => no_redefine w op /\ no_redefine_hist (fst (step w op)) rest
  end.

Lemma keeps_execute_husk o c w h0 obj0 : handle w h0 = Some obj0 -> husk w obj0 -> keeps o c w (fst (step w (OExecute h0))).
Proof.
  intros Hh (H1 & H2). cbn [step]. rewrite Hh, H1, H2. cbn [fst]. apply keeps_same; reflexivity.
Qed.

Lemma step_keeps_error_wf o c w op : Inv w -> no_redefine w op -> keeps o c w (fst (step w op)).
Proof.
  intros HI Hn. destruct op as [name|h name|h p|h|h name|h0|h name|h|h];
    try (apply step_keeps_error; exact I); try (apply step_keeps_error; exact Hn).
  destruct (handle w h0) as [obj0|] eqn:Eh; [|cbn [step]; rewrite Eh; apply keeps_refl].
  destruct HI as (_ & _ & Hhb). destruct (Hhb h0 obj0 Eh) as (_ & [Hr|Hk]).
  - apply step_keeps_error. cbn [allowed]. intros obj1 H1. rewrite Eh in H1. inversion H1; subst obj1. right. exact Hr.
  - apply (keeps_execute_husk o c w h0 obj0 Eh Hk).
Qed.

Lemma run_from_keeps_error_wf o c ops : forall w, Inv w -> no_redefine_hist w ops -> keeps o c w (run_from w ops).
Proof.
  induction ops as [|op ops IH]; intros w HI Hn; cbn [run_from fold_left]; [apply keeps_refl|].
  destruct Hn as [Hn1 Hn2]. apply (keeps_trans o c w (fst (step w op))); [apply step_keeps_error_wf; [exact HI | exact Hn1]|].
  apply (IH (fst (step w op))); [apply Inv_step; exact HI | exact Hn2].
Qed.

(* C05 over histories, full: in every reachable world, the analysis error recorded on a template stays
   on it through EVERY later history of API calls in which t.New does not redefine an existing name:
   the handle keeps denoting the object, the error stays, Execute returns it and writes nothing *)
Theorem sticky_forever_reachable ops0 h o code ops :
  let w := run_from world0 ops0 in
  handle w h = Some o -> h_err (get_tmpl w o) = EErr code -> no_redefine_hist w ops ->
  let w' := run_from w ops in
  handle w' h = Some o /\ h_err (get_tmpl w' o) = EErr code /\
  snd (step w' (OExecute h)) = RErrEscape code.
Proof.
  intros w Hh He Hn w'.
  destruct (run_from_keeps_error_wf o code ops w (Inv_reachable ops0) Hn) as [K1 K2].
  destruct (K1 (conj (err_in_range w o code He) He)) as [_ He'].
  assert (Hh' : handle w' h = Some o).
  { unfold handle in *. destruct (nth_error (w_handles w) h) as [[x|]|] eqn:E; try discriminate.
    inversion Hh; subst x. fold w' in K2. rewrite (K2 h (Some o) E). reflexivity. }
  split; [exact Hh'|]. split; [exact He'|]. apply (sticky_execute w' h o code Hh' He').
Qed.

Theorem sticky_forever_by_name_reachable ops0 o code ops h' obj' name :
  let w := run_from world0 ops0 in
  h_err (get_tmpl w o) = EErr code -> no_redefine_hist w ops ->
  let w' := run_from w ops in
  handle w' h' = Some obj' ->
  assoc_get name (n_set (get_ns w' (h_ns (get_tmpl w' obj')))) = Some o ->
  snd (step w' (OExecuteTemplate h' name)) = RErrEscape code.
Proof.
  intros w He Hn w' Hh' Hm.
  destruct (run_from_keeps_error_wf o code ops w (Inv_reachable ops0) Hn) as [K1 _].
  destruct (K1 (conj (err_in_range w o code He) He)) as [_ He'].
  apply (sticky_execute_template w' h' obj' name o code Hh' Hm He').
Qed.
