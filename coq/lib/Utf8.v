(* Go's UTF-8 decoding of a byte string into runes (what `for _, r := range s`,
   []rune(s), regexp and strings.ToLower see): an invalid or truncated sequence
   yields U+FFFD and consumes ONE byte.  Encoding as string(rune) does it. *)
From V Require Import lib.Base.

Definition FFFD : N := 65533.

Definition cont (b : N) : bool := (128 <=? b) && (b <=? 191).

(* accept range of the second byte, per first byte (unicode/utf8 acceptRanges) *)
Definition acc3 (b0 b1 : N) : bool :=
  if b0 =? 224 then (160 <=? b1) && (b1 <=? 191)
  else if b0 =? 237 then (128 <=? b1) && (b1 <=? 159)
  else cont b1.
Definition acc4 (b0 b1 : N) : bool :=
  if b0 =? 240 then (144 <=? b1) && (b1 <=? 191)
  else if b0 =? 244 then (128 <=? b1) && (b1 <=? 143)
  else cont b1.

Fixpoint decode_runes (s : bytes) : list N :=
  match s with
  | [] => []
  | b0 :: r0 =>
      if b0 <? 128 then b0 :: decode_runes r0
      else if (194 <=? b0) && (b0 <=? 223) then
        match r0 with
        | b1 :: r1 =>
            if cont b1 then ((b0 - 192) * 64 + (b1 - 128)) :: decode_runes r1
            else FFFD :: decode_runes r0
        | _ => FFFD :: decode_runes r0
        end
      else if (224 <=? b0) && (b0 <=? 239) then
        match r0 with
        | b1 :: b2 :: r2 =>
            if acc3 b0 b1 && cont b2
            then ((b0 - 224) * 4096 + (b1 - 128) * 64 + (b2 - 128)) :: decode_runes r2
            else FFFD :: decode_runes r0
        | _ => FFFD :: decode_runes r0
        end
      else if (240 <=? b0) && (b0 <=? 244) then
        match r0 with
        | b1 :: b2 :: b3 :: r3 =>
            if acc4 b0 b1 && cont b2 && cont b3
            then ((b0 - 240) * 262144 + (b1 - 128) * 4096 + (b2 - 128) * 64 + (b3 - 128))
                   :: decode_runes r3
            else FFFD :: decode_runes r0
        | _ => FFFD :: decode_runes r0
        end
      else FFFD :: decode_runes r0
  end.

Definition is_surrogate (r : N) : bool := (55296 <=? r) && (r <=? 57343).

(* utf8.EncodeRune / string(rune): invalid runes are encoded as U+FFFD *)
Definition encode_rune (r : N) : bytes :=
  if r <? 128 then [r]
  else if r <? 2048 then [192 + r / 64; 128 + r mod 64]
  else if is_surrogate r || (1114111 <? r) then [239; 191; 189]
  else if r <? 65536 then [224 + r / 4096; 128 + (r / 64) mod 64; 128 + r mod 64]
  else [240 + r / 262144; 128 + (r / 4096) mod 64; 128 + (r / 64) mod 64; 128 + r mod 64].

Definition encode_runes (l : list N) : bytes := flat_map encode_rune l.

Definition utf8_valid (s : bytes) : bool := bytes_eqb (encode_runes (decode_runes s)) s.
