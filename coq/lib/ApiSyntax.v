(* Syntax of the API table that the translator section harness/cmd/gen/gen_api.go emits into
   gen/GenApi.v (property C19): type expressions as they are written in the Go source, function
   and method signatures, type declarations, package-level variables.  Data types only.

   Package identifiers: the two analysed packages are written by their package names
   ("safehtml", "template"); every other package by its full import path ("text/template",
   "flag", "io", ...), so that text/template.Template and the analysed template.Template differ.
   Universe identifiers (string, error, bool, ...) have the empty package. *)
From V Require Import lib.Base.
Local Open Scope N_scope.

Inductive texpr : Type :=
| TName (pkg name : bytes)
| TPtr (t : texpr)
| TSlice (t : texpr)
| TVariadic (t : texpr)
| TMap (k v : texpr)
| TFunc
| TInterface
| TOther (text : bytes).

Fixpoint texpr_eqb (a b : texpr) : bool :=
  match a, b with
  | TName p n, TName q m => bytes_eqb p q && bytes_eqb n m
  | TPtr x, TPtr y => texpr_eqb x y
  | TSlice x, TSlice y => texpr_eqb x y
  | TVariadic x, TVariadic y => texpr_eqb x y
  | TMap k v, TMap k' v' => texpr_eqb k k' && texpr_eqb v v'
  | TFunc, TFunc => true
  | TInterface, TInterface => true
  | TOther x, TOther y => bytes_eqb x y
  | _, _ => false
  end.

(* exported function or method; f_recv is the receiver's base type name, empty for a function *)
Record api_func : Type := mk_func {
  f_pkg : bytes;
  f_recv : bytes;
  f_recv_ptr : bool;
  f_name : bytes;
  f_params : list (bytes * texpr);      (* (parameter name, type expression), one entry per name *)
  f_results : list texpr
}.

Inductive tform : Type := Defined | Alias.

(* struct field: name, exported?, embedded?, type.  An embedded field is named by its type name. *)
Definition api_field : Type := (bytes * bool * bool * texpr)%type.

Inductive ushape : Type :=
| UString
| UStruct (fields : list api_field)
| UOther.

Record api_type : Type := mk_type {
  t_pkg : bytes;
  t_name : bytes;
  t_exported : bool;
  t_form : tform;
  t_under : ushape
}.

(* exported package-level variable; the type is TOther "<inferred>" when the declaration has none *)
Record api_var : Type := mk_var {
  v_pkg : bytes;
  v_name : bytes;
  v_type : texpr
}.
