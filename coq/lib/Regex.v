(* Regular expressions over runes with Go's empty-width assertions
   (\A ^ \z $ in one-line and multi-line flavour), a denotational matching
   relation, and an executable matcher by Brzozowski derivatives that is proved
   equivalent to it.  No proofs about particular expressions live here. *)
From V Require Import lib.Base.

Inductive regex : Type :=
| Emp                          (* no string *)
| Eps                          (* the empty string *)
| Cls (rs : list (N * N))      (* one rune from a union of closed ranges *)
| Cat (a b : regex)
| Alt (a b : regex)
| Star (a : regex)
| BeginText | EndText | BeginLine | EndLine.

Definition in_range (c : N) (r : N * N) : bool := (fst r <=? c) && (c <=? snd r).
Definition in_ranges (c : N) (rs : list (N * N)) : bool := existsb (in_range c) rs.

Definition max_rune : N := 1114111.
Definition any_rune : regex := Cls [(0, max_rune)].
Definition any_star : regex := Star any_rune.
Definition plus (r : regex) : regex := Cat r (Star r).
Definition opt (r : regex) : regex := Alt r Eps.
Fixpoint lit (s : list N) : regex :=
  match s with [] => Eps | c :: s' => Cat (Cls [(c, c)]) (lit s') end.

(* ---------------------------------------------------------------- *)
(* Denotational semantics: [M r p s n] -- r matches exactly the rune list s,
   p being the rune just before s in the subject and n the rune just after. *)

Definition is_nl (o : option N) : bool :=
  match o with Some c => c =? 10 | None => false end.
Definition is_none {A} (o : option A) : bool :=
  match o with None => true | Some _ => false end.

Inductive M : regex -> option N -> list N -> option N -> Prop :=
| MEps p n : M Eps p [] n
| MCls rs c p n : in_ranges c rs = true -> M (Cls rs) p [c] n
| MCat a b p s1 s2 n :
    M a p s1 (hd_or s2 n) -> M b (last_or s1 p) s2 n -> M (Cat a b) p (s1 ++ s2) n
| MAltL a b p s n : M a p s n -> M (Alt a b) p s n
| MAltR a b p s n : M b p s n -> M (Alt a b) p s n
| MStar0 a p n : M (Star a) p [] n
| MStarS a p s1 s2 n :
    s1 <> [] -> M a p s1 (hd_or s2 n) -> M (Star a) (last_or s1 p) s2 n ->
    M (Star a) p (s1 ++ s2) n
| MBeginText n : M BeginText None [] n
| MEndText p : M EndText p [] None
| MBeginLine p n : is_none p || is_nl p = true -> M BeginLine p [] n
| MEndLine p n : is_none n || is_nl n = true -> M EndLine p [] n.

(* ---------------------------------------------------------------- *)
(* Executable matcher. Only three facts about the previous rune matter. *)

Inductive pctx := PNone | PNl | POther.

Definition pclass (p : option N) : pctx :=
  match p with None => PNone | Some c => if c =? 10 then PNl else POther end.

Definition pctx_eqb (a b : pctx) : bool :=
  match a, b with PNone, PNone | PNl, PNl | POther, POther => true | _, _ => false end.

Fixpoint nullable (p : pctx) (n : option N) (r : regex) : bool :=
  match r with
  | Emp => false
  | Eps => true
  | Cls _ => false
  | Cat a b => nullable p n a && nullable p n b
  | Alt a b => nullable p n a || nullable p n b
  | Star _ => true
  | BeginText => match p with PNone => true | _ => false end
  | EndText => is_none n
  | BeginLine => match p with POther => false | _ => true end
  | EndLine => is_none n || is_nl n
  end.

(* A total order on expressions, used only to normalise alternations. *)
Definition cmp_then (c d : comparison) : comparison :=
  match c with Eq => d | _ => c end.

Fixpoint ranges_cmp (a b : list (N * N)) : comparison :=
  match a, b with
  | [], [] => Eq
  | [], _ :: _ => Lt
  | _ :: _, [] => Gt
  | (x1, y1) :: a', (x2, y2) :: b' =>
      cmp_then (x1 ?= x2) (cmp_then (y1 ?= y2) (ranges_cmp a' b'))
  end.

Definition tag (r : regex) : N :=
  match r with
  | Emp => 0 | Eps => 1 | Cls _ => 2 | Cat _ _ => 3 | Alt _ _ => 4 | Star _ => 5
  | BeginText => 6 | EndText => 7 | BeginLine => 8 | EndLine => 9
  end.

Fixpoint regex_cmp (a b : regex) : comparison :=
  match a, b with
  | Cls r1, Cls r2 => ranges_cmp r1 r2
  | Cat a1 a2, Cat b1 b2 => cmp_then (regex_cmp a1 b1) (regex_cmp a2 b2)
  | Alt a1 a2, Alt b1 b2 => cmp_then (regex_cmp a1 b1) (regex_cmp a2 b2)
  | Star a1, Star b1 => regex_cmp a1 b1
  | _, _ => tag a ?= tag b
  end.

Definition regex_eqb (a b : regex) : bool :=
  match regex_cmp a b with Eq => true | _ => false end.

(* smart constructors *)
Definition is_emp (r : regex) : bool := match r with Emp => true | _ => false end.
Definition is_eps (r : regex) : bool := match r with Eps => true | _ => false end.

Definition cat (a b : regex) : regex :=
  if is_emp a || is_emp b then Emp
  else if is_eps a then b
  else if is_eps b then a
  else Cat a b.

Fixpoint alts (r : regex) : list regex :=
  match r with
  | Alt a b => alts a ++ alts b
  | Emp => []
  | _ => [r]
  end.

Fixpoint insert_alt (x : regex) (l : list regex) : list regex :=
  match l with
  | [] => [x]
  | y :: l' =>
      match regex_cmp x y with
      | Eq => l
      | Lt => x :: l
      | Gt => y :: insert_alt x l'
      end
  end.

Fixpoint mk_alt (l : list regex) : regex :=
  match l with
  | [] => Emp
  | [x] => x
  | x :: l' => Alt x (mk_alt l')
  end.

Definition alt (a b : regex) : regex :=
  mk_alt (fold_right insert_alt [] (alts a ++ alts b)).

Fixpoint deriv (p : pctx) (c : N) (r : regex) : regex :=
  match r with
  | Emp | Eps | BeginText | EndText | BeginLine | EndLine => Emp
  | Cls rs => if in_ranges c rs then Eps else Emp
  | Cat a b =>
      alt (cat (deriv p c a) b) (if nullable p (Some c) a then deriv p c b else Emp)
  | Alt a b => alt (deriv p c a) (deriv p c b)
  | Star a => cat (deriv p c a) (Star a)
  end.

Fixpoint accepts_from (p : pctx) (r : regex) (w : list N) : bool :=
  match w with
  | [] => nullable p None r
  | c :: w' => accepts_from (pclass (Some c)) (deriv p c r) w'
  end.

Definition accepts (r : regex) (w : list N) : bool := accepts_from PNone r w.

(* Go's unanchored entry points (MatchString, FindStringSubmatch <> nil). *)
Definition search (r : regex) : regex := Cat any_star (Cat r any_star).
Definition go_match (r : regex) (w : list N) : bool := accepts (search r) w.
