(* Bytes, runes and small list utilities shared by the whole development. *)
From Coq Require Export List NArith Bool Lia.
From Coq Require Import String Ascii.
Export String.StringSyntax.
Export ListNotations.
Open Scope N_scope.

Definition bytes := list N.

(* Readable byte-string literals: B "abc". *)
Definition B (s : string) : bytes := map N_of_ascii (list_ascii_of_string s).
Arguments B s%string.

Definition wf_byte (b : N) : Prop := b < 256.
Definition wf_bytes (s : bytes) : Prop := Forall wf_byte s.

Fixpoint list_eqb {A} (eqb : A -> A -> bool) (a b : list A) : bool :=
  match a, b with
  | [], [] => true
  | x :: a', y :: b' => eqb x y && list_eqb eqb a' b'
  | _, _ => false
  end.

Definition bytes_eqb : bytes -> bytes -> bool := list_eqb N.eqb.

Lemma list_eqb_eq {A} (eqb : A -> A -> bool)
      (H : forall x y, eqb x y = true <-> x = y) :
  forall a b, list_eqb eqb a b = true <-> a = b.
Proof.
  induction a as [|x a IH]; destruct b as [|y b]; simpl; split; intro E;
    try reflexivity; try discriminate.
  - apply andb_true_iff in E as [E1 E2]. apply H in E1. apply IH in E2. congruence.
  - inversion E; subst. apply andb_true_iff; split; [apply H | apply IH]; reflexivity.
Qed.

Lemma bytes_eqb_eq a b : bytes_eqb a b = true <-> a = b.
Proof. apply list_eqb_eq. intros; apply N.eqb_eq. Qed.

Lemma bytes_eqb_refl a : bytes_eqb a a = true.
Proof. apply bytes_eqb_eq; reflexivity. Qed.

Fixpoint prefixb (p s : bytes) : bool :=
  match p, s with
  | [], _ => true
  | x :: p', y :: s' => N.eqb x y && prefixb p' s'
  | _ :: _, [] => false
  end.

Lemma prefixb_spec p s : prefixb p s = true <-> exists r, s = p ++ r.
Proof.
  revert s; induction p as [|x p IH]; intros s; simpl.
  - split; [intros _; exists s; reflexivity | reflexivity].
  - destruct s as [|y s].
    + split; [discriminate | intros [r Hr]; discriminate].
    + rewrite andb_true_iff, N.eqb_eq, IH. split.
      * intros [-> [r ->]]. exists r; reflexivity.
      * intros [r Hr]. inversion Hr; subst. split; [reflexivity | exists r; reflexivity].
Qed.

Definition mem_N (x : N) (l : list N) : bool := existsb (N.eqb x) l.

Lemma mem_N_In x l : mem_N x l = true <-> In x l.
Proof.
  unfold mem_N. rewrite existsb_exists. split.
  - intros [y [Hy E]]. apply N.eqb_eq in E. subst; assumption.
  - intros H. exists x. split; [assumption | apply N.eqb_refl].
Qed.

(* last element with a default given as an option, first element likewise *)
Definition hd_or {A} (l : list A) (d : option A) : option A :=
  match l with [] => d | x :: _ => Some x end.

Fixpoint last_or {A} (l : list A) (d : option A) : option A :=
  match l with [] => d | x :: l' => last_or l' (Some x) end.

Lemma last_or_app {A} (a b : list A) d : last_or (a ++ b) d = last_or b (last_or a d).
Proof. revert d; induction a as [|x a IH]; intros d; simpl; [reflexivity | apply IH]. Qed.

Lemma hd_or_app {A} (a b : list A) d : hd_or (a ++ b) d = hd_or a (hd_or b d).
Proof. destruct a; reflexivity. Qed.

(* N_seq lo n = [lo; lo+1; ...; lo+n-1] *)
Fixpoint N_seq (lo : N) (n : nat) : list N :=
  match n with O => [] | S n' => lo :: N_seq (lo + 1) n' end.

Lemma N_seq_In lo n x : In x (N_seq lo n) <-> lo <= x < lo + N.of_nat n.
Proof.
  revert lo; induction n as [|n IH]; intros lo; simpl N_seq.
  - simpl. lia.
  - simpl In. rewrite IH. lia.
Qed.

Definition all_bytes : list N := N_seq 0 256.

Lemma all_bytes_In b : b < 256 -> In b all_bytes.
Proof. intros H. apply N_seq_In. simpl. lia. Qed.

(* finite case analysis over bytes by computation *)
Lemma forall_byte (P : N -> bool) :
  forallb P all_bytes = true -> forall b, b < 256 -> P b = true.
Proof.
  intros H b Hb. rewrite forallb_forall in H. apply H. apply all_bytes_In; assumption.
Qed.
