(* Language inclusion between two expressions of lib/Regex.v, decided by exploring
   pairs of simultaneous derivatives over one representative per alphabet cell.
   The search is untrusted; [closed] re-checks its result (soundness in
   proofs/RegexDecideFacts.v). *)
From V Require Import lib.Base lib.Regex.

(* all range end points (lo and hi+1) of an expression *)
Fixpoint bounds (r : regex) : list N :=
  match r with
  | Cls rs => flat_map (fun x => [fst x; snd x + 1]) rs
  | Cat a b | Alt a b => bounds a ++ bounds b
  | Star a => bounds a
  | _ => []
  end.

Fixpoint dedup (l : list N) : list N :=
  match l with
  | [] => []
  | x :: l' => if mem_N x l' then dedup l' else x :: dedup l'
  end.

(* the greatest boundary <= c (0 if none) *)
Definition rep (bs : list N) (c : N) : N :=
  fold_left (fun acc b => if (b <=? c) && (acc <? b) then b else acc) bs 0.

Fixpoint ranges_ok (bs : list N) (r : regex) : bool :=
  match r with
  | Cls rs => forallb (fun x => mem_N (fst x) bs && mem_N (snd x + 1) bs) rs
  | Cat a b | Alt a b => ranges_ok bs a && ranges_ok bs b
  | Star a => ranges_ok bs a
  | _ => true
  end.

Record st := mkst { st_p : pctx; st_a : regex; st_b : regex; st_w : list N (* reversed witness *) }.

Definition st_eqb (x y : st) : bool :=
  pctx_eqb (st_p x) (st_p y) && regex_eqb (st_a x) (st_a y) && regex_eqb (st_b x) (st_b y).

Definition st_mem (x : st) (l : list st) : bool := existsb (st_eqb x) l.

Definition succ (x : st) (c : N) : st :=
  mkst (pclass (Some c)) (deriv (st_p x) c (st_a x)) (deriv (st_p x) c (st_b x)) (c :: st_w x).

Definition bad (x : st) : bool :=
  nullable (st_p x) None (st_a x) && negb (nullable (st_p x) None (st_b x)).

(* untrusted work-list exploration *)
Fixpoint explore (fuel : nat) (reps : list N) (todo seen : list st) : option (list st) :=
  match fuel with
  | O => None
  | S f =>
      match todo with
      | [] => Some seen
      | x :: todo' =>
          let news := fold_left (fun acc c =>
                         let y := succ x c in
                         if st_mem y seen || st_mem y acc then acc else y :: acc) reps [] in
          explore f reps (todo' ++ rev news) (news ++ seen)
      end
  end.

Definition closed (bs reps : list N) (S0 : st) (l : list st) : bool :=
  mem_N 10 bs && mem_N 11 bs && forallb (fun b => mem_N b reps) bs && mem_N 0 reps &&
  st_mem S0 l &&
  forallb (fun x =>
     ranges_ok bs (st_a x) && ranges_ok bs (st_b x) &&
     negb (bad x) &&
     forallb (fun c => st_mem (succ x c) l) reps) l.

Inductive verdict := Included | Counterexample (w : list N) | Unknown.

Definition incl_check (fuel : nat) (r1 r2 : regex) : verdict :=
  let bs := dedup (10 :: 11 :: bounds r1 ++ bounds r2) in
  let reps := 0 :: bs in
  let s0 := mkst PNone r1 r2 [] in
  match explore fuel reps [s0] [s0] with
  | None => Unknown
  | Some l =>
      match find bad l with
      | Some x =>
          let w := rev (st_w x) in
          if accepts r1 w && negb (accepts r2 w) then Counterexample w else Unknown
      | None => if closed bs reps s0 l then Included else Unknown
      end
  end.

Definition is_included (v : verdict) : bool :=
  match v with Included => true | _ => false end.

Definition incl_ok (r1 r2 : regex) : bool := is_included (incl_check 5000 r1 r2).
Definition equiv_ok (r1 r2 : regex) : bool := incl_ok r1 r2 && incl_ok r2 r1.
