(* C05, "a non-text end context": which static template texts MUST be refused, decided from the HTML
   tokenizer specification alone (not from the engine): a template without actions whose text leaves
   the tokenizer inside a tag, inside an attribute value, inside a comment, or inside the body of a
   script / style / textarea / title element can never be contextualized.  (States the tokenizer
   reaches after a lone tag opener or an unfinished markup declaration are left out: the engine turns
   those openers into text on purpose.) *)
From V Require Import lib.Base spec.HtmlTok.
Local Open Scope N_scope.

Definition ec_special (n : bytes) : bool :=
  bytes_eqb n (B "script") || bytes_eqb n (B "style") || bytes_eqb n (B "textarea") || bytes_eqb n (B "title").

Definition hard_non_text_state (s : hstate) : bool :=
  match s with
  | STagName | SBeforeAttrName | SAttrName | SAfterAttrName | SBeforeAttrValue
  | SAttrValueDQ | SAttrValueSQ | SAttrValueUnq | SAfterAttrValueQuoted | SSelfClosing => true
  | SComment | SCommentStart | SCommentStartDash | SCommentEndDash | SCommentEnd | SCommentEndBang
  | SCommentLT | SCommentLTBang | SCommentLTBangDash | SCommentLTBangDashDash => true
  | SRcdata n | SRawtext n => ec_special n
  | SScriptData | SScriptDataEscaped | SScriptDataDoubleEscaped => true
  | _ => false
  end.

(* the text of a template without actions must be refused *)
Definition static_text_must_be_refused (text : bytes) : bool :=
  hard_non_text_state (r_final (html_tokenize SData text)).
