(* C09 specification: the locking discipline and the publication protocol, as (1) a decidable check
   over the regenerated method summaries that names the offending (method, method, location) triples
   and (2) the property of thread programs that the data-race-freedom theorem needs.
   Written from the property text and the Go memory model, not from the code.  Definitions only. *)
From V Require Import lib.Base gen.GenLocks model.Conc.

(* ------------------------------------------------------------------ the policy *)

Inductive lkind : Type :=
  | Guarded (m : mutex)     (* lockset: every access holds m *)
  | Published (m : mutex)   (* written only inside a critical section of m; read inside one, or outside
                               by a thread that has completed a critical section of m before *)
  | ReadOnly.               (* never written by a method that may run concurrently *)

Definition policy := loc -> lkind.

(* (L) safehtml's own mutable state is guarded by ns.mu; Template.text is set by Parse/New only;
   (P) the Tree field of text templates and the parse nodes are published under ns.mu;
   text/template guards its maps by its own mutexes; a tree's Root field is fixed by the parser. *)
Definition c09_policy : policy := fun l =>
  match l with
  | LSet | LEscaped | LCsp | LEsc
  | LEscOutput | LEscDerived | LEscCalled | LEscActionEdits | LEscTemplateEdits | LEscTextEdits
  | LEscapeErr | LTreeField => Guarded NsMu
  | LTextPtr | LTreeRoot => ReadOnly
  | LTextTree | LNodes => Published NsMu
  | LTmplMap => Guarded MuTmpl
  | LFuncMaps => Guarded MuFuncs
  end.

(* ------------------------------------------------------------------ (1) the decidable check *)

Definition entry_ok (pol : policy) (e : entry) : bool :=
  match pol (e_loc e) with
  | Guarded m => mem_mutex m (e_held e)
  | Published m => mem_mutex m (e_held e) || (negb (e_write e) && e_after e)
  | ReadOnly => negb (e_write e)
  end.

Definition loc_name (l : loc) : bytes :=
  match l with
  | LSet => B "Set" | LEscaped => B "Escaped" | LCsp => B "Csp" | LEsc => B "Esc"
  | LEscOutput => B "Esc.output" | LEscDerived => B "Esc.derived" | LEscCalled => B "Esc.called"
  | LEscActionEdits => B "Esc.actionNodeEdits" | LEscTemplateEdits => B "Esc.templateNodeEdits"
  | LEscTextEdits => B "Esc.textNodeEdits"
  | LEscapeErr => B "EscapeErr" | LTreeField => B "TreeField" | LTextPtr => B "TextPtr"
  | LTextTree => B "TextTree" | LTreeRoot => B "TreeRoot" | LNodes => B "Nodes"
  | LTmplMap => B "TmplMap" | LFuncMaps => B "FuncMaps"
  end.

(* a method is clean when it was translated and every access it can make obeys the policy *)
Definition clean_method (name : bytes) : bool :=
  known_method name &&
  match method_bad name with [] => true | _ => false end &&
  forallb (entry_ok c09_policy) (method_entries name).

(* (partner method, offending method, location) *)
Definition triple := (bytes * (bytes * bytes))%type.
Definition triple_eqb (a b : triple) : bool :=
  bytes_eqb (fst a) (fst b) && bytes_eqb (fst (snd a)) (fst (snd b)) && bytes_eqb (snd (snd a)) (snd (snd b)).

Definition writes_loc (l : loc) (name : bytes) : bool :=
  existsb (fun e => loc_beq (e_loc e) l && e_write e) (method_entries name).

Fixpoint dedup_locs (seen : list loc) (l : list loc) : list loc :=
  match l with
  | [] => []
  | x :: r => if existsb (loc_beq x) seen then dedup_locs seen r else x :: dedup_locs (x :: seen) r
  end.

(* the offending triples of one method: for every location on which an access of the method breaks the
   policy, one triple per API method that writes the location (the partner of a two-goroutine witness),
   or the method itself when nobody writes it *)
Definition method_violations (name : bytes) : list triple :=
  (if known_method name then [] else [(name, (name, B "#unknown-method"))]) ++
  map (fun m => (name, (name, B "#untranslated: " ++ m))) (method_bad name) ++
  flat_map (fun l =>
              match filter (writes_loc l) api_methods with
              | [] => [(name, (name, loc_name l))]
              | ws => map (fun w => (w, (name, loc_name l))) ws
              end)
           (dedup_locs [] (map e_loc (filter (fun e => negb (entry_ok c09_policy e)) (method_entries name)))).

Definition lock_discipline_violations : list triple :=
  (if translated_locks then [] else [(B "#translator", (B "#translator", B "#untranslated"))]) ++
  flat_map method_violations api_methods.

Definition lock_discipline_ok : bool :=
  match lock_discipline_violations with [] => true | _ => false end.

Definition lock_discipline_ok_except (ex : list triple) : bool :=
  forallb (fun v => existsb (triple_eqb v) ex) lock_discipline_violations.

(* D9: DefinedTemplates reads every associated template's Tree under text/template's muTmpl only, while
   the failure path of escapeTemplate (reached from the four Execute methods) writes it under ns.mu *)
Definition d9_reader : bytes := B "Template.DefinedTemplates".
Definition d9_triples : list triple :=
  map (fun w => (w, (d9_reader, B "TextTree")))
      [ B "Template.Execute"; B "Template.ExecuteToHTML"; B "Template.ExecuteTemplate";
        B "Template.ExecuteTemplateToHTML" ].
Definition is_d9_triple (v : triple) : bool := existsb (triple_eqb v) d9_triples.

(* the gate: stays true when D9 is repaired *)
Definition lock_discipline_check : bool := lock_discipline_ok_except d9_triples.
Definition clean_except_d9 : bool :=
  forallb (fun n => bytes_eqb n d9_reader || clean_method n) api_methods.

(* ------------------------------------------------------------------ (2) the discipline of programs *)

(* [pre] is what the thread has done before the access *)
Definition access_ok (pol : policy) (pre : list action) (a : action) : Prop :=
  match a with
  | Wr l => match pol l with
            | Guarded m | Published m => In m (lockset pre)
            | ReadOnly => False
            end
  | Rd l => match pol l with
            | Guarded m => In m (lockset pre)
            | Published m => In m (lockset pre) \/ In m (doneset pre)
            | ReadOnly => True
            end
  | _ => True
  end.

Definition discipline_prog (pol : policy) (p : list action) : Prop :=
  forall pre a post, p = pre ++ a :: post -> access_ok pol pre a.

Definition discipline (pol : policy) (threads : list thread) : Prop :=
  forall th, In th threads -> discipline_prog pol (thread_prog th).

(* The dynamic half of the publication protocol, a property of the schedule (it reflects the
   data-dependent control flow of the engine, which the access summaries do not carry): a published
   location is written only before it is published.  Whenever a thread reads it outside the mutex,
   every write by another thread precedes - in the order of the schedule - the reader's LAST Lock of
   the publishing mutex before the read (the critical section in which the reader analysed the
   template itself or saw escapeErr = errEscapeOK).  A reader that never locked the mutex is not
   constrained: for it the condition is vacuous, and the static discipline is what rejects it. *)
Definition publication_order (pol : policy) (tr : list event) : Prop :=
  forall i j a t t' l m,
    pol l = Published m ->
    nth_error tr i = Some (t, Wr l) -> nth_error tr j = Some (t', Rd l) -> t <> t' ->
    ~ In m (lockset (proj t' (firstn j tr))) ->
    (a < j)%nat -> nth_error tr a = Some (t', Acq m) ->
    (forall a', (a < a')%nat -> (a' < j)%nat -> nth_error tr a' <> Some (t', Acq m)) ->
    (i < a)%nat.

(* an actual call conforms to the summary of its method when every access it makes is one the summary
   predicts, made with at least the predicted locks, and - where the summary says that a critical
   section of ns.mu has been completed before - after such a critical section *)
Definition conforms (ents : list entry) (o : op) : Prop :=
  forall pre a post l, o = pre ++ a :: post -> accesses a l ->
    exists e, In e ents /\ e_loc e = l /\ (e_write e = true <-> a = Wr l) /\
              (forall m, In m (e_held e) -> In m (lockset pre)) /\
              (e_after e = true -> In NsMu (doneset pre)).

Definition thread_conforms (names : list bytes) (th : thread) : Prop :=
  forall o, In o th -> exists n, In n names /\ conforms (method_entries n) o.

(* a decision procedure for [conforms], used for the non-vacuity examples and the D9 witness *)
Definition entry_matches (pre : list action) (l : loc) (w : bool) (e : entry) : bool :=
  loc_beq (e_loc e) l && Bool.eqb (e_write e) w &&
  forallb (fun m => mem_mutex m (lockset pre)) (e_held e) &&
  (negb (e_after e) || mem_mutex NsMu (doneset pre)).

Fixpoint conforms_b (ents : list entry) (pre0 : list action) (o : list action) : bool :=
  match o with
  | [] => true
  | a :: r =>
      match a with
      | Rd l => existsb (entry_matches pre0 l false) ents
      | Wr l => existsb (entry_matches pre0 l true) ents
      | _ => true
      end && conforms_b ents (pre0 ++ [a]) r
  end.

(* ------------------------------------------------------------------ linearisation at the level of critical sections *)

Section Linearisation.
  Variables (St Call Out : Type).
  (* the effect of one call on the shared state and what it returns: what its single critical section
     computes; the part of a call that runs after the critical section reads published, immutable
     trees only, so that its result is a function of what the critical section saw *)
  Variable step : Call -> St -> St * Out.

  Fixpoint run_seq (calls : list Call) (s : St) : list Out :=
    match calls with
    | [] => []
    | c :: r => let (s', x) := step c s in x :: run_seq r s'
    end.

  Fixpoint take_next (pcs : list (list Call)) (t : nat) : option (Call * list (list Call)) :=
    match pcs, t with
    | [], _ => None
    | p :: rest, O => match p with [] => None | c :: p' => Some (c, p' :: rest) end
    | p :: rest, S t' =>
        match take_next rest t' with None => None | Some (c, rest') => Some (c, p :: rest') end
    end.

  (* [cs]: the thread ids in the order in which their critical sections take place (the mutex makes
     that a total order) *)
  Fixpoint run_cs (pcs : list (list Call)) (cs : list nat) (s : St) : option (list (nat * Call * Out)) :=
    match cs with
    | [] => Some []
    | t :: r =>
        match take_next pcs t with
        | None => None
        | Some (c, pcs') =>
            let (s', x) := step c s in
            match run_cs pcs' r s' with None => None | Some res => Some ((t, c, x) :: res) end
        end
    end.

  Definition calls_of (t : nat) (res : list (nat * Call * Out)) : list Call :=
    map (fun r => snd (fst r)) (filter (fun r => Nat.eqb (fst (fst r)) t) res).
End Linearisation.

(* ------------------------------------------------------------------ classifier of race reports (D9) *)

(* The two stacks of a race report of the Go race detector, innermost frame first, as function names.
   D9 exactly when the innermost frames are text/template's DefinedTemplates on one side and
   safehtml's escapeTemplate (the failure path assigns t.text.Tree there) on the other. *)
Definition frame_defined_templates : bytes := B "text/template.(*Template).DefinedTemplates".
Definition frame_escape_template : bytes := B "github.com/google/safehtml/template.escapeTemplate".
Definition top_is (f : bytes) (st : list bytes) : bool :=
  match st with x :: _ => bytes_eqb x f | [] => false end.
Definition finding_D9_race (s1 s2 : list bytes) : bool :=
  (top_is frame_defined_templates s1 && top_is frame_escape_template s2) ||
  (top_is frame_escape_template s1 && top_is frame_defined_templates s2).
