(* C13 specification: what the TrustedResourceURL builders must guarantee, as boolean
   predicates over (inputs, the implementation's output).  Written from the property text, the
   documentation of the constructors and RFC 3986 (spec/Rfc3986.v), not from the code: the
   marker grammar, the documented prefix forms and the escaping are re-stated here
   independently of model/Trurl.v.  Plus the bridges from the regenerated patterns and the
   finding classifiers.  Definitions only. *)
From V Require Import lib.Base lib.Regex lib.RegexDecide lib.Utf8 gen.GenRegex model.UrlProc spec.Rfc3986.
Local Open Scope N_scope.

(* ------------------------------------------------------------------ *)
(* Markers: "%{" label "}" with a non-empty label of ASCII letters, digits and '_'.
   "Replace every marker" = scan from the left; where a marker starts, replace it and go on
   behind it; otherwise keep the byte. *)
Definition label_char (c : N) : bool := is_alpha c || is_digit c || (c =? 95).

Definition marker_at (s : bytes) : option (bytes * bytes) :=
  match s with
  | a :: b :: r =>
      if (a =? 37) && (b =? 123) then
        match take_while label_char r, drop_while label_char r with
        | (_ :: _) as l, c :: r' => if c =? 125 then Some (l, r') else None
        | _, _ => None
        end
      else None
  | _ => None
  end.

(* [skip] = bytes of the current marker still to be passed over *)
Fixpoint subst_from (f : bytes -> bytes) (skip : nat) (s : bytes) : bytes :=
  match s with
  | [] => []
  | c :: t =>
      match skip with
      | S k => subst_from f k t
      | O =>
          match marker_at s with
          | Some (l, _) => f l ++ subst_from f (length l + 2) t
          | None => c :: subst_from f O t
          end
      end
  end.

Definition subst_markers (f : bytes -> bytes) (format : bytes) : bytes := subst_from f O format.

Fixpoint labels_from (skip : nat) (s : bytes) : list bytes :=
  match s with
  | [] => []
  | c :: t =>
      match skip with
      | S k => labels_from k t
      | O =>
          match marker_at s with
          | Some (l, _) => l :: labels_from (length l + 2) t
          | None => labels_from O t
          end
      end
  end.

Definition marker_labels (format : bytes) : list bytes := labels_from O format.

(* ------------------------------------------------------------------ *)
(* "percent-encoded down to unreserved characters" *)
Definition hex_lower (d : N) : N := if d <? 10 then 48 + d else 87 + d.
Definition pct_triplet (c : N) : bytes := [37; hex_lower (c / 16); hex_lower (c mod 16)].
Definition spec_escape (s : bytes) : bytes :=
  flat_map (fun c => if unreserved c then [c] else pct_triplet c) s.

Definition is_lower_hex (c : N) : bool := is_digit c || ((97 <=? c) && (c <=? 102)).

(* every byte is unreserved or the '%' of a triplet with two lower-case hex digits *)
Fixpoint escaped_alphabet (s : bytes) : bool :=
  match s with
  | [] => true
  | c :: t =>
      if c =? 37 then
        match t with
        | h1 :: h2 :: r => is_lower_hex h1 && is_lower_hex h2 && escaped_alphabet r
        | _ => false
        end
      else unreserved c && escaped_alphabet t
  end.

Fixpoint lookup (k : bytes) (args : list (bytes * bytes)) : option bytes :=
  match args with
  | [] => None
  | (k', v) :: r => if bytes_eqb k' k then Some v else lookup k r
  end.

Definition arg_or_empty (args : list (bytes * bytes)) (l : bytes) : bytes :=
  match lookup l args with Some v => v | None => [] end.

(* the documented result *)
Definition expected_result (format : bytes) (args : list (bytes * bytes)) : bytes :=
  subst_markers (fun l => spec_escape (arg_or_empty args l)) format.

Definition all_labels_bound (format : bytes) (args : list (bytes * bytes)) : bool :=
  forallb (fun l => is_some (lookup l args)) (marker_labels format).

(* ------------------------------------------------------------------ *)
(* The documented prefix forms, on bytes, ASCII case-insensitively:
     https://<origin>/   //<origin>/   /<pathStart>   about:blank#
   <origin>: one or more of alphanumerics . : [ ] -      <pathStart>: anything but / and \ *)
Definition ascii_lower (c : N) : N := if (65 <=? c) && (c <=? 90) then c + 32 else c.

(* [p] is lower case *)
Fixpoint strip_ci (p s : bytes) : option bytes :=
  match p with
  | [] => Some s
  | x :: p' =>
      match s with
      | y :: s' => if ascii_lower y =? x then strip_ci p' s' else None
      | [] => None
      end
  end.

Definition origin_char (c : N) : bool :=
  is_alpha c || is_digit c || (c =? 46) || (c =? 58) || (c =? 91) || (c =? 93) || (c =? 45).

Definition origin_then_slash (s : bytes) : bool :=
  match take_while origin_char s, drop_while origin_char s with
  | _ :: _, c :: _ => c =? 47
  | _, _ => false
  end.

Definition spec_safe_prefix (s : bytes) : bool :=
  match strip_ci (B "https://") s with
  | Some r => origin_then_slash r
  | None =>
      match s with
      | a :: c :: r =>
          if a =? 47 then (if c =? 47 then origin_then_slash r else negb (c =? 92))
          else is_some (strip_ci (B "about:blank#") s)
      | _ => false
      end
  end.

(* ------------------------------------------------------------------ *)
(* Confinement: compare the result with the format in which every marker stands for "x". *)
Definition with_x (format : bytes) : bytes := subst_markers (fun _ => [120]) format.
Definition with_y (format : bytes) : bytes := subst_markers (fun _ => [121]) format.

Definition opt_bytes_eqb (a b : option bytes) : bool :=
  match a, b with
  | Some x, Some y => bytes_eqb x y
  | None, None => true
  | _, _ => false
  end.

Fixpoint common_prefix_len (a b : list bytes) : nat :=
  match a, b with
  | x :: a', y :: b' => if bytes_eqb x y then S (common_prefix_len a' b') else O
  | _, _ => O
  end.

(* number of leading path segments that the format spells out completely, i.e. the directory
   in front of the first segment that contains a marker (or in front of the file name) *)
Definition static_dir_len (format : bytes) : nat :=
  common_prefix_len (removelast (segments (uri_path (with_x format))))
                    (removelast (segments (uri_path (with_y format)))).

Definition same_scheme (o o0 : bytes) : bool := opt_bytes_eqb (uri_scheme o) (uri_scheme o0).
Definition same_authority (o o0 : bytes) : bool := opt_bytes_eqb (uri_authority o) (uri_authority o0).
Definition same_segment_count (o o0 : bytes) : bool :=
  Nat.eqb (length (segments (uri_path o))) (length (segments (uri_path o0))).
Definition same_query_fragment_presence (o o0 : bytes) : bool :=
  Bool.eqb (has_query o) (has_query o0) && Bool.eqb (has_fragment o) (has_fragment o0).

(* the path of [o] climbs no further above the directory spelled out by the format than the
   format itself does *)
Definition no_extra_climb (k : nat) (o o0 : bytes) : bool :=
  Nat.leb (climb O (skipn k (segments (uri_path o)))) (climb O (skipn k (segments (uri_path o0)))).

(* the same judged with remove_dot_segments on the path strings: if the normalised path of the
   format-with-x stays below the normalised static directory, so does the result's *)
Definition dir_string (k : nat) (o0 : bytes) : bytes :=
  flat_map (fun s => s ++ [47]) (firstn k (segments (uri_path o0))).
Definition stays_in_dir (k : nat) (o o0 : bytes) : bool :=
  let d := normalize_path (dir_string k o0) in
  negb (prefixb d (normalize_path (uri_path o0))) || prefixb d (normalize_path (uri_path o)).

(* 0 = every clause holds; otherwise the number of the first clause that fails *)
Definition confinement_verdict (k : nat) (o o0 : bytes) : N :=
  if negb (same_scheme o o0) then 5
  else if negb (same_authority o o0) then 6
  else if negb (same_segment_count o o0) then 7
  else if negb (same_query_fragment_presence o o0) then 8
  else if negb (no_extra_climb k o o0) then 9
  else if negb (stays_in_dir k o o0) then 10
  else 0.

(* trustedResourceURLFormat returned [out] without error *)
Definition format_verdict (format : bytes) (args : list (bytes * bytes)) (out : bytes) : N :=
  if negb (spec_safe_prefix format) then 1
  else if negb (all_labels_bound format args) then 2
  else if negb (bytes_eqb out (expected_result format args)) then 3
  else confinement_verdict (static_dir_len format) out (with_x format).

(* TrustedResourceURLAppend returned [out] without error: the base is the format, the appended
   string the only dynamic part *)
Definition append_verdict (t s out : bytes) : N :=
  if negb (spec_safe_prefix t) then 1
  else if negb (bytes_eqb out (t ++ spec_escape s)) then 3
  else confinement_verdict (length (removelast (segments (uri_path (t ++ [120]))))) out (t ++ [120]).

(* ------------------------------------------------------------------ *)
(* TrustedResourceURLWithParams: only the query component changes. *)
Definition pair_nonempty (kv : bytes * bytes) : bool :=
  match kv with (k, v) => match k, v with _ :: _, _ :: _ => true | _, _ => false end end.

Fixpoint strip_prefix (p s : bytes) : option bytes :=
  match p with
  | [] => Some s
  | x :: p' => match s with y :: s' => if x =? y then strip_prefix p' s' else None | [] => None end
  end.

Definition split_eq (s : bytes) : bytes * bytes :=
  (take_while (fun c => negb (c =? 61)) s,
   match drop_while (fun c => negb (c =? 61)) s with _ :: r => r | [] => [] end).

Definition pair_eqb (a b : bytes * bytes) : bool := bytes_eqb (fst a) (fst b) && bytes_eqb (snd a) (snd b).
Definition pair_mem (a : bytes * bytes) (l : list (bytes * bytes)) : bool := existsb (pair_eqb a) l.

(* the part of the new query that was added behind the old one *)
Definition added_query (old : option bytes) (q : bytes) : option bytes :=
  match old with
  | None => Some q
  | Some [] => Some q
  | Some o => strip_prefix (o ++ [38]) q
  end.

Definition params_verdict (t : bytes) (params : list (bytes * bytes)) (out : bytes) : N :=
  let ne := filter pair_nonempty params in
  match ne with
  | [] => if bytes_eqb out t then 0 else 1
  | _ =>
      if negb (opt_bytes_eqb (uri_scheme out) (uri_scheme t)) then 2
      else if negb (opt_bytes_eqb (uri_authority out) (uri_authority t)) then 3
      else if negb (bytes_eqb (uri_path out) (uri_path t)) then 4
      else if negb (opt_bytes_eqb (uri_fragment out) (uri_fragment t)) then 5
      else
        match uri_query out with
        | None => 6
        | Some q =>
            match added_query (uri_query t) q with
            | None => 6                                           (* existing parameters lost *)
            | Some a =>
                let ps := split_on 38 a in
                if negb (forallb (fun p => escaped_alphabet (fst (split_eq p)) && escaped_alphabet (snd (split_eq p))) ps)
                then 7
                else
                  let dec := map (fun p => (pct_decode (fst (split_eq p)), pct_decode (snd (split_eq p)))) ps in
                  if Nat.eqb (length dec) (length ne) && forallb (fun kv => pair_mem kv dec) ne
                  then 0 else 8
            end
        end
  end.

(* ------------------------------------------------------------------ *)
(* Specification expressions for the three regenerated patterns, and the bridges. *)
Definition c1 (c : N) : list (N * N) := [(c, c)].
Definition ci (u : N) : list (N * N) := [(u, u); (u + 32, u + 32)].        (* u upper case *)
Fixpoint cls_seq (l : list (list (N * N))) : regex :=
  match l with
  | [] => Eps
  | rs :: r => Cat (Cls rs) (cls_seq r)
  end.

(* Go's (?i) folds through Unicode: s ~ U+017F, k ~ U+212A (finding D22) *)
Definition ci_s : list (N * N) := [(83, 83); (115, 115); (383, 383)].
Definition ci_k : list (N * N) := [(75, 75); (107, 107); (8490, 8490)].
Definition origin_cls : list (N * N) := [(45, 46); (48, 58); (65, 91); (93, 93); (97, 122)].
Definition origin_cls_fold : list (N * N) := origin_cls ++ [(383, 383); (8490, 8490)].
Definition not_slash_backslash : list (N * N) := [(0, 46); (48, 91); (93, 1114111)].

Definition S_https (s_cls : list (N * N)) : regex := cls_seq [ci 72; ci 84; ci 84; ci 80; s_cls; c1 58].
Definition S_about (k_cls : list (N * N)) : regex :=
  cls_seq [ci 65; ci 66; ci 79; ci 85; ci 84; c1 58; ci 66; ci 76; ci 65; ci 78; k_cls; c1 35].
Definition S_origin (o_cls : list (N * N)) : regex :=
  Cat (cls_seq [c1 47; c1 47]) (Cat (plus (Cls o_cls)) (Cls (c1 47))).

Definition S_prefix_with (s_cls k_cls o_cls : list (N * N)) : regex :=
  Cat BeginText
    (Alt (Cat (S_https s_cls) (S_origin o_cls))
    (Alt (S_origin o_cls)
    (Alt (cls_seq [c1 47; not_slash_backslash])
         (S_about k_cls)))).

(* the documented forms (ASCII) and the same with the two extra runes of Go's case folding *)
Definition S_prefix : regex := S_prefix_with (ci 83) (ci 75) origin_cls.
Definition S_prefix_fold : regex := S_prefix_with ci_s ci_k origin_cls_fold.

Definition fold_rune (c : N) : bool := (c =? 383) || (c =? 8490).
Definition S_has_fold : regex := Cat any_star (Cat (Cls [(383, 383); (8490, 8490)]) any_star).

Definition S_dot : regex := Alt (Cls (c1 46)) (cls_seq [c1 37; c1 50; ci 69]).
Definition S_dotdot : regex := Cat S_dot S_dot.

Definition word_cls : list (N * N) := [(48, 57); (65, 90); (95, 95); (97, 122)].
Definition S_marker : regex := Cat (cls_seq [c1 37; c1 123]) (Cat (plus (Cls word_cls)) (Cls (c1 125))).

(* the code's prefix pattern is the documented one up to Go's Unicode case folding *)
Definition bridge_prefix : bool := equiv_ok (search G_safeTrustedResourceURLPrefixPattern) (search S_prefix_fold).
(* ... and without the two folding runes it accepts the documented ASCII forms only *)
Definition bridge_prefix_ascii : bool :=
  incl_ok (search G_safeTrustedResourceURLPrefixPattern) (Alt (search S_prefix) S_has_fold).
Definition bridge_dotdot : bool := equiv_ok (search G_urlDoubleDotSegmentPattern) (search S_dotdot).
Definition bridge_marker : bool := equiv_ok (search G_trustedResourceURLFormatMarkerPattern) (search S_marker).
(* anchored: exactly one marker, nothing around it *)
Definition bridge_marker_exact : bool :=
  equiv_ok (Cat BeginText (Cat G_trustedResourceURLFormatMarkerPattern EndText))
           (Cat BeginText (Cat S_marker EndText)).

Definition C13_bridges : list (bytes * (regex * regex)) :=
  [ (B "prefix", (search G_safeTrustedResourceURLPrefixPattern, search S_prefix_fold));
    (B "prefix_rev", (search S_prefix_fold, search G_safeTrustedResourceURLPrefixPattern));
    (B "prefix_ascii", (search G_safeTrustedResourceURLPrefixPattern, Alt (search S_prefix) S_has_fold));
    (B "dotdot", (search G_urlDoubleDotSegmentPattern, search S_dotdot));
    (B "dotdot_rev", (search S_dotdot, search G_urlDoubleDotSegmentPattern));
    (B "marker", (search G_trustedResourceURLFormatMarkerPattern, search S_marker));
    (B "marker_rev", (search S_marker, search G_trustedResourceURLFormatMarkerPattern)) ].

(* ------------------------------------------------------------------ *)
(* Finding classifiers (the negations are the extra hypotheses of the _partial theorems). *)

(* D14: a marker immediately after the leading '/' of a path-absolute format *)
Definition finding_D14 (format : bytes) : bool :=
  match format with
  | c :: r => (c =? 47) && is_some (marker_at r)
  | [] => false
  end.

(* the per-argument check of the implementation lets every argument through *)
Definition args_pass (format : bytes) (args : list (bytes * bytes)) : bool :=
  forallb (fun l => match lookup l args with
                    | Some v => negb (contains_double_dot v)
                    | None => false
                    end) (marker_labels format).

Definition dot_kinds (o : bytes) : list N := map dot_kind (segments (uri_path o)).

(* some path segment is a dot segment of kind [k] (1 = ".", 2 = "..") in [o] but not in [o0] *)
Definition new_dot (k : N) (o o0 : bytes) : bool :=
  existsb (fun p => (fst p =? k) && negb (snd p =? k)) (combine (dot_kinds o) (dot_kinds o0)).

(* D10: every argument passes the per-argument ".." check, and still a path segment that
   contains a marker has become a ".." segment ("%2e" counting as "."): ".." assembled from
   dot-only values next to '.', "%2e" or another marker *)
Definition finding_D10 (format : bytes) (args : list (bytes * bytes)) : bool :=
  args_pass format args && new_dot 2 (expected_result format args) (with_x format).

(* D23: a path segment that contains a marker has become a "." segment (a lone "." value, or an
   empty value next to a "."): a ".." that the format spells out later then climbs one level
   further than the format says *)
Definition finding_D23 (format : bytes) (args : list (bytes * bytes)) : bool :=
  args_pass format args && new_dot 1 (expected_result format args) (with_x format).

(* D22: the format has one of the documented forms only after undoing the Unicode case folding
   of Go's (?i) (U+017F for s, U+212A for k) *)
Definition unfold_rune (c : N) : N := if c =? 383 then 115 else if c =? 8490 then 107 else c.
Definition unfolded (format : bytes) : bytes := encode_runes (map unfold_rune (decode_runes format)).
Definition finding_D22 (format : bytes) : bool :=
  negb (spec_safe_prefix format) && spec_safe_prefix (unfolded format).

(* D24: TrustedResourceURLAppend has no dot-segment check at all: the appended string makes the
   last path segment of the base a ".." segment *)
Definition finding_D24 (t s : bytes) : bool := new_dot 2 (t ++ spec_escape s) (t ++ [120]).
