(* CSS Syntax Module Level 3 (W3C CR 2021-12-24), transliterated from the standard:
     3.3  preprocessing the input stream
     4.3  the tokenizer (4.3.1 consume a token ... 4.3.14 remnants of a bad url)
     5.3.8 parse a list of declarations, 5.3.3 parse a stylesheet,
     5.4.1 consume a list of rules, 5.4.2 an at-rule, 5.4.3 a qualified rule,
     5.4.5 a list of declarations, 5.4.6 a declaration, 5.4.7 a component value,
     5.4.8 a simple block, 5.4.9 a function.
   Written from the standard, not from safehtml.  Definitions only.

   Deviations, all on the reporting side (nothing is dropped silently):
   * a comment does not vanish: the tokenizer emits the pseudo token TComment (with a flag
     telling whether it was closed); [strip_comments] removes them before parsing, as 4.3.2 does;
   * parse errors that the standard only "reports" are kept: unterminated strings and urls
     carry a flag, unclosed blocks/functions carry a flag, and error recovery in the
     declaration-list / rule-list parsers leaves an explicit DError / RError item;
   * numeric values are kept as their representation (the code points consumed).
   The byte -> code point step (3.2, UTF-8 decode) is lib/Utf8.decode_runes (Go's decoder:
   an ill-formed sequence gives one U+FFFD per byte; the Encoding standard may give fewer
   U+FFFD for the same ill-formed run -- a difference in the NUMBER of U+FFFD only). *)
From V Require Import lib.Base lib.Utf8.
Local Open Scope N_scope.

(* ------------------------------------------------------------------ 3.3 *)
Fixpoint preprocess (l : list N) : list N :=
  match l with
  | [] => []
  | c :: r =>
      if c =? 13 then
        match r with
        | d :: r' => if d =? 10 then 10 :: preprocess r' else 10 :: preprocess r
        | [] => [10]
        end
      else if c =? 12 then 10 :: preprocess r
      else if (c =? 0) || is_surrogate c then FFFD :: preprocess r
      else c :: preprocess r
  end.

(* ------------------------------------------------------------------ 4.2 definitions *)
Definition is_digit (c : N) : bool := (48 <=? c) && (c <=? 57).
Definition is_hex (c : N) : bool :=
  is_digit c || ((65 <=? c) && (c <=? 70)) || ((97 <=? c) && (c <=? 102)).
Definition hex_val (c : N) : N :=
  if is_digit c then c - 48 else if c <=? 70 then c - 55 else c - 87.
Definition is_letter (c : N) : bool := ((65 <=? c) && (c <=? 90)) || ((97 <=? c) && (c <=? 122)).
Definition is_non_ascii (c : N) : bool := 128 <=? c.
Definition is_ident_start (c : N) : bool := is_letter c || is_non_ascii c || (c =? 95).
Definition is_ident_cp (c : N) : bool := is_ident_start c || is_digit c || (c =? 45).
Definition is_non_printable (c : N) : bool :=
  (c <=? 8) || (c =? 11) || ((14 <=? c) && (c <=? 31)) || (c =? 127).
Definition is_newline (c : N) : bool := c =? 10.
Definition is_ws (c : N) : bool := (c =? 10) || (c =? 9) || (c =? 32).

Definition pk1 (l : list N) : option N := match l with c :: _ => Some c | _ => None end.
Definition pk2 (l : list N) : option N := match l with _ :: c :: _ => Some c | _ => None end.
Definition pk3 (l : list N) : option N := match l with _ :: _ :: c :: _ => Some c | _ => None end.
Definition otest (f : N -> bool) (o : option N) : bool := match o with Some c => f c | None => false end.
Definition ois (x : N) (o : option N) : bool := otest (N.eqb x) o.

(* 4.3.8 two code points are a valid escape *)
Definition valid_escape (c1 c2 : option N) : bool :=
  ois 92 c1 && negb (otest is_newline c2).

(* 4.3.9 three code points would start an identifier *)
Definition would_start_ident (c1 c2 c3 : option N) : bool :=
  if ois 45 c1 then otest is_ident_start c2 || ois 45 c2 || valid_escape c2 c3
  else if otest is_ident_start c1 then true
  else if ois 92 c1 then valid_escape c1 c2
  else false.

(* 4.3.10 three code points would start a number *)
Definition starts_number (c1 c2 c3 : option N) : bool :=
  if ois 43 c1 || ois 45 c1 then otest is_digit c2 || (ois 46 c2 && otest is_digit c3)
  else if ois 46 c1 then otest is_digit c2
  else otest is_digit c1.

(* ------------------------------------------------------------------ tokens *)
Inductive token : Type :=
| TIdent (v : list N)
| TFunction (v : list N)
| TAtKeyword (v : list N)
| THash (v : list N) (is_id : bool)
| TString (v : list N) (terminated : bool)      (* terminated = false: EOF inside the string (parse error) *)
| TBadString
| TUrl (v : list N) (terminated : bool)
| TBadUrl
| TDelim (c : N)
| TNumber (repr : list N)
| TPercentage (repr : list N)
| TDimension (repr : list N) (unit : list N)
| TWhitespace
| TCDO | TCDC | TColon | TSemicolon | TComma
| TLBracket | TRBracket | TLParen | TRParen | TLBrace | TRBrace
| TComment (closed : bool).                      (* pseudo token, see the header *)

(* 4.3.7 consume an escaped code point; the backslash has been consumed *)
Fixpoint take_hex (n : nat) (l : list N) : list N * list N :=
  match n, l with
  | S n', c :: r => if is_hex c then let '(ds, r') := take_hex n' r in (c :: ds, r') else ([], l)
  | _, _ => ([], l)
  end.
Definition hex_value (ds : list N) : N := fold_left (fun acc d => acc * 16 + hex_val d) ds 0.

Definition consume_escaped (l : list N) : N * list N :=
  match l with
  | [] => (FFFD, [])
  | c :: r =>
      if is_hex c then
        let '(ds, r1) := take_hex 5 r in
        let v := hex_value (c :: ds) in
        let r2 := match r1 with w :: t => if is_ws w then t else r1 | [] => [] end in
        ((if (v =? 0) || is_surrogate v || (1114111 <? v) then FFFD else v), r2)
      else (c, r)
  end.

(* 4.3.11 consume an ident sequence *)
Fixpoint ident_seq (fuel : nat) (l : list N) : list N * list N :=
  match fuel with
  | O => ([], l)
  | S f =>
      match l with
      | c :: r =>
          if is_ident_cp c then let '(v, r') := ident_seq f r in (c :: v, r')
          else if valid_escape (Some c) (pk1 r) then
            let '(e, r1) := consume_escaped r in
            let '(v, r') := ident_seq f r1 in (e :: v, r')
          else ([], l)
      | [] => ([], l)
      end
  end.

(* 4.3.12 consume a number: the representation and the rest *)
Fixpoint digits (l : list N) : list N * list N :=
  match l with
  | c :: r => if is_digit c then let '(d, r') := digits r in (c :: d, r') else ([], l)
  | [] => ([], l)
  end.

Definition consume_number (l : list N) : list N * list N :=
  let '(sign, l1) :=
    match l with c :: r => if (c =? 43) || (c =? 45) then ([c], r) else ([], l) | [] => ([], l) end in
  let '(ip, l2) := digits l1 in
  let '(fp, l3) :=
    if ois 46 (pk1 l2) && otest is_digit (pk2 l2) then
      match l2 with dot :: r => let '(d, r') := digits r in (dot :: d, r') | [] => ([], l2) end
    else ([], l2) in
  let '(ep, l4) :=
    if (ois 69 (pk1 l3) || ois 101 (pk1 l3)) &&
       (otest is_digit (pk2 l3) || ((ois 43 (pk2 l3) || ois 45 (pk2 l3)) && otest is_digit (pk3 l3)))
    then
      match l3 with
      | e :: s :: r =>
          if is_digit s then let '(d, r') := digits (s :: r) in (e :: d, r')
          else let '(d, r') := digits r in (e :: s :: d, r')
      | _ => ([], l3)
      end
    else ([], l3) in
  (sign ++ ip ++ fp ++ ep, l4).

(* 4.3.3 consume a numeric token *)
Definition consume_numeric (l : list N) : token * list N :=
  let '(repr, r) := consume_number l in
  if would_start_ident (pk1 r) (pk2 r) (pk3 r) then
    let '(u, r') := ident_seq (S (length r)) r in (TDimension repr u, r')
  else if ois 37 (pk1 r) then (TPercentage repr, tl r)
  else (TNumber repr, r).

(* 4.3.5 consume a string token; the opening quote has been consumed *)
Fixpoint consume_string (fuel : nat) (ending : N) (acc : list N) (l : list N) : token * list N :=
  match fuel with
  | O => (TString (rev acc) false, l)
  | S f =>
      match l with
      | [] => (TString (rev acc) false, [])
      | c :: r =>
          if c =? ending then (TString (rev acc) true, r)
          else if is_newline c then (TBadString, l)
          else if c =? 92 then
            match r with
            | [] => consume_string f ending acc r
            | d :: r' =>
                if is_newline d then consume_string f ending acc r'
                else let '(e, r1) := consume_escaped r in consume_string f ending (e :: acc) r1
            end
          else consume_string f ending (c :: acc) r
      end
  end.

Fixpoint skip_ws (l : list N) : list N :=
  match l with c :: r => if is_ws c then skip_ws r else l | [] => [] end.

(* 4.3.14 consume the remnants of a bad url *)
Fixpoint bad_url_remnants (fuel : nat) (l : list N) : list N :=
  match fuel with
  | O => l
  | S f =>
      match l with
      | [] => []
      | c :: r =>
          if c =? 41 then r
          else if valid_escape (Some c) (pk1 r) then bad_url_remnants f (snd (consume_escaped r))
          else bad_url_remnants f r
      end
  end.

(* 4.3.6 consume a url token; "url(" has been consumed *)
Fixpoint url_loop (fuel : nat) (acc : list N) (l : list N) : token * list N :=
  match fuel with
  | O => (TUrl (rev acc) false, l)
  | S f =>
      match l with
      | [] => (TUrl (rev acc) false, [])
      | c :: r =>
          if c =? 41 then (TUrl (rev acc) true, r)
          else if is_ws c then
            match skip_ws r with
            | [] => (TUrl (rev acc) false, [])
            | d :: r' => if d =? 41 then (TUrl (rev acc) true, r')
                         else (TBadUrl, bad_url_remnants (S (length r)) (d :: r'))
            end
          else if (c =? 34) || (c =? 39) || (c =? 40) || is_non_printable c then
            (TBadUrl, bad_url_remnants (S (length r)) r)
          else if c =? 92 then
            if valid_escape (Some c) (pk1 r) then
              let '(e, r1) := consume_escaped r in url_loop f (e :: acc) r1
            else (TBadUrl, bad_url_remnants (S (length r)) r)
          else url_loop f (c :: acc) r
      end
  end.
Definition consume_url (l : list N) : token * list N :=
  let l' := skip_ws l in url_loop (S (length l')) [] l'.

Definition ascii_lower (c : N) : N := if (65 <=? c) && (c <=? 90) then c + 32 else c.
Definition eq_nocase (a b : list N) : bool := list_eqb N.eqb (map ascii_lower a) (map ascii_lower b).

(* 4.3.4 consume an ident-like token *)
(* "While the next two input code points are whitespace, consume the next input code point." *)
Fixpoint skip_ws_but_one (l : list N) : list N :=
  match l with
  | c :: r => if is_ws c && otest is_ws (pk1 r) then skip_ws_but_one r else l
  | [] => []
  end.
Definition is_quote (c : N) : bool := (c =? 34) || (c =? 39).

Definition consume_ident_like (l : list N) : token * list N :=
  let '(name, r) := ident_seq (S (length l)) l in
  if eq_nocase name [117; 114; 108] && ois 40 (pk1 r) then
    let r1 := skip_ws_but_one (tl r) in
    if otest is_quote (pk1 r1) || (otest is_ws (pk1 r1) && otest is_quote (pk2 r1))
    then (TFunction name, r1)
    else consume_url r1
  else if ois 40 (pk1 r) then (TFunction name, tl r)
  else (TIdent name, r).

(* 4.3.2 consume comments: one comment per call; the caller loops *)
Fixpoint comment_body (l : list N) : bool * list N :=
  match l with
  | [] => (false, [])
  | c :: r =>
      if (c =? 42) && ois 47 (pk1 r) then (true, tl r)
      else comment_body r
  end.

(* 4.3.1 consume a token (input not empty) *)
Definition consume_token (l : list N) : token * list N :=
  match l with
  | [] => (TWhitespace, [])  (* EOF: never called on the empty input *)
  | c :: r =>
      if (c =? 47) && ois 42 (pk1 r) then let '(closed, r') := comment_body (tl r) in (TComment closed, r')
      else if is_ws c then (TWhitespace, skip_ws r)
      else if c =? 34 then consume_string (S (length r)) 34 [] r
      else if c =? 35 then
        if otest is_ident_cp (pk1 r) || valid_escape (pk1 r) (pk2 r) then
          let isid := would_start_ident (pk1 r) (pk2 r) (pk3 r) in
          let '(v, r') := ident_seq (S (length r)) r in (THash v isid, r')
        else (TDelim c, r)
      else if c =? 39 then consume_string (S (length r)) 39 [] r
      else if c =? 40 then (TLParen, r)
      else if c =? 41 then (TRParen, r)
      else if c =? 43 then
        if starts_number (Some c) (pk1 r) (pk2 r) then consume_numeric l else (TDelim c, r)
      else if c =? 44 then (TComma, r)
      else if c =? 45 then
        if starts_number (Some c) (pk1 r) (pk2 r) then consume_numeric l
        else if ois 45 (pk1 r) && ois 62 (pk2 r) then (TCDC, tl (tl r))
        else if would_start_ident (Some c) (pk1 r) (pk2 r) then consume_ident_like l
        else (TDelim c, r)
      else if c =? 46 then
        if starts_number (Some c) (pk1 r) (pk2 r) then consume_numeric l else (TDelim c, r)
      else if c =? 58 then (TColon, r)
      else if c =? 59 then (TSemicolon, r)
      else if c =? 60 then
        if ois 33 (pk1 r) && ois 45 (pk2 r) && ois 45 (pk3 r) then (TCDO, tl (tl (tl r)))
        else (TDelim c, r)
      else if c =? 64 then
        if would_start_ident (pk1 r) (pk2 r) (pk3 r) then
          let '(v, r') := ident_seq (S (length r)) r in (TAtKeyword v, r')
        else (TDelim c, r)
      else if c =? 91 then (TLBracket, r)
      else if c =? 92 then
        if valid_escape (Some c) (pk1 r) then consume_ident_like l else (TDelim c, r)
      else if c =? 93 then (TRBracket, r)
      else if c =? 123 then (TLBrace, r)
      else if c =? 125 then (TRBrace, r)
      else if is_digit c then consume_numeric l
      else if is_ident_start c then consume_ident_like l
      else (TDelim c, r)
  end.

Fixpoint tokenize_fuel (fuel : nat) (l : list N) : list token :=
  match fuel with
  | O => []
  | S f =>
      match l with
      | [] => []
      | _ => let '(t, r) := consume_token l in t :: tokenize_fuel f r
      end
  end.

(* the token stream of a list of code points, resp. of a byte string *)
Definition tokenize (l : list N) : list token := tokenize_fuel (S (length l)) l.
Definition css_tokens (s : bytes) : list token := tokenize (preprocess (decode_runes s)).

Definition is_comment (t : token) : bool := match t with TComment _ => true | _ => false end.
Definition strip_comments (l : list token) : list token := filter (fun t => negb (is_comment t)) l.

(* ------------------------------------------------------------------ token equality *)
Definition bool_N (b : bool) : N := if b then 1 else 0.
Definition token_key (t : token) : N * list N * list N :=
  match t with
  | TIdent v => (1, v, [])
  | TFunction v => (2, v, [])
  | TAtKeyword v => (3, v, [])
  | THash v b => (4, v, [bool_N b])
  | TString v b => (5, v, [bool_N b])
  | TBadString => (6, [], [])
  | TUrl v b => (7, v, [bool_N b])
  | TBadUrl => (8, [], [])
  | TDelim c => (9, [c], [])
  | TNumber r => (10, r, [])
  | TPercentage r => (11, r, [])
  | TDimension r u => (12, r, u)
  | TWhitespace => (13, [], [])
  | TCDO => (14, [], []) | TCDC => (15, [], []) | TColon => (16, [], [])
  | TSemicolon => (17, [], []) | TComma => (18, [], [])
  | TLBracket => (19, [], []) | TRBracket => (20, [], [])
  | TLParen => (21, [], []) | TRParen => (22, [], [])
  | TLBrace => (23, [], []) | TRBrace => (24, [], [])
  | TComment b => (25, [], [bool_N b])
  end.
Definition token_eqb (a b : token) : bool :=
  let '(ta, xa, ya) := token_key a in
  let '(tb, xb, yb) := token_key b in
  (ta =? tb) && list_eqb N.eqb xa xb && list_eqb N.eqb ya yb.
Definition tokens_eqb : list token -> list token -> bool := list_eqb token_eqb.

(* ------------------------------------------------------------------ 5 parsing *)
(* component values; [closed] = false records the parse error "EOF inside the block" *)
Inductive cv : Type :=
| CVTok (t : token)
| CVBlock (opening : token) (body : list cv) (closed : bool)
| CVFunc (name : list N) (body : list cv) (closed : bool).

(* the ending token of a block opened by t *)
Definition block_end (t : token) : option token :=
  match t with
  | TLBrace => Some TRBrace
  | TLBracket => Some TRBracket
  | TLParen => Some TRParen
  | _ => None
  end.

(* 5.4.7 consume a component value (current token t), 5.4.8 a simple block, 5.4.9 a function *)
Fixpoint consume_cv (fuel : nat) (t : token) (rest : list token) : cv * list token :=
  match fuel with
  | O => (CVTok t, rest)
  | S f =>
      match block_end t with
      | Some e => let '(body, closed, r) := consume_block f e rest in (CVBlock t body closed, r)
      | None =>
          match t with
          | TFunction n => let '(body, closed, r) := consume_block f TRParen rest in (CVFunc n body closed, r)
          | _ => (CVTok t, rest)
          end
      end
  end
with consume_block (fuel : nat) (ending : token) (toks : list token) : list cv * bool * list token :=
  match fuel with
  | O => ([], false, toks)
  | S f =>
      match toks with
      | [] => ([], false, [])
      | t :: r =>
          if token_eqb t ending then ([], true, r)
          else
            let '(c, r1) := consume_cv f t r in
            let '(cs, closed, r2) := consume_block f ending r1 in
            (c :: cs, closed, r2)
      end
  end.

Definition pfuel (toks : list token) : nat := S (S (2 * length toks)).

(* re-serialisation of component values into the tokens they were made of *)
Fixpoint cv_tokens (c : cv) : list token :=
  match c with
  | CVTok t => [t]
  | CVBlock o body closed =>
      o :: flat_map cv_tokens body ++
        (if closed then match block_end o with Some e => [e] | None => [] end else [])
  | CVFunc n body closed =>
      TFunction n :: flat_map cv_tokens body ++ (if closed then [TRParen] else [])
  end.
Definition cvs_tokens (l : list cv) : list token := flat_map cv_tokens l.

(* every block and function below is closed *)
Fixpoint cv_closed (c : cv) : bool :=
  match c with
  | CVTok _ => true
  | CVBlock _ body closed => closed && forallb cv_closed body
  | CVFunc _ body closed => closed && forallb cv_closed body
  end.

(* component values up to (not including) the next top-level semicolon or EOF *)
Fixpoint cvs_until_semicolon (fuel : nat) (toks : list token) : list cv * list token :=
  match fuel with
  | O => ([], toks)
  | S f =>
      match toks with
      | [] => ([], [])
      | TSemicolon :: _ => ([], toks)
      | t :: r =>
          let '(c, r1) := consume_cv (pfuel r) t r in
          let '(cs, r2) := cvs_until_semicolon f r1 in (c :: cs, r2)
      end
  end.

Inductive decl_item : Type :=
| DDecl (name : list N) (value : list cv) (important : bool)
| DAtRule (name : list N) (prelude : list cv) (block : option (list cv * bool))
| DError.   (* parse error: something that is not a declaration was skipped *)

Definition is_ws_cv (c : cv) : bool := match c with CVTok TWhitespace => true | _ => false end.
Fixpoint drop_ws_cvs (l : list cv) : list cv :=
  match l with c :: r => if is_ws_cv c then drop_ws_cvs r else l | [] => [] end.
Definition trim_trailing_ws (l : list cv) : list cv := rev (drop_ws_cvs (rev l)).

(* 5.4.6: "!important" as the last two non-whitespace tokens *)
Definition strip_important (value : list cv) : list cv * bool :=
  match drop_ws_cvs (rev value) with
  | CVTok (TIdent i) :: r1 =>
      if eq_nocase i [105; 109; 112; 111; 114; 116; 97; 110; 116] then
        match drop_ws_cvs r1 with
        | CVTok (TDelim 33) :: r2 => (rev r2, true)
        | _ => (value, false)
        end
      else (value, false)
  | _ => (value, false)
  end.

(* 5.4.6 consume a declaration from the temporary list (first element: the ident token) *)
Definition consume_declaration (name : list N) (rest : list cv) : decl_item :=
  match drop_ws_cvs rest with
  | CVTok TColon :: r =>
      let '(v, imp) := strip_important (drop_ws_cvs r) in
      DDecl name (trim_trailing_ws v) imp
  | _ => DError
  end.

(* 5.4.2 consume an at-rule; the at-keyword token has been consumed *)
Fixpoint at_rule_loop (fuel : nat) (toks : list token) (acc : list cv)
  : list cv * option (list cv * bool) * list token :=
  match fuel with
  | O => (rev acc, None, toks)
  | S f =>
      match toks with
      | [] => (rev acc, None, [])
      | TSemicolon :: r => (rev acc, None, r)
      | TLBrace :: r =>
          let '(body, closed, r1) := consume_block (pfuel r) TRBrace r in (rev acc, Some (body, closed), r1)
      | t :: r => let '(c, r1) := consume_cv (pfuel r) t r in at_rule_loop f r1 (c :: acc)
      end
  end.

(* 5.4.5 consume a list of declarations *)
Fixpoint decl_list (fuel : nat) (toks : list token) : list decl_item :=
  match fuel with
  | O => []
  | S f =>
      match toks with
      | [] => []
      | TWhitespace :: r => decl_list f r
      | TSemicolon :: r => decl_list f r
      | TAtKeyword n :: r =>
          let '(prelude, block, r1) := at_rule_loop (S (length r)) r [] in
          DAtRule n prelude block :: decl_list f r1
      | TIdent n :: r =>
          let '(cs, r1) := cvs_until_semicolon (S (length r)) r in
          consume_declaration n cs :: decl_list f r1
      | _ =>
          let '(_, r1) := cvs_until_semicolon (S (length toks)) toks in
          DError :: decl_list f r1
      end
  end.

(* 5.3.8 parse a list of declarations *)
Definition parse_declaration_list (toks : list token) : list decl_item :=
  let toks := strip_comments toks in decl_list (S (length toks)) toks.

Inductive rule : Type :=
| RQualified (prelude : list cv) (block : list cv) (closed : bool)
| RAt (name : list N) (prelude : list cv) (block : option (list cv * bool))
| RError.   (* parse error: EOF while looking for the block of a qualified rule *)

(* 5.4.3 consume a qualified rule *)
Fixpoint qualified_rule_loop (fuel : nat) (toks : list token) (acc : list cv) : rule * list token :=
  match fuel with
  | O => (RError, toks)
  | S f =>
      match toks with
      | [] => (RError, [])
      | TLBrace :: r =>
          let '(body, closed, r1) := consume_block (pfuel r) TRBrace r in (RQualified (rev acc) body closed, r1)
      | t :: r => let '(c, r1) := consume_cv (pfuel r) t r in qualified_rule_loop f r1 (c :: acc)
      end
  end.

(* 5.4.1 consume a list of rules *)
Fixpoint rule_list (fuel : nat) (top_level : bool) (toks : list token) : list rule :=
  match fuel with
  | O => []
  | S f =>
      match toks with
      | [] => []
      | TWhitespace :: r => rule_list f top_level r
      | TAtKeyword n :: r =>
          let '(prelude, block, r1) := at_rule_loop (S (length r)) r [] in
          RAt n prelude block :: rule_list f top_level r1
      | t :: r =>
          if top_level && match t with TCDO | TCDC => true | _ => false end then rule_list f top_level r
          else let '(q, r1) := qualified_rule_loop (S (length toks)) toks [] in q :: rule_list f top_level r1
      end
  end.

(* 5.3.3 parse a stylesheet *)
Definition parse_stylesheet (toks : list token) : list rule :=
  let toks := strip_comments toks in rule_list (S (length toks)) true toks.

(* ------------------------------------------------------------------ observers used by the property specifications *)
Definition is_bad_token (t : token) : bool :=
  match t with
  | TBadString | TBadUrl | TComment _ => true
  | TString _ false | TUrl _ false => true
  | _ => false
  end.
Definition decl_name (d : decl_item) : option (list N) :=
  match d with DDecl n _ _ => Some n | _ => None end.
Definition decl_value (d : decl_item) : list cv :=
  match d with DDecl _ v _ => v | _ => [] end.

(* the value of a CSS string: what a string token holding exactly the escaped text means *)
Definition string_value (escaped : list N) : option (list N) :=
  match consume_string (S (length escaped)) 34 [] (escaped ++ [34]) with
  | (TString v true, []) => Some v
  | _ => None
  end.
