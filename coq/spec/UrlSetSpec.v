(* C12 specification: boolean predicates over (input s, the IMPLEMENTATION's output o), written
   from the property text and the WHATWG srcset parser (spec/Srcset.v), not from urlset.go.
   The OCaml driver evaluates them on the real outputs.  Definitions only.

   (a) [c12_candidates_ok o]   every image candidate string the WHATWG parser sees in o has a
       URL that URLSanitized leaves unchanged and carries no descriptor or exactly one that is
       "a number followed by at most one ASCII letter" ([descr_ok]); the parser sees at least
       one candidate; and it sees as many candidates as the " , "-separated items written
       (nothing merges or splits).
   (b) [c12_only_drops s o]    o is the innocuous URL, or the candidates of o occur in s in
       order as delimited copies: each URL verbatim except that a leading / trailing "%2c" may
       stand for a "," of s, each descriptor verbatim right after its URL.
   (c) idempotence is a comparison of two runs of the implementation (driver). *)
From V Require Import lib.Base lib.Regex model.Url spec.Srcset.
Local Open Scope N_scope.

(* ---------------------------------------------------------------- (a) descriptors *)

(* "a number": the shapes of numeric literals the property's quantifier lists -- decimal and
   hexadecimal floating-point literals of the Go language specification (digits may be
   separated by "_"), an optional sign, and the spellings inf / infinity / nan in any case.
   Deliberately a little wider than any particular parser (the clause is one-directional:
   what survives must be of this shape). *)
Definition ci (c : N) : regex := Cls [(c - 32, c - 32); (c, c)].         (* c lower case *)
Fixpoint ci_lit (s : bytes) : regex :=
  match s with [] => Eps | c :: s' => Cat (ci c) (ci_lit s') end.

Definition R_sign : regex := Cls [(43, 43); (45, 45)].
Definition R_digit : regex := Cls [(48, 57)].
Definition R_digits : regex := Cat R_digit (Star (Cls [(48, 57); (95, 95)])).
Definition R_hexdigs : regex := plus (Cls [(48, 57); (65, 70); (95, 95); (97, 102)]).
Definition R_exponent (c : N) : regex := Cat (ci c) (Cat (opt R_sign) R_digits).

Definition R_decimal : regex :=
  Cat (Alt (Cat R_digits (opt (Cat (Cls [(46, 46)]) (opt R_digits))))
           (Cat (Cls [(46, 46)]) R_digits))
      (opt (R_exponent 101)).
Definition R_hexfloat : regex :=
  Cat (Cls [(48, 48)]) (Cat (ci 120)
    (Cat (Alt (Cat R_hexdigs (opt (Cat (Cls [(46, 46)]) (opt R_hexdigs))))
              (Cat (Cls [(46, 46)]) R_hexdigs))
         (R_exponent 112))).
Definition R_number : regex :=
  Cat (opt R_sign)
      (Alt R_decimal (Alt R_hexfloat
        (Alt (ci_lit (B "inf")) (Alt (ci_lit (B "infinity")) (ci_lit (B "nan")))))).
Definition R_letter : regex := Cls [(65, 90); (97, 122)].
Definition S_descriptor : regex := Cat R_number (opt R_letter).

Definition descr_ok (d : bytes) : bool :=
  match d with [] => true | _ => accepts S_descriptor d end.

Definition descrs_ok (ds : list bytes) : bool :=
  match ds with
  | [] => true
  | [d] => descr_ok d
  | _ => false
  end.

(* "whose URL URLSanitized would leave unchanged": url_sanitized u = u, with url_sanitized
   (model/Url.v) unfolded so that the URL test is a parameter -- only so that the OCaml driver
   can pass a memoising wrapper of the extracted (pure) is_safe_url; proofs/UrlSetFacts.v
   url_kept_def states url_kept u = bytes_eqb (url_sanitized u) u. *)
Definition url_kept_with (safe : bytes -> bool) (u : bytes) : bool :=
  bytes_eqb (if safe u then u else innocuous_url) u.
Definition url_kept : bytes -> bool := url_kept_with is_safe_url.

(* occurrences of " , " in o *)
Definition sep3 : bytes := [32; 44; 32].
Fixpoint count_sep (o : bytes) : nat :=
  match o with
  | [] => O
  | c :: o' => if prefixb sep3 o then S (count_sep o') else count_sep o'
  end.

(* which clause of (a) fails: 0 none, 1 the parser sees no candidate, 2 a URL URLSanitized
   would change, 3 a descriptor list that is not [] or [number letter?], 4 the count.
   Instantiated at is_safe_url below. *)
Definition c12_candidates_clause_with (safe : bytes -> bool) (o : bytes) : N :=
  let cs := candidates o in
  if negb (nonempty cs) then 1
  else if negb (forallb (fun c => url_kept_with safe (fst c)) cs) then 2
  else if negb (forallb (fun c => descrs_ok (snd c)) cs) then 3
  else if negb (Nat.eqb (length cs) (S (count_sep o))) then 4
  else 0.

Definition c12_candidates_clause : bytes -> N := c12_candidates_clause_with is_safe_url.
Definition c12_candidates_ok (o : bytes) : bool := c12_candidates_clause o =? 0.

(* ---------------------------------------------------------------- (b) only drops *)

Definition pct2c : bytes := [37; 50; 99].

Fixpoint strip_prefix (p r : bytes) : option bytes :=
  match p, r with
  | [], _ => Some r
  | x :: p', y :: r' => if x =? y then strip_prefix p' r' else None
  | _ :: _, [] => None
  end.

(* the spellings of an output URL in the source: "%2c" at either end may have been "," *)
Definition unpct_head (t : bytes) : bytes :=
  match strip_prefix pct2c t with Some r => 44 :: r | None => t end.
Definition unpct_tail (t : bytes) : bytes :=
  match strip_prefix (rev pct2c) (rev t) with Some r => rev (44 :: r) | None => t end.

Definition url_spellings (t : bytes) : list bytes :=
  [t; unpct_head t; unpct_tail t; unpct_head (unpct_tail t)].

Definition delim (c : N) : bool := ascii_ws c || (c =? 44).
Definition delim_before (prev : option N) : bool :=
  match prev with None => true | Some c => delim c end.
Definition delim_after (r : bytes) : bool :=
  match r with [] => true | c :: _ => delim c end.

(* the descriptors of one candidate, each after at least one white-space character *)
Fixpoint match_descrs (ds : list bytes) (r : bytes) : option bytes :=
  match ds with
  | [] => Some r
  | d :: ds' =>
      let (w, r1) := collect ascii_ws r in
      if nonempty w then
        match strip_prefix d r1 with
        | Some r2 => if delim_after r2 then match_descrs ds' r2 else None
        | None => None
        end
      else None
  end.

(* a candidate (one of the spellings of its URL, then its descriptors) standing at the head of r *)
Definition match_here (spellings : list bytes) (ds : list bytes) (r : bytes) : option bytes :=
  fold_left (fun acc v =>
               match acc with
               | Some _ => acc
               | None =>
                   match strip_prefix v r with
                   | Some r1 => if delim_after r1 then match_descrs ds r1 else None
                   | None => None
                   end
               end) spellings None.

(* the earliest delimited occurrence at or after the head of r; prev = the character before r *)
Fixpoint find_cand (spellings : list bytes) (ds : list bytes) (prev : option N) (r : bytes)
  : option bytes :=
  match (if delim_before prev then match_here spellings ds r else None) with
  | Some r' => Some r'
  | None =>
      match r with
      | [] => None
      | c :: r' => find_cand spellings ds (Some c) r'
      end
  end.

Fixpoint match_cands (cs : list (bytes * list bytes)) (prev : option N) (r : bytes) : bool :=
  match cs with
  | [] => true
  | c :: cs' =>
      match find_cand (url_spellings (fst c)) (snd c) prev r with
      | Some r' => match_cands cs' (Some 0) r'     (* 0: "a candidate character", not a delimiter *)
      | None => false
      end
  end.

Definition c12_only_drops (s o : bytes) : bool :=
  bytes_eqb o innocuous_url || match_cands (candidates o) None s.

(* ---------------------------------------------------------------- the whole predicate *)
Definition c12_spec (s o : bytes) : bool := c12_candidates_ok o && c12_only_drops s o.

(* side conditions on regenerated expressions, as data for the directed search (filled in below
   the regenerated-pattern bridges; see proofs/UrlSetFacts.v) *)
Definition C12_bridges : list (bytes * (regex * regex)) := [].
