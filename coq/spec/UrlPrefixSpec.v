(* C14 specification: data interpolated after a static URL prefix stays inside its URL component.
   Written from the property text, RFC 3986 (spec/Rfc3986.v), the WHATWG URL parser
   (spec/WhatwgUrl.v) and the HTML tokenizer specification (spec/HtmlTok.v); NOT from the code:
   the recognisers below do not mention the code's regular expressions.  The bridges compare the
   regenerated patterns (gen/GenRegex.v) with the specification expressions in the direction that
   the theorems need.  Definitions only. *)
From V Require Import lib.Base lib.Regex lib.RegexDecide lib.Utf8 gen.GenRegex gen.GenEntities.
From V Require Import reviewed.ReviewedPolicy model.HtmlUnescape model.TContext model.TSanitize model.TSanitizers.
From V Require Import spec.Rfc3986 spec.WhatwgUrl spec.HtmlTok spec.PolicySpec.
Local Open Scope N_scope.

(* ------------------------------------------------------------------ *)
(* character classes of the property text *)
Definition sp_alpha (c : N) : bool := ((65 <=? c) && (c <=? 90)) || ((97 <=? c) && (c <=? 122)).
Definition sp_digit (c : N) : bool := (48 <=? c) && (c <=? 57).
Definition sp_alnum (c : N) : bool := sp_alpha c || sp_digit c.
Definition sp_hex (c : N) : bool := sp_digit c || ((65 <=? c) && (c <=? 70)) || ((97 <=? c) && (c <=? 102)).

(* ! # $ & * + , / : ; = ? @ [ ] - . _ ~ % *)
Definition normalized_marks : list N :=
  [33; 35; 36; 38; 42; 43; 44; 47; 58; 59; 61; 63; 64; 91; 93; 45; 46; 95; 126; 37].

(* what a normalised interpolated part may consist of: no quotes, angle brackets, spaces, controls,
   backslashes, parentheses, DEL or bytes >= 0x80 *)
Definition normalized_byte (b : N) : bool := sp_alnum b || mem_N b normalized_marks.

(* every '%' is followed by two hex digits *)
Fixpoint pct_ok (o : bytes) : bool :=
  match o with
  | [] => true
  | c :: t =>
      (if c =? 37 then match t with h1 :: h2 :: _ => sp_hex h1 && sp_hex h2 | _ => false end else true)
      && pct_ok t
  end.

(* RFC 3986 2.3 *)
Definition sp_unreserved (c : N) : bool := sp_alnum c || (c =? 45) || (c =? 46) || (c =? 95) || (c =? 126).

(* fully percent-encoded: every byte is unreserved or belongs to a %XX triplet *)
Fixpoint unreserved_or_pct (o : bytes) : bool :=
  match o with
  | [] => true
  | c :: t =>
      if c =? 37 then
        match t with
        | h1 :: h2 :: r => sp_hex h1 && sp_hex h2 && unreserved_or_pct r
        | _ => false
        end
      else sp_unreserved c && unreserved_or_pct t
  end.

(* ------------------------------------------------------------------ *)
(* static prefixes that must be rejected *)

(* ASCII white space or control characters: bytes up to 0x20, and DEL *)
Definition ws_or_ctrl (b : N) : bool := (b <=? 32) || (b =? 127).
Definition has_ws_or_ctrl (p : bytes) : bool := existsb ws_or_ctrl p.

(* what may follow the ampersand of a character reference that is not finished yet (HTML 13.5):
   nothing; a name (every name starts with a letter and consists of letters and digits);
   the number sign and decimal digits; the number sign, x or X, and hexadecimal digits *)
Definition charref_tail (t : bytes) : bool :=
  match t with
  | [] => true
  | d :: r =>
      if sp_alpha d then forallb sp_alnum r
      else if d =? 35 then
        match r with
        | [] => true
        | x :: r' => if (x =? 120) || (x =? 88) then forallb sp_hex r' else forallb sp_digit r
        end
      else false
  end.

(* some suffix is an ampersand and such a tail *)
Fixpoint ends_with_partial_charref (p : bytes) : bool :=
  match p with
  | [] => false
  | c :: t => ((c =? 38) && charref_tail t) || ends_with_partial_charref t
  end.

(* the text ends with a percent sign, or a percent sign and one hex digit *)
Definition pct_tail (t : bytes) : bool :=
  match t with
  | [] => true
  | [h] => sp_hex h
  | _ => false
  end.
Fixpoint ends_with_partial_pct (d : bytes) : bool :=
  match d with
  | [] => false
  | c :: t => ((c =? 37) && pct_tail t) || ends_with_partial_pct t
  end.

(* RFC 3986 3.1: scheme = ALPHA *( ALPHA / DIGIT / "+" / "-" / "." ), then ":" *)
Definition sp_scheme_char (c : N) : bool := sp_alnum c || (c =? 43) || (c =? 45) || (c =? 46).
Fixpoint scheme_tail (t : bytes) : bool :=
  match t with
  | [] => false
  | c :: t' => if c =? 58 then true else sp_scheme_char c && scheme_tail t'
  end.
Definition starts_with_scheme (d : bytes) : bool :=
  match d with
  | c :: t => sp_alpha c && scheme_tail t
  | [] => false
  end.
Definition url_delim (c : N) : bool := (c =? 47) || (c =? 63) || (c =? 35).
(* nothing yet decides where the scheme ends: a ':' in the interpolated data would end it *)
Definition could_complete_to_scheme (d : bytes) : bool :=
  negb (existsb url_delim d) && negb (starts_with_scheme d).

(* the property's rejection clause, on the raw prefix p and what the browser decodes it to
   (dec = html_unescape in the theorems and in the driver) *)
Definition must_reject (dec : bytes -> bytes) (p : bytes) : bool :=
  has_ws_or_ctrl p || has_ws_or_ctrl (dec p) || ends_with_partial_charref p ||
  ends_with_partial_pct (dec p) || could_complete_to_scheme (dec p).

(* ------------------------------------------------------------------ *)
(* specification expressions and the bridges to the regenerated patterns *)
Definition C_alpha : list (N * N) := [(65, 90); (97, 122)].
Definition C_alnum : list (N * N) := [(48, 57); (65, 90); (97, 122)].
Definition C_digit : list (N * N) := [(48, 57)].
Definition C_hex : list (N * N) := [(48, 57); (65, 70); (97, 102)].
Definition C_scheme : list (N * N) := [(43, 43); (45, 46); (48, 57); (65, 90); (97, 122)].

Definition S_ws : regex := Cls [(0, 32); (127, 127)].
Definition S_charref_tail : regex :=
  Alt Eps (Alt (Cat (Cls C_alpha) (Star (Cls C_alnum)))
               (Cat (Cls [(35, 35)]) (Alt (Star (Cls C_digit)) (Cat (Cls [(88, 88); (120, 120)]) (Star (Cls C_hex)))))).
Definition S_charref : regex := Cat (Cls [(38, 38)]) (Cat S_charref_tail EndText).
Definition S_pct : regex := Cat (Cls [(37, 37)]) (Cat (Alt Eps (Cls C_hex)) EndText).
Definition S_scheme : regex := Cat BeginText (Cat (Cls C_alpha) (Cat (Star (Cls C_scheme)) (Cls [(58, 58)]))).

(* what the specification rejects, the code rejects *)
Definition bridge_ws : bool := incl_ok (search S_ws) (search G_containsWhitespaceOrControlPattern).
Definition bridge_charref : bool := incl_ok (search S_charref) (search G_endsWithCharRefPrefixPattern).
Definition bridge_pct : bool := incl_ok (search S_pct) (search G_endsWithPercentEncodingPrefixPattern).
(* what the code takes for a complete scheme is one *)
Definition bridge_scheme : bool := incl_ok (search G_startsWithFullySpecifiedSchemePattern) (search S_scheme).

(* a safe TrustedResourceURL prefix contains '/' or '#': it cannot be completed into a scheme *)
Definition bridge_tru_delim : bool :=
  incl_ok (search G_safeTrustedResourceURLPrefixPattern) (search (Cls [(35, 35); (47, 47)])).
(* a dot-dot in the specification's reading is one for the code *)
Definition S_dot : regex := Alt (Cls [(46, 46)]) (Cat (Cls [(37, 37)]) (Cat (Cls [(50, 50)]) (Cls [(69, 69); (101, 101)]))).
Definition S_dotdot : regex := Cat S_dot S_dot.
Definition bridge_dotdot14 : bool := incl_ok (search S_dotdot) (search G_urlDoubleDotSegmentPattern).

Definition C14_bridges : list (bytes * (regex * regex)) :=
  [ (B "ws_rejected", (search S_ws, search G_containsWhitespaceOrControlPattern));
    (B "partial_charref_rejected", (search S_charref, search G_endsWithCharRefPrefixPattern));
    (B "partial_pct_rejected", (search S_pct, search G_endsWithPercentEncodingPrefixPattern));
    (B "scheme_is_complete", (search G_startsWithFullySpecifiedSchemePattern, search S_scheme));
    (B "tru_prefix_has_delimiter", (search G_safeTrustedResourceURLPrefixPattern, search (Cls [(35, 35); (47, 47)])));
    (B "dotdot_rejected", (search S_dotdot, search G_urlDoubleDotSegmentPattern)) ].

(* every entity name of the regenerated table starts with a letter and is alphanumeric up to an
   optional final ';' (so that charref_tail covers every unfinished named reference) *)
Definition entity_name_ok (n : bytes) : bool :=
  match n with
  | c :: t => sp_alpha c && forallb (fun x => sp_alnum x || (x =? 59)) t
  | [] => false
  end.
Definition entity_names_ok : bool :=
  forallb (fun e => entity_name_ok (fst e)) entity_table &&
  forallb (fun e => entity_name_ok (fst e)) entity2_table.

(* ------------------------------------------------------------------ *)
(* finding classifiers *)
Definition has_qf (s : bytes) : bool := existsb (fun c => (c =? 63) || (c =? 35)) s.

(* D16: the code decides between escaping and normalising on the UNDECODED prefix; the browser
   sees the decoded one *)
Definition finding_D16 (p : bytes) : bool := negb (Bool.eqb (has_qf p) (has_qf (html_unescape p))).

(* D10 (template form): the data consists of dots only (written '.' or as the triplet for '.')
   and directly follows a dot of the prefix, so that the two halves form a dot-dot segment that
   the per-substitution check cannot see *)
Fixpoint dots_only (fuel : nat) (v : bytes) : bool :=
  match fuel with
  | O => false
  | S f =>
      match v with
      | [] => true
      | 46 :: r => dots_only f r
      | 37 :: 50 :: e :: r => ((e =? 101) || (e =? 69)) && dots_only f r
      | _ => false
      end
  end.
Definition ends_with_dot (d : bytes) : bool :=
  match rev d with
  | 46 :: _ => true
  | e :: 50 :: 37 :: _ => (e =? 101) || (e =? 69)
  | _ => false
  end.
Definition finding_D10_tmpl (dp v : bytes) : bool :=
  negb (bytes_eqb v []) && dots_only (S (length v)) v && ends_with_dot dp.

(* ------------------------------------------------------------------ *)
(* the oracle on one executed template  <E A="P{{.}}">  *)

(* v -> n is a normalisation: every byte of v is kept or replaced by its triplet; a byte that is
   not allowed is never kept; a '%' is kept exactly when it starts a valid escape of v *)
Definition hex_val_of (c : N) : N :=
  if sp_digit c then c - 48 else if c <=? 70 then c - 55 else c - 87.
Fixpoint norm_rel (v n : bytes) : bool :=
  match v with
  | [] => match n with [] => true | _ => false end
  | c :: v' =>
      let valid_escape := match v' with h1 :: h2 :: _ => sp_hex h1 && sp_hex h2 | _ => false end in
      let may_keep := if c =? 37 then valid_escape else normalized_byte c in
      let must_keep := (c =? 37) && valid_escape in
      match n with
      | x :: n' =>
          (may_keep && (x =? c) && norm_rel v' n')
          || (negb must_keep &&
              match n with
              | 37 :: h1 :: h2 :: n'' =>
                  sp_hex h1 && sp_hex h2 && (16 * hex_val_of h1 + hex_val_of h2 =? c) && norm_rel v' n''
              | _ => false
              end)
      | [] => false
      end
  end.

(* fully percent-encoded form of v (any letter case of the hex digits) *)
Definition escaped_form (v o : bytes) : bool := unreserved_or_pct o && bytes_eqb (pct_decode o) v.

Definition opt_bytes_eqb (a b : option bytes) : bool :=
  match a, b with
  | Some x, Some y => bytes_eqb x y
  | None, None => true
  | _, _ => false
  end.
Definition opt_runes_eqb (a b : option (list N)) : bool :=
  match a, b with
  | Some x, Some y => list_eqb N.eqb x y
  | None, None => true
  | _, _ => false
  end.

(* a dot-dot in the data, read as the standard does (triplets for '.' count) *)
Definition dot_at (s : bytes) : option bytes :=
  match s with
  | c :: r =>
      if c =? 46 then Some r
      else match r with
           | x :: e :: r' => if (c =? 37) && (x =? 50) && ((e =? 101) || (e =? 69)) then Some r' else None
           | _ => None
           end
  | [] => None
  end.
Fixpoint spec_dotdot (v : bytes) : bool :=
  match v with
  | [] => false
  | c :: t =>
      match dot_at v with
      | Some r => match dot_at r with Some _ => true | None => spec_dotdot t end
      | None => spec_dotdot t
      end
  end.

(* the directory of a path as a dereferencing client sees it *)
Definition path_dir (path : bytes) : list bytes := removelast (segments (normalize_path path)).

(* class of the attribute according to the REVIEWED policy: 2 = TrustedResourceURL,
   1 = URL or TrustedResourceURLOrURL, 0 = anything else *)
Definition url_class (e a rel : bytes) : N :=
  match reviewed_attr e a rel with
  | Some n => if bytes_eqb n N_TRU then 2
              else if bytes_eqb n N_URL || bytes_eqb n N_TRUOrURL then 1 else 0
  | None => 0
  end.

(* the decoded value of attribute a of the first tag of the output, which must be a start tag e;
   the tokenizer must be back in a text state at the end *)
Definition first_attr_value (e a : bytes) (out : bytes) : option bytes :=
  let r := html_tokenize SData out in
  match r_tokens r with
  | StartTag n attrs _ :: _ =>
      if bytes_eqb n e then
        match find (fun av => bytes_eqb (fst av) a) (attrs_first_wins attrs) with
        | Some av => Some (html_unescape (snd av))
        | None => None
        end
      else None
  | _ => None
  end.
Definition only_expected_tags (e : bytes) (out : bytes) : bool :=
  let r := html_tokenize SData out in
  hstate_eqb (r_final r) SData &&
  match r_tokens r with
  | [StartTag n _ _] => bytes_eqb n e
  | [StartTag n _ _; EndTag m] => bytes_eqb n e && bytes_eqb m e
  | _ => false
  end.

(* clause numbers (the driver prints the names) *)
Definition CL_must_reject : N := 1.
Definition CL_javascript : N := 2.
Definition CL_one_tag : N := 3.
Definition CL_starts_with_prefix : N := 4.
Definition CL_query_escaped : N := 5.
Definition CL_tru_escaped : N := 6.
Definition CL_tru_dotdot : N := 7.
Definition CL_tru_dir : N := 8.
Definition CL_normalised : N := 9.
Definition CL_scheme : N := 10.
Definition CL_authority : N := 11.
Definition CL_components : N := 12.

(* the shape of a URL reference as RFC 3986 splits it: scheme, authority, number of path segments,
   number of query parameters, presence of a fragment.  Data that "stays inside its component" never
   changes the shape (compare the rendering with inert data and the one with hostile data) *)
Definition url_shape (s : bytes) : option bytes * option bytes * nat * nat * bool :=
  (uri_scheme s, uri_authority s, length (segments (uri_path s)),
   match uri_query s with Some q => length (split_on 38 q) | None => O end, has_fragment s).
Definition same_url_shape (a b : bytes) : bool :=
  let '(s1, a1, p1, q1, f1) := url_shape a in
  let '(s2, a2, p2, q2, f2) := url_shape b in
  opt_bytes_eqb s1 s2 && opt_bytes_eqb a1 a2 && Nat.eqb p1 p2 && Nat.eqb q1 q2 && Bool.eqb f1 f2.

(* failing clauses with the finding that covers the case (0 = none, 16 = D16, 10 = D10).
   cls: url_class; p: static prefix as written; v: the interpolated data as a string;
   accepted: the template passed the analysis; out: Some bytes when the execution succeeded *)
Definition c14_verdict (cls : N) (e a p v : bytes) (accepted : bool) (out : option bytes) : list (N * N) :=
  if negb accepted then []
  else
    let dp := html_unescape p in
    (if must_reject html_unescape p then [(CL_must_reject, 0)] else []) ++
    (if is_javascript_url (decode_runes dp) then [(CL_javascript, 0)] else []) ++
    match out with
    | None => []
    | Some o =>
        match first_attr_value e a o with
        | None => [(CL_one_tag, 0)]
        | Some val =>
            (if only_expected_tags e o then [] else [(CL_one_tag, 0)]) ++
            if negb (prefixb dp val) then [(CL_starts_with_prefix, 0)]
            else
              let rest := skipn (length dp) val in
              let d16 := if finding_D16 p then 16 else 0 in
              let confined := (cls =? 2) || has_qf dp in
              (if cls =? 2 then
                 (if escaped_form v rest then [] else [(CL_tru_escaped, 0)]) ++
                 (if spec_dotdot v then [(CL_tru_dotdot, 0)] else []) ++
                 (if Nat.eqb (length (segments (uri_path val))) (length (segments (uri_path (dp ++ [120]))))
                     && list_eqb bytes_eqb (path_dir (uri_path val)) (path_dir (uri_path (dp ++ [120])))
                  then [] else [(CL_tru_dir, if finding_D10_tmpl dp v then 10 else 0)])
               else if has_qf dp then
                 (if escaped_form v rest then [] else [(CL_query_escaped, d16)])
               else
                 (if forallb normalized_byte rest && pct_ok rest && norm_rel v rest then []
                  else if escaped_form v rest then []   (* fully percent-encoded: stricter than required (the engine may
                                                           treat the attribute as a TrustedResourceURL where the reviewed
                                                           policy asks for a URL only, e.g. link rel="alternate stylesheet") *)
                  else [(CL_normalised, d16)])) ++
              (if opt_bytes_eqb (uri_scheme val) (uri_scheme dp) &&
                  opt_runes_eqb (whatwg_scheme (decode_runes val)) (whatwg_scheme (decode_runes dp))
               then [] else [(CL_scheme, 0)]) ++
              (if confined then
                 (if opt_bytes_eqb (uri_authority val) (uri_authority dp) then [] else [(CL_authority, d16)]) ++
                 (if has_qf dp then
                    (if bytes_eqb (uri_path val) (uri_path dp) &&
                        Bool.eqb (has_fragment val) (has_fragment dp) &&
                        (negb (has_fragment dp) || opt_bytes_eqb (uri_query val) (uri_query dp))
                     then [] else [(CL_components, d16)])
                  else [])
               else [])
        end
    end.

(* the two URL processors judged on their own (stream url_proc): n1 = normalised v,
   n2 = normalised n1, q = escaped v *)
Definition c14_proc_ok (v n1 n2 q : bytes) : bool :=
  forallb normalized_byte n1 && pct_ok n1 && norm_rel v n1 && bytes_eqb n2 n1 && escaped_form v q.
