(* The fragment of the Go language specification that property C19 rests on, written from
   "The Go Programming Language Specification" (sections Types, Properties of types and values:
   Underlying types, Type identity, Assignability, Representability; Constants; Constant
   expressions; Conversions; Exported identifiers; Qualified identifiers; Composite literals;
   Selectors; Type parameter declarations / Type inference), NOT from the safehtml code.
   Definitions only; every predicate is a boolean function so that it can be extracted and compared
   with the real compiler by the C19 runner (harness/cmd/run/c19.go builds client programs). *)
From V Require Import lib.Base.
Local Open Scope N_scope.

(* ---------------------------------------------------------------- identifiers *)

(* "An identifier is exported if the first character of the identifier's name is a Unicode
   uppercase letter".  ASCII only; spec/ApiSpec.v checks that the translator's own verdict
   (go/ast IsExported) agrees with this function on every declared name. *)
Definition is_exported_name (n : bytes) : bool :=
  match n with
  | c :: _ => (65 <=? c) && (c <=? 90)
  | [] => false
  end.

(* ---------------------------------------------------------------- types *)

(* GDefined: a defined type ("type T underlying"), identified by its declaring package and name;
   [under] is its underlying type (a predeclared type or a type literal).
   GStruct: a struct type literal.  A field carries the package in which the struct type was
   written: "non-exported field names from different packages are always different".
   GOpaque: any type outside the fragment (interfaces, functions, externally declared named types),
   identical only to an opaque type with the same text. *)
Inductive gotype : Type :=
| GString
| GBasic (name : bytes)
| GDefined (pkg name : bytes) (under : gotype)
| GStruct (fields : list gfield)
| GPointer (t : gotype)
| GSlice (t : gotype)
| GMap (k v : gotype)
| GOpaque (text : bytes)
with gfield : Type :=
| GField (qual name : bytes) (embedded : bool) (tag : bytes) (t : gotype).

Definition field_name (f : gfield) : bytes := match f with GField _ n _ _ _ => n end.
Definition field_qual (f : gfield) : bytes := match f with GField q _ _ _ _ => q end.
Definition field_type (f : gfield) : gotype := match f with GField _ _ _ _ t => t end.
Definition field_embedded (f : gfield) : bool := match f with GField _ _ e _ _ => e end.

(* "Each type T has an underlying type" *)
Definition underlying (t : gotype) : gotype :=
  match t with GDefined _ _ u => u | _ => t end.

(* "Predeclared types, defined types, and type parameters are called named types." *)
Definition is_named (t : gotype) : bool :=
  match t with
  | GString | GBasic _ | GDefined _ _ _ | GOpaque _ => true
  | _ => false
  end.

(* field names: exported names compare by name, non-exported ones by (package, name) *)
Definition field_name_eqb (q n q' n' : bytes) : bool :=
  bytes_eqb n n' && (is_exported_name n || bytes_eqb q q').

(* Type identity.  [tags = false] is "identical ignoring struct tags" (used by conversions).
   "A named type is always different from any other type": defined types are identical only when
   they come from the same declaration (package, name). *)
Fixpoint identical (tags : bool) (a b : gotype) {struct a} : bool :=
  match a, b with
  | GString, GString => true
  | GBasic n, GBasic m => bytes_eqb n m
  | GDefined p n _, GDefined q m _ => bytes_eqb p q && bytes_eqb n m
  | GStruct fs, GStruct gs =>
      (fix go (fs gs : list gfield) {struct fs} : bool :=
         match fs, gs with
         | [], [] => true
         | GField q n e tg t :: fs', GField q' n' e' tg' t' :: gs' =>
             field_name_eqb q n q' n' && Bool.eqb e e' && (negb tags || bytes_eqb tg tg')
             && identical tags t t' && go fs' gs'
         | _, _ => false
         end) fs gs
  | GPointer x, GPointer y => identical tags x y
  | GSlice x, GSlice y => identical tags x y
  | GMap k v, GMap k' v' => identical tags k k' && identical tags v v'
  | GOpaque x, GOpaque y => bytes_eqb x y
  | _, _ => false
  end.

Definition numeric_names : list bytes :=
  [B "int"; B "int8"; B "int16"; B "int32"; B "int64"; B "uint"; B "uint8"; B "uint16"; B "uint32";
   B "uint64"; B "uintptr"; B "byte"; B "rune"; B "float32"; B "float64"; B "complex64"; B "complex128"].
Definition integer_names : list bytes :=
  [B "int"; B "int8"; B "int16"; B "int32"; B "int64"; B "uint"; B "uint8"; B "uint16"; B "uint32";
   B "uint64"; B "uintptr"; B "byte"; B "rune"].
Definition basic_names : list bytes := B "bool" :: numeric_names.

Definition mem_bytes (x : bytes) (l : list bytes) : bool := existsb (bytes_eqb x) l.

Definition is_string_t (t : gotype) : bool := match t with GString => true | _ => false end.
Definition is_numeric_t (t : gotype) : bool := match t with GBasic n => mem_bytes n numeric_names | _ => false end.
Definition is_integer_t (t : gotype) : bool := match t with GBasic n => mem_bytes n integer_names | _ => false end.
Definition is_byte_or_rune_slice (t : gotype) : bool :=
  match t with
  | GSlice e => match underlying e with
                | GBasic n => mem_bytes n [B "byte"; B "uint8"; B "rune"; B "int32"]
                | _ => false
                end
  | _ => false
  end.

(* ---------------------------------------------------------------- assignability *)

(* "A value x of type V is assignable to a type T if one of the following conditions applies:
    - V and T are identical.
    - V and T have identical underlying types but are not type parameters and at least one of V or
      T is not a named type."
   (the interface, channel and nil clauses do not arise in the fragment; the untyped-constant
   clause is [representable] below) *)
Definition assignable (V T : gotype) : bool :=
  identical true V T
  || (identical true (underlying V) (underlying T) && negb (is_named V && is_named T)).

(* kinds of untyped constants *)
Inductive ckind : Type := KString | KRune | KInt.

Definition default_type (k : ckind) : gotype :=
  match k with KString => GString | KRune => GBasic (B "rune") | KInt => GBasic (B "int") end.

(* "x is an untyped constant representable by a value of type T": a string constant is
   representable exactly in the types whose underlying type is a string type; rune and integer
   constants in numeric types (ranges are not modelled: the client programs use small values). *)
Definition representable (k : ckind) (T : gotype) : bool :=
  match k, underlying T with
  | KString, GString => true
  | KRune, u => is_numeric_t u
  | KInt, u => is_numeric_t u
  | _, _ => false
  end.

(* ---------------------------------------------------------------- conversions *)

(* "A non-constant value x can be converted to type T in any of these cases:
    - x is assignable to T.
    - ignoring struct tags, x's type and T are not type parameters but have identical underlying types.
    - ignoring struct tags, x's type and T are pointer types that are not named types, and their
      pointer base types are not type parameters but have identical underlying types.
    - x's type and T are both integer or floating point types. (and complex: merged into numeric)
    - x is an integer or a slice of bytes or runes and T is a string type.
    - x is a string and T is a slice of bytes or runes." *)
Definition conv_value (V T : gotype) : bool :=
  assignable V T
  || identical false (underlying V) (underlying T)
  || match V, T with
     | GPointer a, GPointer b => identical false (underlying a) (underlying b)
     | _, _ => false
     end
  || (is_numeric_t (underlying V) && is_numeric_t (underlying T))
  || (is_string_t (underlying T) && (is_integer_t (underlying V) || is_byte_or_rune_slice (underlying V)))
  || (is_string_t (underlying V) && is_byte_or_rune_slice (underlying T)).

(* "A constant value x can be converted to type T if x is representable by a value of T.
   As a special case, an integer constant x can be explicitly converted to a string type."
   Converting a constant to a (non type-parameter) type whose underlying type is basic yields a
   typed constant. *)
Definition const_convertible_kind (k : ckind) (T : gotype) : bool :=
  match underlying T with
  | GString => true
  | GBasic n => mem_bytes n numeric_names && match k with KString => false | _ => true end
  | _ => false
  end.
Definition const_convertible_type (V T : gotype) : bool :=
  match underlying T with
  | GString => is_string_t (underlying V) || is_integer_t (underlying V)
  | GBasic n => mem_bytes n numeric_names && is_numeric_t (underlying V)
  | _ => false
  end.

(* the static type of an expression *)
Inductive ety : Type :=
| TyUntyped (k : ckind)     (* untyped constant *)
| TyConst (t : gotype)      (* typed constant *)
| TyValue (t : gotype)      (* non-constant value *)
| TyError.                  (* does not type-check *)

Definition convert_result (x : ety) (T : gotype) : ety :=
  match x with
  | TyError => TyError
  | TyUntyped k =>
      if const_convertible_kind k T then TyConst T
      else if conv_value (default_type k) T then TyValue T else TyError
  | TyConst V =>
      if const_convertible_type V T then TyConst T
      else if conv_value V T then TyValue T else TyError
  | TyValue V => if conv_value V T then TyValue T else TyError
  end.

(* the operator + : "the operand types must be identical unless the operation involves untyped
   constants"; "if one operand is an untyped constant and the other operand is not, the constant is
   implicitly converted to the type of the other operand"; a constant expression has only
   constant operands. *)
Definition supports_add (t : gotype) : bool :=
  is_string_t (underlying t) || is_numeric_t (underlying t).

Definition add_result (x y : ety) : ety :=
  match x, y with
  | TyUntyped KString, TyUntyped KString => TyUntyped KString
  | TyUntyped KString, TyUntyped _ => TyError
  | TyUntyped _, TyUntyped KString => TyError
  | TyUntyped KRune, TyUntyped _ => TyUntyped KRune
  | TyUntyped _, TyUntyped KRune => TyUntyped KRune
  | TyUntyped KInt, TyUntyped KInt => TyUntyped KInt
  | TyUntyped k, TyConst t | TyConst t, TyUntyped k =>
      if representable k t && supports_add t then TyConst t else TyError
  | TyUntyped k, TyValue t | TyValue t, TyUntyped k =>
      if representable k t && supports_add t then TyValue t else TyError
  | TyConst t, TyConst u => if identical true t u && supports_add t then TyConst t else TyError
  | TyConst t, TyValue u | TyValue t, TyConst u | TyValue t, TyValue u =>
      if identical true t u && supports_add t then TyValue t else TyError
  | _, _ => TyError
  end.

(* ---------------------------------------------------------------- the client *)

(* A client package: its name, whether its language version has type parameters (go >= 1.18 in
   the client's go.mod), and the types of the values that the imported packages hand out (results
   of exported functions and methods, exported variables, exported fields). *)
Record client_cfg : Type := mk_cfg {
  c_pkg : bytes;
  c_generics : bool;
  c_lib_values : list gotype
}.

(* Qualified identifiers: "A qualified identifier accesses an identifier in a different package,
   which must be imported. The identifier must be exported".  So the client can write a defined
   type of another package only if its name is exported; struct type literals it writes carry its
   own package on their non-exported field names. *)
Fixpoint denotable (client : bytes) (t : gotype) {struct t} : bool :=
  match t with
  | GString | GBasic _ | GOpaque _ => true
  | GDefined p n _ => is_exported_name n || bytes_eqb p client
  | GStruct fs =>
      (fix go (fs : list gfield) : bool :=
         match fs with
         | [] => true
         | GField q n _ _ t' :: fs' =>
             (is_exported_name n || bytes_eqb q client) && denotable client t' && go fs'
         end) fs
  | GPointer x | GSlice x => denotable client x
  | GMap k v => denotable client k && denotable client v
  end.

(* A client can hold a value of a type it can write (declared variable, own function result), or
   of a type that the library hands out (short variable declaration from a call result). *)
Definition value_obtainable (cfg : client_cfg) (t : gotype) : bool :=
  denotable (c_pkg cfg) t || existsb (fun l => identical true l t) (c_lib_values cfg).

(* The client expression grammar of the property (arguments a client can write at a parameter):
   string/rune/integer literals; named constants with or without a declared type; variables,
   parameters and fields (EVar) and call results (ECall) of a given type; conversions T(e); the
   conversion P(e) written inside a generic function whose type parameter P has the constraint
   ~string and is instantiated by inference at [inst] (EConvertTypeParam); concatenation. *)
Inductive cexpr : Type :=
| EStrLit (s : bytes)
| ERuneLit (r : N)
| EIntLit (n : N)
| ENamedConst (declared : option gotype) (init : cexpr)
| EVar (t : gotype)
| ECall (t : gotype)
| EConvert (T : gotype) (e : cexpr)
| EConvertTypeParam (inst : gotype) (e : cexpr)
| EConcat (a b : cexpr).

(* the forms named in the property text *)
Definition EUntypedConst (s : bytes) : cexpr := EStrLit s.
Definition ETypedConst (s : bytes) : cexpr := ENamedConst (Some GString) (EStrLit s).
Definition EVarString : cexpr := EVar GString.
Definition ECallString : cexpr := ECall GString.
Definition EConcatVar (s : bytes) : cexpr := EConcat (EStrLit s) (EVar GString).

Definition is_const_type (t : gotype) : bool :=
  match underlying t with GString | GBasic _ => true | _ => false end.

Fixpoint type_of (e : cexpr) : ety :=
  match e with
  | EStrLit _ => TyUntyped KString
  | ERuneLit _ => TyUntyped KRune
  | EIntLit _ => TyUntyped KInt
  | ENamedConst None i =>
      match type_of i with
      | TyUntyped k => TyUntyped k
      | TyConst t => TyConst t
      | _ => TyError
      end
  | ENamedConst (Some T) i =>
      if negb (is_const_type T) then TyError else
      match type_of i with
      | TyUntyped k => if representable k T then TyConst T else TyError
      | TyConst t => if assignable t T then TyConst T else TyError
      | _ => TyError
      end
  | EVar t => TyValue t
  | ECall t => TyValue t
  | EConvert T i => convert_result (type_of i) T
  | EConvertTypeParam inst i =>
      (* "Converting a constant to a type parameter yields a non-constant value of that type";
         every type in the type set of ~string allows a conversion from a string-typed operand *)
      match type_of i with
      | TyUntyped KString => TyValue inst
      | TyConst t | TyValue t => if is_string_t (underlying t) then TyValue inst else TyError
      | _ => TyError
      end
  | EConcat a b => add_result (type_of a) (type_of b)
  end.

(* what the client is able to write at all *)
Fixpoint client_wf (cfg : client_cfg) (e : cexpr) : bool :=
  match e with
  | EStrLit _ | ERuneLit _ | EIntLit _ => true
  | ENamedConst None i => client_wf cfg i
  | ENamedConst (Some T) i => denotable (c_pkg cfg) T && client_wf cfg i
  | EVar t => value_obtainable cfg t
  | ECall t => value_obtainable cfg t
  | EConvert T i => denotable (c_pkg cfg) T && client_wf cfg i
  | EConvertTypeParam inst i =>
      c_generics cfg && is_string_t (underlying inst) && client_wf cfg i
  | EConcat a b => client_wf cfg a && client_wf cfg b
  end.

(* the argument e type-checks at a parameter of type T *)
Definition arg_ok (e : cexpr) (T : gotype) : bool :=
  match type_of e with
  | TyUntyped k => representable k T
  | TyConst t | TyValue t => assignable t T
  | TyError => false
  end.

(* the model's prediction for "f(e) compiles" where the parameter has type T *)
Definition client_arg_compiles (cfg : client_cfg) (e : cexpr) (T : gotype) : bool :=
  client_wf cfg e && arg_ok e T.

(* "untyped string constant": string literals, untyped named constants of them, and constant
   concatenations of them -- a syntactic class *)
Fixpoint untyped_string_constant (e : cexpr) : bool :=
  match e with
  | EStrLit _ => true
  | ENamedConst None i => untyped_string_constant i
  | EConcat a b => untyped_string_constant a && untyped_string_constant b
  | _ => false
  end.

Fixpoint uses_type_param (e : cexpr) : bool :=
  match e with
  | EStrLit _ | ERuneLit _ | EIntLit _ | EVar _ | ECall _ => false
  | ENamedConst _ i => uses_type_param i
  | EConvert _ i => uses_type_param i
  | EConvertTypeParam _ _ => true
  | EConcat a b => uses_type_param a || uses_type_param b
  end.

(* the gate type of package pkg: "type stringConstant string", unexported by its name *)
Definition gate_name : bytes := B "stringConstant".
Definition gate_type (pkg : bytes) : gotype := GDefined pkg gate_name GString.

(* ---------------------------------------------------------------- other ways to a value *)

(* T(x) written by the client for a value x of type U that it holds *)
Definition convertible_from_client (cfg : client_cfg) (U T : gotype) : bool :=
  denotable (c_pkg cfg) T && conv_value U T.

(* Composite literals T{}, T{v1, ..., vn}, T{f: v}: "It is an error to specify an ElementList that
   [assigns to] a non-exported field of a struct belonging to a different package"; a positional
   list must give every field. *)
Inductive litform : Type := LitZero | LitPositional | LitKeyed (field : bytes).

Definition field_accessible (client : bytes) (f : gfield) : bool :=
  is_exported_name (field_name f) || bytes_eqb (field_qual f) client.

Definition literal_compiles (cfg : client_cfg) (T : gotype) (form : litform) : bool :=
  denotable (c_pkg cfg) T &&
  match underlying T with
  | GStruct fs =>
      match form with
      | LitZero => true
      | LitPositional => forallb (field_accessible (c_pkg cfg)) fs
      | LitKeyed n => existsb (fun f => bytes_eqb (field_name f) n && field_accessible (c_pkg cfg) f) fs
      end
  | _ => false
  end.

(* Selectors x.f on a client struct that embeds T (type my struct{ T }): f denotes the field of T
   promoted to my; it may be named only if it is accessible to the client package. *)
Definition struct_fields (t : gotype) : list gfield :=
  match underlying t with GStruct fs => fs | _ => [] end.

Definition promoted_field_selectable (cfg : client_cfg) (T : gotype) (n : bytes) : bool :=
  denotable (c_pkg cfg) T &&
  existsb (fun f => bytes_eqb (field_name f) n && field_accessible (c_pkg cfg) f) (struct_fields T).
