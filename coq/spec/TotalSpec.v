(* C08 specification: the template API is total.  Predicates used by the theorems of props/C08.v
   and the finding classifiers used by the driver (ocaml/drv_c08.ml).  Definitions only.

   Written from the property text: "problems are returned as errors, never panics or hangs".  In
   the models every Go index/slice expression is a checked access and every loop has explicit
   fuel, so "never panics or hangs" is the statement that the outcomes TPanic / EPanic / None /
   APanic / RPanic are never produced. *)
From V Require Import lib.Base gen.GenTemplate model.GoStrings model.TContext model.TTransition
     model.TEscapeText model.TTree model.TEscaper model.Engine.
Local Open Scope N_scope.

(* ---- text level ---- *)

Definition is_special (e : bytes) : bool := mem_bytes e T_specialElements.

(* The invariant of the contexts the escaper can be in:
   (1) in the text state the current element is not a special element (script, style, textarea,
       title): tTag moves to stateSpecialElementBody for those;
   (2) a delimiter is only ever set together with stateAttr (tBeforeValue, nudge).
   Without (1) contextAfterText returns (context{}, 0) in the same state on a closing tag and the
   "infinite loop" guard of escapeText fires; without (2) the same happens when an unquoted value
   ends at offset 0 in stateTag. *)
Definition wf_ctxb (c : context) : bool :=
  (match c_state c with StText => negb (is_special (c_elem c)) | _ => true end) &&
  (match c_delim c with
   | DNone => true
   | _ => match c_state c with StAttr => true | _ => false end
   end).
Definition wf_ctx (c : context) : Prop := wf_ctxb c = true.

(* ---- parse trees ---- *)

(* a node the escaper has no case for: {{break}}, {{continue}}, comment nodes *)
Fixpoint node_has_bc (n : node) : bool :=
  match n with
  | NBreak _ | NContinue _ | NComment _ => true
  | NIf _ _ b e | NRange _ _ b e | NWith _ _ b e => existsb node_has_bc b || existsb node_has_bc e
  | _ => false
  end.
Definition tree_has_bc (t : tree) : bool := existsb node_has_bc t.
Definition no_break_continue (t : tree) : Prop := tree_has_bc t = false.

(* the template environment of an analysis: text/template's association and the derived templates *)
Definition env_has_bc (e : tenv) : bool :=
  existsb (fun kv => match snd kv with Some t => tree_has_bc t | None => false end) e.
Definition env_has_nil (e : tenv) : bool :=
  existsb (fun kv => match snd kv with Some _ => false | None => true end) e.

(* which analysis panics the hypotheses of the partial theorem leave possible: [bc] = some tree has a
   break/continue/comment node, [nl] = some template of the association has a nil Tree *)
Definition panic_allowed (bc nl : bool) (p : panic) : bool :=
  match p with
  | PFuel | PSharedNode => true
  | PBreakContinue => bc
  | PNilTree => nl
  | PTextLoop | POutOfSync | PNoTemplates => false
  end.

(* the memoised output contexts of an escaper are well-formed *)
Definition wf_output (l : list (bytes * context)) : Prop := Forall (fun kv => wf_ctx (snd kv)) l.

(* ---- API histories ---- *)

Definition is_panic (r : rclass) : bool := match r with RPanic _ => true | _ => false end.

(* ops that can reach the analysis *)
Definition is_exec (o : op) : bool :=
  match o with OExecute _ | OExecuteTemplate _ _ => true | _ => false end.

(* all definitions handed to Parse in a history *)
Definition defs_of (ops : list op) : list (bytes * tree) :=
  flat_map (fun o => match o with OParse _ (Parsed ts) => ts | _ => [] end) ops.

(* finding D7: the history parses a template with a break/continue (or comment) node *)
Definition finding_D7 (ops : list op) : bool :=
  existsb (fun d => tree_has_bc (snd d)) (defs_of ops).

(* names called by {{template}} nodes *)
Fixpoint node_callees (n : node) : list bytes :=
  match n with
  | NTemplate _ name _ => [name]
  | NIf _ _ b e | NRange _ _ b e | NWith _ _ b e => flat_map node_callees b ++ flat_map node_callees e
  | _ => []
  end.
Definition callees_of (defs : list (bytes * tree)) (name : bytes) : list bytes :=
  flat_map (fun d => if bytes_eqb (fst d) name then flat_map node_callees (snd d) else []) defs.

(* names reachable from [from] through at least one {{template}} edge, by name, over all
   definitions of the history (name spaces are not distinguished: an over-approximation that
   only widens what is attributed to the recorded finding when the same name is defined twice) *)
Fixpoint reach_from (fuel : nat) (defs : list (bytes * tree)) (from : list bytes) (seen : list bytes) : list bytes :=
  match fuel with
  | O => seen
  | S f =>
      let next := dedup_bytes (flat_map (callees_of defs) from) in
      let fresh := filter (fun n => negb (mem_bytes n seen)) next in
      match fresh with
      | [] => seen
      | _ => reach_from f defs fresh (seen ++ fresh)
      end
  end.
Definition reaches (defs : list (bytes * tree)) (from target : bytes) : bool :=
  mem_bytes target (reach_from (S (length defs)) defs [from] []).

(* finding D8: the op executes template [target]; an earlier call of the history returned an
   analysis error for a template in [failed], and [target] reaches one of those through
   {{template}} calls.  (escapeTemplate sets the failed template's Tree to nil and leaves it in the
   set; a later analysis or execution that reaches it dereferences the nil Tree.) *)
Definition finding_D8 (ops : list op) (failed : list bytes) (target : bytes) : bool :=
  existsb (fun f => reaches (defs_of ops) target f) failed.

(* finding D40: names n such that the history calls t.New(n) on a handle (which replaces an
   existing template n by a fresh one without a Tree) and clones afterwards: text/template's
   Clone registers its receiver under its own name even when its Tree is nil, so in the clone a
   template that reaches n dereferences the nil Tree -- no call need have failed before *)
Definition is_clone (o : op) : bool := match o with OClone _ => true | _ => false end.
Fixpoint replaced_then_cloned (ops : list op) : list bytes :=
  match ops with
  | [] => []
  | OSubNew _ n :: rest => (if existsb is_clone rest then [n] else []) ++ replaced_then_cloned rest
  | _ :: rest => replaced_then_cloned rest
  end.
(* k = index of the panicking op, target = the template it executes *)
Definition finding_D40 (ops : list op) (k : nat) (target : bytes) : bool :=
  existsb (fun n => reaches (defs_of ops) target n) (replaced_then_cloned (firstn k ops)).

(* no template reachable from an exec op has failed before: the negation of finding_D8 *)
Definition no_failed_callee (ops : list op) (failed : list bytes) (target : bytes) : Prop :=
  finding_D8 ops failed target = false.
