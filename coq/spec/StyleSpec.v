(* C15 specification.  Written from the property text, the doc comments of StyleProperties /
   safeRegularPropertyValuePattern in style.go and CSS Syntax Level 3 (spec/CssSyntax.v);
   independent of gen/GenStyle.v except for the bridges at the end, which COMPARE the
   regenerated data with what is written here.  Definitions only. *)
From V Require Import lib.Base lib.Regex lib.RegexDecide lib.Utf8 gen.GenRegex gen.GenStyle
  spec.CssSyntax model.Url model.Style.
Local Open Scope N_scope.

(* ---- the documented (field, CSS property name, kind) list, in the documented order:
   "property values for CSS properties whose names are the hyphen-separated form of the
   field names"; kinds: 0 list of URLs, 1 list of font names, 2 enumerated, 3 regular ---- *)
Definition documented_fields : list (bytes * bytes * N) :=
  [ (B "BackgroundImageURLs", B "background-image", 0);
    (B "FontFamily", B "font-family", 1);
    (B "Display", B "display", 2);
    (B "BackgroundColor", B "background-color", 3);
    (B "BackgroundPosition", B "background-position", 3);
    (B "BackgroundRepeat", B "background-repeat", 3);
    (B "BackgroundSize", B "background-size", 3);
    (B "Color", B "color", 3);
    (B "Height", B "height", 3);
    (B "Width", B "width", 3);
    (B "Left", B "left", 3);
    (B "Right", B "right", 3);
    (B "Top", B "top", 3);
    (B "Bottom", B "bottom", 3);
    (B "FontWeight", B "font-weight", 3);
    (B "Padding", B "padding", 3);
    (B "ZIndex", B "z-index", 3) ].

Definition documented_innocuous : bytes := B "zGoSafezInvalidPropertyValue".

(* ---- documented alphabets ---- *)
Definition is_alnum (c : N) : bool :=
  ((48 <=? c) && (c <=? 57)) || ((65 <=? c) && (c <=? 90)) || ((97 <=? c) && (c <=? 122)).
(* "alphanumerics, space, tab, and the set [+-.!#%_/*]" *)
Definition is_doc_regular_char (c : N) : bool :=
  is_alnum c || (c =? 32) || (c =? 9) ||
  (c =? 43) || (c =? 45) || (c =? 46) || (c =? 33) || (c =? 35) || (c =? 37) || (c =? 95) ||
  (c =? 47) || (c =? 42).
(* "comment markers "//", "/*", and "*/" are disallowed" *)
Fixpoint no_comment_marker (s : bytes) : bool :=
  match s with
  | a :: ((b :: _) as r) =>
      negb (((a =? 47) && (b =? 47)) || ((a =? 47) && (b =? 42)) || ((a =? 42) && (b =? 47)))
      && no_comment_marker r
  | _ => true
  end.
Definition doc_regular (v : bytes) : bool := forallb is_doc_regular_char v && no_comment_marker v.
(* "Display must consist of only ASCII alphabetic or '-' runes" *)
Definition is_doc_enum_char (c : N) : bool :=
  ((65 <=? c) && (c <=? 90)) || ((97 <=? c) && (c <=? 122)) || (c =? 45).
Definition doc_enum (v : bytes) : bool := forallb is_doc_enum_char v.
(* "Names starting with a Latin alphabet runes and containing only Latin alphabets and hyphens" *)
Definition is_latin (c : N) : bool := ((65 <=? c) && (c <=? 90)) || ((97 <=? c) && (c <=? 122)).
Definition doc_font_ident (v : bytes) : bool :=
  match v with c :: r => is_latin c && forallb is_doc_enum_char r | [] => false end.

(* the recorded defect D11: a regular value that contains ',' and is otherwise documented *)
Definition is_doc_regular_char_comma (c : N) : bool := is_doc_regular_char c || (c =? 44).
Definition finding_D11 (v : bytes) : bool :=
  existsb (N.eqb 44) v && forallb is_doc_regular_char_comma v && no_comment_marker v.

(* the recorded defect D25: the documented escaping (cssEscapeString: less-than, double quote, backslash, C0 and C1
   control codes, DEL, U+2028, U+2029 become a six-digit hex escape) leaves a following U+0020
   in place, and CSS Syntax 4.3.7 makes a hex escape swallow one following whitespace *)
Definition is_doc_escaped (c : N) : bool :=
  (c =? 60) || (c =? 34) || (c =? 92) || ((1 <=? c) && (c <=? 31)) || (c =? 127) ||
  ((128 <=? c) && (c <=? 159)) || (c =? 8232) || (c =? 8233).
Fixpoint swallow_spaces (l : list N) : list N :=
  match l with
  | c :: ((d :: r') as r) =>
      if is_doc_escaped c && (d =? 32) then c :: swallow_spaces r' else c :: swallow_spaces r
  | _ => l
  end.
Definition finding_D25_runes (l : list N) : bool := negb (list_eqb N.eqb (swallow_spaces l) l).
Definition finding_D25 (s : bytes) : bool :=
  finding_D25_runes (map (fun c => if c =? 0 then FFFD else c) (decode_runes s)).

(* ---- CSS string unescape at the specification level (CSS Syntax 4.3.5 / 4.3.7) ---- *)
Definition nul_to_fffd (l : list N) : list N := map (fun c => if c =? 0 then FFFD else c) l.
Definition css_unescape_string (escaped : bytes) : option (list N) :=
  string_value (preprocess (decode_runes escaped)).

(* ---- helpers over component values ---- *)
Fixpoint split_commas (l : list cv) (cur : list cv) : list (list cv) :=
  match l with
  | [] => [trim_trailing_ws (drop_ws_cvs (rev cur))]
  | CVTok TComma :: r => trim_trailing_ws (drop_ws_cvs (rev cur)) :: split_commas r []
  | c :: r => split_commas r (c :: cur)
  end.

Definition runes_eqb : list N -> list N -> bool := list_eqb N.eqb.

(* verdicts: 0 = as specified, 25 = differs exactly by the recorded defect D25, 1 = wrong *)
Definition string_verdict (s expected : list N) : N :=
  if runes_eqb s expected then 0
  else if runes_eqb s (swallow_spaces expected) then 25 else 1.
Definition worst (a b : N) : N :=
  if (a =? 1) || (b =? 1) then 1 else if (a =? 25) || (b =? 25) then 25 else 0.

(* what "x:" ++ v parses to, when it is exactly one declaration *)
Definition value_as_declaration (v : bytes) : option (list token * bool) :=
  match parse_declaration_list (css_tokens ([120; 58] ++ v)) with
  | [DDecl _ val imp] => if forallb cv_closed val then Some (cvs_tokens val, imp) else None
  | _ => None
  end.

Definition decl_is (val : list cv) (imp : bool) (expected : option (list token * bool)) : bool :=
  match expected with
  | Some (toks, imp') => tokens_eqb (cvs_tokens val) toks && Bool.eqb imp imp'
  | None => false
  end.

Definition is_innocuous_value (val : list cv) (imp : bool) : bool :=
  negb imp && tokens_eqb (cvs_tokens val) [TIdent documented_innocuous].

(* one background-image component against its input URL *)
Definition url_component_verdict (comp : list cv) (u : bytes) : N :=
  match comp with
  | [CVFunc name [CVTok (TString s true)] true] =>
      if eq_nocase name [117; 114; 108]
      then string_verdict s (nul_to_fffd (decode_runes (url_sanitized u))) else 1
  | _ => 1
  end.

Definition strip_quotes (s : bytes) : bytes := removelast (tl s).
Definition enclosed_in_quotes (s : bytes) : bool :=
  match s with
  | 34 :: r => match last_or r None with Some c => c =? 34 | None => false end
  | _ => false
  end.

(* one font-family component against its input name *)
Definition font_component_verdict (comp : list cv) (name : bytes) : N :=
  match comp with
  | [CVTok (TIdent v)] => if doc_font_ident name && runes_eqb v name then 0 else 1
  | [CVTok (TString s true)] =>
      if doc_font_ident name && (2 <=? N.of_nat (length name)) then 1
      else if enclosed_in_quotes name then
         (* "Names enclosed in double quote literals will be CSS-escaped without the outermost
            quotes"; for the two-byte name consisting of the two quotes both readings are accepted *)
         if (N.of_nat (length name) =? 2) && runes_eqb s (nul_to_fffd (decode_runes name)) then 0
         else string_verdict s (nul_to_fffd (decode_runes (strip_quotes name)))
      else string_verdict s (nul_to_fffd (decode_runes name))
  | _ => 1
  end.

Fixpoint forallb2 {A C} (f : A -> C -> bool) (a : list A) (c : list C) : bool :=
  match a, c with
  | [], [] => true
  | x :: a', y :: c' => f x y && forallb2 f a' c'
  | _, _ => false
  end.
(* the worst verdict of a component-wise comparison; 1 when the lengths differ *)
Fixpoint verdict2 {A C} (f : A -> C -> N) (a : list A) (c : list C) : N :=
  match a, c with
  | [], [] => 0
  | x :: a', y :: c' => worst (f x y) (verdict2 f a' c')
  | _, _ => 1
  end.
Definition verdict_failure (clause : bytes) (v : N) : list (bytes * N) :=
  if v =? 0 then [] else [(clause, if v =? 25 then 25 else 0)].

(* ---- the specification predicate over (properties, implementation output) ---- *)
(* a property value in the documented order: (css name, kind, value) of the non-empty fields *)
Fixpoint lookup_by_name (names : list bytes) (vals : list pv) (fname : bytes) : option pv :=
  match names, vals with
  | n :: names', v :: vals' => if bytes_eqb n fname then Some v else lookup_by_name names' vals' fname
  | _, _ => None
  end.
Definition documented_names : list bytes := map (fun e => fst (fst e)) documented_fields.
Definition field_by_name (p : list pv) (fname : bytes) : option pv :=
  lookup_by_name documented_names p fname.

(* the output as the documentation describes it: one chunk  name:value;  per non-empty field,
   in the documented order (the value treatment [field_value] is the model's) *)
Definition doc_emit (p : list pv) (e : bytes * bytes * N) : bytes :=
  let '(fname, css, kind) := e in
  match field_by_name p fname with
  | Some v =>
      match field_value kind v with
      | Some val => css ++ [58] ++ val ++ [59]
      | None => []
      end
  | None => []
  end.

Definition pv_nonempty (v : pv) : bool :=
  match v with PList l => negb (is_nil l) | PStr s => negb (is_nil s) end.

Definition expected_decls (p : list pv) : list (bytes * N * pv) :=
  flat_map (fun e =>
    let '(fname, css, kind) := e in
    match field_by_name p fname with
    | Some v => if pv_nonempty v then [(css, kind, v)] else []
    | None => []
    end) documented_fields.

(* a failure: (clause name, number nn of the recorded finding Dnn whose classifier accepts it, or 0) *)
Definition check_decl (e : bytes * N * pv) (d : decl_item) : list (bytes * N) :=
  let '(css, kind, v) := e in
  match d with
  | DDecl _ val imp =>
      match v with
      | PStr s =>
          if kind =? 3 then
            if (doc_regular s && decl_is val imp (value_as_declaration s)) || is_innocuous_value val imp
            then [] else [(B "regular_value_outside_documented_alphabet", if finding_D11 s then 11 else 0)]
          else if kind =? 2 then
            if (doc_enum s && decl_is val imp (value_as_declaration s)) || is_innocuous_value val imp
            then [] else [(B "enum_value_outside_documented_alphabet", 0)]
          else [(B "kind", 0)]
      | PList l =>
          if imp then [(B "important_in_list", 0)]
          else if kind =? 0 then
            verdict_failure (B "background_image_component") (verdict2 url_component_verdict (split_commas val []) l)
          else if kind =? 1 then
            verdict_failure (B "font_family_component") (verdict2 font_component_verdict (split_commas val []) l)
          else [(B "kind", 0)]
      end
  | _ => [(B "not_a_declaration", 0)]
  end.

Fixpoint check_decls (es : list (bytes * N * pv)) (ds : list decl_item) : list (bytes * N) :=
  match es, ds with
  | e :: es', d :: ds' => check_decl e d ++ check_decls es' ds'
  | _, _ => []
  end.

Definition is_decl (d : decl_item) : bool := match d with DDecl _ _ _ => true | _ => false end.
Definition decl_closed (d : decl_item) : bool := forallb cv_closed (decl_value d).
Definition opt_runes_eqb (a : option (list N)) (b : list N) : bool :=
  match a with Some x => runes_eqb x b | None => false end.

Definition style_spec_failures (p : list pv) (o : bytes) : list (bytes * N) :=
  let toks := css_tokens o in
  let ds := parse_declaration_list toks in
  let es := expected_decls p in
  (if existsb is_bad_token toks then [(B "bad_string_bad_url_or_comment_token", 0)] else []) ++
  (if forallb is_decl ds then [] else [(B "not_a_declaration_list", 0)]) ++
  (if forallb decl_closed ds then [] else [(B "unclosed_block_or_function", 0)]) ++
  (if forallb2 (fun d e => opt_runes_eqb (decl_name d) (fst (fst e))) ds es then []
   else [(B "declaration_names_or_order", 0)]) ++
  (if is_nil o || last_byte_is 59 o then [] else [(B "does_not_end_with_semicolon", 0)]) ++
  (if existsb (N.eqb 60) o then [(B "contains_lt", 0)] else []) ++
  check_decls es ds.

Definition style_spec (p : list pv) (o : bytes) : bool := is_nil (style_spec_failures p o).

(* cssEscapeString on its own: the escaped text, put between quotes, is one terminated string
   token whose value is the input's runes with NUL -> U+FFFD; and it has no '<' *)
Definition css_escape_verdict (s out : bytes) : N :=
  let expected := nul_to_fffd (decode_runes s) in
  if existsb (N.eqb 60) out then 1
  else match css_unescape_string out, css_tokens ([34] ++ out ++ [34]) with
       | Some v, [TString v' true] => if runes_eqb v v' then string_verdict v expected else 1
       | _, _ => 1
       end.

(* ---- vocabulary of the tokenizer-level theorems (proofs/CssTokFacts.v, props/C15.v) ---- *)
(* harmless characters: the documented alphabet of regular values plus ',' (defect D11) *)
Definition hch (c : N) : bool := is_doc_regular_char_comma c.
(* tokens that harmless text is made of *)
Definition harmless_token (t : token) : bool :=
  match t with
  | TIdent _ | THash _ _ | TDelim _ | TNumber _ | TPercentage _ | TDimension _ _
  | TWhitespace | TComma => true
  | _ => false
  end.
(* a separator: one of , : ;  and its token *)
Definition is_sep (c : N) : bool := (c =? 44) || (c =? 58) || (c =? 59).
Definition sep_token (s : N) : token :=
  if s =? 44 then TComma else if s =? 58 then TColon else TSemicolon.
(* the property names of the emitted (= non-empty) fields, in the documented order *)
Definition emitted_names (p : list pv) : list bytes :=
  flat_map (fun e => match doc_emit p e with [] => [] | _ => [snd (fst e)] end) documented_fields.

(* ---- side conditions on the regenerated data ("bridges") ---- *)
(* the regenerated emission list is the documented one *)
Definition triple_eqb (a b : bytes * bytes * N) : bool :=
  bytes_eqb (fst (fst a)) (fst (fst b)) && bytes_eqb (snd (fst a)) (snd (fst b)) && (snd a =? snd b).
Definition named_style_fields : list (bytes * bytes * N) :=
  map (fun e => let '(ix, css, kind) := e in (nth (N.to_nat ix) style_struct_fields [], css, kind)) style_fields.
Fixpoint nodupb (l : list bytes) : bool :=
  match l with [] => true | x :: r => negb (existsb (bytes_eqb x) r) && nodupb r end.
Definition fields_ok : bool :=
  translated_style_fields && translated_style_struct &&
  list_eqb triple_eqb named_style_fields documented_fields &&
  list_eqb bytes_eqb style_struct_fields documented_names &&
  nodupb style_struct_fields &&
  forallb (fun e => Nat.ltb (N.to_nat (fst (fst e))) (length style_struct_fields)) style_fields.
Definition innocuous_ok : bool :=
  translated_innocuous_property_value && bytes_eqb innocuous_property_value documented_innocuous.

(* specification expressions *)
Definition alnum_cls : list (N * N) := [(48, 57); (65, 90); (97, 122)].
(* A = the documented alphabet without '/' and '*' *)
Definition doc_safe_cls : list (N * N) :=
  [(9, 9); (32, 33); (35, 35); (37, 37); (43, 43); (45, 46); (48, 57); (65, 90); (95, 95); (97, 122)].
Definition doc_safe_comma_cls : list (N * N) :=
  [(9, 9); (32, 33); (35, 35); (37, 37); (43, 46); (48, 57); (65, 90); (95, 95); (97, 122)].
(* strings over A + '/' + '*' without the factors "//", "/*", "*/":
   ^ ( A | '*'+ (A|$) | '/' (A|$) )* $ *)
Definition S_doc_of (cls : list (N * N)) : regex :=
  Cat BeginText
    (Cat (Star (Alt (Cls cls)
               (Alt (Cat (plus (Cls [(42, 42)])) (Alt (Cls cls) EndText))
                    (Cat (Cls [(47, 47)]) (Alt (Cls cls) EndText)))))
         EndText).
Definition S_doc_regular : regex := S_doc_of doc_safe_cls.
Definition S_doc_regular_comma : regex := S_doc_of doc_safe_comma_cls.
Definition doc_all_comma_cls : list (N * N) :=
  [(9, 9); (32, 33); (35, 35); (37, 37); (42, 57); (65, 90); (95, 95); (97, 122)].
Definition S_doc_regular_chars_comma : regex := Cat BeginText (Cat (Star (Cls doc_all_comma_cls)) EndText).
Definition doc_enum_cls : list (N * N) := [(45, 45); (65, 90); (97, 122)].
Definition S_doc_enum : regex := Cat BeginText (Cat (Star (Cls doc_enum_cls)) EndText).
Definition S_doc_font_ident : regex :=
  Cat BeginText (Cat (Cls [(65, 90); (97, 122)]) (Cat (Star (Cls doc_enum_cls)) EndText)).

(* the gate: code's regular pattern within the documented language plus ',' (stays true if D11 is repaired) *)
Definition bridge_regular_comma : bool := incl_ok (search G_safeRegularPropertyValuePattern) S_doc_regular_comma.
Definition bridge_regular_chars : bool := incl_ok (search G_safeRegularPropertyValuePattern) S_doc_regular_chars_comma.
Definition bridge_enum : bool := incl_ok (search G_safeEnumPropertyValuePattern) S_doc_enum.
Definition bridge_font_ident : bool := incl_ok (search G_identifierPattern) S_doc_font_ident.
(* the exact documented language: EXPECTED TO FAIL on the unchanged tree (witness ","): defect D11.
   Not a gate; used by props/C15_findings.v and the directed search. *)
Definition bridge_regular_exact : bool := incl_ok (search G_safeRegularPropertyValuePattern) S_doc_regular.

Definition C15_bridges : list (bytes * (regex * regex)) :=
  [ (B "regular_comma", (search G_safeRegularPropertyValuePattern, S_doc_regular_comma));
    (B "regular_chars", (search G_safeRegularPropertyValuePattern, S_doc_regular_chars_comma));
    (B "enum", (search G_safeEnumPropertyValuePattern, S_doc_enum));
    (B "font_ident", (search G_identifierPattern, S_doc_font_ident)) ].
