(* C09 after the repair of D9 (fix: hold the name space mutex in DefinedTemplates): the side
   condition that EVERY method the property allows concurrently obeys the discipline. *)
From V Require Import lib.Base gen.GenLocks model.Conc spec.ConcSpec.

Definition clean_all : bool := forallb clean_method api_methods.
