(* C09 after the repair of D9 (fix: hold the name space mutex in DefinedTemplates): the side
   condition that EVERY method the property allows concurrently obeys the discipline. *)
From V Require Import lib.Base gen.GenLocks model.Conc spec.ConcSpec.

Definition clean_all : bool := forallb clean_method api_methods.

(* ------------------------------------------------------------------ one critical section per call *)
(* The linearisation theorem (C09_cs_linearisation) is about calls that are ONE critical section of
   ns.mu.  On the regenerated summaries: the Lock sites of ns.mu in the functions a method can reach
   (each function counted once).  A method that takes the mutex at two sites can observe the shared
   analysis state, release the mutex, and act on what it observed in a second critical section. *)
Definition is_lock_site (a : access) : bool :=
  match a with Acc f _ _ => bytes_eqb f (B "ns.mu.Lock") | _ => false end.

Fixpoint dedup_names (seen : list bytes) (l : list bytes) : list bytes :=
  match l with
  | [] => []
  | x :: r => if existsb (bytes_eqb x) seen then dedup_names seen r else x :: dedup_names (x :: seen) r
  end.

Definition reached_functions (m : bytes) : list bytes := dedup_names [] (map fst (w_vis (method_walk m))).

Definition lock_sites (m : bytes) : list (bytes * nat) :=
  flat_map (fun f => match assoc_bytes f lock_summaries with
                     | Some body => match length (filter is_lock_site body) with O => [] | n => [(f, n)] end
                     | None => []
                     end) (reached_functions m).

Definition lock_site_count (m : bytes) : nat := fold_left (fun acc x => (acc + snd x)%nat) (lock_sites m) O.

Definition one_cs_method (m : bytes) : bool := Nat.leb (lock_site_count m) 1.
Definition one_cs_all : bool := forallb one_cs_method api_methods.
