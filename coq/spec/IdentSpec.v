(* C18 specification: byte-level recogniser, specification expressions and the
   decidable side conditions ("bridges") on the regenerated patterns.  No proofs. *)
From V Require Import lib.Base lib.Regex lib.RegexDecide gen.GenRegex.
Local Open Scope N_scope.

(* ---- the specification, byte level, independent of any regular expression ---- *)
Definition is_alpha (b : N) : bool := ((65 <=? b) && (b <=? 90)) || ((97 <=? b) && (b <=? 122)).
Definition is_ident_char (b : N) : bool :=
  is_alpha b || ((48 <=? b) && (b <=? 57)) || (b =? 45) || (b =? 95).
Definition ident_spec (r : bytes) : bool :=
  match r with
  | [] => false
  | b :: t => is_alpha b && forallb is_ident_char t
  end.

(* ---- specification expressions and the bridge from the regenerated patterns ---- *)
Definition alpha_cls : list (N * N) := [(65, 90); (97, 122)].
Definition ident_cls : list (N * N) := [(45, 45); (48, 57); (65, 90); (95, 95); (97, 122)].
Definition S_starts_alpha : regex := Cat BeginText (Cat (Cls alpha_cls) any_star).
Definition S_only_ident : regex := Cat BeginText (Cat (Star (Cls ident_cls)) EndText).

(* proof obligations on the regenerated data, evaluated by the kernel *)
Definition bridge_start : bool := incl_ok (search G_startsWithAlphabetPattern) S_starts_alpha.
Definition bridge_chars : bool := incl_ok (search G_onlyAlphanumericsOrHyphenPattern) S_only_ident.

Definition bridge_start_rev : bool := incl_ok S_starts_alpha (search G_startsWithAlphabetPattern).
Definition bridge_chars_rev : bool := incl_ok S_only_ident (search G_onlyAlphanumericsOrHyphenPattern).

(* the same side conditions as data, for the directed search of the check driver *)
Definition C18_bridges : list (bytes * (regex * regex)) :=
  [ (B "start", (search G_startsWithAlphabetPattern, S_starts_alpha));
    (B "chars", (search G_onlyAlphanumericsOrHyphenPattern, S_only_ident));
    (B "start_rev", (S_starts_alpha, search G_startsWithAlphabetPattern));
    (B "chars_rev", (S_only_ident, search G_onlyAlphanumericsOrHyphenPattern)) ].
