(* C02, policy side: which sanitizers accept only their own safe type (from the documentation of the
   sanitization contexts, doc.go), and the decidable side conditions on the REVIEWED policy tables and
   on the regenerated context table that the theorems of proofs/CodeContextFacts.v rest on.  The oracle
   predicates of spec/CodeContextSpec.v do not use any of this.  Definitions only. *)
From V Require Import lib.Base lib.Regex lib.RegexDecide lib.Utf8 gen.GenPolicy.
From V Require Import reviewed.ReviewedPolicy model.GoStrings model.HtmlUnescape model.TContext model.TSanitize
     spec.PolicySpec spec.CodeContextSpec.
Local Open Scope N_scope.

(* the sanitizers that fail on everything but a value of their own safehtml type *)
Definition typed_only_sanitizers : list bytes :=
  [ B "_sanitizeScript"; B "_sanitizeStyleSheet"; B "_sanitizeStyle"; B "_sanitizeHTMLValOnly";
    B "_sanitizeTrustedResourceURL"; B "_sanitizeIdentifier" ].

(* the sanitizers of the three URL classes *)
Definition url_class_sanitizers : list bytes :=
  [ B "_sanitizeURL"; B "_sanitizeTrustedResourceURLOrURL"; B "_sanitizeTrustedResourceURL" ].

(* regenerated context table: a context is a URL class exactly when its sanitizer is one of the three;
   only the context named TrustedResourceURL uses the typed-only URL sanitizer *)
Definition c02_url_sanitizers : bool :=
  forallb (fun x => let '(k, (_, san, _, url)) := x in
                    Bool.eqb url (cc_mem san url_class_sanitizers) &&
                    implb (bytes_eqb san (B "_sanitizeTrustedResourceURL")) (k =? SC_TRU)) P_contexts.

(* reviewed tables: no attribute key starts with the two letters of an event handler name *)
Definition r_attr_keys : list bytes := map (fun x => fst (fst x)) R_elementSpecific ++ map fst R_globalAttr.
Definition c02_handlers_denied : bool := forallb (fun a => negb (handler_name a)) r_attr_keys.

(* reviewed data-* pattern: every match starts with the letter d *)
Definition starts_with_d : regex := Cat BeginText (Cat (Cls [(100, 100)]) any_star).
Definition c02_data_prefix : bool := incl_ok (search R_dataAttributeName) starts_with_d.

(* the classes the reviewed tables can give to attribute a (whatever the element) *)
Definition r_attr_classes (a : bytes) : list bytes :=
  map snd (filter (fun x => bytes_eqb a (fst (fst x))) R_elementSpecific) ++
  match lookup_bytes a R_globalAttr with Some n => [n] | None => [] end.

Definition r_sanitizer (n : bytes) : bytes :=
  match lookup_bytes n R_contexts with Some (san, _, _, _) => san | None => [] end.
Definition r_is_url (n : bytes) : bool :=
  match lookup_bytes n R_contexts with Some (_, _, u, _) => u | None => false end.

(* the code-loading (element, attribute) pairs of the property that do not depend on rel *)
Definition code_loading_pairs : list (bytes * bytes) :=
  [ (B "script", B "src"); (B "iframe", B "src"); (B "frame", B "src"); (B "embed", B "src");
    (B "object", B "data"); (B "base", B "href"); (B "link", B "href") ].

Definition opt_is (o : option bytes) (n : bytes) : bool :=
  match o with Some x => bytes_eqb x n | None => true end.

(* reviewed tables: what the property names is refused or demands the matching safe type *)
Definition c02_content_tables : bool :=
  opt_is (reviewed_content (B "script")) (B "Script") && opt_is (reviewed_content (B "style")) (B "StyleSheet")
  && bytes_eqb (r_sanitizer (B "Script")) (B "_sanitizeScript")
  && bytes_eqb (r_sanitizer (B "StyleSheet")) (B "_sanitizeStyleSheet").

Definition c02_style_tables : bool :=
  forallb (fun n => bytes_eqb n (B "Style")) (r_attr_classes (B "style"))
  && negb (go_match_bytes R_dataAttributeName (B "style"))
  && bytes_eqb (r_sanitizer (B "Style")) (B "_sanitizeStyle") && negb (r_is_url (B "Style")).

Definition c02_srcdoc_tables : bool :=
  forallb (fun n => bytes_eqb n (B "HTMLValOnly")) (r_attr_classes (B "srcdoc"))
  && negb (go_match_bytes R_dataAttributeName (B "srcdoc"))
  && bytes_eqb (r_sanitizer (B "HTMLValOnly")) (B "_sanitizeHTMLValOnly") && negb (r_is_url (B "HTMLValOnly")).

Definition c02_loading_tables : bool :=
  forallb (fun p => opt_is (reviewed_attr (fst p) (snd p) []) N_TRU) code_loading_pairs
  && bytes_eqb (r_sanitizer N_TRU) (B "_sanitizeTrustedResourceURL") && r_is_url N_TRU.

(* the rel value carries no token of the reviewed allow-list (negation of the classifier of D3,
   widened to: no allow-listed token at all) *)
Definition rel_has_url_token (rel : bytes) : bool :=
  existsb (fun v => mem_bytes v R_urlLinkRelVals) (fields rel).

Definition C02_bridges : list (bytes * (regex * regex)) :=
  [ (B "data_prefix", (search R_dataAttributeName, starts_with_d)) ].
