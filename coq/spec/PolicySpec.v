(* C04 specification: the reviewed policy as a decision function, the trust order, and the
   decidable side conditions that compare the regenerated policy tables with the reviewed ones. *)
From V Require Import lib.Base lib.Regex lib.RegexDecide lib.Utf8 gen.GenRegex gen.GenPolicy.
From V Require Import reviewed.ReviewedPolicy model.GoStrings model.HtmlUnescape model.TContext model.TSanitize.
Local Open Scope N_scope.

Definition N_None : bytes := B "None".
Definition N_URL : bytes := B "URL".
Definition N_TRUOrURL : bytes := B "TrustedResourceURLOrURL".
Definition N_TRU : bytes := B "TrustedResourceURL".
Definition N_HTML : bytes := B "HTML".

(* trust_le a b: a context of class b demands at least the trust that class a demands.
   None is the bottom; URL <= TrustedResourceURLOrURL <= TrustedResourceURL; every other
   class (enumerations, typed-only classes, URLSet, HTML, RCDATA) is comparable only to itself. *)
Definition trust_le (a b : bytes) : bool :=
  bytes_eqb a b || bytes_eqb a N_None
  || (bytes_eqb a N_URL && (bytes_eqb b N_TRUOrURL || bytes_eqb b N_TRU))
  || (bytes_eqb a N_TRUOrURL && bytes_eqb b N_TRU).

Definition sc_name (sc : N) : bytes :=
  match sc_info sc with Some (n, _, _, _) => n | None => [] end.

Fixpoint lookup3 (a e : bytes) (t : list (bytes * bytes * bytes)) : option bytes :=
  match t with
  | [] => None
  | (a', e', n) :: t' => if bytes_eqb a a' && bytes_eqb e e' then Some n else lookup3 a e t'
  end.

Definition is_some {A} (o : option A) : bool := match o with Some _ => true | None => false end.

(* the table part of the decision, reviewed and engine side *)
Definition r_tables (a e : bytes) : option bytes :=
  match lookup3 a e R_elementSpecific with
  | Some n => Some n
  | None =>
      match lookup_bytes a R_globalAttr with
      | Some n => if is_some (lookup_bytes e R_elementContent) || mem_bytes e R_allowedVoid then Some n else None
      | None => None
      end
  end.

Definition p_tables (a e : bytes) : option N :=
  match lookup2 a e P_elementSpecific with
  | Some sc => Some sc
  | None =>
      match lookup_bytes a P_globalAttr with
      | Some sc =>
          if (match lookup_bytes e P_elementContent with Some _ => true | None => false end)
             || mem_bytes e P_allowedVoid
          then Some sc else None
      | None => None
      end
  end.

(* the reviewed decision: None = the action is refused *)
Definition reviewed_attr (e a rel : bytes) : option bytes :=
  if bytes_eqb e (B "link") && bytes_eqb a (B "href") &&
     existsb (fun v => mem_bytes v R_urlLinkRelVals) (fields rel)
  then Some N_TRUOrURL
  else if go_match_bytes R_dataAttributeName a then Some N_None
  else r_tables a e.

Definition reviewed_content (e : bytes) : option bytes := lookup_bytes e R_elementContent.

(* ---- side conditions on the regenerated tables ---- *)
Definition cmp_sc (p : option N) (r : option bytes) : bool :=
  match p with
  | None => true
  | Some sc => match r with Some n' => trust_le n' (sc_name sc) | None => false end
  end.

Definition K_attr : list bytes := map (fun x => fst (fst x)) P_elementSpecific ++ map fst P_globalAttr.
Definition K_elem : list bytes :=
  map (fun x => snd (fst x)) P_elementSpecific ++ map fst P_elementContent ++ P_allowedVoid.

Definition tables_ok : bool :=
  forallb (fun a => forallb (fun e => cmp_sc (p_tables a e) (r_tables a e)) K_elem) K_attr.

(* first offending (attribute, element) pair, for the directed search *)
Definition tables_witness : option (bytes * bytes) :=
  match find (fun a => negb (forallb (fun e => cmp_sc (p_tables a e) (r_tables a e)) K_elem)) K_attr with
  | Some a => match find (fun e => negb (cmp_sc (p_tables a e) (r_tables a e))) K_elem with
              | Some e => Some (a, e)
              | None => None
              end
  | None => None
  end.

Definition rel_ok : bool := forallb (fun v => mem_bytes v R_urlLinkRelVals) P_urlLinkRelVals.
Definition data_ok : bool := incl_ok (search G_dataAttributeNamePattern) (search R_dataAttributeName).

(* link href when the engine's rel rule does not fire but the reviewed one could *)
Definition link_href_ok : bool :=
  cmp_sc (if go_match_bytes G_dataAttributeNamePattern (B "href") then Some SC_None
          else p_tables (B "href") (B "link")) (Some N_TRUOrURL).

Definition content_ok : bool :=
  forallb (fun x => cmp_sc (Some (snd x)) (lookup_bytes (fst x) R_elementContent)) P_elementContent.
Definition content_witness : option bytes :=
  match find (fun x => negb (cmp_sc (Some (snd x)) (lookup_bytes (fst x) R_elementContent))) P_elementContent with
  | Some x => Some (fst x) | None => None end.

(* names and flags of the contexts agree with the reviewed ones *)
Definition contexts_ok : bool :=
  forallb (fun x => let '(_, (n, san, en, url)) := x in
                    match lookup_bytes n R_contexts with
                    | Some (san', en', url', _) => bytes_eqb san san' && Bool.eqb en en' && Bool.eqb url url'
                    | None => false
                    end) P_contexts
  && bytes_eqb (sc_name SC_TRUOrURL) N_TRUOrURL && bytes_eqb (sc_name SC_None) N_None
  && bytes_eqb (sc_name SC_HTML) N_HTML && bytes_eqb (sc_name SC_URL) N_URL && bytes_eqb (sc_name SC_TRU) N_TRU
  && bytes_eqb (sc_name SC_Style) (B "Style").

Definition enum_ok : bool :=
  forallb (fun x => match lookup_bytes (fst x) R_enumValues with
                    | Some rw => forallb (fun w => mem_bytes w rw) (snd x)
                    | None => false
                    end) P_enumValues.

Definition typed_only_name (n : bytes) : bool :=
  match lookup_bytes n R_contexts with Some (_, _, _, t) => t | None => false end.

Definition C04_bridges : list (bytes * (regex * regex)) :=
  [ (B "data_attr", (search G_dataAttributeNamePattern, search R_dataAttributeName)) ].
