(* RFC 8259 decoder, written from the RFC (sections 2-7), not from Go's encoding/json.
   json_decode : bytes -> option jvalue reads exactly one JSON text (ws value ws).
   - objects are association lists in textual order (duplicate names are kept),
   - numbers are kept as their text (section 6 grammar),
   - strings are decoded to bytes: \uXXXX becomes the UTF-8 encoding of the code point,
     a high/low surrogate pair \uD8xx\uDCxx becomes the supplementary code point
     (section 7); an unpaired surrogate escape, whose meaning the RFC leaves open
     (section 8.2), becomes U+FFFD as in ECMAScript's well-formed JSON.stringify/TextDecoder;
     bytes >= 0x80 are copied (UTF-8 well-formedness of the text is judged separately),
     unescaped control characters (< 0x20) are rejected.
   Definitions only. *)
From V Require Import lib.Base lib.Utf8 model.Script.
Local Open Scope N_scope.

(* ws = *( %x20 / %x09 / %x0A / %x0D ) *)
Definition j_ws (c : N) : bool := (c =? 32) || (c =? 9) || (c =? 10) || (c =? 13).

Fixpoint skip_ws (s : bytes) : bytes :=
  match s with
  | [] => []
  | c :: r => if j_ws c then skip_ws r else s
  end.

Definition j_digit (c : N) : bool := (48 <=? c) && (c <=? 57).

Definition hexval (c : N) : option N :=
  if j_digit c then Some (c - 48)
  else if (97 <=? c) && (c <=? 102) then Some (c - 87)
  else if (65 <=? c) && (c <=? 70) then Some (c - 55)
  else None.

Definition hex4 (s : bytes) : option (N * bytes) :=
  match s with
  | a :: b :: c :: d :: r =>
      match hexval a, hexval b, hexval c, hexval d with
      | Some x, Some y, Some z, Some w => Some (((x * 16 + y) * 16 + z) * 16 + w, r)
      | _, _, _, _ => None
      end
  | _ => None
  end.

(* ---- strings (section 7) ---- *)

(* One character of a string body (never called on the closing quotation mark):
   Some (decoded bytes, rest of input). *)
Definition str_item (s : bytes) : option (bytes * bytes) :=
  match s with
  | [] => None
  | c :: r =>
      if c =? 92 then
        match r with
        | [] => None
        | e :: r' =>
            if e =? 34 then Some ([34], r')
            else if e =? 92 then Some ([92], r')
            else if e =? 47 then Some ([47], r')
            else if e =? 98 then Some ([8], r')
            else if e =? 102 then Some ([12], r')
            else if e =? 110 then Some ([10], r')
            else if e =? 114 then Some ([13], r')
            else if e =? 116 then Some ([9], r')
            else if e =? 117 then
              match hex4 r' with
              | None => None
              | Some (u, r2) =>
                  if (55296 <=? u) && (u <=? 56319) then
                    (* high surrogate: look for \uDC00..\uDFFF *)
                    match r2 with
                    | b1 :: b2 :: r3 =>
                        if (b1 =? 92) && (b2 =? 117) then
                          match hex4 r3 with
                          | Some (u2, r4) =>
                              if (56320 <=? u2) && (u2 <=? 57343)
                              then Some (encode_rune (65536 + (u - 55296) * 1024 + (u2 - 56320)), r4)
                              else Some (encode_rune u, r2)
                          | None => Some (encode_rune u, r2)
                          end
                        else Some (encode_rune u, r2)
                    | _ => Some (encode_rune u, r2)
                    end
                  else Some (encode_rune u, r2)
              end
            else None
        end
      else if c =? 34 then None
      else if c <? 32 then None
      else Some ([c], r)
  end.

(* the body of a string, after the opening quotation mark: (decoded, rest after the closing one) *)
Fixpoint parse_str (fuel : nat) (s : bytes) : option (bytes * bytes) :=
  match fuel with
  | O => None
  | S f =>
      match s with
      | [] => None
      | c :: r =>
          if c =? 34 then Some ([], r)
          else match str_item s with
               | Some (p, r') =>
                   match parse_str f r' with
                   | Some (q, r'') => Some (p ++ q, r'')
                   | None => None
                   end
               | None => None
               end
      end
  end.

(* ---- numbers (section 6): number = [ minus ] int [ frac ] [ exp ] ---- *)

Fixpoint span_digits (s : bytes) : bytes * bytes :=
  match s with
  | [] => ([], [])
  | c :: r => if j_digit c then match span_digits r with (a, b) => (c :: a, b) end else ([], s)
  end.

Definition num_exp (acc s : bytes) : option (bytes * bytes) :=
  match s with
  | e :: r =>
      if (e =? 101) || (e =? 69) then
        match (match r with
               | x :: r' => if (x =? 43) || (x =? 45) then ([x], r') else ([], r)
               | [] => ([], r)
               end) with
        | (sg, r1) =>
            match span_digits r1 with
            | (ds, r2) => match ds with [] => None | _ => Some (acc ++ e :: sg ++ ds, r2) end
            end
        end
      else Some (acc, s)
  | [] => Some (acc, s)
  end.

Definition num_frac (acc s : bytes) : option (bytes * bytes) :=
  match s with
  | d :: r =>
      if d =? 46 then
        match span_digits r with
        | (ds, r2) => match ds with [] => None | _ => num_exp (acc ++ d :: ds) r2 end
        end
      else num_exp acc s
  | [] => num_exp acc s
  end.

Definition num_int (acc s : bytes) : option (bytes * bytes) :=
  match s with
  | c :: r =>
      if c =? 48 then num_frac (acc ++ [48]) r
      else if (49 <=? c) && (c <=? 57) then
        match span_digits r with (ds, r2) => num_frac (acc ++ c :: ds) r2 end
      else None
  | [] => None
  end.

(* the longest prefix of s that is a number: (its text, the rest) *)
Definition scan_number (s : bytes) : option (bytes * bytes) :=
  match s with
  | c :: r => if c =? 45 then num_int [45] r else num_int [] s
  | [] => None
  end.

Definition is_json_number (t : bytes) : bool :=
  match scan_number t with
  | Some (t', []) => bytes_eqb t' t
  | _ => false
  end.

(* ---- values (sections 2-5) ---- *)

Fixpoint parse_value (fuel : nat) (s : bytes) : option (jvalue * bytes) :=
  match fuel with
  | O => None
  | S f =>
      match skip_ws s with
      | [] => None
      | c :: r =>
          if c =? 34 then
            match parse_str (length r) r with
            | Some (b, r') => Some (JStr b, r')
            | None => None
            end
          else if c =? 91 then
            match skip_ws r with
            | [] => None
            | c2 :: r2 =>
                if c2 =? 93 then Some (JArr [], r2)
                else match parse_elems f (c2 :: r2) with
                     | Some (l, r') => Some (JArr l, r')
                     | None => None
                     end
            end
          else if c =? 123 then
            match skip_ws r with
            | [] => None
            | c2 :: r2 =>
                if c2 =? 125 then Some (JObj [], r2)
                else match parse_members f (c2 :: r2) with
                     | Some (m, r') => Some (JObj m, r')
                     | None => None
                     end
            end
          else if c =? 116 then
            if prefixb (B "rue") r then Some (JBool true, skipn 3 r) else None
          else if c =? 102 then
            if prefixb (B "alse") r then Some (JBool false, skipn 4 r) else None
          else if c =? 110 then
            if prefixb (B "ull") r then Some (JNull, skipn 3 r) else None
          else
            match scan_number (c :: r) with
            | Some (t, r') => Some (JNum t, r')
            | None => None
            end
      end
  end

(* elements of a non-empty array, up to and including the closing bracket *)
with parse_elems (fuel : nat) (s : bytes) : option (list jvalue * bytes) :=
  match fuel with
  | O => None
  | S f =>
      match parse_value f s with
      | Some (v, r) =>
          match skip_ws r with
          | [] => None
          | c :: r' =>
              if c =? 44 then
                match parse_elems f r' with
                | Some (l, r'') => Some (v :: l, r'')
                | None => None
                end
              else if c =? 93 then Some ([v], r')
              else None
          end
      | None => None
      end
  end

(* members of a non-empty object, up to and including the closing brace *)
with parse_members (fuel : nat) (s : bytes) : option (list (bytes * jvalue) * bytes) :=
  match fuel with
  | O => None
  | S f =>
      match skip_ws s with
      | [] => None
      | c :: r =>
          if c =? 34 then
            match parse_str (length r) r with
            | None => None
            | Some (k, r1) =>
                match skip_ws r1 with
                | [] => None
                | c1 :: r2 =>
                    if c1 =? 58 then
                      match parse_value f r2 with
                      | None => None
                      | Some (v, r3) =>
                          match skip_ws r3 with
                          | [] => None
                          | c3 :: r4 =>
                              if c3 =? 44 then
                                match parse_members f r4 with
                                | Some (m, r5) => Some ((k, v) :: m, r5)
                                | None => None
                                end
                              else if c3 =? 125 then Some ([(k, v)], r4)
                              else None
                          end
                      end
                    else None
                end
            end
          else None
      end
  end.

(* JSON-text = ws value ws.  The recursion depth never exceeds the number of bytes. *)
Definition json_decode (s : bytes) : option jvalue :=
  match parse_value (length s) s with
  | Some (v, r) => match skip_ws r with [] => Some v | _ => None end
  | None => None
  end.

(* ---- equality of values ---- *)

Fixpoint jvalue_eqb (a b : jvalue) : bool :=
  match a, b with
  | JNull, JNull => true
  | JBool x, JBool y => Bool.eqb x y
  | JNum x, JNum y => bytes_eqb x y
  | JStr x, JStr y => bytes_eqb x y
  | JArr x, JArr y =>
      (fix go (x y : list jvalue) : bool :=
         match x, y with
         | [], [] => true
         | a' :: x', b' :: y' => jvalue_eqb a' b' && go x' y'
         | _, _ => false
         end) x y
  | JObj x, JObj y =>
      (fix go (x y : list (bytes * jvalue)) : bool :=
         match x, y with
         | [], [] => true
         | (k, a') :: x', (k', b') :: y' => bytes_eqb k k' && jvalue_eqb a' b' && go x' y'
         | _, _ => false
         end) x y
  | _, _ => false
  end.
