(* C11 specification: the hand-written expressions for the two alternatives of
   safeURLPattern (from the property text), the decidable side conditions ("bridges") on
   the regenerated pattern and on the regenerated unicode.ToLower table, and the byte-level
   recognisers of the two completeness clauses.  The browser side (URL parser, character
   references) is spec/WhatwgUrl.v.  No proofs. *)
From V Require Import lib.Base lib.Regex lib.RegexDecide lib.Utf8 gen.GenRegex gen.GenUnicode.
From V Require Import spec.WhatwgUrl.
Local Open Scope N_scope.

(* ---- specification expressions, from the property text ---- *)
(* scheme alternative, on the lower-cased runes:  [a-z0-9+.-]+ ':' *)
Definition scheme_cls : list (N * N) := [(43, 43); (45, 46); (48, 57); (97, 122)].
Definition S_scheme_alt : regex := Cat (plus (Cls scheme_cls)) (Cls [(58, 58)]).

(* relative alternative:  [^&:/?#]* ( [/?#] | end of text ) *)
Definition rel_cls : list (N * N) :=
  [(0, 34); (36, 37); (39, 46); (48, 57); (59, 62); (64, max_rune)].
Definition delim_cls : list (N * N) := [(35, 35); (47, 47); (63, 63)].
Definition S_rel_alt : regex := Cat (Star (Cls rel_cls)) (Alt (Cls delim_cls) EndText).

(* the model asks "does a prefix of the lower-cased runes match the alternative" *)
Definition prefix_of (r : regex) : regex := Cat r any_star.

(* ---- proof obligations on the regenerated pattern, evaluated by the kernel ---- *)
Definition bridge_scheme : bool := equiv_ok (prefix_of G_safeURL_scheme_alt) (prefix_of S_scheme_alt).
Definition bridge_rel : bool := equiv_ok (prefix_of G_safeURL_rel_alt) (prefix_of S_rel_alt).
(* the translator's split is the pattern:  ^(?: scheme_alt | rel_alt ) *)
Definition bridge_split : bool :=
  translated_safeURLPattern && translated_safeURL_split &&
  equiv_ok (search G_safeURLPattern)
           (search (Cat BeginText (Alt G_safeURL_scheme_alt G_safeURL_rel_alt))).
(* the captured group is  (class)+  directly followed by ':' and the class excludes ':', so
   the capture is everything before the first ':' (what model/Url.v computes) *)
Definition bridge_capture : bool :=
  regex_eqb G_safeURL_scheme_alt (Cat (plus (Cls G_safeURL_scheme_class)) (Cls [(58, 58)])) &&
  negb (in_ranges 58 G_safeURL_scheme_class).

(* ---- proof obligations on the regenerated unicode.ToLower table ---- *)
(* model/Url.v consults the table for runes from U+0080 on only (ASCII fast path, as in Go).
   One run (lo, hi, image of lo): a run that starts below U+0080 ends below U+0080 (never
   consulted); from U+0080 on the image is not ASCII, except exactly U+0130 -> 'i' and
   U+212A -> 'k'; images stay code points *)
Definition lower_run_ok (e : N * N * N) : bool :=
  let '(lo, hi, img) := e in
  (lo <=? hi) && (img + (hi - lo) <=? max_rune) &&
  (if lo <? 128 then hi <? 128
   else (128 <=? img) ||
        ((lo =? 304) && (hi =? 304) && (img =? 105)) ||
        ((lo =? 8490) && (hi =? 8490) && (img =? 107))).
Definition run_eqb (a b : N * N * N) : bool :=
  let '(a1, a2, a3) := a in let '(b1, b2, b3) := b in (a1 =? b1) && (a2 =? b2) && (a3 =? b3).
Definition lower_table_ok : bool :=
  forallb lower_run_ok to_lower_table &&
  existsb (run_eqb (304, 304, 105)) to_lower_table &&
  existsb (run_eqb (8490, 8490, 107)) to_lower_table.

(* the same side conditions as data, for the directed search of the check driver *)
Definition C11_bridges : list (bytes * (regex * regex)) :=
  [ (B "scheme", (prefix_of G_safeURL_scheme_alt, prefix_of S_scheme_alt));
    (B "rel", (prefix_of G_safeURL_rel_alt, prefix_of S_rel_alt));
    (B "scheme_rev", (prefix_of S_scheme_alt, prefix_of G_safeURL_scheme_alt));
    (B "rel_rev", (prefix_of S_rel_alt, prefix_of G_safeURL_rel_alt));
    (B "whole", (search G_safeURLPattern, search (Cat BeginText (Alt S_scheme_alt S_rel_alt))));
    (B "whole_rev", (search (Cat BeginText (Alt S_scheme_alt S_rel_alt)), search G_safeURLPattern)) ].

(* ---- the two completeness clauses of the property, on bytes ---- *)
Definition is_delim (c : N) : bool := (c =? 47) || (c =? 63) || (c =? 35).   (* / ? # *)

(* "starts with an ASCII scheme ([A-Za-z0-9+.-]+ then ':')": the scheme, if any *)
Fixpoint ascii_scheme_of (s : bytes) : option bytes :=
  match s with
  | [] => None
  | c :: t =>
      if scheme_char c then
        match ascii_scheme_of t with Some r => Some (c :: r) | None => None end
      else if c =? 58 then Some []
      else None
  end.
(* "... other than javascript", in any letter case *)
Definition starts_with_safe_scheme (s : bytes) : bool :=
  match ascii_scheme_of s with
  | Some [] => false
  | Some sch => negb (list_eqb N.eqb (map ascii_lower sch) javascript_scheme)
  | None => false
  end.

(* "[bad] characters occur only after the first '/', '?' or '#'" *)
Fixpoint only_after_delim (bad : N -> bool) (s : list N) : bool :=
  match s with
  | [] => true
  | c :: t =>
      if is_delim c then true
      else if bad c then false
      else only_after_delim bad t
  end.
(* "':' and '&' occur only after the first '/', '?' or '#'" *)
Definition colon_or_amp (c : N) : bool := (c =? 58) || (c =? 38).
Definition colon_amp_only_after_delim (s : list N) : bool := only_after_delim colon_or_amp s.

(* what the theorems conclude about a returned URL, as one executable predicate on the
   implementation's answer (used by the check driver): no javascript scheme in s, nor in s
   after character-reference decoding (text and attribute flavour) *)
Definition no_javascript_spec (s : bytes) : bool :=
  let w := decode_runes s in
  negb (is_javascript_url w) &&
  negb (is_javascript_url (html_decode false w)) &&
  negb (is_javascript_url (html_decode true w)).
