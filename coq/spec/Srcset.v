(* WHATWG HTML, "parse a srcset attribute"
   (https://html.spec.whatwg.org/multipage/images.html#parse-a-srcset-attribute),
   transliterated step by step from the standard; nothing here looks at safehtml.

   [candidates s]  steps 1-8 and 16: the splitting loop, URL collection, trailing-comma
                   stripping and the descriptor tokenizer (in descriptor / in parens / after
                   descriptor).  One entry (url, descriptor tokens) per image candidate string
                   the parser sees, BEFORE descriptor validation.
   [parse s]       the whole algorithm: steps 9-15 (descriptor parser) applied to every entry;
                   entries with "error = yes" are dropped (parse error), as the standard says.
   By construction [parse s] is obtained from [candidates s] by dropping entries
   ([parse_filter]).  Definitions only. *)
From V Require Import lib.Base.
Local Open Scope N_scope.

(* https://infra.spec.whatwg.org/#ascii-whitespace : TAB LF FF CR SPACE *)
Definition ascii_ws (c : N) : bool :=
  (c =? 9) || (c =? 10) || (c =? 12) || (c =? 13) || (c =? 32).
Definition ascii_digit (c : N) : bool := (48 <=? c) && (c <=? 57).

(* "collect a sequence of code points" meeting a condition, from position: (collected, rest) *)
Fixpoint collect (p : N -> bool) (s : bytes) : bytes * bytes :=
  match s with
  | [] => ([], [])
  | c :: s' => if p c then let (a, r) := collect p s' in (c :: a, r) else ([], s)
  end.

Definition nonempty {A} (l : list A) : bool := match l with [] => false | _ => true end.

(* "If current descriptor is not empty, append current descriptor to descriptors" *)
Definition push (cur : bytes) (descs : list bytes) : list bytes :=
  match cur with [] => descs | _ => descs ++ [cur] end.

Inductive tok_state := InDescriptor | InParens | AfterDescriptor.

(* Step 8 "otherwise" 4: the descriptor tokenizer from the character at position.
   Returns the descriptors and the position at which "descriptor parser" is entered.
   "After descriptor / anything else" re-enters "in descriptor" on the same character. *)
Fixpoint tokenize (st : tok_state) (cur : bytes) (descs : list bytes) (s : bytes)
  : list bytes * bytes :=
  match s with
  | [] => (* EOF *)
      match st with
      | InDescriptor => (push cur descs, [])
      | InParens => (descs ++ [cur], [])
      | AfterDescriptor => (descs, [])
      end
  | c :: s' =>
      let in_descriptor (cur : bytes) :=
        if ascii_ws c then tokenize AfterDescriptor [] (push cur descs) s'
        else if c =? 44 then (push cur descs, s')
        else if c =? 40 then tokenize InParens (cur ++ [c]) descs s'
        else tokenize InDescriptor (cur ++ [c]) descs s' in
      match st with
      | InDescriptor => in_descriptor cur
      | InParens =>
          if c =? 41 then tokenize InDescriptor (cur ++ [c]) descs s'
          else tokenize InParens (cur ++ [c]) descs s'
      | AfterDescriptor =>
          if ascii_ws c then tokenize AfterDescriptor cur descs s' else in_descriptor cur
      end
  end.

(* "Remove all trailing U+002C COMMA characters from url" *)
Fixpoint strip_commas (u : bytes) : bytes :=
  match u with
  | [] => []
  | c :: u' =>
      match strip_commas u' with
      | [] => if c =? 44 then [] else [c]
      | r => c :: r
      end
  end.

Definition ends_with_comma (u : bytes) : bool := nonempty u && (last u 0 =? 44).

(* steps 4-8, 16; one round consumes at least one character, so S (length s) rounds suffice *)
Fixpoint candidates_fuel (fuel : nat) (s : bytes) : list (bytes * list bytes) :=
  match fuel with
  | O => []
  | S f =>
      (* 4. splitting loop: collect ASCII whitespace or commas *)
      let s1 := snd (collect (fun c => ascii_ws c || (c =? 44)) s) in
      match s1 with
      | [] => []                                       (* 5. past the end: return *)
      | _ =>
          (* 6. collect a sequence of code points that are not ASCII whitespace *)
          let (url, s2) := collect (fun c => negb (ascii_ws c)) s1 in
          if ends_with_comma url then                  (* 8. *)
            (strip_commas url, []) :: candidates_fuel f s2
          else
            let s3 := snd (collect ascii_ws s2) in     (* 8.1 skip ASCII whitespace *)
            let (descs, s4) := tokenize InDescriptor [] [] s3 in
            (url, descs) :: candidates_fuel f s4
      end
  end.

Definition candidates (s : bytes) : list (bytes * list bytes) :=
  candidates_fuel (S (length s)) s.

(* ---------------------------------------------------------------- descriptor parser *)

Definition digits_value (s : bytes) : N := fold_left (fun a c => a * 10 + (c - 48)) s 0.

(* "valid non-negative integer": one or more ASCII digits *)
Definition valid_nonneg_int (s : bytes) : bool := nonempty s && forallb ascii_digit s.

(* "valid floating-point number": optional "-"; digits and/or "." digits; optionally e/E,
   optional sign, digits.  Returns (negative, integer digits ++ fraction digits,
   length of fraction, exponent sign, exponent digits) when valid. *)
Definition split_float (s : bytes) : option (bool * bytes * N * bool * bytes) :=
  let '(neg, s1) := match s with
                    | c :: t => if c =? 45 then (true, t) else (false, s)
                    | [] => (false, s)
                    end in
  let (ip, r1) := collect ascii_digit s1 in
  let '(fp, dot_ok, r2) :=
    match r1 with
    | c :: t => if c =? 46 then let (fp, r) := collect ascii_digit t in (fp, nonempty fp, r)
                else ([], nonempty ip, r1)
    | [] => ([], nonempty ip, r1)
    end in
  if negb dot_ok then None else
  match r2 with
  | [] => Some (neg, ip ++ fp, N.of_nat (length fp), false, [])
  | c :: t =>
      if (c =? 101) || (c =? 69) then
        let '(eneg, t1) := match t with
                           | d :: t' => if d =? 45 then (true, t')
                                        else if d =? 43 then (false, t') else (false, t)
                           | [] => (false, t)
                           end in
        if valid_nonneg_int t1 then Some (neg, ip ++ fp, N.of_nat (length fp), eneg, t1)
        else None
      else None
  end.

Definition valid_float (s : bytes) : bool :=
  match split_float s with Some _ => true | None => false end.

(* "rules for parsing floating-point number values" as far as the srcset algorithm looks at the
   result: an error (the value rounds to +-2^1024) or a value less than 0.  A negative number
   that is not zero counts as less than 0 (a negative value that underflows to 0 is therefore
   dropped here although a browser keeps it: the oracle only ever drops more at this stage; the
   C12 predicates are evaluated on [candidates], before this stage). *)
Definition float_rejected (s : bytes) : bool :=
  match split_float s with
  | None => true
  | Some (neg, mant, nfrac, eneg, edigits) =>
      let m := digits_value mant in
      let e := if 5 <? N.of_nat (length edigits) then 100000 else digits_value edigits in
      if m =? 0 then false
      else if neg then true
      else
        (* m * 10^(+-e - nfrac) >= 2^1024 - 2^970 ? *)
        let T := N.shiftl 1 1024 - N.shiftl 1 970 in
        if eneg then false
        else if nfrac <=? e then
          (if 400 <? e - nfrac then true else T <=? m * 10 ^ (e - nfrac))
        else T * 10 ^ (nfrac - e) <=? m
  end.

(* steps 9-14 state: error, width, density, future-compat-h *)
Definition dstate : Type := bool * option N * option bytes * option N.

Definition absent {A} (o : option A) : bool := match o with None => true | Some _ => false end.

Definition descriptor_step (st : dstate) (d : bytes) : dstate :=
  let '(err, width, density, fch) := st in
  let body := removelast d in
  let l := last d 0 in
  if (l =? 119) && valid_nonneg_int body then            (* ...w *)
    let err := err || negb (absent width && absent density) in
    let v := digits_value body in
    if v =? 0 then (true, width, density, fch) else (err, Some v, density, fch)
  else if (l =? 120) && valid_float body then            (* ...x *)
    let err := err || negb (absent width && absent density && absent fch) in
    if float_rejected body then (true, width, density, fch) else (err, width, Some body, fch)
  else if (l =? 104) && valid_nonneg_int body then       (* ...h *)
    let err := err || negb (absent fch && absent density) in
    let v := digits_value body in
    if v =? 0 then (true, width, density, fch) else (err, width, density, Some v)
  else (true, width, density, fch).

(* steps 9-15 for one candidate: Some (width, density) when error is still no *)
Definition descriptor_parser (descs : list bytes) : option (option N * option bytes) :=
  let '(err, width, density, fch) :=
    fold_left descriptor_step descs (false, None, None, None) in
  let err := err || (negb (absent fch) && absent width) in
  if err then None else Some (width, density).

Definition candidate_valid (c : bytes * list bytes) : bool :=
  match descriptor_parser (snd c) with Some _ => true | None => false end.

(* the image sources the algorithm returns: (url, width, density text) *)
Definition parse (s : bytes) : list (bytes * (option N * option bytes)) :=
  flat_map (fun c => match descriptor_parser (snd c) with
                     | Some wd => [(fst c, wd)]
                     | None => []
                     end) (candidates s).

(* the same, as a selection of entries of [candidates s] *)
Definition parse_filter (s : bytes) : list (bytes * list bytes) :=
  filter candidate_valid (candidates s).
