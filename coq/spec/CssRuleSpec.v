(* C16 specification: what "CSSRule yields exactly one rule" means for a CSS Syntax Level 3
   parser (spec/CssSyntax.v), written from the property text; bridges comparing the regenerated
   patterns with hand-written specification expressions; classifiers of the recorded findings
   D12 and D19.  Definitions only. *)
From V Require Import lib.Base lib.Regex lib.RegexDecide lib.Utf8 gen.GenRegex gen.GenTables gen.GenStyle
  spec.CssSyntax model.CssRule.
Local Open Scope N_scope.

(* ---- token-level observers ---- *)
(* tokens that a selector must not contribute *)
Definition is_forbidden_selector_token (t : token) : bool :=
  match t with
  | TLBrace | TRBrace | TSemicolon | TAtKeyword _ | TCDO => true
  | TDelim c => c =? 60
  | _ => is_bad_token t        (* bad-string, bad-url, unterminated string/url, comment *)
  end.

(* brackets of a token stream are balanced: ( [ { and function tokens open, ) ] } close *)
Fixpoint tokens_balanced (stack : list token) (l : list token) : bool :=
  match l with
  | [] => match stack with [] => true | _ => false end
  | t :: r =>
      match t with
      | TFunction _ | TLParen => tokens_balanced (TRParen :: stack) r
      | TLBracket => tokens_balanced (TRBracket :: stack) r
      | TLBrace => tokens_balanced (TRBrace :: stack) r
      | TRParen | TRBracket | TRBrace =>
          match stack with
          | e :: st => if token_eqb e t then tokens_balanced st r else false
          | [] => false
          end
      | _ => tokens_balanced stack r
      end
  end.

Fixpoint drop_ws_tokens (l : list token) : list token :=
  match l with TWhitespace :: r => drop_ws_tokens r | _ => l end.
Fixpoint drop_ws_cdc_tokens (l : list token) : list token :=
  match l with
  | TWhitespace :: r => drop_ws_cdc_tokens r
  | TCDC :: r => drop_ws_cdc_tokens r
  | _ => l
  end.

(* what the property assumes of a Style ("obtainable from the checked constructors", whose
   contract is a sequence of declarations): no bad token, balanced brackets, and it parses as
   declarations only *)
Definition is_declaration (d : decl_item) : bool := match d with DDecl _ _ _ => true | _ => false end.
Definition style_wellformed (style : bytes) : bool :=
  let toks := css_tokens style in
  negb (existsb is_bad_token toks) && tokens_balanced [] (strip_comments toks) &&
  forallb is_declaration (parse_declaration_list toks).

(* ---- classifiers of the recorded findings ---- *)
Fixpoint prefix_nocase (pat s : list N) : bool :=
  match pat, s with
  | [], _ => true
  | p :: pat', c :: s' => (ascii_lower p =? ascii_lower c) && prefix_nocase pat' s'
  | _ :: _, [] => false
  end.
Fixpoint has_factor_nocase (pat : list N) (s : list N) : bool :=
  match s with
  | [] => prefix_nocase pat []
  | _ :: r => prefix_nocase pat s || has_factor_nocase pat r
  end.

(* D12: an ASCII-case-insensitive "url(" in the string-stripped selector *)
Definition finding_D12 (sel : bytes) : bool :=
  has_factor_nocase [117; 114; 108; 40] (strip_strings sel).
(* D19: the selector's first non-space token is CDC "-->" *)
Definition finding_D19 (sel : bytes) : bool :=
  match drop_ws_tokens (css_tokens sel) with TCDC :: _ => true | _ => false end.

(* ---- the specification predicate over (selector, style, implementation result) ---- *)
(* a failure: (clause, number nn of the recorded finding Dnn whose classifier accepts the case, or 0) *)
Definition css_rule_spec_failures (sel style : bytes) (result : option bytes) : list (bytes * N) :=
  match result with
  | None => []     (* "CSSRule either fails or ..." *)
  | Some o =>
      let stoks := css_tokens sel in
      let d12 := if finding_D12 sel then 12 else 0 in
      (if bytes_eqb o (sel ++ [123] ++ style ++ [125]) then [] else [(B "result_is_not_selector_lbrace_style_rbrace", 0)]) ++
      (if existsb (N.eqb 60) sel then [(B "selector_contains_lt", 0)] else []) ++
      (if existsb is_forbidden_selector_token stoks then [(B "selector_contributes_forbidden_token", d12)] else []) ++
      (if tokens_balanced [] stoks then [] else [(B "selector_brackets_unbalanced", d12)]) ++
      (match parse_stylesheet (css_tokens o) with
       | [RQualified prelude block true] =>
           (if forallb cv_closed prelude && forallb cv_closed block then [] else [(B "unclosed_block_in_rule", d12)]) ++
           (if tokens_eqb (cvs_tokens prelude) (drop_ws_tokens stoks) then []
            else if finding_D19 sel && tokens_eqb (cvs_tokens prelude) (drop_ws_cdc_tokens stoks)
                 then [(B "prelude_is_not_the_selector", 19)]
                 else [(B "prelude_is_not_the_selector", d12)]) ++
           (if tokens_eqb (cvs_tokens block) (strip_comments (css_tokens style)) then []
            else [(B "block_is_not_the_style", d12)])
       | _ => [(B "not_exactly_one_qualified_rule", d12)]
       end)
  end.

Definition css_rule_spec (sel style : bytes) (result : option bytes) : bool :=
  match css_rule_spec_failures sel style result with [] => true | _ => false end.

(* ---- side conditions on the regenerated data ---- *)
Definition layout_ok : bool :=
  translated_cssrule_layout && bytes_eqb cssrule_pre [] && bytes_eqb cssrule_mid [123] && bytes_eqb cssrule_post [125].

Definition pair_eqb (a b : N * N) : bool := (fst a =? fst b) && (snd a =? snd b).
(* the documented brackets: "balanced () and [] brackets" *)
Definition documented_brackets : list (N * N) := [(41, 40); (93, 91)].
Definition brackets_ok : bool := list_eqb pair_eqb T_matchingBrackets documented_brackets.

(* CSS Syntax 4.3.5 string grammar over raw input: between the quotes anything but the quote,
   backslash and a newline (CR, LF, FF before preprocessing), or a backslash followed by anything *)
Definition S_string_of (q : N) (body : list (N * N)) : regex :=
  Cat (Cls [(q, q)]) (Cat (Star (Alt (Cls body) (Cat (Cls [(92, 92)]) any_rune))) (Cls [(q, q)])).
Definition S_css_string : regex :=
  Alt (S_string_of 34 [(0, 9); (11, 11); (14, 33); (35, 91); (93, 1114111)])
      (S_string_of 39 [(0, 9); (11, 11); (14, 38); (40, 91); (93, 1114111)]).
Definition bridge_string : bool := incl_ok G_cssStringPattern S_css_string.
Definition bridge_string_rev : bool := incl_ok S_css_string G_cssStringPattern.

(* the documented allowed selector characters outside strings:  - _ a-z A-Z 0-9 # . : * space , > + ~ [ ] ( ) = ^ $ |  *)
Definition is_allowed_selector_char (c : N) : bool :=
  ((48 <=? c) && (c <=? 57)) || ((65 <=? c) && (c <=? 90)) || ((97 <=? c) && (c <=? 122)) ||
  (c =? 45) || (c =? 95) || (c =? 35) || (c =? 46) || (c =? 58) || (c =? 42) || (c =? 32) || (c =? 44) ||
  (c =? 62) || (c =? 43) || (c =? 126) || (c =? 91) || (c =? 93) || (c =? 40) || (c =? 41) ||
  (c =? 61) || (c =? 94) || (c =? 36) || (c =? 124).
(* its complement as ranges *)
Definition disallowed_selector_cls : list (N * N) :=
  [(0, 31); (33, 34); (37, 39); (47, 47); (59, 60); (63, 64); (92, 92); (96, 96); (123, 123); (125, 125); (127, 1114111)].
Definition S_disallowed : regex := Cls disallowed_selector_cls.
(* everything outside the documented class is rejected by the code's pattern *)
Definition bridge_invalid_rune : bool := incl_ok (search S_disallowed) (search G_invalidCSSSelectorRune).
Definition bridge_invalid_rune_rev : bool := incl_ok (search G_invalidCSSSelectorRune) (search S_disallowed).

Definition C16_bridges : list (bytes * (regex * regex)) :=
  [ (B "string", (G_cssStringPattern, S_css_string));
    (B "string_rev", (S_css_string, G_cssStringPattern));
    (B "invalid_rune", (search S_disallowed, search G_invalidCSSSelectorRune));
    (B "invalid_rune_rev", (search G_invalidCSSSelectorRune, search S_disallowed)) ].

(* ---- what "balanced () and [] brackets" means, independently of any stack ---- *)
Inductive balanced : bytes -> Prop :=
| bal_nil : balanced []
| bal_char c s : c <> 40 -> c <> 41 -> c <> 91 -> c <> 93 -> balanced s -> balanced (c :: s)
| bal_paren a b : balanced a -> balanced b -> balanced (40 :: a ++ 41 :: b)
| bal_brack a b : balanced a -> balanced b -> balanced (91 :: a ++ 93 :: b).

(* ---- the inside of a quoted string, CSS Syntax 4.3.5 over raw bytes: anything but the quote, a
   newline (CR, LF, FF) and backslash; or a backslash followed by anything ---- *)
Fixpoint string_body (q : N) (b : bytes) : bool :=
  match b with
  | [] => true
  | c :: r =>
      if c =? 92 then match r with [] => false | _ :: r' => string_body q r' end
      else negb ((c =? q) || (c =? 13) || (c =? 10) || (c =? 12)) && string_body q r
  end.
