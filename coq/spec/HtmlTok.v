(* WHATWG HTML Living Standard, section 13.2.5 "Tokenization"
   (https://html.spec.whatwg.org/multipage/parsing.html#tokenization), together with the part of
   13.2.3.5 "Preprocessing the input stream" that the tokenizer depends on (newline
   normalisation), transliterated state by state from the standard.  Nothing here looks at
   safehtml or at golang.org/x/net/html; the latter is only the differential comparison target
   (ocaml/drv_htok.ml, harness/cmd/run/htok.go).  See spec/HtmlTok.README for the modelling
   decisions.  Definitions only.

   The machine runs on BYTES of the UTF-8 encoded input: every character the tokenizer
   dispatches on is ASCII, a UTF-8 multi-byte sequence consists of bytes >= 128 only, so
   byte-wise and code-point-wise tokenization cut the input at the same places; non-ASCII bytes
   are ordinary characters.  U+FFFD is appended as its three UTF-8 bytes.

   What is modelled
     - all tokenizer states of 13.2.5.1 - 13.2.5.52 (data ... comment end bang), the DOCTYPE
       states collapsed to three (before name / name / skip to the closing angle bracket: in
       every DOCTYPE state of the standard a closing angle bracket emits the token and returns
       to the data state, so the collapse does not change where the token ends), the CDATA
       section states replaced by the HTML-namespace branch of the markup declaration open
       state (bogus comment whose data starts with [CDATA[ );
     - character references are NOT decoded (they never change the tokenizer state): an
       ampersand is an ordinary character; text and attribute values are reported raw, a later
       layer decodes them (attr_values_raw is the hook);
     - newline normalisation CR LF -> LF, CR -> LF, done on the fly by tok_step;
     - NUL: emitted as is in the data state, U+FFFD wherever the standard says so;
     - tree construction feedback is reduced to the content model switch after a start tag
       (content_model): title textarea -> RCDATA; style xmp iframe noembed noframes noscript ->
       RAWTEXT (scripting enabled); script -> script data; plaintext -> PLAINTEXT.
   What is not modelled: foreign content (SVG / MathML: CDATA sections, title/style/script
   inside svg), template elements, insertion modes that ignore or re-route start tags
   (in select, in frameset, in table ...), the dropping of a newline at the start of
   textarea/pre/listing (tree construction), parse errors as such (they are not reported),
   removal of duplicate attributes (all attributes are kept, in order; attrs_first_wins gives the
   view of the standard), encoding sniffing / BOM.

   Reconsumption is handled by step1 returning a flag; tok_step iterates at most 4 times
   (the longest chain of the standard is 3: e.g. comment less-than sign bang dash dash ->
   comment end -> comment).

   The markup declaration open state needs look-ahead (two dashes, DOCTYPE, [CDATA[ ); a byte at
   a time machine cannot look ahead, so the bytes matched so far are kept in the temporary
   buffer while the state stays SMarkupDeclOpen, and a mismatch replays them into the bogus
   comment they belong to.  At end of input a non-empty look-ahead buffer is what the standard
   would already have put into a bogus comment (tok_eof does that). *)
From V Require Import lib.Base.
Local Open Scope N_scope.

(* ------------------------------------------------------------------ output types *)

Inductive qstyle := Qdq | Qsq | Qunq.

(* position class of an input byte: where the tokenizer was when it consumed the byte *)
Inductive posclass :=
| PText                                   (* data state *)
| PRcdata (n : bytes)                     (* RCDATA family, n = last start tag name *)
| PRawtext (n : bytes)                    (* RAWTEXT family *)
| PScript                                 (* script data family, incl. the escaped states *)
| PPlaintext
| PAttrValue (elem attr : bytes) (q : qstyle)   (* a byte of an attribute value of a start tag *)
| PAttrName                               (* a byte of an attribute name of a start tag *)
| PTagName
| PTagOther                               (* delimiters and white space inside tags, the tag-opening
                                             less-than sign, everything after the name of an end tag *)
| PComment                                (* comments, bogus comments, markup declaration open *)
| PDoctype.

Inductive htoken :=
| StartTag (name : bytes) (attrs : list (bytes * bytes)) (selfclosing : bool)
| EndTag (name : bytes)
| Comment (data : bytes)
| Doctype (name : bytes)
| Chars (data : bytes).      (* a maximal run of character tokens, raw (references not decoded) *)

(* ------------------------------------------------------------------ tokenizer states *)

Inductive hstate :=
| SData
| SRcdata (n : bytes)                (* n = name of the last start tag emitted *)
| SRawtext (n : bytes)
| SScriptData                        (* last start tag = script *)
| SPlaintext
| STagOpen | SEndTagOpen | STagName
| SRcdataLT (n : bytes) | SRcdataEndTagOpen (n : bytes) | SRcdataEndTagName (n : bytes)
| SRawtextLT (n : bytes) | SRawtextEndTagOpen (n : bytes) | SRawtextEndTagName (n : bytes)
| SScriptDataLT | SScriptDataEndTagOpen | SScriptDataEndTagName
| SScriptDataEscapeStart | SScriptDataEscapeStartDash
| SScriptDataEscaped | SScriptDataEscapedDash | SScriptDataEscapedDashDash
| SScriptDataEscapedLT | SScriptDataEscapedEndTagOpen | SScriptDataEscapedEndTagName
| SScriptDataDoubleEscapeStart
| SScriptDataDoubleEscaped | SScriptDataDoubleEscapedDash | SScriptDataDoubleEscapedDashDash
| SScriptDataDoubleEscapedLT | SScriptDataDoubleEscapeEnd
| SBeforeAttrName | SAttrName | SAfterAttrName | SBeforeAttrValue
| SAttrValueDQ | SAttrValueSQ | SAttrValueUnq | SAfterAttrValueQuoted
| SSelfClosing
| SBogusComment | SMarkupDeclOpen
| SCommentStart | SCommentStartDash | SComment
| SCommentLT | SCommentLTBang | SCommentLTBangDash | SCommentLTBangDashDash
| SCommentEndDash | SCommentEnd | SCommentEndBang
| SDoctype                           (* DOCTYPE + before DOCTYPE name *)
| SDoctypeName
| SDoctypeRest.                      (* everything after the name: skip to the closing bracket *)

(* injective code, used for the decidable equality *)
Definition hstate_code (s : hstate) : N * bytes :=
  match s with
  | SData => (0, []) | SRcdata n => (1, n) | SRawtext n => (2, n) | SScriptData => (3, [])
  | SPlaintext => (4, []) | STagOpen => (5, []) | SEndTagOpen => (6, []) | STagName => (7, [])
  | SRcdataLT n => (8, n) | SRcdataEndTagOpen n => (9, n) | SRcdataEndTagName n => (10, n)
  | SRawtextLT n => (11, n) | SRawtextEndTagOpen n => (12, n) | SRawtextEndTagName n => (13, n)
  | SScriptDataLT => (14, []) | SScriptDataEndTagOpen => (15, []) | SScriptDataEndTagName => (16, [])
  | SScriptDataEscapeStart => (17, []) | SScriptDataEscapeStartDash => (18, [])
  | SScriptDataEscaped => (19, []) | SScriptDataEscapedDash => (20, [])
  | SScriptDataEscapedDashDash => (21, []) | SScriptDataEscapedLT => (22, [])
  | SScriptDataEscapedEndTagOpen => (23, []) | SScriptDataEscapedEndTagName => (24, [])
  | SScriptDataDoubleEscapeStart => (25, []) | SScriptDataDoubleEscaped => (26, [])
  | SScriptDataDoubleEscapedDash => (27, []) | SScriptDataDoubleEscapedDashDash => (28, [])
  | SScriptDataDoubleEscapedLT => (29, []) | SScriptDataDoubleEscapeEnd => (30, [])
  | SBeforeAttrName => (31, []) | SAttrName => (32, []) | SAfterAttrName => (33, [])
  | SBeforeAttrValue => (34, []) | SAttrValueDQ => (35, []) | SAttrValueSQ => (36, [])
  | SAttrValueUnq => (37, []) | SAfterAttrValueQuoted => (38, []) | SSelfClosing => (39, [])
  | SBogusComment => (40, []) | SMarkupDeclOpen => (41, [])
  | SCommentStart => (42, []) | SCommentStartDash => (43, []) | SComment => (44, [])
  | SCommentLT => (45, []) | SCommentLTBang => (46, []) | SCommentLTBangDash => (47, [])
  | SCommentLTBangDashDash => (48, []) | SCommentEndDash => (49, []) | SCommentEnd => (50, [])
  | SCommentEndBang => (51, []) | SDoctype => (52, []) | SDoctypeName => (53, [])
  | SDoctypeRest => (54, [])
  end.

Definition hstate_eqb (a b : hstate) : bool :=
  let (ca, na) := hstate_code a in
  let (cb, nb) := hstate_code b in
  (ca =? cb) && bytes_eqb na nb.

(* name of the last start tag, as far as the state determines it ("appropriate end tag") *)
Definition last_start_tag (s : hstate) : option bytes :=
  match s with
  | SRcdata n | SRcdataLT n | SRcdataEndTagOpen n | SRcdataEndTagName n
  | SRawtext n | SRawtextLT n | SRawtextEndTagOpen n | SRawtextEndTagName n => Some n
  | SScriptData | SScriptDataLT | SScriptDataEndTagOpen | SScriptDataEndTagName
  | SScriptDataEscapeStart | SScriptDataEscapeStartDash
  | SScriptDataEscaped | SScriptDataEscapedDash | SScriptDataEscapedDashDash
  | SScriptDataEscapedLT | SScriptDataEscapedEndTagOpen | SScriptDataEscapedEndTagName
  | SScriptDataDoubleEscapeStart
  | SScriptDataDoubleEscaped | SScriptDataDoubleEscapedDash | SScriptDataDoubleEscapedDashDash
  | SScriptDataDoubleEscapedLT | SScriptDataDoubleEscapeEnd => Some (B "script")
  | SPlaintext => Some (B "plaintext")
  | _ => None
  end.

(* ------------------------------------------------------------------ the machine state *)

(* the tag token under construction *)
Record tagb := mk_tagb {
  g_is_end : bool;                      (* end tag token *)
  g_name : bytes;                       (* tag name, lower-cased *)
  g_attrs : list (bytes * bytes);       (* finished attributes (name, raw value), REVERSED *)
  g_in_attr : bool;                     (* an attribute has been started and not yet finished *)
  g_aname : bytes;                      (* its name *)
  g_aval : bytes                        (* its value, REVERSED *)
}.

Record tstate := mk_tstate {
  t_state : hstate;
  t_cr : bool;                          (* the previous input byte was CR *)
  t_tag : tagb;
  t_tmp : bytes;                        (* the temporary buffer (also: look-ahead of markup declaration open) *)
  t_data : bytes;                       (* data of the comment / name of the DOCTYPE under construction, REVERSED *)
  t_text : bytes;                       (* character tokens emitted since the last other token, REVERSED *)
  t_toks : list htoken;                 (* tokens emitted, REVERSED *)
  t_classes : list posclass               (* position classes of the bytes consumed, REVERSED *)
}.

Definition empty_tag : tagb := mk_tagb false [] [] false [] [].

Definition tok_init (s : hstate) : tstate := mk_tstate s false empty_tag [] [] [] [] [].

Definition ts_state (s : hstate) (t : tstate) : tstate :=
  mk_tstate s (t_cr t) (t_tag t) (t_tmp t) (t_data t) (t_text t) (t_toks t) (t_classes t).
Definition ts_cr (c : bool) (t : tstate) : tstate :=
  mk_tstate (t_state t) c (t_tag t) (t_tmp t) (t_data t) (t_text t) (t_toks t) (t_classes t).
Definition ts_tag (g : tagb) (t : tstate) : tstate :=
  mk_tstate (t_state t) (t_cr t) g (t_tmp t) (t_data t) (t_text t) (t_toks t) (t_classes t).
Definition ts_tmp (b : bytes) (t : tstate) : tstate :=
  mk_tstate (t_state t) (t_cr t) (t_tag t) b (t_data t) (t_text t) (t_toks t) (t_classes t).
Definition ts_data (d : bytes) (t : tstate) : tstate :=
  mk_tstate (t_state t) (t_cr t) (t_tag t) (t_tmp t) d (t_text t) (t_toks t) (t_classes t).
Definition ts_text (x : bytes) (t : tstate) : tstate :=
  mk_tstate (t_state t) (t_cr t) (t_tag t) (t_tmp t) (t_data t) x (t_toks t) (t_classes t).
Definition ts_toks (l : list htoken) (t : tstate) : tstate :=
  mk_tstate (t_state t) (t_cr t) (t_tag t) (t_tmp t) (t_data t) (t_text t) l (t_classes t).
Definition push_class (c : posclass) (t : tstate) : tstate :=
  mk_tstate (t_state t) (t_cr t) (t_tag t) (t_tmp t) (t_data t) (t_text t) (t_toks t) (c :: t_classes t).

(* ------------------------------------------------------------------ character classes *)

Definition h_upper (b : N) : bool := (65 <=? b) && (b <=? 90).
Definition h_lower (b : N) : bool := (97 <=? b) && (b <=? 122).
Definition h_alpha (b : N) : bool := h_upper b || h_lower b.
Definition h_lc (b : N) : N := if h_upper b then b + 32 else b.
(* TAB, LF, FF, SPACE (CR never reaches a state: it has been normalised to LF) *)
Definition h_ws (b : N) : bool := (b =? 9) || (b =? 10) || (b =? 12) || (b =? 32).

Definition FFFD_bytes : bytes := [239; 191; 189].
Definition FFFD_rev : bytes := [189; 191; 239].

(* ------------------------------------------------------------------ emitting *)

(* "emit a character token" *)
Definition emit_char (c : N) (t : tstate) : tstate := ts_text (c :: t_text t) t.
Definition emit_chars (l : bytes) (t : tstate) : tstate := ts_text (rev_append l (t_text t)) t.
(* "emit the current input character", NUL as U+FFFD *)
Definition emit_char_nul (c : N) (t : tstate) : tstate :=
  if c =? 0 then ts_text (FFFD_rev ++ t_text t) t else emit_char c t.

Definition flush_text (t : tstate) : tstate :=
  match t_text t with
  | [] => t
  | x => ts_toks (Chars (rev x) :: t_toks t) (ts_text [] t)
  end.
Definition emit_tok (k : htoken) (t : tstate) : tstate :=
  let t1 := flush_text t in ts_toks (k :: t_toks t1) t1.

(* tree construction feedback: the tokenizer state after a start tag *)
Definition content_model (name : bytes) : hstate :=
  if bytes_eqb name (B "title") || bytes_eqb name (B "textarea") then SRcdata name
  else if bytes_eqb name (B "style") || bytes_eqb name (B "xmp") || bytes_eqb name (B "iframe")
          || bytes_eqb name (B "noembed") || bytes_eqb name (B "noframes")
          || bytes_eqb name (B "noscript") then SRawtext name
  else if bytes_eqb name (B "script") then SScriptData
  else if bytes_eqb name (B "plaintext") then SPlaintext
  else SData.

(* attributes of the tag under construction, in source order *)
Definition tag_attrs (g : tagb) : list (bytes * bytes) :=
  rev (if g_in_attr g then (g_aname g, rev (g_aval g)) :: g_attrs g else g_attrs g).

(* "switch to the data state. Emit the current tag token." (+ content model switch).
   An end tag token keeps neither attributes nor the self-closing flag. *)
Definition emit_tag (selfc : bool) (t : tstate) : tstate :=
  let g := t_tag t in
  if g_is_end g then ts_tag empty_tag (ts_state SData (emit_tok (EndTag (g_name g)) t))
  else ts_tag empty_tag
         (ts_state (content_model (g_name g)) (emit_tok (StartTag (g_name g) (tag_attrs g) selfc) t)).

Definition emit_comment (t : tstate) : tstate :=
  ts_data [] (ts_state SData (emit_tok (Comment (rev (t_data t))) t)).
Definition emit_doctype (t : tstate) : tstate :=
  ts_data [] (ts_state SData (emit_tok (Doctype (rev (t_data t))) t)).

(* "create a new start/end tag token, set its tag name to the empty string" *)
Definition new_tag (is_end : bool) (t : tstate) : tstate :=
  ts_tag (mk_tagb is_end [] [] false [] []) t.
Definition name_app (l : bytes) (t : tstate) : tstate :=
  let g := t_tag t in
  ts_tag (mk_tagb (g_is_end g) (g_name g ++ l) (g_attrs g) (g_in_attr g) (g_aname g) (g_aval g)) t.
(* "start a new attribute in the current tag token" with the given initial name *)
Definition start_attr (nm : bytes) (t : tstate) : tstate :=
  let g := t_tag t in
  let done := if g_in_attr g then (g_aname g, rev (g_aval g)) :: g_attrs g else g_attrs g in
  ts_tag (mk_tagb (g_is_end g) (g_name g) done true nm []) t.
Definition aname_app (l : bytes) (t : tstate) : tstate :=
  let g := t_tag t in
  ts_tag (mk_tagb (g_is_end g) (g_name g) (g_attrs g) (g_in_attr g) (g_aname g ++ l) (g_aval g)) t.
(* append to the current attribute's value (reversed accumulator), NUL as U+FFFD *)
Definition aval_push (c : N) (t : tstate) : tstate :=
  let g := t_tag t in
  ts_tag (mk_tagb (g_is_end g) (g_name g) (g_attrs g) (g_in_attr g) (g_aname g)
                   (if c =? 0 then FFFD_rev ++ g_aval g else c :: g_aval g)) t.

Definition data_push (c : N) (t : tstate) : tstate := ts_data (c :: t_data t) t.
Definition data_push_nul (c : N) (t : tstate) : tstate :=
  if c =? 0 then ts_data (FFFD_rev ++ t_data t) t else data_push c t.
Definition data_app (l : bytes) (t : tstate) : tstate := ts_data (rev_append l (t_data t)) t.
Definition tmp_push (c : N) (t : tstate) : tstate := ts_tmp (t_tmp t ++ [c]) t.

(* ------------------------------------------------------------------ shared state handlers
   The RCDATA, RAWTEXT and script data families have textually identical less-than sign /
   end tag open / end tag name states; they are written once, parametrised by the state to fall
   back to and by the last start tag name.  A handler returns the new machine state and whether
   the current input character is to be RECONSUMED in it. *)

Definition stay (t : tstate) : tstate * bool := (t, false).
Definition go (s : hstate) (t : tstate) : tstate * bool := (ts_state s t, false).
Definition reconsume (s : hstate) (t : tstate) : tstate * bool := (ts_state s t, true).

(* RCDATA / RAWTEXT less-than sign state *)
Definition h_lt (back eto : hstate) (t : tstate) (b : N) : tstate * bool :=
  if b =? 47 then go eto (ts_tmp [] t)
  else reconsume back (emit_char 60 t).

(* ... end tag open state *)
Definition h_end_tag_open (back etn : hstate) (t : tstate) (b : N) : tstate * bool :=
  if h_alpha b then reconsume etn (new_tag true t)
  else reconsume back (emit_chars [60; 47] t).

(* ... end tag name state; last = the last start tag name ("appropriate end tag token") *)
Definition h_end_tag_name (back : hstate) (last : bytes) (t : tstate) (b : N) : tstate * bool :=
  let anything_else (_ : unit) :=
    reconsume back (ts_tag empty_tag (emit_chars (60 :: 47 :: t_tmp t) t)) in
  if h_ws b then
    if bytes_eqb (g_name (t_tag t)) last then go SBeforeAttrName t else anything_else tt
  else if b =? 47 then
    if bytes_eqb (g_name (t_tag t)) last then go SSelfClosing t else anything_else tt
  else if b =? 62 then
    if bytes_eqb (g_name (t_tag t)) last then stay (emit_tag false t) else anything_else tt
  else if h_alpha b then stay (name_app [h_lc b] (tmp_push b t))
  else anything_else tt.

(* script data double escape start / end state *)
Definition h_double (yes no back : hstate) (t : tstate) (b : N) : tstate * bool :=
  if h_ws b || (b =? 47) || (b =? 62) then
    go (if bytes_eqb (t_tmp t) (B "script") then yes else no) (emit_char b t)
  else if h_alpha b then stay (emit_char b (tmp_push (h_lc b) t))
  else reconsume back t.

(* markup declaration open state, with the look-ahead kept in the temporary buffer *)
Definition h_markup_decl_open (t : tstate) (b : N) : tstate * bool :=
  let buf := t_tmp t ++ [b] in
  let lbuf := map h_lc buf in
  if bytes_eqb buf [45; 45] then go SCommentStart (ts_tmp [] (ts_data [] t))
  else if bytes_eqb lbuf (B "doctype") then go SDoctype (ts_tmp [] (ts_data [] t))
  else if bytes_eqb buf (B "[CDATA[") then go SBogusComment (ts_tmp [] (ts_data (rev buf) t))
  else if prefixb buf [45; 45] || prefixb lbuf (B "doctype") || prefixb buf (B "[CDATA[")
  then stay (ts_tmp buf t)
  else reconsume SBogusComment (ts_tmp [] (ts_data (rev (t_tmp t)) t)).

(* ------------------------------------------------------------------ one state, one character *)

Definition step1 (t : tstate) (b : N) : tstate * bool :=
  match t_state t with
  (* 13.2.5.1 data state: ampersand is not decoded, NUL is emitted as is *)
  | SData => if b =? 60 then go STagOpen t else stay (emit_char b t)
  (* 13.2.5.2 RCDATA *)
  | SRcdata n => if b =? 60 then go (SRcdataLT n) t else stay (emit_char_nul b t)
  (* 13.2.5.3 RAWTEXT *)
  | SRawtext n => if b =? 60 then go (SRawtextLT n) t else stay (emit_char_nul b t)
  (* 13.2.5.4 script data *)
  | SScriptData => if b =? 60 then go SScriptDataLT t else stay (emit_char_nul b t)
  (* 13.2.5.5 PLAINTEXT *)
  | SPlaintext => stay (emit_char_nul b t)
  (* 13.2.5.6 tag open *)
  | STagOpen =>
      if b =? 33 then go SMarkupDeclOpen (ts_tmp [] t)
      else if b =? 47 then go SEndTagOpen t
      else if h_alpha b then reconsume STagName (new_tag false t)
      else if b =? 63 then reconsume SBogusComment (ts_data [] t)
      else reconsume SData (emit_char 60 t)
  (* 13.2.5.7 end tag open *)
  | SEndTagOpen =>
      if h_alpha b then reconsume STagName (new_tag true t)
      else if b =? 62 then go SData t
      else reconsume SBogusComment (ts_data [] t)
  (* 13.2.5.8 tag name *)
  | STagName =>
      if h_ws b then go SBeforeAttrName t
      else if b =? 47 then go SSelfClosing t
      else if b =? 62 then stay (emit_tag false t)
      else if b =? 0 then stay (name_app FFFD_bytes t)
      else stay (name_app [h_lc b] t)
  (* 13.2.5.9 - 11 RCDATA less-than sign, end tag open, end tag name *)
  | SRcdataLT n => h_lt (SRcdata n) (SRcdataEndTagOpen n) t b
  | SRcdataEndTagOpen n => h_end_tag_open (SRcdata n) (SRcdataEndTagName n) t b
  | SRcdataEndTagName n => h_end_tag_name (SRcdata n) n t b
  (* 13.2.5.12 - 14 RAWTEXT ... *)
  | SRawtextLT n => h_lt (SRawtext n) (SRawtextEndTagOpen n) t b
  | SRawtextEndTagOpen n => h_end_tag_open (SRawtext n) (SRawtextEndTagName n) t b
  | SRawtextEndTagName n => h_end_tag_name (SRawtext n) n t b
  (* 13.2.5.15 script data less-than sign *)
  | SScriptDataLT =>
      if b =? 47 then go SScriptDataEndTagOpen (ts_tmp [] t)
      else if b =? 33 then go SScriptDataEscapeStart (emit_chars [60; 33] t)
      else reconsume SScriptData (emit_char 60 t)
  (* 13.2.5.16, 17 *)
  | SScriptDataEndTagOpen => h_end_tag_open SScriptData SScriptDataEndTagName t b
  | SScriptDataEndTagName => h_end_tag_name SScriptData (B "script") t b
  (* 13.2.5.18 script data escape start *)
  | SScriptDataEscapeStart =>
      if b =? 45 then go SScriptDataEscapeStartDash (emit_char 45 t) else reconsume SScriptData t
  (* 13.2.5.19 script data escape start dash *)
  | SScriptDataEscapeStartDash =>
      if b =? 45 then go SScriptDataEscapedDashDash (emit_char 45 t) else reconsume SScriptData t
  (* 13.2.5.20 script data escaped *)
  | SScriptDataEscaped =>
      if b =? 45 then go SScriptDataEscapedDash (emit_char 45 t)
      else if b =? 60 then go SScriptDataEscapedLT t
      else stay (emit_char_nul b t)
  (* 13.2.5.21 script data escaped dash *)
  | SScriptDataEscapedDash =>
      if b =? 45 then go SScriptDataEscapedDashDash (emit_char 45 t)
      else if b =? 60 then go SScriptDataEscapedLT t
      else go SScriptDataEscaped (emit_char_nul b t)
  (* 13.2.5.22 script data escaped dash dash *)
  | SScriptDataEscapedDashDash =>
      if b =? 45 then stay (emit_char 45 t)
      else if b =? 60 then go SScriptDataEscapedLT t
      else if b =? 62 then go SScriptData (emit_char 62 t)
      else go SScriptDataEscaped (emit_char_nul b t)
  (* 13.2.5.23 script data escaped less-than sign *)
  | SScriptDataEscapedLT =>
      if b =? 47 then go SScriptDataEscapedEndTagOpen (ts_tmp [] t)
      else if h_alpha b then reconsume SScriptDataDoubleEscapeStart (emit_char 60 (ts_tmp [] t))
      else reconsume SScriptDataEscaped (emit_char 60 t)
  (* 13.2.5.24, 25 *)
  | SScriptDataEscapedEndTagOpen =>
      h_end_tag_open SScriptDataEscaped SScriptDataEscapedEndTagName t b
  | SScriptDataEscapedEndTagName => h_end_tag_name SScriptDataEscaped (B "script") t b
  (* 13.2.5.26 script data double escape start *)
  | SScriptDataDoubleEscapeStart =>
      h_double SScriptDataDoubleEscaped SScriptDataEscaped SScriptDataEscaped t b
  (* 13.2.5.27 script data double escaped *)
  | SScriptDataDoubleEscaped =>
      if b =? 45 then go SScriptDataDoubleEscapedDash (emit_char 45 t)
      else if b =? 60 then go SScriptDataDoubleEscapedLT (emit_char 60 t)
      else stay (emit_char_nul b t)
  (* 13.2.5.28 script data double escaped dash *)
  | SScriptDataDoubleEscapedDash =>
      if b =? 45 then go SScriptDataDoubleEscapedDashDash (emit_char 45 t)
      else if b =? 60 then go SScriptDataDoubleEscapedLT (emit_char 60 t)
      else go SScriptDataDoubleEscaped (emit_char_nul b t)
  (* 13.2.5.29 script data double escaped dash dash *)
  | SScriptDataDoubleEscapedDashDash =>
      if b =? 45 then stay (emit_char 45 t)
      else if b =? 60 then go SScriptDataDoubleEscapedLT (emit_char 60 t)
      else if b =? 62 then go SScriptData (emit_char 62 t)
      else go SScriptDataDoubleEscaped (emit_char_nul b t)
  (* 13.2.5.30 script data double escaped less-than sign *)
  | SScriptDataDoubleEscapedLT =>
      if b =? 47 then go SScriptDataDoubleEscapeEnd (emit_char 47 (ts_tmp [] t))
      else reconsume SScriptDataDoubleEscaped t
  (* 13.2.5.31 script data double escape end *)
  | SScriptDataDoubleEscapeEnd =>
      h_double SScriptDataEscaped SScriptDataDoubleEscaped SScriptDataDoubleEscaped t b
  (* 13.2.5.32 before attribute name *)
  | SBeforeAttrName =>
      if h_ws b then stay t
      else if (b =? 47) || (b =? 62) then reconsume SAfterAttrName t
      else if b =? 61 then go SAttrName (start_attr [61] t)
      else reconsume SAttrName (start_attr [] t)
  (* 13.2.5.33 attribute name (quotes and less-than sign are parse errors, otherwise ordinary) *)
  | SAttrName =>
      if h_ws b || (b =? 47) || (b =? 62) then reconsume SAfterAttrName t
      else if b =? 61 then go SBeforeAttrValue t
      else if b =? 0 then stay (aname_app FFFD_bytes t)
      else stay (aname_app [h_lc b] t)
  (* 13.2.5.34 after attribute name *)
  | SAfterAttrName =>
      if h_ws b then stay t
      else if b =? 47 then go SSelfClosing t
      else if b =? 61 then go SBeforeAttrValue t
      else if b =? 62 then stay (emit_tag false t)
      else reconsume SAttrName (start_attr [] t)
  (* 13.2.5.35 before attribute value *)
  | SBeforeAttrValue =>
      if h_ws b then stay t
      else if b =? 34 then go SAttrValueDQ t
      else if b =? 39 then go SAttrValueSQ t
      else if b =? 62 then stay (emit_tag false t)
      else reconsume SAttrValueUnq t
  (* 13.2.5.36 attribute value (double-quoted): ampersand not decoded *)
  | SAttrValueDQ => if b =? 34 then go SAfterAttrValueQuoted t else stay (aval_push b t)
  (* 13.2.5.37 attribute value (single-quoted) *)
  | SAttrValueSQ => if b =? 39 then go SAfterAttrValueQuoted t else stay (aval_push b t)
  (* 13.2.5.38 attribute value (unquoted) *)
  | SAttrValueUnq =>
      if h_ws b then go SBeforeAttrName t
      else if b =? 62 then stay (emit_tag false t)
      else stay (aval_push b t)
  (* 13.2.5.39 after attribute value (quoted) *)
  | SAfterAttrValueQuoted =>
      if h_ws b then go SBeforeAttrName t
      else if b =? 47 then go SSelfClosing t
      else if b =? 62 then stay (emit_tag false t)
      else reconsume SBeforeAttrName t
  (* 13.2.5.40 self-closing start tag *)
  | SSelfClosing =>
      if b =? 62 then stay (emit_tag true t) else reconsume SBeforeAttrName t
  (* 13.2.5.41 bogus comment *)
  | SBogusComment => if b =? 62 then stay (emit_comment t) else stay (data_push_nul b t)
  (* 13.2.5.42 markup declaration open *)
  | SMarkupDeclOpen => h_markup_decl_open t b
  (* 13.2.5.43 comment start *)
  | SCommentStart =>
      if b =? 45 then go SCommentStartDash t
      else if b =? 62 then stay (emit_comment t)
      else reconsume SComment t
  (* 13.2.5.44 comment start dash *)
  | SCommentStartDash =>
      if b =? 45 then go SCommentEnd t
      else if b =? 62 then stay (emit_comment t)
      else reconsume SComment (data_push 45 t)
  (* 13.2.5.45 comment *)
  | SComment =>
      if b =? 60 then go SCommentLT (data_push 60 t)
      else if b =? 45 then go SCommentEndDash t
      else stay (data_push_nul b t)
  (* 13.2.5.46 comment less-than sign *)
  | SCommentLT =>
      if b =? 33 then go SCommentLTBang (data_push 33 t)
      else if b =? 60 then stay (data_push 60 t)
      else reconsume SComment t
  (* 13.2.5.47 comment less-than sign bang *)
  | SCommentLTBang => if b =? 45 then go SCommentLTBangDash t else reconsume SComment t
  (* 13.2.5.48 comment less-than sign bang dash *)
  | SCommentLTBangDash =>
      if b =? 45 then go SCommentLTBangDashDash t else reconsume SCommentEndDash t
  (* 13.2.5.49 comment less-than sign bang dash dash (nested comment is only a parse error) *)
  | SCommentLTBangDashDash => reconsume SCommentEnd t
  (* 13.2.5.50 comment end dash *)
  | SCommentEndDash =>
      if b =? 45 then go SCommentEnd t else reconsume SComment (data_push 45 t)
  (* 13.2.5.51 comment end *)
  | SCommentEnd =>
      if b =? 62 then stay (emit_comment t)
      else if b =? 33 then go SCommentEndBang t
      else if b =? 45 then stay (data_push 45 t)
      else reconsume SComment (data_app [45; 45] t)
  (* 13.2.5.52 comment end bang *)
  | SCommentEndBang =>
      if b =? 45 then go SCommentEndDash (data_app [45; 45; 33] t)
      else if b =? 62 then stay (emit_comment t)
      else reconsume SComment (data_app [45; 45; 33] t)
  (* 13.2.5.53, 54 DOCTYPE, before DOCTYPE name *)
  | SDoctype =>
      if h_ws b then stay t
      else if b =? 62 then stay (emit_doctype t)
      else if b =? 0 then go SDoctypeName (ts_data FFFD_rev t)
      else go SDoctypeName (ts_data [h_lc b] t)
  (* 13.2.5.55 DOCTYPE name *)
  | SDoctypeName =>
      if h_ws b then go SDoctypeRest t
      else if b =? 62 then stay (emit_doctype t)
      else if b =? 0 then stay (ts_data (FFFD_rev ++ t_data t) t)
      else stay (data_push (h_lc b) t)
  (* 13.2.5.56 - 68 collapsed *)
  | SDoctypeRest => if b =? 62 then stay (emit_doctype t) else stay t
  end.

(* ------------------------------------------------------------------ position classes *)

(* the class of byte b when it is consumed (not reconsumed) by the machine in state t *)
Definition class_of (t : tstate) (b : N) : posclass :=
  let g := t_tag t in
  match t_state t with
  | SData => if b =? 60 then PTagOther else PText
  | SRcdata n | SRcdataLT n | SRcdataEndTagOpen n | SRcdataEndTagName n => PRcdata n
  | SRawtext n | SRawtextLT n | SRawtextEndTagOpen n | SRawtextEndTagName n => PRawtext n
  | SScriptData | SScriptDataLT | SScriptDataEndTagOpen | SScriptDataEndTagName
  | SScriptDataEscapeStart | SScriptDataEscapeStartDash
  | SScriptDataEscaped | SScriptDataEscapedDash | SScriptDataEscapedDashDash
  | SScriptDataEscapedLT | SScriptDataEscapedEndTagOpen | SScriptDataEscapedEndTagName
  | SScriptDataDoubleEscapeStart
  | SScriptDataDoubleEscaped | SScriptDataDoubleEscapedDash | SScriptDataDoubleEscapedDashDash
  | SScriptDataDoubleEscapedLT | SScriptDataDoubleEscapeEnd => PScript
  | SPlaintext => PPlaintext
  | STagOpen | SEndTagOpen => PTagOther
  | STagName => if h_ws b || (b =? 47) || (b =? 62) then PTagOther else PTagName
  | SBeforeAttrName => if (b =? 61) && negb (g_is_end g) then PAttrName else PTagOther
  | SAttrName => if (b =? 61) || g_is_end g then PTagOther else PAttrName
  | SAfterAttrName | SBeforeAttrValue | SAfterAttrValueQuoted | SSelfClosing => PTagOther
  | SAttrValueDQ =>
      if (b =? 34) || g_is_end g then PTagOther else PAttrValue (g_name g) (g_aname g) Qdq
  | SAttrValueSQ =>
      if (b =? 39) || g_is_end g then PTagOther else PAttrValue (g_name g) (g_aname g) Qsq
  | SAttrValueUnq =>
      if h_ws b || (b =? 62) || g_is_end g then PTagOther else PAttrValue (g_name g) (g_aname g) Qunq
  | SBogusComment | SMarkupDeclOpen
  | SCommentStart | SCommentStartDash | SComment
  | SCommentLT | SCommentLTBang | SCommentLTBangDash | SCommentLTBangDashDash
  | SCommentEndDash | SCommentEnd | SCommentEndBang => PComment
  | SDoctype | SDoctypeName | SDoctypeRest => PDoctype
  end.

(* ------------------------------------------------------------------ one input byte *)

(* process one (newline-normalised) character: follow reconsumptions, then record the class of the
   state that finally consumed it *)
Fixpoint step_loop (fuel : nat) (t : tstate) (b : N) : tstate :=
  let (t1, re) := step1 t b in
  if re then
    match fuel with
    | O => push_class (class_of t1 b) t1          (* not reachable with the fuel of step_char *)
    | S f => step_loop f t1 b
    end
  else push_class (class_of t b) t1.

Definition step_char (t : tstate) (b : N) : tstate := step_loop 4 t b.

(* 13.2.3.5: CR LF -> LF and CR -> LF; the LF of a CR LF pair consumes nothing and gets the class
   it would have if the current state consumed it *)
Definition tok_step (t : tstate) (b : N) : tstate :=
  if b =? 13 then ts_cr true (step_char t 10)
  else if (b =? 10) && t_cr t then ts_cr false (push_class (class_of t 10) t)
  else ts_cr false (step_char t b).

Definition tok_run (t : tstate) (s : bytes) : tstate := fold_left tok_step s t.

(* ------------------------------------------------------------------ end of input *)

(* the tokens emitted when the end of the input is reached in machine state t
   (the EOF entries of the states; parse errors not reported; an unfinished tag is dropped) *)
Definition eof_flush (t : tstate) : tstate :=
  match t_state t with
  | STagOpen => emit_char 60 t
  | SEndTagOpen => emit_chars [60; 47] t
  | SRcdataLT _ | SRawtextLT _ | SScriptDataLT | SScriptDataEscapedLT => emit_char 60 t
  | SRcdataEndTagOpen _ | SRawtextEndTagOpen _ | SScriptDataEndTagOpen
  | SScriptDataEscapedEndTagOpen => emit_chars [60; 47] t
  | SRcdataEndTagName _ | SRawtextEndTagName _ | SScriptDataEndTagName
  | SScriptDataEscapedEndTagName => emit_chars (60 :: 47 :: t_tmp t) t
  | SBogusComment
  | SCommentStart | SCommentStartDash | SComment
  | SCommentLT | SCommentLTBang | SCommentLTBangDash | SCommentLTBangDashDash
  | SCommentEndDash | SCommentEnd | SCommentEndBang => emit_tok (Comment (rev (t_data t))) t
  | SMarkupDeclOpen => emit_tok (Comment (t_tmp t)) t
  | SDoctype | SDoctypeName | SDoctypeRest => emit_tok (Doctype (rev (t_data t))) t
  | _ => t
  end.

Definition tok_eof (t : tstate) : list htoken := rev (t_toks (flush_text (eof_flush t))).

(* ------------------------------------------------------------------ the tokenizer *)

Record tok_result := mk_result {
  r_tokens : list htoken;       (* all tokens, including what the end of input flushes *)
  r_final : hstate;             (* the state at the end of the input, before EOF handling *)
  r_classes : list posclass;      (* one class per input byte, in input order *)
  r_end : tstate                (* the whole machine state at the end of the input *)
}.

Definition html_tokenize (init : hstate) (s : bytes) : tok_result :=
  let t := tok_run (tok_init init) s in
  mk_result (tok_eof t) (t_state t) (rev (t_classes t)) t.

(* ------------------------------------------------------------------ views *)

(* the raw (undecoded) attribute values a later layer decodes: (element, attribute, raw value) *)
Definition attr_values_raw (l : list htoken) : list (bytes * bytes * bytes) :=
  flat_map (fun k => match k with
                     | StartTag e attrs _ => map (fun av => (e, fst av, snd av)) attrs
                     | _ => []
                     end) l.
Definition attr_value_raw (s : bytes) : list (bytes * bytes * bytes) :=
  attr_values_raw (r_tokens (html_tokenize SData s)).

(* the standard drops an attribute whose name already occurs in the token *)
Fixpoint attrs_first_wins_aux (seen : list bytes) (l : list (bytes * bytes)) : list (bytes * bytes) :=
  match l with
  | [] => []
  | (n, v) :: r =>
      if existsb (bytes_eqb n) seen then attrs_first_wins_aux seen r
      else (n, v) :: attrs_first_wins_aux (n :: seen) r
  end.
Definition attrs_first_wins (l : list (bytes * bytes)) : list (bytes * bytes) :=
  attrs_first_wins_aux [] l.

(* the structure view of C01: character data and attribute values dropped *)
Inductive stoken :=
| KStart (name : bytes) (attr_names : list bytes) (selfclosing : bool)
| KEnd (name : bytes)
| KComment (data : bytes)
| KDoctype (name : bytes).

Definition skel_tokens (l : list htoken) : list stoken :=
  flat_map (fun k => match k with
                     | StartTag n attrs sc => [KStart n (map fst attrs) sc]
                     | EndTag n => [KEnd n]
                     | Comment d => [KComment d]
                     | Doctype n => [KDoctype n]
                     | Chars _ => []
                     end) l.

Definition skel_from (init : hstate) (s : bytes) : list stoken * hstate :=
  let r := html_tokenize init s in (skel_tokens (r_tokens r), r_final r).

Definition skel (s : bytes) : list stoken * hstate := skel_from SData s.

Definition is_comment_token (k : htoken) : bool :=
  match k with Comment _ => true | _ => false end.
Definition no_comment_tokens (s : bytes) : bool :=
  negb (existsb is_comment_token (r_tokens (html_tokenize SData s))).

(* the character data of a token list, concatenated *)
Definition chars_of (l : list htoken) : bytes :=
  flat_map (fun k => match k with Chars d => d | _ => [] end) l.
