(* C17 specification, written from the property text, RFC 8259 (spec/Json.v) and the HTML
   script-data rules the property names; NOT from script.go or encoding/json.
   - canon: the JSON value a decoder gives back for a data value,
   - inert: the forbidden-rune scan of the JSON literal,
   - js_ident_spec: "ASCII identifier" for the variable name,
   - c17_spec: the predicate the check driver evaluates on the IMPLEMENTATION's real result,
   - the decidable side conditions on the regenerated pattern and layout ("bridges").
   Definitions only. *)
From V Require Import lib.Base lib.Regex lib.RegexDecide lib.Utf8 gen.GenRegex gen.GenFormats.
From V Require Import model.Script spec.Json.
Local Open Scope N_scope.

(* ---- what decoding gives back ---- *)

(* a Go string is arbitrary bytes; as text it denotes its runes, invalid bytes being U+FFFD *)
Definition sanitize (s : bytes) : bytes := encode_runes (decode_runes s).

Fixpoint canon (d : jvalue) : jvalue :=
  match d with
  | JStr s => JStr (sanitize s)
  | JArr l => JArr (map canon l)
  | JObj m => JObj (map (fun kv => match kv with (k, v) => (sanitize k, canon v) end) m)
  | _ => d
  end.

(* The JSON value of Go data; None = the data has no JSON encoding.  Bytes supplied by a
   json.Marshaler / RawMessage denote the value an RFC 8259 decoder reads from them. *)
Fixpoint g_canon (g : gvalue) : option jvalue :=
  match g with
  | GNull => Some JNull
  | GBool b => Some (JBool b)
  | GNum t => Some (JNum t)
  | GStr s => Some (JStr (sanitize s))
  | GArr l =>
      option_map JArr
        ((fix go (l : list gvalue) : option (list jvalue) :=
            match l with
            | [] => Some []
            | x :: l' =>
                match g_canon x, go l' with
                | Some a, Some b => Some (a :: b)
                | _, _ => None
                end
            end) l)
  | GObj m =>
      option_map JObj
        ((fix go (m : list (bytes * gvalue)) : option (list (bytes * jvalue)) :=
            match m with
            | [] => Some []
            | (k, x) :: m' =>
                match g_canon x, go m' with
                | Some a, Some b => Some ((sanitize k, a) :: b)
                | _, _ => None
                end
            end) m)
  | GRaw raw => json_decode raw
  | GBad => None
  end.

(* ---- well-formedness of the number texts that come from outside the model ---- *)

(* what strconv's formatting produces *)
Definition num_char (c : N) : bool :=
  ((48 <=? c) && (c <=? 57)) || (c =? 45) || (c =? 43) || (c =? 46) || (c =? 101) || (c =? 69).

Fixpoint wf_jvalue (d : jvalue) : bool :=
  match d with
  | JNum t => forallb num_char t
  | JArr l => forallb wf_jvalue l
  | JObj m => forallb (fun kv => match kv with (_, v) => wf_jvalue v end) m
  | _ => true
  end.

Fixpoint wf_gvalue (g : gvalue) : bool :=
  match g with
  | GNum t => forallb num_char t
  | GArr l => forallb wf_gvalue l
  | GObj m => forallb (fun kv => match kv with (_, v) => wf_gvalue v end) m
  | _ => true
  end.

(* every number text is a number of RFC 8259 section 6 *)
Fixpoint num_jvalue (d : jvalue) : bool :=
  match d with
  | JNum t => is_json_number t
  | JArr l => forallb num_jvalue l
  | JObj m => forallb (fun kv => match kv with (_, v) => num_jvalue v end) m
  | _ => true
  end.

Fixpoint num_gvalue (g : gvalue) : bool :=
  match g with
  | GNum t => is_json_number t
  | GArr l => forallb num_gvalue l
  | GObj m => forallb (fun kv => match kv with (_, v) => num_gvalue v end) m
  | _ => true
  end.

(* Go data without marshaler-supplied bytes or unencodable parts is a JSON value *)
Fixpoint j_of_g (g : gvalue) : option jvalue :=
  match g with
  | GNull => Some JNull
  | GBool b => Some (JBool b)
  | GNum t => Some (JNum t)
  | GStr s => Some (JStr s)
  | GArr l =>
      option_map JArr
        ((fix go (l : list gvalue) : option (list jvalue) :=
            match l with
            | [] => Some []
            | x :: l' =>
                match j_of_g x, go l' with
                | Some a, Some b => Some (a :: b)
                | _, _ => None
                end
            end) l)
  | GObj m =>
      option_map JObj
        ((fix go (m : list (bytes * gvalue)) : option (list (bytes * jvalue)) :=
            match m with
            | [] => Some []
            | (k, x) :: m' =>
                match j_of_g x, go m' with
                | Some a, Some b => Some ((k, a) :: b)
                | _, _ => None
                end
            end) m)
  | GRaw _ => None
  | GBad => None
  end.

(* ---- the forbidden runes: '<' '>' '&' U+2028 U+2029 ---- *)

Definition forbidden_rune (r : N) : bool :=
  (r =? 60) || (r =? 62) || (r =? 38) || (r =? 8232) || (r =? 8233).

Definition inert (J : bytes) : bool :=
  forallb (fun r => negb (forbidden_rune r)) (decode_runes J).

(* ---- the variable name: an ASCII identifier [$_A-Za-z][$_A-Za-z0-9]* ---- *)

Definition is_js_start (b : N) : bool :=
  (b =? 36) || (b =? 95) || ((65 <=? b) && (b <=? 90)) || ((97 <=? b) && (b <=? 122)).
Definition is_js_part (b : N) : bool := is_js_start b || ((48 <=? b) && (b <=? 57)).

Definition js_ident_spec (n : bytes) : bool :=
  match n with
  | [] => false
  | b :: t => is_js_start b && forallb is_js_part t
  end.

(* names the call must accept: identifiers of at least two characters (the property only
   demands that non-identifiers fail; the code is known to reject one-character names) *)
Definition js_ident2_spec (n : bytes) : bool :=
  js_ident_spec n && match n with _ :: _ :: _ => true | _ => false end.

(* ---- the frame, as documented: "var " name " = " J ";\n" script ---- *)

Definition doc_prefix : bytes := B "var ".
Definition doc_mid : bytes := B " = ".
Definition doc_suffix : bytes := [59; 10].

Fixpoint strip_prefix (p s : bytes) : option bytes :=
  match p, s with
  | [], _ => Some s
  | x :: p', y :: s' => if x =? y then strip_prefix p' s' else None
  | _ :: _, [] => None
  end.

Definition strip_suffix (q s : bytes) : option bytes :=
  option_map (@rev N) (strip_prefix (rev q) (rev s)).

(* the J with out = "var " ++ name ++ " = " ++ J ++ ";\n" ++ script, if there is one *)
Definition split_frame (name script out : bytes) : option bytes :=
  match strip_prefix (doc_prefix ++ name ++ doc_mid) out with
  | Some r => strip_suffix (doc_suffix ++ script) r
  | None => None
  end.

(* ---- the property as a predicate on one observed call ----
   name, script: the constant arguments; want: the JSON value of the data argument
   (None when it has none); ok/out: what the implementation returned (ok = nil error,
   out = the Script's string).  Result: [] when the call conforms, else the clause that fails. *)
Definition c17_spec (name : bytes) (want : option jvalue) (script : bytes)
           (ok : bool) (out : bytes) : bytes :=
  if ok then
    if negb (js_ident_spec name) then B "accepted_a_name_that_is_not_an_ascii_identifier"
    else
      match want with
      | None => B "accepted_data_that_cannot_be_encoded"
      | Some v =>
          match split_frame name script out with
          | None => B "result_is_not_var_name_eq_J_semicolon_newline_script"
          | Some J =>
              if negb (inert J) then B "json_literal_contains_lt_gt_amp_or_line_separator"
              else
                match json_decode J with
                | None => B "json_literal_is_not_a_single_json_text"
                | Some v' =>
                    if jvalue_eqb v' v then []
                    else B "json_literal_does_not_decode_to_the_json_value_of_the_data"
                end
          end
      end
  else
    if negb (bytes_eqb out []) then B "error_returned_with_a_non_zero_script"
    else if js_ident2_spec name && (match want with Some _ => true | None => false end)
    then B "rejected_an_identifier_name_with_encodable_data"
    else [].

(* ---- specification expressions and the bridges from the regenerated pattern ---- *)

Definition js_start_cls : list (N * N) := [(36, 36); (65, 90); (95, 95); (97, 122)].
Definition js_part_cls : list (N * N) := [(36, 36); (48, 57); (65, 90); (95, 95); (97, 122)].
Definition S_js_starts : regex := Cat BeginText (Cat (Cls js_start_cls) any_star).
Definition S_js_only : regex := Cat BeginText (Cat (Star (Cls js_part_cls)) EndText).
(* identifiers of two or more characters *)
Definition S_js_ident2 : regex :=
  Cat BeginText (Cat (Cls js_start_cls) (Cat (plus (Cls js_part_cls)) EndText)).

(* proof obligations on the regenerated data, evaluated by the kernel *)
Definition bridge_js_start : bool := incl_ok (search G_jsIdentifierPattern) S_js_starts.
Definition bridge_js_only : bool := incl_ok (search G_jsIdentifierPattern) S_js_only.
Definition bridge_js_rev : bool := incl_ok S_js_ident2 (search G_jsIdentifierPattern).

(* the regenerated layout is the documented one, and the JSON text comes from json.Marshal
   (escapeHTML on) *)
Definition layout_ok_b : bool :=
  translated_script_layout
  && bytes_eqb script_layout_prefix doc_prefix
  && bytes_eqb script_layout_mid doc_mid
  && bytes_eqb script_layout_suffix doc_suffix.
Definition producer_ok_b : bool :=
  translated_script_layout && json_producer_is_marshal && json_escape_html.

(* the same side conditions as data, for the directed search of the check driver *)
Definition C17_bridges : list (bytes * (regex * regex)) :=
  [ (B "js_start", (search G_jsIdentifierPattern, S_js_starts));
    (B "js_only", (search G_jsIdentifierPattern, S_js_only));
    (B "js_rev", (S_js_ident2, search G_jsIdentifierPattern)) ].
