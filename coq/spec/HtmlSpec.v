(* C10 specification, written from the property text (independent of html.go's tables). *)
From V Require Import lib.Base lib.Regex lib.RegexDecide lib.Utf8 gen.GenUnicode.
Local Open Scope N_scope.

(* the code points the property says must be replaced: NUL, C0 controls other than TAB LF FF CR,
   DEL, C1 controls, and the noncharacters FDD0..FDEF and xFFFE/xFFFF of all 17 planes *)
Definition plane_nonchars (k : N) : N * N := (k * 65536 + 65534, k * 65536 + 65535).
Definition spec_bad_ranges : list (N * N) :=
  [(0, 8); (11, 11); (14, 31); (127, 127); (128, 159); (64976, 65007)]
  ++ map plane_nonchars [0; 1; 2; 3; 4; 5; 6; 7; 8; 9; 10; 11; 12; 13; 14; 15; 16].
Definition spec_bad (r : N) : bool := in_ranges r spec_bad_ranges.

Definition coerce_spec_rune (r : N) : N := if spec_bad r then FFFD else r.

(* "s with exactly those code points and every invalid byte replaced by U+FFFD" *)
Definition coerce_spec (s : bytes) : bytes := encode_runes (map coerce_spec_rune (decode_runes s)).

(* side condition on the regenerated table: it denotes the same set of code points
   (decided by the verified checker of lib/RegexDecide.v on one-rune languages) *)
Definition table_ok : bool := equiv_ok (Cls control_and_nonchar_table) (Cls spec_bad_ranges).
Definition C10_bridges : list (bytes * (regex * regex)) :=
  [ (B "table_in_spec", (Cls control_and_nonchar_table, Cls spec_bad_ranges));
    (B "spec_in_table", (Cls spec_bad_ranges, Cls control_and_nonchar_table)) ].

(* output alphabet *)
Definition quote_or_angle (b : N) : bool := mem_N b [34; 39; 60; 62].
Definition no_quote_or_angle (o : bytes) : bool := forallb (fun b => negb (quote_or_angle b)) o.

Definition the_refs : list bytes := [B "amp;"; B "lt;"; B "gt;"; B "#34;"; B "#39;"].
Definition starts_with_ref (t : bytes) : bool := existsb (fun r => prefixb r t) the_refs.

(* every '&' is the first character of one of the five references *)
Fixpoint amp_ok (o : bytes) : bool :=
  match o with
  | [] => true
  | c :: t => (if c =? 38 then starts_with_ref t else true) && amp_ok t
  end.

Definition clean_rune (r : N) : bool :=
  negb (spec_bad r) && (r <=? 1114111) && negb ((55296 <=? r) && (r <=? 57343)).

(* the whole C10 oracle on an (input, output) pair; html_unescape is passed in by the driver/theorem *)
Definition c10_output_ok (o : bytes) : bool :=
  no_quote_or_angle o && amp_ok o && utf8_valid o && forallb clean_rune (decode_runes o).
