(* What a browser does with a URL attribute value before it decides whether the URL has a
   scheme.  Written from the standards, not from safehtml:

   1. WHATWG URL Standard, section 4.4 "URL parsing", basic URL parser, steps 1-3 and the
      "scheme start state" / "scheme state" only (no state override, no base URL needed to
      decide WHICH scheme is found):
        - "Remove any leading and trailing C0 control or space from input."
          (C0 control or space: U+0000 .. U+001F, U+0020.)
        - "Remove all ASCII tab or newline from input."  (U+0009, U+000A, U+000D.)
        - scheme start state: "If c is an ASCII alpha, append c, lowercased, to buffer, and
          set state to scheme state.  Otherwise ... set state to no scheme state".
        - scheme state: "If c is an ASCII alphanumeric, U+002B (+), U+002D (-), or U+002E (.),
          append c, lowercased, to buffer.  Otherwise, if c is U+003A (:) ... set url's scheme
          to buffer ...  Otherwise ... set buffer to the empty string, state to no scheme
          state, and start over".  The end of input is the EOF code point, which is neither.
      [whatwg_scheme w] is the lower-cased ASCII scheme the parser finds in the code point
      list [w], or None when it enters the no scheme state.

   2. "One round of HTML character-reference decoding" (HTML Standard 13.2.5.72-80, the
      character reference states of the tokenizer; it runs on code points, after the byte
      stream has been decoded).  Two things are provided.
        a. The theorems of C11 quantify over EVERY decoder [dec] that satisfies
           [charref_decoder_on_runes] (resp. [charref_decoder_on_bytes] for decoders that
           work on the UTF-8 bytes, such as Go's html.UnescapeString): text that contains no
           '&' is left alone, and everything before the first '&' is copied unchanged.
           That is all the proof needs, because the sanitizer only lets '&' through after
           the first '/', '?' or '#'; it holds of any conforming decoder (references start at
           '&', the tokenizer never looks back), so the theorem covers the full entity table
           without containing it.  The full model of Go's html.UnescapeString
           (model/HtmlUnescape.v, built separately) can be plugged in by proving that one
           hypothesis.
        b. [html_decode attr w], an executable decoder written from the standard, used to
           instantiate (a) (non-vacuity) and extracted as one of the oracles that judge the
           implementation's real outputs.  Numeric references are complete (decimal, hex,
           optional ';', the null / out-of-range / surrogate replacement by U+FFFD and the
           0x80-0x9F Windows-1252 remapping table).  Named references: the table lists every
           name of the standard that produces a code point below U+0080 (cross-checked
           against $GOROOT/src/html/entity.go: 53 names) plus nbsp and the four two-code-point
           references whose first code point is ASCII (bne; fjlig; nvgt; nvlt;).  A name that
           is not in the table is left undecoded.  For the question asked here (which scheme
           does the URL parser find) this loses nothing: an undecoded reference starts with
           '&' and the decoded one would be a code point >= U+0080; neither is a scheme
           character, neither is removed by the URL parser's preprocessing.  [attr = true]
           applies the attribute-value exception ("if the character reference was consumed
           as part of an attribute, the last character matched is not ';' and the next input
           character is '=' or an ASCII alphanumeric, then ... flush code points consumed as
           a character reference").
   Definitions only; facts are in proofs/UrlFacts.v. *)
From V Require Import lib.Base.
Local Open Scope N_scope.

(* ------------------------------------------------------------------ *)
(* Infra Standard code point classes *)
Definition c0_or_space (c : N) : bool := c <=? 32.
Definition ascii_tab_or_newline (c : N) : bool := (c =? 9) || (c =? 10) || (c =? 13).
Definition ascii_upper_alpha (c : N) : bool := (65 <=? c) && (c <=? 90).
Definition ascii_lower_alpha (c : N) : bool := (97 <=? c) && (c <=? 122).
Definition ascii_alpha (c : N) : bool := ascii_upper_alpha c || ascii_lower_alpha c.
Definition ascii_digit (c : N) : bool := (48 <=? c) && (c <=? 57).
Definition ascii_alphanumeric (c : N) : bool := ascii_digit c || ascii_alpha c.
(* "ASCII lowercase": replace A-Z by the corresponding a-z *)
Definition ascii_lower (c : N) : N := if ascii_upper_alpha c then c + 32 else c.

(* a code point the scheme state appends to the buffer *)
Definition scheme_char (c : N) : bool :=
  ascii_alphanumeric c || (c =? 43) || (c =? 45) || (c =? 46).

(* ------------------------------------------------------------------ *)
(* basic URL parser, steps 1-2: input preprocessing *)
Fixpoint strip_leading (w : list N) : list N :=
  match w with
  | [] => []
  | c :: t => if c0_or_space c then strip_leading t else w
  end.

(* removes the longest suffix that consists of C0 controls and spaces only *)
Fixpoint strip_trailing (w : list N) : list N :=
  match w with
  | [] => []
  | c :: t =>
      match strip_trailing t with
      | [] => if c0_or_space c then [] else [c]
      | t' => c :: t'
      end
  end.

Definition remove_tab_newline (w : list N) : list N :=
  filter (fun c => negb (ascii_tab_or_newline c)) w.

Definition url_preprocess (w : list N) : list N :=
  remove_tab_newline (strip_trailing (strip_leading w)).

(* scheme state; [buf] is the buffer *)
Fixpoint scheme_state (w : list N) (buf : list N) : option (list N) :=
  match w with
  | [] => None                                   (* EOF code point: no scheme state *)
  | c :: t =>
      if scheme_char c then scheme_state t (buf ++ [ascii_lower c])
      else if c =? 58 then Some buf
      else None
  end.

(* scheme start state *)
Definition scheme_start_state (w : list N) : option (list N) :=
  match w with
  | [] => None
  | c :: t => if ascii_alpha c then scheme_state t [ascii_lower c] else None
  end.

Definition whatwg_scheme (w : list N) : option (list N) :=
  scheme_start_state (url_preprocess w).

Definition javascript_scheme : list N := B "javascript".

Definition is_javascript_url (w : list N) : bool :=
  match whatwg_scheme w with
  | Some sch => list_eqb N.eqb sch javascript_scheme
  | None => false
  end.

(* ------------------------------------------------------------------ *)
(* (a) what the theorems assume of a character-reference decoder *)
Definition charref_decoder_on_runes (dec : list N -> list N) : Prop :=
  forall p t, ~ In 38 p -> exists t', dec (p ++ t) = p ++ t' /\ (t = [] -> t' = []).

Definition charref_decoder_on_bytes (dec : bytes -> bytes) : Prop :=
  forall p t, ~ In 38 p -> exists t', dec (p ++ t) = p ++ t' /\ (t = [] -> t' = []).

(* ------------------------------------------------------------------ *)
(* (b) an executable decoder *)
Definition ascii_hex_digit (c : N) : bool :=
  ascii_digit c || ((65 <=? c) && (c <=? 70)) || ((97 <=? c) && (c <=? 102)).
Definition hex_value (c : N) : N :=
  if ascii_digit c then c - 48 else if c <=? 70 then c - 55 else c - 87.

(* longest prefix of code points satisfying f, and the rest *)
Fixpoint span (f : N -> bool) (w : list N) : list N * list N :=
  match w with
  | [] => ([], [])
  | c :: t => if f c then let (a, b) := span f t in (c :: a, b) else ([], w)
  end.

Definition digits_value (base : N) (ds : list N) : N :=
  fold_left (fun acc d => acc * base + hex_value d) ds 0.

(* numeric character reference end state: the replacement table for 0x80-0x9F *)
Definition win1252_table : list (N * N) :=
  [ (128, 8364); (130, 8218); (131, 402); (132, 8222); (133, 8230); (134, 8224); (135, 8225);
    (136, 710); (137, 8240); (138, 352); (139, 8249); (140, 338); (142, 381);
    (145, 8216); (146, 8217); (147, 8220); (148, 8221); (149, 8226); (150, 8211); (151, 8212);
    (152, 732); (153, 8482); (154, 353); (155, 8250); (156, 339); (158, 382); (159, 376) ].

Definition numeric_fixup (v : N) : N :=
  if v =? 0 then 65533
  else if 1114111 <? v then 65533
  else if (55296 <=? v) && (v <=? 57343) then 65533
  else match find (fun e => fst e =? v) win1252_table with
       | Some e => snd e
       | None => v
       end.

(* named character references that yield a code point below U+0080 (all of them), nbsp, and
   the two-code-point references that start with an ASCII code point *)
Definition named_table : list (bytes * list N) :=
  [ (B "Tab;", [9]); (B "NewLine;", [10]); (B "excl;", [33]);
    (B "quot;", [34]); (B "quot", [34]); (B "QUOT;", [34]); (B "QUOT", [34]);
    (B "num;", [35]); (B "dollar;", [36]); (B "percnt;", [37]);
    (B "amp;", [38]); (B "amp", [38]); (B "AMP;", [38]); (B "AMP", [38]);
    (B "apos;", [39]); (B "lpar;", [40]); (B "rpar;", [41]); (B "ast;", [42]); (B "midast;", [42]);
    (B "plus;", [43]); (B "comma;", [44]); (B "period;", [46]); (B "sol;", [47]);
    (B "colon;", [58]); (B "semi;", [59]);
    (B "lt;", [60]); (B "lt", [60]); (B "LT;", [60]); (B "LT", [60]);
    (B "equals;", [61]);
    (B "gt;", [62]); (B "gt", [62]); (B "GT;", [62]); (B "GT", [62]);
    (B "quest;", [63]); (B "commat;", [64]);
    (B "lsqb;", [91]); (B "lbrack;", [91]); (B "bsol;", [92]); (B "rsqb;", [93]); (B "rbrack;", [93]);
    (B "Hat;", [94]); (B "lowbar;", [95]); (B "UnderBar;", [95]);
    (B "grave;", [96]); (B "DiacriticalGrave;", [96]);
    (B "lcub;", [123]); (B "lbrace;", [123]);
    (B "verbar;", [124]); (B "vert;", [124]); (B "VerticalLine;", [124]);
    (B "rcub;", [125]); (B "rbrace;", [125]);
    (B "nbsp;", [160]); (B "nbsp", [160]); (B "NonBreakingSpace;", [160]);
    (B "bne;", [61; 8421]); (B "fjlig;", [102; 106]); (B "nvgt;", [62; 8402]); (B "nvlt;", [60; 8402]) ].

(* the longest name of the table that is a prefix of w ("consume the maximum number of
   characters possible") *)
Definition longest_named (w : list N) : option (bytes * list N) :=
  fold_left (fun best e =>
      if prefixb (fst e) w then
        match best with
        | Some b => if Nat.ltb (length (fst b)) (length (fst e)) then Some e else best
        | None => Some e
        end
      else best) named_table None.

(* the text after '&': Some (replacement, rest of input) when it is a character reference *)
Definition charref (attr : bool) (w : list N) : option (list N * list N) :=
  match w with
  | [] => None
  | c0 :: t =>
      if c0 =? 35 then                                    (* '#': numeric *)
        let '(hex, t1) := match t with
                          | x :: t' => if (x =? 120) || (x =? 88) then (true, t') else (false, t)
                          | [] => (false, t)
                          end in
        let '(ds, rest) := span (if hex then ascii_hex_digit else ascii_digit) t1 in
        match ds with
        | [] => None                                      (* absence of digits: not a reference *)
        | _ =>
            let v := numeric_fixup (digits_value (if hex then 16 else 10) ds) in
            match rest with
            | x :: rest' => if x =? 59 then Some ([v], rest') else Some ([v], rest)
            | [] => Some ([v], rest)
            end
        end
      else
        match longest_named w with
        | None => None
        | Some (name, out) =>
            let rest := skipn (length name) w in
            let semi := match last_or name None with Some x => x =? 59 | None => false end in
            let next_blocks := match rest with
                               | c :: _ => (c =? 61) || ascii_alphanumeric c
                               | [] => false
                               end in
            if attr && negb semi && next_blocks then None else Some (out, rest)
        end
  end.

Fixpoint html_decode_fuel (fuel : nat) (attr : bool) (w : list N) : list N :=
  match fuel with
  | O => w
  | S f =>
      match w with
      | [] => []
      | c :: t =>
          if c =? 38 then
            match charref attr t with
            | Some (out, rest) => out ++ html_decode_fuel f attr rest
            | None => c :: html_decode_fuel f attr t
            end
          else c :: html_decode_fuel f attr t
      end
  end.

(* every step consumes at least one code point, so the length of the input is enough fuel *)
Definition html_decode (attr : bool) (w : list N) : list N :=
  html_decode_fuel (length w) attr w.
