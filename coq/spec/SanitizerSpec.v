(* C03 specification: which safe type each run-time sanitizer lets through unchanged (the type
   contracts), written from the documentation of the sanitization contexts. *)
From V Require Import lib.Base model.HtmlUnescape model.TContext model.TSanitize model.TSanitizers spec.HtmlSpec.
Local Open Scope N_scope.

(* own f k: sanitizer f emits a value of safe type k verbatim *)
Definition own (f : bytes) (k : kind) : bool :=
  match k with
  | KHTML => bytes_eqb f (B "_sanitizeHTML") || bytes_eqb f (B "_sanitizeHTMLValOnly")
  | KScript => bytes_eqb f (B "_sanitizeScript")
  | KStyle => bytes_eqb f (B "_sanitizeStyle")
  | KStyleSheet => bytes_eqb f (B "_sanitizeStyleSheet")
  | KURL => bytes_eqb f (B "_sanitizeURL") || bytes_eqb f (B "_sanitizeTrustedResourceURLOrURL")
  | KTRU => bytes_eqb f (B "_sanitizeTrustedResourceURL") || bytes_eqb f (B "_sanitizeTrustedResourceURLOrURL")
  | KIdentifier => bytes_eqb f (B "_sanitizeIdentifier")
  end.

(* every function of the funcs map *)
Definition sanitizer_names : list bytes :=
  [ B "_sanitizeHTML"; B "_sanitizeRCDATA"; B "_sanitizeHTMLValOnly"; B "_sanitizeIdentifier"; B "_sanitizeScript";
    B "_sanitizeStyle"; B "_sanitizeStyleSheet"; B "_sanitizeTrustedResourceURL";
    B "_sanitizeTrustedResourceURLOrURL"; B "_sanitizeURL"; B "_sanitizeURLSet"; B "_sanitizeHTMLComment";
    B "_queryEscapeURL"; B "_normalizeURL"; B "_validateTrustedResourceURLSubstitution"; B "_evalArgs";
    B "_sanitizeAsyncEnum"; B "_sanitizeDirEnum"; B "_sanitizeLoadingEnum"; B "_sanitizeTargetEnum" ].

Definition is_html_kind_value (v : value) : bool :=
  match indirect v with VSafe KHTML _ => true | _ => false end.

(* inside an attribute value nothing may end the attribute or the tag *)
Definition attr_inert (o : bytes) : bool := no_quote_or_angle o && amp_ok o.

(* oracle for one (sanitizer, value) cell: verbatim only if own, else as the plain string *)
Definition c03_cell_ok (f : bytes) (v : value) (impl : option bytes) (impl_plain : option bytes) : bool :=
  match indirect v with
  | VSafe k s =>
      if own f k then match impl with Some o => bytes_eqb o s | None => false end
      else match impl, impl_plain with
           | Some a, Some b => bytes_eqb a b
           | None, None => true
           | _, _ => false
           end
  | _ => true
  end.
