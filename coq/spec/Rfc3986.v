(* RFC 3986, written from the RFC text only (independent of safehtml):
   - the five-component split of a URI reference by the regular expression of appendix B
       optional scheme = non-empty run without : / ? # followed by ':'; optional authority =
       // followed by a run without / ? #; path = run without ? #; optional ? query = run
       without #; optional # fragment = the rest
   - path segments (3.3), percent-decoding (2.1), unreserved (2.3),
   - normalisation of percent-encoded unreserved octets (6.2.2.2),
   - remove_dot_segments (5.2.4), transliterated on the input/output buffers, and its
     segment-level reading (dot_kind / seg_remove_dots / climb).
   Definitions only. *)
From V Require Import lib.Base.
Local Open Scope N_scope.

Fixpoint take_while (p : N -> bool) (s : bytes) : bytes :=
  match s with
  | [] => []
  | c :: t => if p c then c :: take_while p t else []
  end.

Fixpoint drop_while (p : N -> bool) (s : bytes) : bytes :=
  match s with
  | [] => []
  | c :: t => if p c then drop_while p t else s
  end.

(* ---- appendix B ---- *)
Definition not_gen_stop (c : N) : bool := negb ((c =? 58) || (c =? 47) || (c =? 63) || (c =? 35)). (* [^:/?#] *)
Definition not_hier_stop (c : N) : bool := negb ((c =? 47) || (c =? 63) || (c =? 35)).            (* [^/?#]  *)
Definition not_path_stop (c : N) : bool := negb ((c =? 63) || (c =? 35)).                          (* [^?#]   *)
Definition not_hash (c : N) : bool := negb (c =? 35).                                              (* [^#]    *)

(* optional scheme *)
Definition split_scheme (s : bytes) : option bytes * bytes :=
  match take_while not_gen_stop s, drop_while not_gen_stop s with
  | (_ :: _) as w, c :: r => if c =? 58 then (Some w, r) else (None, s)
  | _, _ => (None, s)
  end.

(* optional authority *)
Definition split_authority (s : bytes) : option bytes * bytes :=
  match s with
  | a :: b :: r =>
      if (a =? 47) && (b =? 47) then (Some (take_while not_hier_stop r), drop_while not_hier_stop r)
      else (None, s)
  | _ => (None, s)
  end.

(* optional query *)
Definition split_query (s : bytes) : option bytes * bytes :=
  match s with
  | c :: r => if c =? 63 then (Some (take_while not_hash r), drop_while not_hash r) else (None, s)
  | [] => (None, s)
  end.

(* optional fragment *)
Definition split_fragment (s : bytes) : option bytes :=
  match s with
  | c :: r => if c =? 35 then Some r else None
  | [] => None
  end.

Definition uri_scheme (s : bytes) : option bytes := fst (split_scheme s).
Definition uri_after_scheme (s : bytes) : bytes := snd (split_scheme s).
Definition uri_authority (s : bytes) : option bytes := fst (split_authority (uri_after_scheme s)).
Definition uri_after_authority (s : bytes) : bytes := snd (split_authority (uri_after_scheme s)).
Definition uri_path (s : bytes) : bytes := take_while not_path_stop (uri_after_authority s).
Definition uri_after_path (s : bytes) : bytes := drop_while not_path_stop (uri_after_authority s).
Definition uri_query (s : bytes) : option bytes := fst (split_query (uri_after_path s)).
Definition uri_fragment (s : bytes) : option bytes := split_fragment (snd (split_query (uri_after_path s))).

Definition is_some {A} (o : option A) : bool := match o with Some _ => true | None => false end.
Definition has_query (s : bytes) : bool := is_some (uri_query s).
Definition has_fragment (s : bytes) : bool := is_some (uri_fragment s).

(* ---- 3.3: the path is a sequence of segments separated by "/" (n slashes give n+1 pieces;
        an absolute path therefore starts with an empty piece) ---- *)
Fixpoint split_on (d : N) (s : bytes) : list bytes :=
  match s with
  | [] => [[]]
  | c :: t =>
      if c =? d then [] :: split_on d t
      else match split_on d t with
           | h :: r => (c :: h) :: r
           | [] => [[c]]
           end
  end.

Definition segments (path : bytes) : list bytes := split_on 47 path.

Fixpoint join_with (d : N) (l : list bytes) : bytes :=
  match l with
  | [] => []
  | [x] => x
  | x :: r => x ++ d :: join_with d r
  end.

(* ---- 2.3 / 2.1 ---- *)
Definition is_alpha (c : N) : bool := ((65 <=? c) && (c <=? 90)) || ((97 <=? c) && (c <=? 122)).
Definition is_digit (c : N) : bool := (48 <=? c) && (c <=? 57).
Definition unreserved (c : N) : bool :=
  is_alpha c || is_digit c || (c =? 45) || (c =? 46) || (c =? 95) || (c =? 126).

Definition hex_val (c : N) : option N :=
  if is_digit c then Some (c - 48)
  else if (97 <=? c) && (c <=? 102) then Some (c - 87)
  else if (65 <=? c) && (c <=? 70) then Some (c - 55)
  else None.

Definition pct_octet (h1 h2 : N) : option N :=
  match hex_val h1, hex_val h2 with
  | Some a, Some b => Some (16 * a + b)
  | _, _ => None
  end.

(* decode every well-formed triplet; a stray "%" stays *)
Fixpoint pct_decode (s : bytes) : bytes :=
  match s with
  | [] => []
  | c :: t =>
      if c =? 37 then
        match t with
        | h1 :: h2 :: r =>
            match pct_octet h1 h2 with
            | Some v => v :: pct_decode r
            | None => c :: pct_decode t
            end
        | _ => c :: pct_decode t
        end
      else c :: pct_decode t
  end.

(* 6.2.2.2: decode only the triplets that stand for unreserved octets *)
Fixpoint decode_unreserved (s : bytes) : bytes :=
  match s with
  | [] => []
  | c :: t =>
      if c =? 37 then
        match t with
        | h1 :: h2 :: r =>
            match pct_octet h1 h2 with
            | Some v => if unreserved v then v :: decode_unreserved r else c :: decode_unreserved t
            | None => c :: decode_unreserved t
            end
        | _ => c :: decode_unreserved t
        end
      else c :: decode_unreserved t
  end.

(* ---- 5.2.4 remove_dot_segments, on the two buffers ---- *)
Definition not_slash (c : N) : bool := negb (c =? 47).

(* removing the last segment and its preceding slash (if any) from the output buffer *)
Definition remove_last_segment (out : bytes) : bytes :=
  rev (match drop_while not_slash (rev out) with
       | _ :: r => r
       | [] => []
       end).

(* the first path segment in the input buffer, including the initial slash (if any) and any
   subsequent characters up to, but not including, the next slash *)
Definition first_segment (inp : bytes) : bytes * bytes :=
  match inp with
  | c :: r =>
      if c =? 47 then (c :: take_while not_slash r, drop_while not_slash r)
      else (take_while not_slash inp, drop_while not_slash inp)
  | [] => ([], [])
  end.

Fixpoint rds_loop (fuel : nat) (inp out : bytes) : bytes :=
  match fuel with
  | O => out
  | S f =>
      match inp with
      | [] => out
      | _ =>
          (* A *)
          if prefixb [46; 46; 47] inp then rds_loop f (skipn 3 inp) out
          else if prefixb [46; 47] inp then rds_loop f (skipn 2 inp) out
          (* B *)
          else if prefixb [47; 46; 47] inp then rds_loop f (skipn 2 inp) out
          else if bytes_eqb inp [47; 46] then rds_loop f [47] out
          (* C *)
          else if prefixb [47; 46; 46; 47] inp then rds_loop f (skipn 3 inp) (remove_last_segment out)
          else if bytes_eqb inp [47; 46; 46] then rds_loop f [47] (remove_last_segment out)
          (* D *)
          else if bytes_eqb inp [46] || bytes_eqb inp [46; 46] then out
          (* E *)
          else let (seg, rest) := first_segment inp in rds_loop f rest (out ++ seg)
      end
  end.

Definition remove_dot_segments (path : bytes) : bytes := rds_loop (S (length path)) path [].

(* 6.2.2: the path as a dereferencing client sees it *)
Definition normalize_path (path : bytes) : bytes := remove_dot_segments (decode_unreserved path).

(* ---- the same on segment lists ---- *)
(* 0 = ordinary segment, 1 = single dot, 2 = double dot (after 6.2.2.2 normalisation, so that
   the triplet for '.' counts as a dot) *)
Definition dot_kind (seg : bytes) : N :=
  let d := decode_unreserved seg in
  if bytes_eqb d [46] then 1 else if bytes_eqb d [46; 46] then 2 else 0.

(* surviving segments, as a stack (last pushed first) *)
Fixpoint seg_remove_dots (stack : list bytes) (segs : list bytes) : list bytes :=
  match segs with
  | [] => rev stack
  | s :: t =>
      if dot_kind s =? 1 then seg_remove_dots stack t
      else if dot_kind s =? 2 then seg_remove_dots (tl stack) t
      else seg_remove_dots (s :: stack) t
  end.

(* number of double-dot steps that go above the starting directory when the segments are followed
   with [d] levels to spare *)
Fixpoint climb (d : nat) (segs : list bytes) : nat :=
  match segs with
  | [] => O
  | s :: t =>
      if dot_kind s =? 1 then climb d t
      else if dot_kind s =? 2 then
        match d with
        | O => S (climb O t)
        | S d' => climb d' t
        end
      else climb (S d) t
  end.
