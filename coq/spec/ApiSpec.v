(* C19 specification over the regenerated API table (gen/GenApi.v) and the frozen reviewed table
   (reviewed/ReviewedApi.v): resolution of type expressions into the Go type model of
   spec/GoAssign.v, the finding classifiers, and the boolean checks
     (i)   surface      every TrustedText parameter has the gate type of its own package,
     (ii)  closed world every exported way to a trust-carrying value is reviewed; safe types are opaque,
     (iii) no plain-string trusted text,
     (iv)  no conversion between distinct safe types,
   each stated in the direction that stays true if a recorded finding is repaired.
   Definitions only. *)
From V Require Import lib.Base lib.ApiSyntax gen.GenApi reviewed.ReviewedApi spec.GoAssign.
Local Open Scope N_scope.

Definition P_safehtml : bytes := B "safehtml".
Definition P_template : bytes := B "template".

(* ---------------------------------------------------------------- lookups *)

Definition name2_eqb (a b : bytes * bytes) : bool :=
  bytes_eqb (fst a) (fst b) && bytes_eqb (snd a) (snd b).
Definition mem_name2 (x : bytes * bytes) (l : list (bytes * bytes)) : bool := existsb (name2_eqb x) l.

Definition lookup_type (types : list api_type) (p n : bytes) : option api_type :=
  find (fun d => bytes_eqb (t_pkg d) p && bytes_eqb (t_name d) n) types.

Definition func_key_eqb (p r n : bytes) (f : api_func) : bool :=
  bytes_eqb (f_pkg f) p && bytes_eqb (f_recv f) r && bytes_eqb (f_name f) n.

Definition lookup_func (p r n : bytes) : option api_func := find (func_key_eqb p r n) gen_funcs.

Definition lookup_reviewed (f : api_func) : option reviewed :=
  find (fun r => bytes_eqb (r_pkg r) (f_pkg f) && bytes_eqb (r_recv r) (f_recv f)
                 && bytes_eqb (r_name r) (f_name f)) reviewed_api.

Definition prole_eqb (a b : prole) : bool :=
  match a, b with
  | TrustedText, TrustedText | Dynamic, Dynamic | Safe, Safe => true
  | _, _ => false
  end.

Definition param_role (r : reviewed) (pname : bytes) : option prole :=
  match find (fun x => bytes_eqb (fst x) pname) (r_params r) with
  | Some x => Some (snd x)
  | None => None
  end.

Definition is_trusted_text (r : reviewed) (pname : bytes) : bool :=
  match param_role r pname with Some TrustedText => true | _ => false end.

(* ---------------------------------------------------------------- type expressions -> types *)

Definition dot : bytes := B ".".

Fixpoint resolve (types : list api_type) (fuel : nat) (t : texpr) {struct fuel} : gotype :=
  match fuel with
  | O => GOpaque (B "#depth")
  | S fuel' =>
      match t with
      | TName p n =>
          match p with
          | [] =>
              if bytes_eqb n (B "string") then GString
              else if mem_bytes n basic_names then GBasic n
              else GOpaque n
          | _ =>
              match lookup_type types p n with
              | None => GOpaque (p ++ dot ++ n)
              | Some d =>
                  let under :=
                    match t_under d with
                    | UString => GString
                    | UStruct fs =>
                        GStruct (map (fun f : api_field =>
                                        match f with
                                        | (fname, _, emb, ft) => GField p fname emb [] (resolve types fuel' ft)
                                        end) fs)
                    | UOther => GOpaque (p ++ dot ++ n ++ B "#underlying")
                    end in
                  match t_form d with
                  | Defined => GDefined p n under
                  | Alias => under
                  end
              end
          end
      | TPtr x => GPointer (resolve types fuel' x)
      | TSlice x => GSlice (resolve types fuel' x)
      | TVariadic x => GSlice (resolve types fuel' x)
      | TMap k v => GMap (resolve types fuel' k) (resolve types fuel' v)
      | TFunc => GOpaque (B "func")
      | TInterface => GOpaque (B "interface")
      | TOther x => GOpaque x
      end
  end.

Definition resolve_fuel : nat := 6%nat.
Definition resolve_t (t : texpr) : gotype := resolve gen_types resolve_fuel t.
Definition resolve_named (x : bytes * bytes) : gotype := resolve_t (TName (fst x) (snd x)).

(* the type against which ONE argument of a call is checked: the element type of a variadic parameter *)
Definition param_elem (t : texpr) : texpr := match t with TVariadic x => x | _ => t end.
Definition resolve_param (t : texpr) : gotype := resolve_t (param_elem t).

(* ---------------------------------------------------------------- finding classifiers *)

(* D15: conversion between two distinct safe types of package safehtml *)
Definition finding_D15 (tu : (bytes * bytes) * (bytes * bytes)) : bool :=
  let (T, U) := tu in
  mem_name2 T safe_types && mem_name2 U safe_types && negb (name2_eqb T U)
  && bytes_eqb (fst T) P_safehtml && bytes_eqb (fst U) P_safehtml.

(* D20: the three ...FromFlag functions *)
Definition finding_D20 (p r n : bytes) : bool :=
  bytes_eqb r [] &&
  ((bytes_eqb p P_safehtml && (bytes_eqb n (B "TrustedResourceURLFromFlag") || bytes_eqb n (B "TrustedResourceURLFormatFromFlag")))
   || (bytes_eqb p P_template && bytes_eqb n (B "TrustedSourceFromFlag"))).

(* D21: the patterns parameter of the two ParseFS entry points *)
Definition finding_D21 (p r n pname : bytes) : bool :=
  bytes_eqb p P_template && bytes_eqb n (B "ParseFS") && (bytes_eqb r [] || bytes_eqb r (B "Template"))
  && bytes_eqb pname (B "patterns").

(* D30: the exported field Tree of template.Template *)
Definition finding_D30 (p tn fname : bytes) : bool :=
  bytes_eqb p P_template && bytes_eqb tn (B "Template") && bytes_eqb fname (B "Tree").

(* D31: an argument produced by a conversion to an inferred type parameter (client go >= 1.18) *)
Definition finding_D31 (e : cexpr) : bool := uses_type_param e.

(* ---------------------------------------------------------------- (i) surface, (iii) plain strings *)

Definition is_gate_texpr (p : bytes) (t : texpr) : bool :=
  texpr_eqb t (TName p gate_name) || texpr_eqb t (TVariadic (TName p gate_name)).

Definition is_plain_string_texpr (t : texpr) : bool :=
  let s := TName [] (B "string") in
  texpr_eqb t s || texpr_eqb t (TVariadic s) || texpr_eqb t (TSlice s).

(* the declaration "type stringConstant string" of package p: exactly one, defined (not an alias),
   unexported, underlying string *)
Definition is_gate_decl (p : bytes) (d : api_type) : bool :=
  bytes_eqb (t_pkg d) p && bytes_eqb (t_name d) gate_name.
Definition gate_decl_ok (p : bytes) : bool :=
  match filter (is_gate_decl p) gen_types with
  | [d] => negb (t_exported d) && match t_form d with Defined => true | Alias => false end
           && match t_under d with UString => true | _ => false end
  | _ => false
  end.

Definition param_surface_ok (f : api_func) (r : reviewed) (x : bytes * texpr) : bool :=
  negb (is_trusted_text r (fst x))
  || is_gate_texpr (f_pkg f) (snd x)
  || finding_D20 (f_pkg f) (f_recv f) (f_name f)
  || finding_D21 (f_pkg f) (f_recv f) (f_name f) (fst x).

Definition param_not_plain_ok (f : api_func) (r : reviewed) (x : bytes * texpr) : bool :=
  negb (is_trusted_text r (fst x) && is_plain_string_texpr (snd x))
  || finding_D21 (f_pkg f) (f_recv f) (f_name f) (fst x).

(* the reviewed entry speaks about the parameters the function has today *)
Definition params_match (f : api_func) (r : reviewed) : bool :=
  list_eqb bytes_eqb (map fst (f_params f)) (map fst (r_params r)).

Definition func_surface_ok (f : api_func) : bool :=
  match lookup_reviewed f with
  | None => true
  | Some r => params_match f r
              && forallb (param_surface_ok f r) (f_params f)
              && forallb (param_not_plain_ok f r) (f_params f)
  end.

Definition pkg_known (p : bytes) : bool := bytes_eqb p P_safehtml || bytes_eqb p P_template.

(* the translator's exportedness verdict agrees with the Go rule used by the type model *)
Definition exported_consistent : bool :=
  forallb (fun d => Bool.eqb (t_exported d) (is_exported_name (t_name d))) gen_types
  && forallb (fun d => match t_under d with
                       | UStruct fs => forallb (fun f : api_field =>
                                         match f with (n, ex, _, _) => Bool.eqb ex (is_exported_name n) end) fs
                       | _ => true
                       end) gen_types.

Definition api_surface_check : bool :=
  translated_api && exported_consistent
  && gate_decl_ok P_safehtml && gate_decl_ok P_template
  && forallb (fun f => pkg_known (f_pkg f)) gen_funcs
  && forallb func_surface_ok gen_funcs.

(* witnesses for the driver: (function, parameter) pairs that break (i)/(iii), stale entries *)
Definition surface_witnesses : list (api_func * bytes) :=
  flat_map (fun f =>
    match lookup_reviewed f with
    | None => []
    | Some r =>
        (if params_match f r then [] else [(f, B "<parameter list changed>")])
        ++ map (fun x => (f, fst x))
               (filter (fun x => negb (param_surface_ok f r x && param_not_plain_ok f r x)) (f_params f))
    end) gen_funcs.

(* ---------------------------------------------------------------- (ii) closed world *)

Definition tracked_types : list (bytes * bytes) := safe_types ++ carrier_types.

(* does a type expression mention a tracked type?  Opaque forms count as mentioning one (a function
   or interface result may hide anything); a named struct type of the two packages mentions what its
   exported fields mention. *)
Fixpoint mentions (names : list (bytes * bytes)) (fuel : nat) (t : texpr) {struct fuel} : bool :=
  match fuel with
  | O => true
  | S fuel' =>
      match t with
      | TName p n =>
          mem_name2 (p, n) names
          || match lookup_type gen_types p n with
             | Some d =>
                 match t_under d with
                 | UStruct fs => existsb (fun f : api_field =>
                                   match f with (_, ex, _, ft) => ex && mentions names fuel' ft end) fs
                 | _ => false
                 end
             | None => false
             end
      | TPtr x | TSlice x | TVariadic x => mentions names fuel' x
      | TMap k v => mentions names fuel' k || mentions names fuel' v
      | TFunc | TInterface | TOther _ => true
      end
  end.

Definition mention_fuel : nat := 5%nat.
Definition mentions_tracked (t : texpr) : bool := mentions tracked_types mention_fuel t.

Definition yields_tracked (f : api_func) : bool := existsb mentions_tracked (f_results f).

Definition is_reviewed (f : api_func) : bool :=
  match lookup_reviewed f with Some _ => true | None => false end.

Definition is_escape_hatch (r : frole) : bool := match r with EscapeHatchFlag => true | _ => false end.

(* role discipline of one reviewed entry *)
Definition role_wellformed (r : reviewed) : bool :=
  match r_role r with
  | SanitizingConstructor p => mem_bytes p covering_properties
  | ConstantGated =>
      forallb (fun x => negb (prole_eqb (snd x) Dynamic)) (r_params r)
      && existsb (fun x => prole_eqb (snd x) TrustedText) (r_params r)
  | Composition => forallb (fun x => negb (prole_eqb (snd x) TrustedText)) (r_params r)
  | TemplateExecution => bytes_eqb (r_recv r) (B "Template")
  | EscapeHatchFlag => true
  end.

Definition func_closed_ok (f : api_func) : bool :=
  negb (yields_tracked f)
  || match lookup_reviewed f with
     | None => false
     | Some r => role_wellformed r
                 && (negb (is_escape_hatch (r_role r)) || finding_D20 (f_pkg f) (f_recv f) (f_name f))
     end.

Definition var_closed_ok (v : api_var) : bool := negb (mentions_tracked (v_type v)).

(* a safe type is a defined, exported struct type none of whose fields is exported *)
Definition safe_type_decl_ok (d : api_type) : bool :=
  negb (mem_name2 (t_pkg d, t_name d) safe_types)
  || (match t_form d with Defined => true | Alias => false end
      && match t_under d with
         | UStruct fs => forallb (fun f : api_field => match f with (_, ex, _, _) => negb ex end) fs
         | _ => false
         end).

(* a carrier type has no exported field except the recorded finding D30 *)
Definition carrier_type_decl_ok (d : api_type) : bool :=
  negb (mem_name2 (t_pkg d, t_name d) carrier_types)
  || match t_under d with
     | UStruct fs => forallb (fun f : api_field =>
                       match f with (n, ex, _, _) => negb ex || finding_D30 (t_pkg d) (t_name d) n end) fs
     | _ => true
     end.

(* nothing hands the client a value of a gate type: no result, variable or exported field mentions it *)
Definition gate_names : list (bytes * bytes) := [(P_safehtml, gate_name); (P_template, gate_name)].
Definition mentions_gate (t : texpr) : bool := mentions gate_names mention_fuel t.
Definition no_gate_leak : bool :=
  forallb (fun f => forallb (fun t => negb (mentions_gate t)) (f_results f)) gen_funcs
  && forallb (fun v => negb (mentions_gate (v_type v))) gen_vars
  && forallb (fun d => match t_under d with
                       | UStruct fs => forallb (fun f : api_field =>
                                         match f with (_, ex, _, ft) => negb ex || negb (mentions_gate ft) end) fs
                       | _ => true
                       end) gen_types.

(* ---- what an exported function or method may not do without review (round 4 of seeded changes) ---- *)
(* a parameter through which the callee can WRITE a trusted value: a pointer (possibly inside slices,
   maps, variadics) to something that mentions a tracked type *)
Fixpoint has_ptr_to (names : list (bytes * bytes)) (fuel : nat) (t : texpr) : bool :=
  match fuel with
  | O => false
  | S f =>
      match t with
      | TPtr u => mentions names f u || has_ptr_to names f u
      | TSlice u | TVariadic u => has_ptr_to names f u
      | TMap k v => has_ptr_to names f k || has_ptr_to names f v
      | _ => false
      end
  end.
Definition param_ptr_tracked_ok (f : api_func) : bool :=
  is_reviewed f || negb (existsb (fun x => has_ptr_to tracked_types mention_fuel (snd x)) (f_params f)).

(* a method with an exported name on an UNEXPORTED type that an exported struct type embeds is promoted:
   it is part of the exported type's method set and needs a review entry like any other method *)
Definition starts_upper (n : bytes) : bool :=
  match n with c :: _ => (65 <=? c) && (c <=? 90) | [] => false end.
Definition embedded_in_exported (p r : bytes) : bool :=
  existsb (fun d => bytes_eqb (t_pkg d) p && t_exported d &&
                    match t_under d with
                    | UStruct fs => existsb (fun fl : api_field => match fl with (n, _, emb, _) => emb && bytes_eqb n r end) fs
                    | _ => false
                    end) gen_types.
Definition promoted_method_ok (f : api_func) : bool :=
  match f_recv f with
  | [] => true
  | r => starts_upper r || negb (embedded_in_exported (f_pkg f) r) || is_reviewed f
  end.
Definition api_surface_extra_check : bool :=
  forallb param_ptr_tracked_ok gen_funcs && forallb promoted_method_ok gen_funcs.

Definition reviewed_wellformed : bool := forallb role_wellformed reviewed_api.

Definition api_closed_world_check : bool :=
  translated_api
  && forallb func_closed_ok gen_funcs
  && forallb var_closed_ok gen_vars
  && forallb safe_type_decl_ok gen_types
  && forallb carrier_type_decl_ok gen_types
  && no_gate_leak.

(* witnesses for the driver *)
Definition unreviewed_funcs : list api_func := filter (fun f => negb (func_closed_ok f)) gen_funcs.
Definition exposed_types : list api_type :=
  filter (fun d => negb (safe_type_decl_ok d && carrier_type_decl_ok d)) gen_types.

(* ---------------------------------------------------------------- the real client configuration *)

(* the types of all values that the two packages hand out *)
Definition lib_value_texprs : list texpr :=
  flat_map f_results gen_funcs
  ++ map v_type gen_vars
  ++ flat_map (fun d => match t_under d with
                        | UStruct fs => flat_map (fun f : api_field =>
                                          match f with (_, ex, _, ft) => if ex then [ft] else [] end) fs
                        | _ => []
                        end) gen_types.
Definition lib_value_types : list gotype := map resolve_t lib_value_texprs.

Definition real_cfg (client : bytes) (generics : bool) : client_cfg :=
  mk_cfg client generics lib_value_types.

Definition lib_values_no_gate : bool :=
  forallb (fun t => negb (identical true t (gate_type P_safehtml)) && negb (identical true t (gate_type P_template)))
          lib_value_types.

(* the gate types resolve to what the generic theorem speaks about *)
Definition gate_resolves : bool :=
  identical true (resolve_t (TName P_safehtml gate_name)) (gate_type P_safehtml)
  && identical true (resolve_t (TName P_template gate_name)) (gate_type P_template)
  && is_string_t (underlying (resolve_t (TName P_safehtml gate_name)))
  && is_string_t (underlying (resolve_t (TName P_template gate_name))).

(* ---------------------------------------------------------------- (iv) conversions *)

(* every declared type of the two packages, as a (package, name) pair *)
Definition declared_names : list (bytes * bytes) := map (fun d => (t_pkg d, t_name d)) gen_types.

(* the value conversion T(u) and the pointer conversion to pointer-to-T of the address of u, for u : U *)
Definition cross_convertible (U T : bytes * bytes) : bool :=
  conv_value (resolve_named U) (resolve_named T)
  || conv_value (GPointer (resolve_named U)) (GPointer (resolve_named T)).

Definition cross_pair_ok (U T : bytes * bytes) : bool :=
  name2_eqb T U || negb (cross_convertible U T) || finding_D15 (T, U).

(* from any declared type of the two packages into a safe type *)
Definition cross_conversion_check : bool :=
  forallb (fun T => forallb (fun U => cross_pair_ok U T) declared_names) safe_types.

Definition cross_witnesses : list ((bytes * bytes) * (bytes * bytes)) :=
  flat_map (fun T => map (fun U => (U, T)) (filter (fun U => negb (cross_pair_ok U T)) declared_names)) safe_types.

(* ---------------------------------------------------------------- (v) second-round clauses
   (a) A parameter the reviewed entry marks Safe carries a value that is already trusted: its type must
       mention a tracked type, or be embed.FS (which only a go:embed directive, i.e. the compiler, can
       fill).  Widening such a parameter to an interface that clients can implement (fs.FS, io.Reader,
       interface{}) opens the constructor to caller-supplied text.
   (b) The safe types are immutable values: none of their exported methods has a pointer receiver
       (a method like UnmarshalText / Scan / Set on *HTML lets a decoder overwrite the contents). *)
Definition compiler_filled_types : list texpr := [TName (B "embed") (B "FS")].

Definition safe_param_type_ok (t : texpr) : bool :=
  mentions_tracked t || existsb (texpr_eqb (param_elem t)) compiler_filled_types.

Definition param_safe_ok (f : api_func) (r : reviewed) (x : bytes * texpr) : bool :=
  match param_role r (fst x) with
  | Some Safe => safe_param_type_ok (snd x)
  | _ => true
  end.

Definition func_safe_params_ok (f : api_func) : bool :=
  match lookup_reviewed f with
  | None => true
  | Some r => forallb (param_safe_ok f r) (f_params f)
  end.

Definition func_not_mutator_ok (f : api_func) : bool :=
  negb (f_recv_ptr f && mem_name2 (f_pkg f, f_recv f) safe_types).

Definition api_second_round_check : bool :=
  forallb func_safe_params_ok gen_funcs && forallb func_not_mutator_ok gen_funcs.
