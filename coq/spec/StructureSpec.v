(* C01 specification: "template markup structure is never altered by untrusted data".

   The oracle predicates are boolean functions over the BYTES THE IMPLEMENTATION WROTE, judged by the
   WHATWG tokenizer specification (spec/HtmlTok.v); they are written from the property text:

     same_structure o o'   the structure tokens (tag kind, tag name, attribute NAMES, comments, DOCTYPE)
                           and the final tokenizer state of the two outputs are equal: skel o = skel o'
                           (o = the template rendered with inert placeholder values, o' = the same control
                           path rendered with hostile values);
     no_comments o         the tokenizer finds no comment token in the output;
     ends_in_data o        the tokenizer is back in the data state at the end of the output.  NOT a
                           clause of the verdict: the property asks for "the same state as the author's
                           own markup" (that is the final-state component of skel), and an author may
                           end a fragment inside PLAINTEXT or an unclosed element; kept as a statistic;
     placement_ok o spans  every byte of every span (offset, length) of the output - the places where
                           untrusted marker data landed - was consumed by the tokenizer as the content
                           of a text node (data state, RCDATA, raw text, script data, PLAINTEXT) or as a
                           byte of a QUOTED attribute value; never as a tag name, an attribute name, an
                           unquoted value, tag punctuation, a comment or a DOCTYPE.  (Whether data may
                           stand in a script or style body at all is property C02, not this one.)

   Plus the side condition on the regenerated policy used by the action-inertness theorem
   (content_sanitizers_ok), and the classifiers of the recorded findings D1 and D13 (second part of
   the file; those look at the template, not at the output).  Definitions only. *)
From V Require Import lib.Base gen.GenPolicy gen.GenTemplate spec.HtmlTok spec.HtmlSpec.
From V Require Import model.GoStrings model.TContext model.TSanitize model.TSanitizers model.TTree
     model.TEscapeText model.TEscaper.
Local Open Scope N_scope.

(* ------------------------------------------------------------------ decidable equality of skeletons *)

Definition stoken_eqb (a b : stoken) : bool :=
  match a, b with
  | KStart n an sc, KStart n' an' sc' => bytes_eqb n n' && list_eqb bytes_eqb an an' && Bool.eqb sc sc'
  | KEnd n, KEnd n' => bytes_eqb n n'
  | KComment d, KComment d' => bytes_eqb d d'
  | KDoctype n, KDoctype n' => bytes_eqb n n'
  | _, _ => false
  end.

Definition skel_eqb (a b : list stoken * hstate) : bool :=
  list_eqb stoken_eqb (fst a) (fst b) && hstate_eqb (snd a) (snd b).

(* ------------------------------------------------------------------ the oracle *)

Definition same_structure (o o' : bytes) : bool := skel_eqb (skel o) (skel o').

Definition no_comments (o : bytes) : bool := no_comment_tokens o.

Definition ends_in_data (o : bytes) : bool := hstate_eqb (snd (skel o)) SData.

(* the position classes in which untrusted data may be consumed *)
Definition class_ok (c : posclass) : bool :=
  match c with
  | PText => true
  | PRcdata _ => true
  | PRawtext _ => true
  | PScript => true
  | PPlaintext => true
  | PAttrValue _ _ Qdq => true
  | PAttrValue _ _ Qsq => true
  | _ => false
  end.

Definition span_ok (cls : list posclass) (sp : nat * nat) : bool :=
  let (off, len) := sp in
  Nat.leb (off + len) (length cls) && forallb class_ok (firstn len (skipn off cls)).

Definition placement_ok (o : bytes) (spans : list (nat * nat)) : bool :=
  let cls := r_classes (html_tokenize SData o) in
  forallb (span_ok cls) spans.

(* the whole verdict on a pair of executed outputs; None = holds, Some clause = the clause that fails *)
Definition c01_pair_verdict (o o' : bytes) : option bytes :=
  if negb (no_comments o) then Some (B "comment_token_in_output")
  else if negb (no_comments o') then Some (B "comment_token_in_output_with_hostile_data")
  else if negb (same_structure o o') then Some (B "structure_changed_by_data")
  else None.

(* the author's own markup: the template text with every action replaced by the inert placeholder
   (computed by the harness for templates without control structures).  The engine elides the
   comments the author wrote, so they are dropped from the author's side *)
Definition drop_comments (l : list stoken) : list stoken :=
  filter (fun k => match k with KComment _ => false | _ => true end) l.
Definition same_structure_as_author (author o : bytes) : bool :=
  list_eqb stoken_eqb (drop_comments (fst (skel author))) (fst (skel o)) && hstate_eqb (snd (skel author)) (snd (skel o)).

(* the elements whose body the engine keeps as text (special elements) must be elements whose body
   EVERY HTML tokenizer reads as text, with scripting enabled or not: noscript is not one of them
   (its body is markup for a user agent without scripting) *)
Definition text_body_elements : list bytes :=
  [B "script"; B "style"; B "textarea"; B "title"; B "xmp"; B "iframe"; B "noembed"; B "noframes"; B "plaintext"].
Definition special_elements_ok : bool :=
  forallb (fun e => mem_bytes e text_body_elements) GenTemplate.T_specialElements.

(* ------------------------------------------------------------------ untrusted values *)

(* a value that does not carry a safehtml type (through any pointer depth) *)
Definition untrusted (v : value) : bool :=
  match indirect v with VSafe _ _ => false | _ => true end.

(* ------------------------------------------------------------------ side condition on the policy *)

(* the sanitizers the engine may pick for element content: the two HTML escapers, and the two that
   accept only their own safe type *)
Definition content_sanitizer_names : list bytes :=
  [ B "_sanitizeHTML"; B "_sanitizeRCDATA"; B "_sanitizeScript"; B "_sanitizeStyleSheet" ].

Definition content_name_ok (n : bytes) : bool := mem_bytes n content_sanitizer_names.

(* every sanitization context occurring in elementContentSanitizationContext, and the context used for
   text outside every element (HTML), names one of them *)
Definition content_sanitizers_ok : bool :=
  content_name_ok (sc_sanitizer_name SC_HTML) &&
  forallb (fun kv : bytes * N => content_name_ok (sc_sanitizer_name (snd kv))) P_elementContent.

(* ================================================================== finding classifiers
   A classifier looks only at the TEMPLATE (never at the data or at the output) and is deliberately
   narrow: a failing case that no classifier accepts is a violation. *)

(* ---- D13: the static text contains the opening of an HTML comment inside a script element body:
   per WHATWG the tokenizer is then in the script data escaped states, where a nested script start tag
   makes the next script end tag NOT close the element; the engine does not track this. *)

Definition lower_byte (b : N) : N := if (65 <=? b) && (b <=? 90) then b + 32 else b.

(* prefix test, ASCII case-insensitive on the subject *)
Fixpoint prefix_ci (p s : bytes) : bool :=
  match p, s with
  | [], _ => true
  | x :: p', y :: s' => (x =? lower_byte y) && prefix_ci p' s'
  | _ :: _, [] => false
  end.

(* in_script = we are after a script start tag opener and before the next script end tag opener *)
Fixpoint d13_scan (in_script : bool) (s : bytes) : bool :=
  match s with
  | [] => false
  | _ :: t =>
      if in_script then
        if prefix_ci (B "<!--") s then true
        else if prefix_ci (B "</script") s then d13_scan false t
        else d13_scan true t
      else if prefix_ci (B "<script") s then d13_scan true t
      else d13_scan false t
  end.

Definition finding_D13 (template_text : bytes) : bool := d13_scan false template_text.

(* ---- D41: the static text opens one of the raw-text / PLAINTEXT elements that the engine does not
   model (it treats xmp, iframe, noembed, noframes, noscript and plaintext as ordinary elements): the
   template may end inside such an element, and data may be placed inside one. *)

Fixpoint contains_ci (p s : bytes) : bool :=
  match s with
  | [] => match p with [] => true | _ => false end
  | _ :: t => prefix_ci p s || contains_ci p t
  end.

(* the reading of a user agent WITHOUT scripting: noscript is an ordinary element there and its body is markup
   (the tokenizer of spec/HtmlTok.v reads it with scripting enabled, as raw text).  The same output with every
   noscript start / end tag renamed to an element name no tokenizer knows, byte for byte of the same length, so that
   marker spans stay where they are *)
Fixpoint without_scripting_aux (k : nat) (s : bytes) : bytes :=
  match s with
  | [] => []
  | c :: t =>
      let c' := if Nat.eqb k 1 then 49 else c in
      let k' := if (c =? 60) && prefix_ci (B "noscript") t then 6%nat
                else if (c =? 60) && prefix_ci (B "/noscript") t then 7%nat
                else Nat.pred k in
      c' :: without_scripting_aux k' t
  end.
Definition without_scripting (s : bytes) : bytes := without_scripting_aux 0 s.
Definition placement_ok_without_scripting (o : bytes) (spans : list (nat * nat)) : bool :=
  placement_ok (without_scripting o) spans.

Definition untracked_rawtext_names : list bytes :=
  [ B "xmp"; B "iframe"; B "noembed"; B "noframes"; B "noscript"; B "plaintext" ].

Definition finding_D41 (template_text : bytes) : bool :=
  existsb (fun n => contains_ci (60 :: n) template_text) untracked_rawtext_names.

(* ---- D42: the static text contains a DOCTYPE declaration, which the engine passes through as text
   without tracking it: the template may end inside the declaration and data may be placed inside it
   (where it can change the DOCTYPE name, and nothing else). *)

Definition finding_D42 (template_text : bytes) : bool := contains_ci (B "<!doctype") template_text.

(* equality of skeletons up to the names of DOCTYPE tokens *)
Definition stoken_eqb_mod_doctype (a b : stoken) : bool :=
  match a, b with
  | KDoctype _, KDoctype _ => true
  | _, _ => stoken_eqb a b
  end.

Definition same_structure_mod_doctype (o o' : bytes) : bool :=
  list_eqb stoken_eqb_mod_doctype (fst (skel o)) (fst (skel o')) && hstate_eqb (snd (skel o)) (snd (skel o')).

(* ---- D43: a text node of the template ends inside a tag name (the tokenizer, started in the data
   state at the beginning of the node, is in the tag name state at its end).  The engine considers the
   tag name finished at the end of the text node; what the following action, branch or template call
   writes continues the tag name in the output. *)

Fixpoint texts_of_node (fuel : nat) (n : node) : list bytes :=
  match fuel with
  | O => []
  | S f =>
      match n with
      | NText _ s => [s]
      | NIf _ _ body els | NRange _ _ body els | NWith _ _ body els =>
          flat_map (texts_of_node f) body ++ flat_map (texts_of_node f) els
      | _ => []
      end
  end.

Definition ends_in_tag_name (s : bytes) : bool :=
  hstate_eqb (t_state (tok_run (tok_init SData) s)) STagName.

Definition finding_D43 (trees : list (bytes * tree)) : bool :=
  existsb (fun nt => existsb ends_in_tag_name (flat_map (texts_of_node 64) (snd nt))) trees.

(* ---- D44: the end tag of a special element written INSIDE that element's start tag (a missing
   closing bracket):  <script x=[dq]y[dq]</script>  .  The engine looks for the special end tag in every
   delimiter-less state, not only in the element body, and returns to the text context; for the
   tokenizer the end tag opener is an attribute name, the bracket ends the START tag and the element
   body begins.  Classifier: the tokenizer finds, in the template text, a start tag of a special
   element with an attribute whose name contains a less-than sign (the solidus that follows ends
   that attribute name). *)

Definition special_names : list bytes := [B "script"; B "style"; B "textarea"; B "title"].

Definition finding_D44 (template_text : bytes) : bool :=
  existsb (fun k => match k with
                    | StartTag n attrs _ =>
                        mem_bytes n special_names && existsb (fun av : bytes * bytes => mem_N 60 (fst av)) attrs
                    | _ => false
                    end)
          (r_tokens (html_tokenize SData template_text)).

(* ---- D45: the engine ends a tag name at the first byte that is not an ASCII letter or digit (or an
   inner colon / hyphen); the tokenizer ends it at white space, a solidus or the closing bracket only.
   <style[NBSP] ...> is the special element style for the engine and an unknown element for the
   tokenizer, so what the engine keeps as style sheet text (a comment opener, say) is markup. *)
Definition name_byte (c : N) : bool :=
  ((48 <=? c) && (c <=? 57)) || ((65 <=? c) && (c <=? 90)) || ((97 <=? c) && (c <=? 122)).
Definition tok_name_end (c : N) : bool :=
  (c =? 9) || (c =? 10) || (c =? 12) || (c =? 13) || (c =? 32) || (c =? 47) || (c =? 62).

Definition special_name_runs_on (s : bytes) : bool :=
  existsb (fun nm =>
             prefix_ci (60 :: nm) s &&
             match skipn (S (length nm)) s with
             | c :: _ => negb (name_byte c) && negb (tok_name_end c) && negb (c =? 58) && negb (c =? 45)
                          && negb (c =? 123)   (* an action right after the name is D43's shape *)
             | [] => false
             end) special_names.

Fixpoint finding_D45 (template_text : bytes) : bool :=
  match template_text with
  | [] => false
  | _ :: t => special_name_runs_on template_text || finding_D45 t
  end.

(* ---- D1: a defined template that is the target of at least two template calls and whose body
   changes the context (a context-opening or context-closing helper): the engine memoises the
   callee's INPUT context as its output context, so the second call site continues in the wrong
   context. *)

Fixpoint count_calls_node (fuel : nat) (name : bytes) (n : node) : nat :=
  match fuel with
  | O => O
  | S f =>
      let sum := fun l => fold_left (fun acc x => (acc + count_calls_node f name x)%nat) l O in
      match n with
      | NTemplate _ callee _ => if bytes_eqb callee name then 1%nat else O
      | NIf _ _ body els | NRange _ _ body els | NWith _ _ body els => (sum body + sum els)%nat
      | _ => O
      end
  end.

Definition count_calls (name : bytes) (trees : list (bytes * tree)) : nat :=
  fold_left (fun acc nt => fold_left (fun a x => (a + count_calls_node 64 name x)%nat) (snd nt) acc) trees O.

(* representative start contexts of a call site: text, inside a tag, inside quoted attribute values,
   the bodies of the special elements, a comment *)
Definition d1_start_texts : list bytes :=
  [ []; B "<b "; B "<b title=" ++ [34]; B "<b title='"; B "<a href=" ++ [34]; B "<script>"; B "<style>";
    B "<title>"; B "<textarea>"; B "<!--" ].

Definition ctx_after (s : bytes) : context :=
  match escape_text false ctx0 s with EOk c _ _ => c | EPanic => ctx_error ErrBadHTML end.

Definition ns_of_trees (trees : list (bytes * tree)) : nsview :=
  mkns (map (fun nt => (fst nt, Some (snd nt))) trees) (map fst trees) false.

(* the model's analysis of the body from start context c ends in a different, non-error context *)
Definition body_changes_context (trees : list (bytes * tree)) (name : bytes) (body : tree) (c : context) : bool :=
  match c_state c with
  | StError => false
  | _ =>
      match escape_list (ns_of_trees trees) 200 name c body esc_empty with
      | AOk (c1, _) =>
          match c_state c1 with
          | StError => false
          | _ => negb (ctx_eq c c1)
          end
      | APanic _ => false
      end
  end.

Definition finding_D1 (trees : list (bytes * tree)) : bool :=
  existsb (fun nt =>
             Nat.leb 2 (count_calls (fst nt) trees) &&
             existsb (fun s => body_changes_context trees (fst nt) (snd nt) (ctx_after s)) d1_start_texts)
          trees.

(* ================================================================== the whole-template statement
   A small execution semantics over the ANALYSED template set, enough to state the property for whole
   templates (it is not proved; the oracle decides it on real outputs).

   The engine's analysis (model/TEscaper.v) of template `name` from the start context yields an
   escaper e: per action node the sanitizer chain (e_action_edits), per text node the rewritten text
   (e_text_edits), per template node the derived callee (e_template_edits, e_derived).  A CONTROL PATH
   through the rewritten tree - a choice of branch for every if / with, of an iteration count for every
   range, following template calls - flattens into a list of segments: static text, or an action with
   its chain.  The segments do not depend on the data; executing the path writes the static texts and,
   for every action, the chain applied to the value its pipeline evaluated to. *)

Inductive seg := SegStatic (s : bytes) | SegAct (chain : list bytes).

Fixpoint ekey_lookup {A} (k : ekey) (l : list (ekey * A)) : option A :=
  match l with
  | [] => None
  | (k', v) :: t => if ekey_eqb k k' then Some v else ekey_lookup k t
  end.

Section ControlPaths.
  Variable ns : nsview.
  Variable e : escaper.

  (* tname = the (possibly derived) template whose tree holds the node *)
  Inductive path_node : bytes -> node -> list seg -> Prop :=
  | CPText tn id s :
      path_node tn (NText id s)
                [SegStatic (match ekey_lookup (tn, id) (e_text_edits e) with Some s' => s' | None => s end)]
  | CPActionDecl tn id p : p_decls p <> [] -> path_node tn (NAction id p) []
  | CPAction tn id p chain :
      p_decls p = [] -> ekey_lookup (tn, id) (e_action_edits e) = Some chain ->
      path_node tn (NAction id p) [SegAct chain]
  | CPComment tn id : path_node tn (NComment id) []
  | CPIfThen tn id p b el s : path_list tn b s -> path_node tn (NIf id p b el) s
  | CPIfElse tn id p b el s : path_list tn el s -> path_node tn (NIf id p b el) s
  | CPWithThen tn id p b el s : path_list tn b s -> path_node tn (NWith id p b el) s
  | CPWithElse tn id p b el s : path_list tn el s -> path_node tn (NWith id p b el) s
  | CPRangeElse tn id p b el s : path_list tn el s -> path_node tn (NRange id p b el) s
  | CPRangeIter tn id p b el iters :
      iters <> [] -> Forall (path_list tn b) iters -> path_node tn (NRange id p b el) (concat iters)
  | CPTemplate tn id name p root s :
      let dname := match ekey_lookup (tn, id) (e_template_edits e) with Some d => d | None => name end in
      find_template ns e dname = Some (Some root) ->
      path_list dname root s -> path_node tn (NTemplate id name p) s
  with path_list : bytes -> list node -> list seg -> Prop :=
  | CPNil tn : path_list tn [] []
  | CPCons tn n l s1 s2 : path_node tn n s1 -> path_list tn l s2 -> path_list tn (n :: l) (s1 ++ s2).
End ControlPaths.

(* executing a path: one value per action, in order; None = a sanitizer returned an error (or the
   number of values does not fit) *)
Fixpoint run_path (segs : list seg) (vs : list value) : option bytes :=
  match segs with
  | [] => match vs with [] => Some [] | _ => None end
  | SegStatic s :: rest => match run_path rest vs with Some o => Some (s ++ o) | None => None end
  | SegAct chain :: rest =>
      match vs with
      | [] => None
      | v :: vs' =>
          match apply_chain chain v, run_path rest vs' with
          | Some a, Some o => Some (a ++ o)
          | _, _ => None
          end
      end
  end.

(* control-equivalent value lists: position by position either both values are untrusted, or they are
   the same (safe-typed leaves are identical) *)
Definition ctl_equiv (vs vs' : list value) : Prop :=
  Forall2 (fun v v' => (untrusted v = true /\ untrusted v' = true) \/ v = v') vs vs'.

(* the engine accepts template `name` of the set: the analysis from the start context ends in the
   text context without error; e is the resulting escaper *)
Definition accepted (trees : list (bytes * tree)) (name : bytes) (e : escaper) : Prop :=
  exists c dname,
    escape_tree (ns_of_trees trees) 400 ctx0 name esc_empty = AOk (c, dname, e) /\
    c_state c = StText /\ c_err c = None.

(* ================================================================== alignment of engine context and tokenizer state
   A first step of the static-text simulation (layer 2 of the DESIGN), as a kernel-evaluated check over
   the finite name sets of the policy tables: after the static text  <E A=q  (q a double or a single
   quote) the engine is in the attribute value context of attribute A of element E with that
   delimiter, and the tokenizer specification is in the matching quoted attribute value state, building
   a START tag named E whose current attribute is named A. *)

Definition open_attr_text (q : N) (e a : bytes) : bytes := [60] ++ e ++ [32] ++ a ++ [61; q].

Definition align_open_attr (q : N) (e a : bytes) : bool :=
  match escape_text false ctx0 (open_attr_text q e a) with
  | EOk c _ _ =>
      state_eqb (c_state c) StAttr
      && delim_eqb (c_delim c) (if q =? 34 then DDoubleQuote else DSingleQuote)
      && bytes_eqb (c_elem c) e && bytes_eqb (c_attr c) a
  | EPanic => false
  end &&
  let t := r_end (html_tokenize SData (open_attr_text q e a)) in
  hstate_eqb (t_state t) (if q =? 34 then SAttrValueDQ else SAttrValueSQ) && negb (g_is_end (t_tag t))
  && bytes_eqb (g_name (t_tag t)) e && bytes_eqb (g_aname (t_tag t)) a.

Definition policy_elems : list bytes := map fst P_elementContent ++ P_allowedVoid.
Definition policy_attrs : list bytes :=
  map fst P_globalAttr ++ map (fun x : bytes * bytes * N => fst (fst x)) P_elementSpecific.

Definition align_policy_ok : bool :=
  forallb (fun q => forallb (fun e => forallb (fun a => align_open_attr q e a) policy_attrs) policy_elems) [34; 39].
