(* C01 specification: "template markup structure is never altered by untrusted data".

   The oracle predicates are boolean functions over the BYTES THE IMPLEMENTATION WROTE, judged by the
   WHATWG tokenizer specification (spec/HtmlTok.v); they are written from the property text:

     same_structure o o'   the structure tokens (tag kind, tag name, attribute NAMES, comments, DOCTYPE)
                           and the final tokenizer state of the two outputs are equal: skel o = skel o'
                           (o = the template rendered with inert placeholder values, o' = the same control
                           path rendered with hostile values);
     no_comments o         the tokenizer finds no comment token in the output;
     ends_in_data o        the tokenizer is back in the data state at the end of the output: the fragment
                           is not left inside a tag, attribute, comment, RCDATA / raw-text / script element;
     placement_ok o spans  every byte of every span (offset, length) of the output - the places where
                           untrusted marker data landed - was consumed by the tokenizer as text (data
                           state), RCDATA text or as a byte of a QUOTED attribute value.

   Plus the side condition on the regenerated policy used by the action-inertness theorem
   (content_sanitizers_ok), and the classifiers of the recorded findings D1 and D13 (second part of
   the file; those look at the template, not at the output).  Definitions only. *)
From V Require Import lib.Base gen.GenPolicy spec.HtmlTok spec.HtmlSpec.
From V Require Import model.GoStrings model.TContext model.TSanitize model.TSanitizers model.TTree
     model.TEscapeText model.TEscaper.
Local Open Scope N_scope.

(* ------------------------------------------------------------------ decidable equality of skeletons *)

Definition stoken_eqb (a b : stoken) : bool :=
  match a, b with
  | KStart n an sc, KStart n' an' sc' => bytes_eqb n n' && list_eqb bytes_eqb an an' && Bool.eqb sc sc'
  | KEnd n, KEnd n' => bytes_eqb n n'
  | KComment d, KComment d' => bytes_eqb d d'
  | KDoctype n, KDoctype n' => bytes_eqb n n'
  | _, _ => false
  end.

Definition skel_eqb (a b : list stoken * hstate) : bool :=
  list_eqb stoken_eqb (fst a) (fst b) && hstate_eqb (snd a) (snd b).

(* ------------------------------------------------------------------ the oracle *)

Definition same_structure (o o' : bytes) : bool := skel_eqb (skel o) (skel o').

Definition no_comments (o : bytes) : bool := no_comment_tokens o.

Definition ends_in_data (o : bytes) : bool := hstate_eqb (snd (skel o)) SData.

(* the position classes in which untrusted data may be consumed *)
Definition class_ok (c : posclass) : bool :=
  match c with
  | PText => true
  | PRcdata _ => true
  | PAttrValue _ _ Qdq => true
  | PAttrValue _ _ Qsq => true
  | _ => false
  end.

Definition span_ok (cls : list posclass) (sp : nat * nat) : bool :=
  let (off, len) := sp in
  Nat.leb (off + len) (length cls) && forallb class_ok (firstn len (skipn off cls)).

Definition placement_ok (o : bytes) (spans : list (nat * nat)) : bool :=
  let cls := r_classes (html_tokenize SData o) in
  forallb (span_ok cls) spans.

(* the whole verdict on a pair of executed outputs; None = holds, Some clause = the clause that fails *)
Definition c01_pair_verdict (o o' : bytes) : option bytes :=
  if negb (no_comments o) then Some (B "comment_token_in_output")
  else if negb (no_comments o') then Some (B "comment_token_in_output_with_hostile_data")
  else if negb (same_structure o o') then Some (B "structure_changed_by_data")
  else if negb (ends_in_data o) then Some (B "output_does_not_end_in_data_state")
  else if negb (ends_in_data o') then Some (B "output_with_hostile_data_does_not_end_in_data_state")
  else None.

(* ------------------------------------------------------------------ untrusted values *)

(* a value that does not carry a safehtml type (through any pointer depth) *)
Definition untrusted (v : value) : bool :=
  match indirect v with VSafe _ _ => false | _ => true end.

(* ------------------------------------------------------------------ side condition on the policy *)

(* the sanitizers the engine may pick for element content: the two HTML escapers, and the two that
   accept only their own safe type *)
Definition content_sanitizer_names : list bytes :=
  [ B "_sanitizeHTML"; B "_sanitizeRCDATA"; B "_sanitizeScript"; B "_sanitizeStyleSheet" ].

Definition content_name_ok (n : bytes) : bool := mem_bytes n content_sanitizer_names.

(* every sanitization context occurring in elementContentSanitizationContext, and the context used for
   text outside every element (HTML), names one of them *)
Definition content_sanitizers_ok : bool :=
  content_name_ok (sc_sanitizer_name SC_HTML) &&
  forallb (fun kv : bytes * N => content_name_ok (sc_sanitizer_name (snd kv))) P_elementContent.

(* ================================================================== finding classifiers
   A classifier looks only at the TEMPLATE (never at the data or at the output) and is deliberately
   narrow: a failing case that no classifier accepts is a violation. *)

(* ---- D13: the static text contains the opening of an HTML comment inside a script element body:
   per WHATWG the tokenizer is then in the script data escaped states, where a nested script start tag
   makes the next script end tag NOT close the element; the engine does not track this. *)

Definition lower_byte (b : N) : N := if (65 <=? b) && (b <=? 90) then b + 32 else b.

(* prefix test, ASCII case-insensitive on the subject *)
Fixpoint prefix_ci (p s : bytes) : bool :=
  match p, s with
  | [], _ => true
  | x :: p', y :: s' => (x =? lower_byte y) && prefix_ci p' s'
  | _ :: _, [] => false
  end.

(* in_script = we are after a script start tag opener and before the next script end tag opener *)
Fixpoint d13_scan (in_script : bool) (s : bytes) : bool :=
  match s with
  | [] => false
  | _ :: t =>
      if in_script then
        if prefix_ci (B "<!--") s then true
        else if prefix_ci (B "</script") s then d13_scan false t
        else d13_scan true t
      else if prefix_ci (B "<script") s then d13_scan true t
      else d13_scan false t
  end.

Definition finding_D13 (template_text : bytes) : bool := d13_scan false template_text.

(* ---- D41: the static text opens one of the raw-text / PLAINTEXT elements that the engine does not
   model (it treats xmp, iframe, noembed, noframes, noscript and plaintext as ordinary elements): the
   template may end inside such an element, and data may be placed inside one. *)

Fixpoint contains_ci (p s : bytes) : bool :=
  match s with
  | [] => match p with [] => true | _ => false end
  | _ :: t => prefix_ci p s || contains_ci p t
  end.

Definition untracked_rawtext_names : list bytes :=
  [ B "xmp"; B "iframe"; B "noembed"; B "noframes"; B "noscript"; B "plaintext" ].

Definition finding_D41 (template_text : bytes) : bool :=
  existsb (fun n => contains_ci (60 :: n) template_text) untracked_rawtext_names.

(* ---- D42: the static text contains a DOCTYPE declaration, which the engine passes through as text
   without tracking it: the template may end inside the declaration and data may be placed inside it
   (where it can change the DOCTYPE name, and nothing else). *)

Definition finding_D42 (template_text : bytes) : bool := contains_ci (B "<!doctype") template_text.

(* equality of skeletons up to the names of DOCTYPE tokens *)
Definition stoken_eqb_mod_doctype (a b : stoken) : bool :=
  match a, b with
  | KDoctype _, KDoctype _ => true
  | _, _ => stoken_eqb a b
  end.

Definition same_structure_mod_doctype (o o' : bytes) : bool :=
  list_eqb stoken_eqb_mod_doctype (fst (skel o)) (fst (skel o')) && hstate_eqb (snd (skel o)) (snd (skel o')).

(* ---- D1: a defined template that is the target of at least two template calls and whose body
   changes the context (a context-opening or context-closing helper): the engine memoises the
   callee's INPUT context as its output context, so the second call site continues in the wrong
   context. *)

Fixpoint count_calls_node (fuel : nat) (name : bytes) (n : node) : nat :=
  match fuel with
  | O => O
  | S f =>
      let sum := fun l => fold_left (fun acc x => (acc + count_calls_node f name x)%nat) l O in
      match n with
      | NTemplate _ callee _ => if bytes_eqb callee name then 1%nat else O
      | NIf _ _ body els | NRange _ _ body els | NWith _ _ body els => (sum body + sum els)%nat
      | _ => O
      end
  end.

Definition count_calls (name : bytes) (trees : list (bytes * tree)) : nat :=
  fold_left (fun acc nt => fold_left (fun a x => (a + count_calls_node 64 name x)%nat) (snd nt) acc) trees O.

(* representative start contexts of a call site: text, inside a tag, inside quoted attribute values,
   the bodies of the special elements, a comment *)
Definition d1_start_texts : list bytes :=
  [ []; B "<b "; B "<b title=" ++ [34]; B "<b title='"; B "<a href=" ++ [34]; B "<script>"; B "<style>";
    B "<title>"; B "<textarea>"; B "<!--" ].

Definition ctx_after (s : bytes) : context :=
  match escape_text false ctx0 s with EOk c _ _ => c | EPanic => ctx_error ErrBadHTML end.

Definition ns_of_trees (trees : list (bytes * tree)) : nsview :=
  mkns (map (fun nt => (fst nt, Some (snd nt))) trees) (map fst trees) false.

(* the model's analysis of the body from start context c ends in a different, non-error context *)
Definition body_changes_context (trees : list (bytes * tree)) (name : bytes) (body : tree) (c : context) : bool :=
  match c_state c with
  | StError => false
  | _ =>
      match escape_list (ns_of_trees trees) 200 name c body esc_empty with
      | AOk (c1, _) =>
          match c_state c1 with
          | StError => false
          | _ => negb (ctx_eq c c1)
          end
      | APanic _ => false
      end
  end.

Definition finding_D1 (trees : list (bytes * tree)) : bool :=
  existsb (fun nt =>
             Nat.leb 2 (count_calls (fst nt) trees) &&
             existsb (fun s => body_changes_context trees (fst nt) (snd nt) (ctx_after s)) d1_start_texts)
          trees.
