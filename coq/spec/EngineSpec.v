(* Shared vocabulary for the history properties C05-C07 over model/Engine.v. *)
From V Require Import lib.Base model.TContext model.TTree model.TEscaper model.Engine.
Local Open Scope N_scope.

Definition is_exec_op (o : op) : bool :=
  match o with OExecute _ | OExecuteTemplate _ _ => true | _ => false end.

(* an exec op that wrote nothing and returned an error of the analysis *)
Definition is_analysis_error (r : rclass) : bool := match r with RErrEscape _ => true | _ => false end.

(* the committed tree of a name in the text association of a handle's set *)
Definition tree_of (w : world) (h : nat) (name : bytes) : option (option tree) :=
  match handle w h with
  | Some obj =>
      let cid := x_common (get_text w (h_text (get_tmpl w obj))) in
      match assoc_get name (get_common w cid) with
      | Some tid => Some (x_tree (get_text w tid))
      | None => None
      end
  | None => None
  end.

Definition last_result (ops : list op) : option rclass := last (map Some (snd (run ops))) None.

(* small pipes used by the witnesses *)
Definition dot_pipe : pipe := mkpipe [] [[ADot]].
Definition field_pipe (f : bytes) : pipe := mkpipe [] [[AField [f]]].
