(* C02 specification: which positions of an HTML document are code contexts, which attributes hold
   URLs that load code or styles, which hold URLs at all, and the three oracle predicates that the
   check driver evaluates on the IMPLEMENTATION's real output.

   Written from the property text and the HTML standard -- never from the engine's policy tables:
     - 4.12.1 the script element, 4.2.6 the style element (element bodies are code / style sheets),
       13.2.5 tokenization (position classes of spec/HtmlTok.v), 13.6 comments;
     - 8.1.8 event handler content attributes: their names all start with the two letters o n; the
       specification below takes EVERY attribute whose (lower-cased) name starts with them, a superset;
     - 3.2.6.5 the style attribute, 4.8.5 iframe srcdoc;
     - code-loading URLs, exactly the list of the property: script / iframe / frame / embed src, object
       data, base href, and link href when the rel attribute -- split on ASCII whitespace, compared
       ASCII-case-insensitively (2.3.7 space-separated tokens, 4.6.7 link types) -- contains the
       keyword stylesheet.  Other link types that fetch code in some browsers (import, modulepreload,
       preload as=script ...) are NOT in the property's list and are deliberately left out here;
     - URL-valued attributes: the property's list (href, src, action, formaction, srcset candidates)
       and the remaining attributes that the HTML standard (and its obsolete-features section)
       defines as valid URLs: poster, cite, data, background, ping, manifest, longdesc, codebase,
       xlink:href.  Matched by attribute name on any element (a superset, the safe direction).
   The browser side of a URL is spec/WhatwgUrl.v (scheme the URL parser finds) and spec/Srcset.v
   (image candidates); character references of an attribute value are decoded both with the model of
   Go's html.UnescapeString (validated separately, C10) and with the attribute-mode decoder written
   from the standard in spec/WhatwgUrl.v.  Definitions only. *)
From V Require Import lib.Base lib.Utf8 model.HtmlUnescape spec.HtmlTok spec.WhatwgUrl spec.Srcset.
Local Open Scope N_scope.

(* ------------------------------------------------------------------ names *)
Definition cc_mem (x : bytes) (l : list bytes) : bool := existsb (bytes_eqb x) l.

(* ASCII lower-casing and ASCII whitespace of the Infra standard *)
Definition cc_lower (c : N) : N := if (65 <=? c) && (c <=? 90) then c + 32 else c.
Definition cc_ws (c : N) : bool := (c =? 9) || (c =? 10) || (c =? 12) || (c =? 13) || (c =? 32).

(* split on ASCII whitespace; cur is the current token, reversed *)
Fixpoint cc_split_aux (cur : bytes) (s : bytes) : list bytes :=
  match s with
  | [] => match cur with [] => [] | _ => [rev cur] end
  | c :: t =>
      if cc_ws c then match cur with [] => cc_split_aux [] t | _ => rev cur :: cc_split_aux [] t end
      else cc_split_aux (c :: cur) t
  end.
Definition cc_tokens (s : bytes) : list bytes := map (map cc_lower) (cc_split_aux [] s).

(* the rel attribute (character references already decoded) makes the link a style sheet *)
Definition rel_is_stylesheet (rel : bytes) : bool := cc_mem (B "stylesheet") (cc_tokens rel).

(* ------------------------------------------------------------------ code positions *)
(* attribute names are lower-case in tokens (the tokenizer lower-cases them) *)
Definition handler_name (a : bytes) : bool := prefixb (B "on") a.
Definition code_attr (a : bytes) : bool :=
  handler_name a || bytes_eqb a (B "style") || bytes_eqb a (B "srcdoc").

Definition code_position (p : posclass) : bool :=
  match p with
  | PScript => true
  | PRawtext n => bytes_eqb n (B "style")
  | PComment => true
  | PAttrValue _ a _ => code_attr a
  | _ => false
  end.

Definition code_loading_url_attr (e a rel : bytes) : bool :=
  (bytes_eqb a (B "src") && cc_mem e [B "script"; B "iframe"; B "frame"; B "embed"])
  || (bytes_eqb e (B "object") && bytes_eqb a (B "data"))
  || (bytes_eqb e (B "base") && bytes_eqb a (B "href"))
  || (bytes_eqb e (B "link") && bytes_eqb a (B "href") && rel_is_stylesheet rel).

(* the attributes named by the property, and the other URL-valued attributes of HTML *)
Definition property_url_attrs : list bytes := [B "href"; B "src"; B "action"; B "formaction"].
Definition other_url_attrs : list bytes :=
  [B "poster"; B "cite"; B "data"; B "background"; B "ping"; B "manifest"; B "longdesc"; B "codebase";
   B "xlink:href"].
(* the javascript-scheme clause is judged on exactly the attributes the property names; the other
   URL-valued attributes of HTML are listed for reference only (the engine either refuses actions in
   them or treats them as plain text: poster, cite) *)
Definition url_attr (a : bytes) : bool := cc_mem a property_url_attrs.
Definition srcset_attr (a : bytes) : bool := bytes_eqb a (B "srcset") || bytes_eqb a (B "imagesrcset").

(* ------------------------------------------------------------------ (i) markers in code positions *)
(* one flag per byte of s: the byte lies inside an occurrence of one of the marker strings.
   carry = how many more bytes the longest occurrence seen so far still covers *)
Fixpoint marked_aux (ms : list bytes) (s : bytes) (carry : nat) : list bool :=
  match s with
  | [] => []
  | _ :: t =>
      let k := fold_left (fun acc m => if prefixb m s then Nat.max acc (length m) else acc) ms carry in
      Nat.ltb 0 k :: marked_aux ms t (Nat.pred k)
  end.
Definition marked (ms : list bytes) (s : bytes) : list bool := marked_aux ms s O.

Fixpoint first_code_hit (i : N) (cl : list posclass) (mk : list bool) : option (N * posclass) :=
  match cl, mk with
  | p :: cl', m :: mk' => if m && code_position p then Some (i, p) else first_code_hit (i + 1) cl' mk'
  | _, _ => None
  end.

(* None = clause (i) holds of the output; Some (offset, class) = the first marker byte that the
   HTML tokenizer consumes in a code position *)
Definition c02_code_clause (markers : list bytes) (out : bytes) : option (N * posclass) :=
  first_code_hit 0 (r_classes (html_tokenize SData out)) (marked markers out).

(* ------------------------------------------------------------------ (ii) origin of code-loading URLs *)
(* The origin-determining start of a URL reference (RFC 3986 section 3 / URL standard): leading C0
   controls and spaces, the scheme with its colon, and -- when two slashes follow -- the authority:
   everything before the first slash, backslash, question mark or number sign that follows the
   authority.  Without an authority the first segment counts (it is where a scheme or an authority
   would be written); after a scheme that is not followed by two slashes (javascript:, data:, blob:,
   about: ...) everything up to the fragment is origin-determining (it IS the code or the resource).  ASCII tab and newline are removed first, as the URL
   parser does. *)
Definition cc_alpha (c : N) : bool := ((65 <=? c) && (c <=? 90)) || ((97 <=? c) && (c <=? 122)).
Definition cc_scheme_char (c : N) : bool :=
  cc_alpha c || ((48 <=? c) && (c <=? 57)) || (c =? 43) || (c =? 45) || (c =? 46).
Definition cc_slash (c : N) : bool := (c =? 47) || (c =? 92).
Definition cc_url_delim (c : N) : bool := cc_slash c || (c =? 63) || (c =? 35).

Fixpoint span_len (f : N -> bool) (s : bytes) : nat :=
  match s with
  | c :: t => if f c then S (span_len f t) else O
  | [] => O
  end.

(* length of  ALPHA *( ALPHA / DIGIT / + / - / . ) ":"  at the start of s, colon included *)
Definition scheme_len (s : bytes) : option nat :=
  match s with
  | c :: t =>
      if cc_alpha c then
        let n := span_len cc_scheme_char t in
        match skipn n t with
        | x :: _ => if x =? 58 then Some (S (S n)) else None
        | [] => None
        end
      else None
  | [] => None
  end.

Definition not_delim (c : N) : bool := negb (cc_url_delim c).

Definition origin_len (d : bytes) : nat :=
  let lead := span_len c0_or_space d in
  let s := skipn lead d in
  let after_slashes (base : nat) (r : bytes) (otherwise : nat) : nat :=
    match r with
    | a :: b :: r' => if cc_slash a && cc_slash b then (base + 2 + span_len not_delim r')%nat else otherwise
    | _ => otherwise
    end in
  match scheme_len s with
  | Some n => after_slashes (lead + n)%nat (skipn n s)
                            (lead + n + span_len (fun c => negb (c =? 35)) (skipn n s))%nat
  | None => after_slashes lead s (lead + span_len not_delim s)%nat
  end.

(* an occurrence of a marker starts before position n of d *)
Fixpoint marker_before (ms : list bytes) (d : bytes) (n : nat) : bool :=
  match n with
  | O => false
  | S n' =>
      existsb (fun m => prefixb m d) ms ||
      match d with [] => false | _ :: t => marker_before ms t n' end
  end.

Definition url_value (raw : bytes) : bytes := remove_tab_newline (html_unescape raw).

Definition origin_ok (markers : list bytes) (raw : bytes) : bool :=
  let d := url_value raw in negb (marker_before markers d (origin_len d)).

(* the rel attribute the browser uses: the first one of the tag, decoded *)
Definition tag_rel (attrs : list (bytes * bytes)) : bytes :=
  match find (fun av => bytes_eqb (fst av) (B "rel")) attrs with
  | Some av => html_unescape (snd av)
  | None => []
  end.

Definition tag_origin_fail (markers : list bytes) (e : bytes) (attrs : list (bytes * bytes))
  : option (bytes * bytes) :=
  match find (fun av => code_loading_url_attr e (fst av) (tag_rel attrs) && negb (origin_ok markers (snd av)))
             (attrs_first_wins attrs) with
  | Some av => Some (e, fst av)
  | None => None
  end.

Fixpoint first_some {A B} (f : A -> option B) (l : list A) : option B :=
  match l with
  | [] => None
  | x :: t => match f x with Some y => Some y | None => first_some f t end
  end.

(* None = clause (ii) holds; Some (element, attribute) = a code-loading URL attribute with a
   marker inside its origin-determining start *)
Definition c02_origin_clause (markers : list bytes) (out : bytes) : option (bytes * bytes) :=
  first_some (fun k => match k with
                       | StartTag e attrs _ => tag_origin_fail markers e attrs
                       | _ => None
                       end) (r_tokens (html_tokenize SData out)).

(* ------------------------------------------------------------------ (iii) no javascript: URL *)
(* taken as a whole, after character-reference decoding (both decoders), as the URL parser sees it *)
Definition no_js_value (raw : bytes) : bool :=
  negb (is_javascript_url (decode_runes (html_unescape raw))) &&
  negb (is_javascript_url (html_decode true (decode_runes raw))).

Definition no_js_srcset (raw : bytes) : bool :=
  forallb (fun c => negb (is_javascript_url (decode_runes (fst c)))) (candidates (html_unescape raw)) &&
  forallb (fun c => negb (is_javascript_url (decode_runes (fst c))))
          (candidates (encode_runes (html_decode true (decode_runes raw)))).

Definition attr_js_fail (av : bytes * bytes) : bool :=
  (url_attr (fst av) && negb (no_js_value (snd av))) ||
  (srcset_attr (fst av) && negb (no_js_srcset (snd av))).

(* None = clause (iii) holds; Some (element, attribute) = a URL-valued attribute of the output whose
   value (or one of whose srcset candidates) has the javascript scheme *)
Definition c02_jsurl_clause (out : bytes) : option (bytes * bytes) :=
  first_some (fun k => match k with
                       | StartTag e attrs _ =>
                           match find attr_js_fail (attrs_first_wins attrs) with
                           | Some av => Some (e, fst av)
                           | None => None
                           end
                       | _ => None
                       end) (r_tokens (html_tokenize SData out)).

(* the URL-valued attributes of the output, for the driver's statistics *)
Definition c02_url_attrs (out : bytes) : list (bytes * bytes * bytes) :=
  filter (fun x => url_attr (snd (fst x)) || srcset_attr (snd (fst x)))
         (attr_values_raw (r_tokens (html_tokenize SData out))).
