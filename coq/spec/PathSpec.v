(* C20 specification: lexical path normal form and the "direct child" relation.
   Written from the documentation of path/filepath (Clean rules 1-4, Join: "empty elements
   are ignored, the result is Cleaned, all-empty gives the empty string") and the property
   text, NOT from the lazybuf code: a path is its '/'-separated components processed with
   a stack.  Unix semantics only ('/' = 47, ':' = 58).  Definitions only. *)
From V Require Import lib.Base.
Local Open Scope N_scope.

Definition p_dot : bytes := [46].
Definition p_dotdot : bytes := [46; 46].
Definition p_slash : bytes := [47].

(* components of a path: split_on 47 "a//b" = ["a"; ""; "b"], split_on 47 "" = [""] *)
Fixpoint split_on (sep : N) (p : bytes) : list bytes :=
  match p with
  | [] => [[]]
  | c :: t =>
      if c =? sep then [] :: split_on sep t
      else match split_on sep t with
           | h :: r => (c :: h) :: r
           | [] => [[c]]
           end
  end.

(* components joined with '/' *)
Fixpoint join_sep (l : list bytes) : bytes :=
  match l with
  | [] => []
  | [x] => x
  | x :: r => x ++ 47 :: join_sep r
  end.

(* Normal-form state: [ups] leading ".." components that could not be cancelled, then the
   stack [stk] of real components, innermost first. *)
Definition pstate := (nat * list bytes)%type.

(* Clean rules: 1 (multiple separators = empty component) and 2 (".") drop the component;
   3 (inner "..") pops the real component before it; 4 ("/.." at the root) drops it;
   a ".." with nothing to cancel in a relative path is kept. *)
Definition stack_step (rooted : bool) (st : pstate) (comp : bytes) : pstate :=
  let '(ups, stk) := st in
  if bytes_eqb comp [] || bytes_eqb comp p_dot then st
  else if bytes_eqb comp p_dotdot then
    match stk with
    | _ :: below => (ups, below)
    | [] => if rooted then st else (S ups, [])
    end
  else (ups, comp :: stk).

Definition render_raw (rooted : bool) (st : pstate) : bytes :=
  let '(ups, stk) := st in
  (if rooted then p_slash else []) ++ join_sep (repeat p_dotdot ups ++ rev stk).

(* "If the result of this process is an empty string, Clean returns the string "."." *)
Definition render (rooted : bool) (st : pstate) : bytes :=
  match render_raw rooted st with [] => p_dot | r => r end.

Definition is_rooted (p : bytes) : bool :=
  match p with c :: _ => c =? 47 | [] => false end.

Definition norm_state (p : bytes) : pstate :=
  fold_left (stack_step (is_rooted p)) (split_on 47 p) (O, []).

Definition clean_stack (p : bytes) : bytes := render (is_rooted p) (norm_state p).

Definition nonempty (e : bytes) : bool := match e with [] => false | _ => true end.

(* filepath.Join by its documentation *)
Definition join_clean (elems : list bytes) : bytes :=
  match filter nonempty elems with
  | [] => []
  | l => clean_stack (join_sep l)
  end.

(* ---- the direct-child relation of the property ---- *)

(* the path of entry f of directory base (base in normal form, or "" for "no directory") *)
Definition child (base f : bytes) : bytes :=
  if bytes_eqb base [] || bytes_eqb base p_dot then f
  else if bytes_eqb base p_slash then 47 :: f
  else base ++ 47 :: f.

(* a filename that may select a directory entry: no path separator, no list separator,
   not the parent directory *)
Definition plain_name (f : bytes) : bool :=
  negb (mem_N 47 f) && negb (mem_N 58 f) && negb (bytes_eqb f p_dotdot).

(* C20 on one observed call: TrustedSourceFromConstantDir(dir, src, f) returned r, nil.
   r is the cleaned join of dir and src itself (only for the names "" and "."; for "." with
   dir = src = "" Go's Join gives "." where Join(dir, src) gives "") or the entry f of it. *)
Definition c20_spec (dir src f r : bytes) : bool :=
  let base := join_clean [dir; src] in
  plain_name f &&
  (if bytes_eqb f [] then bytes_eqb r base
   else if bytes_eqb f p_dot then bytes_eqb r base || (bytes_eqb base [] && bytes_eqb r p_dot)
   else bytes_eqb r (child base f) && negb (bytes_eqb r base)).

(* which clause fails, for the replay file *)
Definition c20_clause (dir src f r : bytes) : bytes :=
  if mem_N 47 f then B "filename_with_path_separator_accepted"
  else if mem_N 58 f then B "filename_with_list_separator_accepted"
  else if bytes_eqb f p_dotdot then B "dotdot_accepted"
  else if c20_spec dir src f r then B "ok"
  else B "result_not_base_or_direct_child".

(* no regular-expression side conditions in this property *)
