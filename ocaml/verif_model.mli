
val negb : bool -> bool

type nat =
| O
| S of nat

val fst : ('a1 * 'a2) -> 'a1

val snd : ('a1 * 'a2) -> 'a2

val app : 'a1 list -> 'a1 list -> 'a1 list

type comparison =
| Eq
| Lt
| Gt

val rev : 'a1 list -> 'a1 list

val map : ('a1 -> 'a2) -> 'a1 list -> 'a2 list

val flat_map : ('a1 -> 'a2 list) -> 'a1 list -> 'a2 list

val fold_left : ('a1 -> 'a2 -> 'a1) -> 'a2 list -> 'a1 -> 'a1

val fold_right : ('a2 -> 'a1 -> 'a1) -> 'a1 -> 'a2 list -> 'a1

val existsb : ('a1 -> bool) -> 'a1 list -> bool

val forallb : ('a1 -> bool) -> 'a1 list -> bool

val find : ('a1 -> bool) -> 'a1 list -> 'a1 option

type positive =
| XI of positive
| XO of positive
| XH

type n =
| N0
| Npos of positive

module Pos :
 sig
  type mask =
  | IsNul
  | IsPos of positive
  | IsNeg
 end

module Coq_Pos :
 sig
  val succ : positive -> positive

  val add : positive -> positive -> positive

  val add_carry : positive -> positive -> positive

  val pred_double : positive -> positive

  type mask = Pos.mask =
  | IsNul
  | IsPos of positive
  | IsNeg

  val succ_double_mask : mask -> mask

  val double_mask : mask -> mask

  val double_pred_mask : positive -> mask

  val sub_mask : positive -> positive -> mask

  val sub_mask_carry : positive -> positive -> mask

  val mul : positive -> positive -> positive

  val compare_cont : comparison -> positive -> positive -> comparison

  val compare : positive -> positive -> comparison

  val eqb : positive -> positive -> bool
 end

module N :
 sig
  val succ_double : n -> n

  val double : n -> n

  val add : n -> n -> n

  val sub : n -> n -> n

  val mul : n -> n -> n

  val compare : n -> n -> comparison

  val eqb : n -> n -> bool

  val leb : n -> n -> bool

  val ltb : n -> n -> bool

  val pos_div_eucl : positive -> n -> n * n

  val div_eucl : n -> n -> n * n

  val div : n -> n -> n

  val modulo : n -> n -> n
 end

type ascii =
| Ascii of bool * bool * bool * bool * bool * bool * bool * bool

val n_of_digits : bool list -> n

val n_of_ascii : ascii -> n

type string =
| EmptyString
| String of ascii * string

val list_ascii_of_string : string -> ascii list

type bytes = n list

val b : string -> bytes

val mem_N : n -> n list -> bool

type regex =
| Emp
| Eps
| Cls of (n * n) list
| Cat of regex * regex
| Alt of regex * regex
| Star of regex
| BeginText
| EndText
| BeginLine
| EndLine

val in_range : n -> (n * n) -> bool

val in_ranges : n -> (n * n) list -> bool

val max_rune : n

val any_rune : regex

val any_star : regex

val plus : regex -> regex

val opt : regex -> regex

val is_nl : n option -> bool

val is_none : 'a1 option -> bool

type pctx =
| PNone
| PNl
| POther

val pclass : n option -> pctx

val pctx_eqb : pctx -> pctx -> bool

val nullable : pctx -> n option -> regex -> bool

val cmp_then : comparison -> comparison -> comparison

val ranges_cmp : (n * n) list -> (n * n) list -> comparison

val tag : regex -> n

val regex_cmp : regex -> regex -> comparison

val regex_eqb : regex -> regex -> bool

val is_emp : regex -> bool

val is_eps : regex -> bool

val cat : regex -> regex -> regex

val alts : regex -> regex list

val insert_alt : regex -> regex list -> regex list

val mk_alt : regex list -> regex

val alt : regex -> regex -> regex

val deriv : pctx -> n -> regex -> regex

val accepts_from : pctx -> regex -> n list -> bool

val accepts : regex -> n list -> bool

val search : regex -> regex

val go_match : regex -> n list -> bool

val bounds : regex -> n list

val dedup : n list -> n list

val ranges_ok : n list -> regex -> bool

type st = { st_p : pctx; st_a : regex; st_b : regex; st_w : n list }

val st_eqb : st -> st -> bool

val st_mem : st -> st list -> bool

val succ0 : st -> n -> st

val bad : st -> bool

val explore : nat -> n list -> st list -> st list -> st list option

val closed : n list -> n list -> st -> st list -> bool

type verdict =
| Included
| Counterexample of n list
| Unknown

val incl_check : nat -> regex -> regex -> verdict

val fFFD : n

val cont : n -> bool

val acc3 : n -> n -> bool

val acc4 : n -> n -> bool

val decode_runes : bytes -> n list

val is_surrogate : n -> bool

val encode_rune : n -> bytes

val encode_runes : n list -> bytes

val g_containsWhitespaceOrControlPattern : regex

val g_cssStringPattern : regex

val g_dataAttributeNamePattern : regex

val g_endsWithCharRefPrefixPattern : regex

val g_endsWithPercentEncodingPrefixPattern : regex

val g_identifierPattern : regex

val g_invalidCSSSelectorRune : regex

val g_jsIdentifierPattern : regex

val g_onlyAlphanumericsOrHyphenPattern : regex

val g_safeEnumPropertyValuePattern : regex

val g_safeRegularPropertyValuePattern : regex

val g_safeTrustedResourceURLPrefixPattern : regex

val g_safeURLPattern : regex

val g_startsWithAlphabetPattern : regex

val g_startsWithFullySpecifiedSchemePattern : regex

val g_trustedResourceURLFormatMarkerPattern : regex

val g_urlDoubleDotSegmentPattern : regex

val all_regexes : (bytes * regex) list

val valid_ident_start : bytes -> bool

val valid_ident_chars : bytes -> bool

val identifier_from_constant : bytes -> bytes option

val identifier_from_constant_prefix : bytes -> bytes -> bytes option

val is_alpha : n -> bool

val is_ident_char : n -> bool

val ident_spec : bytes -> bool

val alpha_cls : (n * n) list

val ident_cls : (n * n) list

val s_starts_alpha : regex

val s_only_ident : regex

val c18_bridges : (bytes * (regex * regex)) list
