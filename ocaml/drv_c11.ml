open Drv_common

(* url_sanitized id s outcome out go_unescaped
   s: the input; out: what safehtml.URLSanitized(s).String() returned; go_unescaped:
   html.UnescapeString(s) computed by the installed Go (a second, independent decoder for
   the "after one round of character-reference decoding" clause). *)
let () =
  reg "url_sanitized" (fun f ->
      let id = f.(1) in
      let s = bytes_of_hex f.(2) in
      if f.(3) <> "ok" then specfail id "panicked"
      else begin
        let out = bytes_of_hex f.(4) in
        let unesc = bytes_of_hex f.(5) in
        let w = V.decode_runes s in
        let kept = (out = s) in
        let js_raw = V.is_javascript_url w in
        let js_dec = V.is_javascript_url (V.html_decode false w) || V.is_javascript_url (V.html_decode true w) in
        let js_go = V.is_javascript_url (V.decode_runes unesc) in
        let scheme_ok = V.starts_with_safe_scheme s in
        let rel_ok = V.colon_amp_only_after_delim s in
        if (not kept) && out <> V.innocuous_url then specfail id "result_neither_input_nor_innocuous"
        else if kept && js_raw then specfail id "javascript_scheme_in_returned_url"
        else if kept && js_dec then specfail id "javascript_scheme_after_charref_decoding"
        else if kept && js_go then specfail id "javascript_scheme_after_go_unescape"
        else if kept && not (V.no_javascript_spec s) then specfail id "no_javascript_spec"
        else if (not kept) && scheme_ok then specfail id "safe_scheme_url_replaced"
        else if (not kept) && rel_ok then specfail id "relative_url_replaced"
        else begin
          let m = V.url_sanitized s in
          if m <> out then mismatch id (hex_of_bytes m)
          else
            ok id
              (if kept then (if scheme_ok then "+kept_scheme" else if rel_ok then "+kept_relative" else "+kept_other")
               else if js_raw || js_dec || js_go then "+replaced_javascript"
               else "replaced_not_javascript")
        end
      end);
  reg_bridges "C11" V.c11_bridges
