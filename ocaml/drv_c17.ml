(* C17: ScriptFromDataAndConstant.

   Streams (fields after stream and case id; byte strings in hex, "-" = empty):
     script_data   name  wire  script  outcome(ok|err|panic|badwire)  out
     json_string   s  outcome  out                  json.Marshal(s)
     json_compact  raw  go_valid(0|1)  outcome  out  json.Marshal(json.RawMessage(raw)), json.Valid(raw)

   Wire syntax of a data value (the same text is documented at the top of
   harness/cmd/run/c17.go, whose encoder/decoder this decoder matches).  ASCII, no white
   space, self-delimiting; <hex> is lower-case hex of a byte string and may be empty; the
   character written <k> only tells the harness how to realise the node as a Go value and
   is skipped here:
     z<k>                     null                                  -> GNull
     t | f                    bool                                  -> GBool
     n<k><hex>.               number, <hex> = the text Go formats   -> GNum
     s<k><hex>.               string / TextMarshaler text           -> GStr
     r<k><hex>.               bytes returned by a json.Marshaler / RawMessage -> GRaw
     x<k>                     unencodable value                     -> GBad
     [<k> value* ]            slice                                 -> GArr
     {<k> (<hex>. value)* }   map, keys sorted                      -> GObj
     ( (<hex>. value)* )      struct, fields in declaration order   -> GObj *)
open Drv_common

let string_of_hex (h : string) : string =
  if h = "-" then ""
  else String.init (String.length h / 2) (fun i -> Char.chr (hexval h.[2 * i] * 16 + hexval h.[2 * i + 1]))

let str_of_bytes l =
  let b = Buffer.create 64 in
  List.iter (fun x -> Buffer.add_char b (Char.chr (int_of_n x land 255))) l;
  Buffer.contents b

let parse_wire (s : string) : V.gvalue =
  let i = ref 0 in
  let next () =
    if !i >= String.length s then failwith "wire: unexpected end";
    let c = s.[!i] in
    incr i;
    c
  in
  let peek () = if !i >= String.length s then failwith "wire: unexpected end" else s.[!i] in
  let hexdot () =
    let j = try String.index_from s !i '.' with Not_found -> failwith "wire: missing '.'" in
    let h = String.sub s !i (j - !i) in
    i := j + 1;
    if h = "" then [] else bytes_of_hex h
  in
  let rec value () =
    match next () with
    | 'z' -> ignore (next ()); V.GNull
    | 't' -> V.GBool true
    | 'f' -> V.GBool false
    | 'n' -> ignore (next ()); V.GNum (hexdot ())
    | 's' -> ignore (next ()); V.GStr (hexdot ())
    | 'r' -> ignore (next ()); V.GRaw (hexdot ())
    | 'x' -> ignore (next ()); V.GBad
    | '[' ->
      ignore (next ());
      let rec elems acc = if peek () = ']' then (incr i; List.rev acc) else elems (value () :: acc) in
      V.GArr (elems [])
    | '{' -> ignore (next ()); members '}'
    | '(' -> members ')'
    | c -> failwith ("wire: bad tag " ^ String.make 1 c)
  and members closer =
    let rec go acc =
      if peek () = closer then (incr i; List.rev acc)
      else begin
        let k = hexdot () in
        let v = value () in
        go ((k, v) :: acc)
      end
    in
    V.GObj (go [])
  in
  let v = value () in
  if !i <> String.length s then failwith "wire: trailing input";
  v

let rec has_raw = function
  | V.GRaw _ -> true
  | V.GArr l -> List.exists has_raw l
  | V.GObj m -> List.exists (fun (_, v) -> has_raw v) m
  | _ -> false

let () =
  reg "script_data" (fun f ->
      let id = f.(1) in
      let name = bytes_of_hex f.(2) in
      let g = parse_wire (string_of_hex f.(3)) in
      let script = bytes_of_hex f.(4) in
      let outcome = f.(5) in
      let out = bytes_of_hex f.(6) in
      if outcome <> "ok" && outcome <> "err" then mismatch id ("harness:" ^ outcome)
      else if not (V.num_gvalue g && V.wf_gvalue g) then mismatch id "number_text_is_not_an_rfc8259_number"
      else begin
        let is_ok = outcome = "ok" in
        (* the specification predicate on the implementation's real result *)
        let want = V.g_canon g in
        let clause = V.c17_spec name want script is_ok out in
        if clause <> [] then specfail id (str_of_bytes clause)
        else begin
          (* correspondence of the model *)
          let m = V.script_from_go name g script in
          let impl = if is_ok then Some out else None in
          let pure_agrees =
            match V.j_of_g g with
            | Some d -> V.script_from_data name d script = m && V.g_canon g = Some (V.canon d)
            | None -> true
          in
          if m <> impl then mismatch id (opt_str m)
          else if not pure_agrees then mismatch id "script_from_data_differs_from_script_from_go"
          else
            ok id
              (if is_ok then (if has_raw g then "+ok_marshaler_bytes" else "+ok_json_value")
               else if not (V.js_ident_spec name) then "err_name"
               else if want = None then "err_data"
               else "err_one_char_name")
        end
      end);
  reg "json_string" (fun f ->
      let id = f.(1) in
      let s = bytes_of_hex f.(2) in
      let out = bytes_of_hex f.(4) in
      if f.(3) <> "ok" then mismatch id ("impl:" ^ f.(3))
      else begin
        let good =
          V.inert out
          && (match V.json_decode out with Some v -> V.jvalue_eqb v (V.canon (V.JStr s)) | None -> false)
        in
        if not good then specfail id "string_literal_not_inert_or_does_not_decode_to_the_string"
        else begin
          let m = V.encode_string s in
          if m = out then ok id (if List.length out = List.length s + 2 then "verbatim" else "+escaped")
          else mismatch id (hex_of_bytes m)
        end
      end);
  reg "json_compact" (fun f ->
      let id = f.(1) in
      let raw = bytes_of_hex f.(2) in
      let go_valid = f.(3) = "1" in
      let outcome = f.(4) in
      let out = bytes_of_hex f.(5) in
      let is_ok = outcome = "ok" in
      let spec_value = V.json_decode raw in
      if outcome <> "ok" && outcome <> "err" then mismatch id ("impl:" ^ outcome)
      else if is_ok && not (V.inert out) then specfail id "marshaler_bytes_not_inert_after_compaction"
      else if is_ok && spec_value = None then specfail id "marshaler_bytes_accepted_but_not_a_json_text"
      else if is_ok && V.json_decode out <> spec_value then specfail id "compacted_marshaler_bytes_decode_to_a_different_value"
      else begin
        let mv = V.go_json_valid raw in
        if mv <> is_ok || mv <> go_valid then mismatch id ("valid=" ^ bool_str mv)
        else if (spec_value <> None) <> go_valid then mismatch id "spec_decoder_disagrees_with_json.Valid"
        else if is_ok && V.compact_escape raw <> out then mismatch id (hex_of_bytes (V.compact_escape raw))
        else ok id (if is_ok then (if out = raw then "valid_unchanged" else "+valid_rewritten") else "invalid")
      end);
  reg_bridges "C17" V.c17_bridges
