open Drv_common
open Drv_tmpl

(* C08 streams (harness/cmd/run/c08.go).
   hist08 id <hex ops> <done|timeout:k|crash:..:k> <nops> {<op wire> <result> <state>}*
     1. correspondence: the history is replayed on Engine.step exactly as stream "hist" does;
     2. oracle: NO op may end in panic:<class>, execpanic:<class> (text/template's executor
        panicked after a completed analysis) or in a watchdog timeout.  The first such op is a
        SPECFAIL api_call_panicked:op<k>:<class>; it is attributed to a recorded finding only when
        the extracted classifier accepts the history:
          finding_D7 ops            and the class is panic:breakcontinue
          finding_D8 ops failed t   and the class is panic:nil / execpanic:nil, where failed = the
                                    templates for which an earlier call returned escape:<code> and
                                    t = the template the panicking call executes;
          finding_D40 ops k t       and the class is panic:nil / execpanic:nil: before op k a template
                                    that t reaches was replaced by t.New(name) and the set was cloned.
   exec08 id <text> <name> <data> <outcome> <out> <parsed wire>
   cat08 / esc08 : contextAfterText / escapeText on the real code under recover + watchdog:
     totality, n <= len, progress, the invariant wf_ctx of the result, and correspondence.
   wf08 : every context reached by running the real contextAfterText satisfies wf_ctx. *)

let is_panic_res (r : string) = has_prefix "panic:" r || has_prefix "execpanic:" r

(* the template an exec op executes, read off the model world before the op *)
let exec_target (w : V.world) (o : V.op) : V.n list option =
  match o with
  | V.OExecuteTemplate (_, name) -> Some name
  | V.OExecute h ->
    (match List.nth_opt w.V.w_handles (Drv_hist.int_of_nat h) with
     | Some (Some obj) -> Some (V.get_text w (V.get_tmpl w obj).V.h_text).V.x_name
     | _ -> None)
  | _ -> None

(* first op of the history whose implementation result is a panic: (k, class, finding) *)
let first_panic (f : string array) (base : int) : (int * string * string option) option =
  let n = int_of_string f.(base) in
  let ops = List.init n (fun k -> Drv_hist.op_of_wire f.(base + 1 + 3 * k)) in
  let w = ref V.world0 and failed = ref [] and found = ref None in
  (try
     List.iteri (fun k o ->
         let res = f.(base + 2 + 3 * k) in
         let target = exec_target !w o in
         if is_panic_res res then begin
           let fnd =
             if res = "panic:breakcontinue" && V.finding_D7 ops then Some "D7"
             else if (res = "panic:nil" || res = "execpanic:nil") then
               (match target with
                | Some t when V.finding_D8 ops !failed t -> Some "D8"
                | Some t when V.finding_D40 ops (nat_of_int k) t -> Some "D40"
                | _ -> None)
             else None in
           found := Some (k, res, fnd); raise Exit
         end;
         if has_prefix "escape:" res then (match target with Some t -> failed := t :: !failed | None -> ());
         let (w', _) = V.step !w o in
         w := w') ops
   with Exit -> ());
  !found

let divergence_index (d : string) : int = try Scanf.sscanf d "op%d:" (fun k -> k) with _ -> max_int

let after_error (f : string array) (base : int) : bool =
  let n = int_of_string f.(base) in
  let seen_err = ref false and hit = ref false in
  for k = 0 to n - 1 do
    let opw = f.(base + 1 + 3 * k) and res = f.(base + 2 + 3 * k) in
    if !seen_err && (opw.[0] = 'X' || opw.[0] = 'Y') then hit := true;
    if has_prefix "escape:" res || res = "parseerr" || res = "incomplete" || res = "undefined" || res = "cannotparse" || res = "cannotclone"
    then seen_err := true
  done;
  !hit

let () =
  reg "hist08" (fun f ->
      let id = f.(1) and watch = f.(3) in
      let base = 4 in
      let (div, kinds) = Drv_hist.replay f base in
      match first_panic f base with
      | Some (k, cls, fnd) ->
        (match div with
         | Some d when divergence_index d < k -> mismatch id d
         | Some d when divergence_index d = k ->
           (* the faithful model does not reproduce this panic: whatever the classifier says, it is
              not one of the recorded defects of the modelled algorithm *)
           specfail id (Printf.sprintf "api_call_panicked:op%d:%s:not_reproduced_by_the_model" k cls)
         | _ ->
           specfail id (Printf.sprintf "api_call_panicked:op%d:%s%s" k cls
                          (match fnd with Some d -> "\tfinding=" ^ d | None -> "")))
      | None ->
        if watch <> "done" then
          (if has_prefix "timeout" watch then specfail id ("api_call_hangs:" ^ watch)
           else specfail id ("api_call_panicked:" ^ watch))
        else
          match div with
          | Some d -> mismatch id d
          | None ->
            let exec = String.contains kinds 'X' || String.contains kinds 'Y' in
            ok id (if not exec then "noexec" else if after_error f base then "+exec_after_error" else "+exec"));
  reg "exec08" (fun f ->
      let id = f.(1) and outcome = f.(5) in
      if has_prefix "panic:" outcome || outcome = "timeout" then begin
        let bc =
          outcome = "panic:breakcontinue" && f.(7) <> "E"
          && (try V.finding_D7 [Drv_hist.op_of_wire ("P:0:" ^ f.(7))] with _ -> false) in
        specfail id ("api_call_panicked:" ^ outcome ^ (if bc then "\tfinding=D7" else ""))
      end
      else ok id (if outcome = "ok" then "+ok" else outcome));
  reg "cat08" (fun f ->
      let id = f.(1) in
      let c = ctx_of_fields f 4 and s = bytes_of_hex f.(3) in
      let outcome = f.(15) in
      if outcome <> "ok" then specfail id (if outcome = "timeout" then "contextAfterText_hangs" else "contextAfterText_panics")
      else begin
        let c1i = ctx_of_fields f 16 and n = int_of_string f.(27) in
        let wf = V.wf_ctxb c in
        if n > List.length s || n < 0 then specfail id "contextAfterText_consumed_more_than_its_input"
        else if wf && s <> [] && n = 0 && c1i.V.c_state = c.V.c_state then specfail id "contextAfterText_no_progress_in_the_same_state"
        else if wf && not (V.wf_ctxb c1i) then specfail id "contextAfterText_result_violates_context_invariant"
        else
          match V.context_after_text c s with
          | V.TPanic -> mismatch id "panic"
          | V.TOk (c1, m) ->
            let mw = wire_of_ctx c1 ^ "\t" ^ string_of_int (int_of_nat m) in
            if mw = fields_from f 16 12 then ok id (if n > 0 || c1i.V.c_state <> c.V.c_state then "+step" else "empty")
            else mismatch id mw
      end);
  reg "esc08" (fun f ->
      let id = f.(1) in
      let c = ctx_of_fields f 5 and s = bytes_of_hex f.(3) and csp = (f.(4) = "31") in
      let outcome = f.(16) in
      let wf = V.wf_ctxb c in
      if outcome <> "ok" then begin
        if wf then specfail id (if outcome = "timeout" then "escapeText_hangs" else "escapeText_panics")
        else ok id "context_outside_invariant"
      end
      else begin
        let c1i = ctx_of_fields f 17 in
        if wf && not (V.wf_ctxb c1i) then specfail id "escapeText_result_violates_context_invariant"
        else
          match V.escape_text csp c s with
          | V.EPanic -> mismatch id "panic"
          | V.EOk (c1, edited, out) ->
            let mw = wire_of_ctx c1 ^ "\t" ^ (if edited then "1" else "0") ^ "\t" ^ hex_of_bytes out in
            if mw = fields_from f 17 13 then ok id (if edited then "+edited" else if c1.V.c_state = V.StError then "+error" else "plain")
            else mismatch id mw
      end);
  reg "wf08" (fun f ->
      let id = f.(1) in
      if V.wf_ctxb (ctx_of_fields f 3) then ok id "+wf" else specfail id "reachable_context_violates_invariant")
