(* Shared helpers of the driver: conversions between OCaml values and the extracted
   inductives, verdict printers, and the registries filled by the per-property files. *)
module V = Verif_model

let rec pos_of_int n =
  if n = 1 then V.XH else if n land 1 = 0 then V.XO (pos_of_int (n lsr 1)) else V.XI (pos_of_int (n lsr 1))
let n_of_int n = if n = 0 then V.N0 else V.Npos (pos_of_int n)
let rec int_of_pos = function V.XH -> 1 | V.XO p -> 2 * int_of_pos p | V.XI p -> 2 * int_of_pos p + 1
let int_of_n = function V.N0 -> 0 | V.Npos p -> int_of_pos p
let byte_tab = Array.init 256 n_of_int
let rec nat_of_int n = if n = 0 then V.O else V.S (nat_of_int (n - 1))

let hexval c =
  match c with
  | '0' .. '9' -> Char.code c - 48
  | 'a' .. 'f' -> Char.code c - 87
  | 'A' .. 'F' -> Char.code c - 55
  | _ -> failwith "bad hex"

let bytes_of_hex (s : string) =
  if s = "-" then []
  else begin
    let n = String.length s / 2 in
    let rec go i acc = if i < 0 then acc else go (i - 1) (byte_tab.(hexval s.[2 * i] * 16 + hexval s.[2 * i + 1]) :: acc) in
    go (n - 1) []
  end

let hex_of_bytes l =
  match l with
  | [] -> "-"
  | _ ->
    let b = Buffer.create 64 in
    List.iter (fun x -> Buffer.add_string b (Printf.sprintf "%02x" (int_of_n x land 255))) l;
    Buffer.contents b

let string_of_bytes l = String.init (List.length l) (fun i -> Char.chr (int_of_n (List.nth l i) land 255))
let bytes_of_string s = List.init (String.length s) (fun i -> byte_tab.(Char.code s.[i]))

let split_tab s = String.split_on_char '\t' s

let ok id cls = Printf.printf "%s\tok\t%s\n" id cls
let mismatch id m = Printf.printf "%s\tMISMATCH\t%s\n" id m
let specfail id c = Printf.printf "%s\tSPECFAIL\t%s\n" id c

let opt_str = function None -> "panic" | Some r -> "ok:" ^ hex_of_bytes r


let bool_str b = if b then "1" else "0"
let word_hex w = hex_of_bytes (V.encode_runes w)

(* stream name -> handler over the TAB-separated fields of a case line *)
let handlers : (string, string array -> unit) Hashtbl.t = Hashtbl.create 64
let reg name f = Hashtbl.replace handlers name f

(* property id -> named inclusion side conditions, for the directed search *)
let bridges : (string, (V.n list * (V.regex * V.regex)) list) Hashtbl.t = Hashtbl.create 32
let reg_bridges prop l = Hashtbl.replace bridges prop l

let regex_table = lazy (List.map (fun (n, r) -> (string_of_bytes n, r)) V.all_regexes)

(* Stream replaycheck (harness/cmd/run/replaycheck.go): the cases of the pure-function streams are
   executed again in the same order, in reverse order and from 32 goroutines at once; a case
   whose written lines differ shows that the function's result depends on earlier or on concurrent
   calls, which no property of a pure function allows.
     replaycheck id summary <cases> <history diffs> <concurrency diffs> - -
     replaycheck id <kind> <stream> <inputs> <lines at first execution> <lines at re-execution> *)
let () = reg "replaycheck" (fun f ->
    let id = f.(1) in
    if f.(2) = "summary" then
      (if f.(4) = "0" && f.(5) = "0" then ok id "+reexecution_consistent"
       else ok id "reexecution_differences_reported")
    else specfail id (Printf.sprintf "result_depends_on_%s:%s" f.(2) f.(3)))

(* Pseudo stream implpanic (harness/cmd/run/common.go): a panic escaped the exec function of a stream -
   the function under test is total, so the input is a specification failure.
     implpanic id <stream,hexinput,...> <panic message> *)
let () = reg "implpanic" (fun f ->
    let id = f.(1) in
    let enc = string_of_bytes (bytes_of_hex f.(2)) in
    let stream = match String.index_opt enc ',' with Some i -> String.sub enc 0 i | None -> enc in
    specfail id ("implementation_panicked_in_stream_" ^ stream))

let () = reg "rx" (fun f ->
    (* rx id name subject implbool *)
    let id = f.(1) in
    let r = List.assoc (string_of_bytes (bytes_of_hex f.(2))) (Lazy.force regex_table) in
    let m = V.go_match r (V.decode_runes (bytes_of_hex f.(3))) in
    if bool_str m = f.(4) then ok id (if m then "+match" else "nomatch") else mismatch id (bool_str m))
