(* C16 streams.
   css_rule: f.(2) selector, f.(3) style string, f.(4) outcome ("ok" | "err"), f.(5) the StyleSheet.
   strip_strings: f.(2) selector, f.(3) the implementation's cssStringPattern.ReplaceAllString(sel, "").
   balanced: f.(2) string, f.(3) "1"/"0". *)
open Drv_common

let () =
  reg "css_rule" (fun f ->
      let id = f.(1) in
      let sel = bytes_of_hex f.(2) and style = bytes_of_hex f.(3) in
      let impl = if f.(4) = "ok" then Some (bytes_of_hex f.(5)) else None in
      let m = V.css_rule sel style in
      if not (V.style_wellformed style) then
        (if m = impl then ok id "style_not_wellformed" else mismatch id (opt_str m))
      else begin
        let fails = V.css_rule_spec_failures sel style impl in
        match List.filter (fun (_, known) -> int_of_n known = 0) fails, fails with
        | (clause, _) :: _, _ -> specfail id (string_of_bytes clause)
        | [], _ when m <> impl -> mismatch id (opt_str m)
        | [], (clause, known) :: _ -> specfail id (Printf.sprintf "%s\tfinding=D%d" (string_of_bytes clause) (int_of_n known))
        | [], [] -> ok id (if impl = None then "error" else "+one_rule")
      end);
  reg "strip_strings" (fun f ->
      let id = f.(1) in
      let s = bytes_of_hex f.(2) in
      let m = V.strip_strings s in
      if hex_of_bytes m = f.(3) then ok id (if m = s then "same" else "+stripped") else mismatch id (hex_of_bytes m));
  reg "balanced" (fun f ->
      let id = f.(1) in
      let m = V.has_balanced_brackets (bytes_of_hex f.(2)) in
      if bool_str m = f.(3) then ok id (if m then "+balanced" else "unbalanced") else mismatch id (bool_str m));
  reg_bridges "C16" V.c16_bridges
