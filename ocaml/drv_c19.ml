open Drv_common

(* C19: the extracted Go type-rule model (spec/GoAssign.v) and the API checks (spec/ApiSpec.v)
   against what the real compiler did with the client programs of harness/cmd/run/c19.go.
     MISMATCH  the model's compile / not-compile prediction differs from the compiler (or the
               compiler rejected a program for a reason outside the modelled rules)
     SPECFAIL  something compiles (or yields a value) that the property forbids; tagged with
               finding=Dnn when the extracted classifier of a recorded finding accepts the case *)

let bs = bytes_of_string
let str i (f : string array) = string_of_bytes (bytes_of_hex f.(i))
let client = bs "client"
let cfg lang = V.real_cfg client (lang <> "go1.16")

(* ---- form descriptors (same grammar as the runner) ---- *)
type form =
  | Atom of string
  | Named of form
  | TConst of string * form
  | Conv of string * form
  | Cat of form * form

let parse_form (s : string) : form =
  let pos = ref 0 and n = String.length s in
  let ident () =
    let st = !pos in
    while !pos < n && s.[!pos] >= 'a' && s.[!pos] <= 'z' do incr pos done;
    String.sub s st (!pos - st) in
  let expect c = if !pos < n && s.[!pos] = c then incr pos else failwith ("bad form " ^ s) in
  let rec go () =
    match ident () with
    | "named" -> expect '('; let a = go () in expect ')'; Named a
    | "tconst" -> expect '('; let t = ident () in expect ','; let a = go () in expect ')'; TConst (t, a)
    | "conv" -> expect '('; let t = ident () in expect ','; let a = go () in expect ')'; Conv (t, a)
    | "cat" -> expect '('; let a = go () in expect ','; let b = go () in expect ')'; Cat (a, b)
    | "" -> failwith ("bad form " ^ s)
    | x -> Atom x in
  let r = go () in
  if !pos <> n then failwith ("bad form tail " ^ s);
  r

let my_t = V.GDefined (client, bs "my", V.GString)
let ownsc_t = V.GDefined (client, bs "stringConstant", V.GString)

let form_type pkg = function
  | "string" -> V.GString
  | "gate" -> V.gate_type pkg
  | "my" -> my_t
  | "ownsc" -> ownsc_t
  | t -> failwith ("bad form type " ^ t)

(* pkg: the package of the called function; tparam: the type at which the type parameter is inferred *)
let rec expr pkg tparam = function
  | Atom "lit" -> V.EStrLit (bs "x")
  | Atom "rune" -> V.ERuneLit (n_of_int 120)
  | Atom "int" -> V.EIntLit (n_of_int 65)
  | Atom ("var" | "field" | "index" | "aliasvar") -> V.EVar V.GString
  | Atom ("call" | "sprint") -> V.ECall V.GString
  | Atom "bytes" -> V.EVar (V.GSlice (V.GBasic (bs "byte")))
  | Atom "tp" -> V.EConvertTypeParam (tparam, V.EVar V.GString)
  | Atom a -> failwith ("bad form atom " ^ a)
  | Named a -> V.ENamedConst (None, expr pkg tparam a)
  | TConst (t, a) -> V.ENamedConst (Some (form_type pkg t), expr pkg tparam a)
  | Conv (t, a) -> V.EConvert (form_type pkg t, expr pkg tparam a)
  | Cat (a, b) -> V.EConcat (expr pkg tparam a, expr pkg tparam b)

(* compiler error classes that correspond to a modelled rule *)
let modelled_error c =
  List.mem c ["cannot-use"; "not-exported"; "cannot-convert"; "unexported-field"; "not-constant";
              "invalid-operation"; "needs-go1.18"; "undefined"; "type-inference"; "literal-shape"]

let qual pkg recv name =
  string_of_bytes pkg ^ "." ^ (if recv = [] then "" else string_of_bytes recv ^ ".") ^ string_of_bytes name

let tag b d = if b then "\tfinding=" ^ d else ""

let in_list x l = V.mem_name2 x l
let contains (hay : string) (needle : string) =
  let n = String.length needle and h = String.length hay in
  let rec go i = i + n <= h && (String.sub hay i n = needle || go (i + 1)) in
  n = 0 || go 0

let verdict id ~pred ~obs ~errc k =
  if pred <> obs then mismatch id ("model:" ^ (if pred then "compile" else "nocompile"))
  else if (not obs) && not (modelled_error errc) then mismatch id ("unexpected-compiler-error:" ^ errc)
  else k ()

let () =
  (* gate id pkg recv name idx form lang | obs errclass source *)
  reg "gate" (fun f ->
      let id = f.(1) in
      let pkg = bytes_of_hex f.(2) and recv = bytes_of_hex f.(3) and name = bytes_of_hex f.(4) in
      let idx = int_of_string (str 5 f) and form = str 6 f and lang = str 7 f in
      let obs = f.(8) = "compile" and errc = str 9 f in
      match V.lookup_func pkg recv name with
      | None -> mismatch id "function-not-in-GenApi"
      | Some fn ->
        match List.nth_opt fn.V.f_params idx with
        | None -> mismatch id "parameter-not-in-GenApi"
        | Some (pname, ty) ->
          let t = V.resolve_param ty in
          let e = expr pkg t (parse_form form) in
          let pred = V.client_arg_compiles (cfg lang) e t in
          verdict id ~pred ~obs ~errc (fun () ->
              let trusted =
                match V.lookup_reviewed fn with
                | Some r -> V.param_role r pname = Some V.TrustedText
                | None -> false in
              if obs && trusted && not (V.untyped_string_constant e) then begin
                let fd =
                  if V.finding_D21 pkg recv name pname then "\tfinding=D21"
                  else if V.finding_D20 pkg recv name then "\tfinding=D20"
                  else if V.finding_D31 e then "\tfinding=D31"
                  else "" in
                specfail id (Printf.sprintf "trusted_text_parameter_accepts_nonconstant:%s#%s:%s%s"
                               (qual pkg recv name) (string_of_bytes pname) form fd)
              end
              else if not obs then ok id ("+reject:" ^ errc)
              else if trusted then ok id "accept_constant"
              else ok id "accept_dynamic_parameter"));

  (* conv id upkg uname tpkg tname form | obs errclass source *)
  reg "conv" (fun f ->
      let id = f.(1) in
      let u = (bytes_of_hex f.(2), bytes_of_hex f.(3)) and t = (bytes_of_hex f.(4), bytes_of_hex f.(5)) in
      let form = str 6 f in
      let obs = f.(7) = "compile" and errc = str 8 f in
      let tT = V.resolve_named t in
      let uT =
        if str 2 f = "" && str 3 f = "string" then V.GString
        else if str 2 f = "client" then
          (match tT with
           | V.GDefined (_, _, V.GStruct fs) ->
             V.GDefined (client, bs "lookalike",
                         V.GStruct (List.map (fun (V.GField (_, n, e, tg, ft)) -> V.GField (client, n, e, tg, ft)) fs))
           | _ -> V.GOpaque (bs "lookalike"))
        else V.resolve_named u in
      let pred =
        if form = "pointer" then V.convertible_from_client (cfg "go1.21") (V.GPointer uT) (V.GPointer tT)
        else V.convertible_from_client (cfg "go1.21") uT tT in
      verdict id ~pred ~obs ~errc (fun () ->
          if obs && in_list t V.safe_types && u <> t then
            specfail id (Printf.sprintf "conversion_into_safe_type:%s.%s->%s.%s:%s%s"
                           (str 2 f) (str 3 f) (str 4 f) (str 5 f) form (tag (V.finding_D15 (t, u)) "D15"))
          else if not obs then ok id ("+reject:" ^ errc)
          else ok id "convertible_plain_types"));

  (* lit id pkg type form | obs errclass source *)
  reg "lit" (fun f ->
      let id = f.(1) in
      let t = (bytes_of_hex f.(2), bytes_of_hex f.(3)) and form = str 4 f in
      let obs = f.(5) = "compile" and errc = str 6 f in
      let keyed = String.length form > 6 && String.sub form 0 6 = "keyed:" in
      let fieldname = if keyed then String.sub form 6 (String.length form - 6) else "" in
      let lf = if form = "zero" then V.LitZero else if form = "positional" then V.LitPositional else V.LitKeyed (bs fieldname) in
      let pred = V.literal_compiles (cfg "go1.21") (V.resolve_named t) lf in
      verdict id ~pred ~obs ~errc (fun () ->
          if obs && form <> "zero" && in_list t V.safe_types then
            specfail id (Printf.sprintf "composite_literal_of_safe_type:%s.%s:%s" (str 2 f) (str 3 f) form)
          else if obs && keyed && in_list t V.carrier_types then
            specfail id (Printf.sprintf "composite_literal_sets_field_of_carrier_type:%s.%s:%s%s" (str 2 f) (str 3 f) form
                           (tag (V.finding_D30 (fst t) (snd t) (bs fieldname)) "D30"))
          else if not obs then ok id ("+reject:" ^ errc)
          else ok id (if form = "zero" then "zero_value" else "literal_plain_type")));

  (* field id pkg type field form | obs errclass source *)
  reg "field" (fun f ->
      let id = f.(1) in
      let t = (bytes_of_hex f.(2), bytes_of_hex f.(3)) and field = bytes_of_hex f.(4) and form = str 5 f in
      let obs = f.(6) = "compile" and errc = str 7 f in
      let pred = V.promoted_field_selectable (cfg "go1.21") (V.resolve_named t) field in
      verdict id ~pred ~obs ~errc (fun () ->
          if obs && (in_list t V.safe_types || in_list t V.carrier_types) then
            specfail id (Printf.sprintf "field_of_trusted_type_accessible:%s.%s.%s:%s%s" (str 2 f) (str 3 f) (str 4 f) form
                           (tag (V.finding_D30 (fst t) (snd t) field) "D30"))
          else if not obs then ok id ("+reject:" ^ errc)
          else ok id "field_plain_type"));

  (* witness id wid payload | obs errclass output source *)
  reg "witness" (fun f ->
      let id = f.(1) in
      let wid = str 2 f and payload = str 3 f in
      let obs = f.(4) = "compile" and errc = str 5 f and output = str 6 f in
      let sh = bs "safehtml" and tp = bs "template" in
      let c = cfg "go1.21" in
      let param_type pkg recv name idx =
        match V.lookup_func pkg recv name with
        | Some fn -> (match List.nth_opt fn.V.f_params idx with Some (_, ty) -> Some (V.resolve_param ty) | None -> None)
        | None -> None in
      let flag pkg name =
        (match param_type pkg [] (bs name) 0 with
         | Some t -> V.client_arg_compiles c (V.EVar t) t
         | None -> false), V.finding_D20 pkg [] (bs name), "D20" in
      let tparam pkg recv name =
        match param_type pkg recv (bs name) 0 with
        | Some t -> let e = V.EConvertTypeParam (t, V.EVar V.GString) in
          V.client_arg_compiles c e t && not (V.untyped_string_constant e), V.finding_D31 e, "D31"
        | None -> false, false, "D31" in
      let pred, known, d, marker =
        match wid with
        | "d15_script" ->
          let t = (sh, bs "Script") and u = (sh, bs "URL") in
          V.convertible_from_client c (V.resolve_named u) (V.resolve_named t), V.finding_D15 (t, u), "D15", payload
        | "d15_html_ptr" ->
          let t = (sh, bs "HTML") and u = (sh, bs "URL") in
          V.convertible_from_client c (V.GPointer (V.resolve_named u)) (V.GPointer (V.resolve_named t)), V.finding_D15 (t, u), "D15", payload
        | "d20_tru" -> let p, k, d = flag sh "TrustedResourceURLFromFlag" in p, k, d, payload
        | "d20_trufmt" -> let p, k, d = flag sh "TrustedResourceURLFormatFromFlag" in p, k, d, payload
        | "d20_ts" -> let p, k, d = flag tp "TrustedSourceFromFlag" in p, k, d, payload
        | "d21_parsefs" ->
          (match param_type tp [] (bs "ParseFS") 1 with
           | Some t -> V.client_arg_compiles c (V.EVar V.GString) t
           | None -> false), V.finding_D21 tp [] (bs "ParseFS") (bs "patterns"), "D21", "=>B<i>1</i>"
        | "d30_tree" ->
          V.promoted_field_selectable c (V.resolve_named (tp, bs "Template")) (bs "Tree"),
          V.finding_D30 tp (bs "Template") (bs "Tree"), "D30", payload
        | "d31_script" -> let p, k, d = tparam sh [] "ScriptFromConstant" in p, k, d, payload
        | "d31_parse" -> let p, k, d = tparam tp (bs "Template") "Parse" in p, k, d, payload
        | _ -> failwith ("unknown witness " ^ wid) in
      verdict id ~pred ~obs ~errc (fun () ->
          if obs && contains output marker then
            specfail id (Printf.sprintf "%s:caller_supplied_string_in_safe_value%s" wid (tag known d))
          else ok id "finding_not_reproduced"));

  (* api id pkg recv name | present/absent probe output source *)
  reg "api" (fun f ->
      let id = f.(1) in
      let pkg = bytes_of_hex f.(2) and recv = bytes_of_hex f.(3) and name = bytes_of_hex f.(4) in
      match V.lookup_func pkg recv name with
      | None -> if f.(5) = "present" then mismatch id "function-not-in-GenApi" else ok id "absent"
      | Some fn ->
        if f.(5) <> "present" then mismatch id "function-only-in-GenApi"
        else if not (V.func_closed_ok fn) then
          specfail id (Printf.sprintf "exported_constructor_not_reviewed:%s:%s" (qual pkg recv name) f.(6))
        else if not (V.func_safe_params_ok fn) then
          specfail id (Printf.sprintf "trusted_parameter_has_a_type_clients_can_implement:%s" (qual pkg recv name))
        else if not (V.func_not_mutator_ok fn) then
          specfail id (Printf.sprintf "safe_type_has_a_pointer_receiver_method:%s" (qual pkg recv name))
        else if not (V.param_ptr_tracked_ok fn) then
          specfail id (Printf.sprintf "unreviewed_function_takes_a_pointer_to_a_trusted_type:%s" (qual pkg recv name))
        else if not (V.promoted_method_ok fn) then
          specfail id (Printf.sprintf "unreviewed_method_promoted_from_an_embedded_unexported_type:%s" (qual pkg recv name))
        else ok id (if V.yields_tracked fn then "+reviewed_constructor" else "no_trusted_result"));

  (* apitype id pkg name | present/absent *)
  reg "apitype" (fun f ->
      let id = f.(1) in
      let pkg = bytes_of_hex f.(2) and name = bytes_of_hex f.(3) in
      match V.lookup_type V.gen_types pkg name with
      | None -> if f.(4) = "present" then mismatch id "type-not-in-GenApi" else ok id "absent"
      | Some d ->
        if not (V.safe_type_decl_ok d && V.carrier_type_decl_ok d) then
          specfail id (Printf.sprintf "trusted_type_is_not_opaque:%s.%s" (str 2 f) (str 3 f))
        else ok id (if in_list (pkg, name) V.safe_types || in_list (pkg, name) V.carrier_types then "+opaque_trusted_type" else "other_type"));

  (* apivar id pkg name | present/absent *)
  reg "apivar" (fun f ->
      let id = f.(1) in
      let pkg = bytes_of_hex f.(2) and name = bytes_of_hex f.(3) in
      match List.find_opt (fun v -> v.V.v_pkg = pkg && v.V.v_name = name) V.gen_vars with
      | None -> if f.(4) = "present" then mismatch id "variable-not-in-GenApi" else ok id "absent"
      | Some v ->
        if not (V.var_closed_ok v) then
          specfail id (Printf.sprintf "exported_variable_of_trusted_type:%s.%s" (str 2 f) (str 3 f))
        else ok id "variable_plain_type")

(* gatevar id <vpkg> <vname> <fpkg> <frecv> <fname> <idx> <compile|nocompile> <error class> <source>
   (harness/cmd/run/c19.go): a variable initialised from an exported identifier of the library, sliced at a run-time
   index, is passed to a gate parameter.  The Go specification makes no slice of a variable a constant expression,
   so the gate must refuse the program whatever the identifier is; a program that compiles IS a client that hands a
   run-time value to a *FromConstant parameter. *)
let () =
  reg "gatevar" (fun f ->
      let id = f.(1) in
      if f.(8) = "compile" then specfail id "a_run_time_slice_of_an_exported_identifier_is_accepted_by_a_gate_parameter"
      else begin
        let cls = string_of_bytes (bytes_of_hex f.(9)) in
        if cls = "cannot-use" || cls = "invalid-operation" then ok id ("+reject:" ^ cls)
        else ok id ("rejected_for_another_reason:" ^ cls)
      end)
