(* C15 streams.
   style_props: f.(2) BackgroundImageURLs, f.(3) FontFamily (each a packed list), f.(4)..f.(18) the 15
   scalar fields in struct declaration order, f.(19) outcome, f.(20) the implementation's Style.
   Packed list: every element is <decimal length> ':' <bytes>, concatenated; a string not of that
   form is a one-element list (same reading as harness/cmd/run/c15.go unpackList).
   css_escape: f.(2) input, f.(3) the implementation's cssEscapeString output. *)
open Drv_common

let unpack_list (s : string) : string list =
  let n = String.length s in
  let rec go pos acc =
    if pos = n then Some (List.rev acc)
    else
      match String.index_from_opt s pos ':' with
      | None -> None
      | Some i ->
        let ds = String.sub s pos (i - pos) in
        if ds = "" || String.length ds > 9 then None
        else
          (match int_of_string_opt ds with
           | Some k when k >= 0 && string_of_int k = ds && i + 1 + k <= n -> go (i + 1 + k) (String.sub s (i + 1) k :: acc)
           | _ -> None)
  in
  if s = "" then [] else match go 0 [] with Some l -> l | None -> [s]

let style_props_of (f : string array) =
  let lst i = List.map bytes_of_string (unpack_list (string_of_bytes (bytes_of_hex f.(i)))) in
  V.PList (lst 2) :: V.PList (lst 3) :: List.init 15 (fun k -> V.PStr (bytes_of_hex f.(4 + k)))

let contains_sub (hay : string) (needle : string) =
  let n = String.length hay and m = String.length needle in
  let rec go i = i + m <= n && (String.sub hay i m = needle || go (i + 1)) in
  go 0

let () =
  reg "style_props" (fun f ->
      let id = f.(1) in
      let p = style_props_of f in
      let m = V.style_from_properties p in
      if f.(19) <> "ok" then specfail id "panic"
      else begin
        let out = bytes_of_hex f.(20) in
        let fails = V.style_spec_failures p out in
        (* a failure carries the number of the recorded finding whose classifier accepts it, or 0 *)
        match List.filter (fun (_, known) -> int_of_n known = 0) fails, fails with
        | (clause, _) :: _, _ -> specfail id (string_of_bytes clause)
        | [], _ when m <> out -> mismatch id ("ok:" ^ hex_of_bytes m)
        | [], (clause, known) :: _ -> specfail id (Printf.sprintf "%s\tfinding=D%d" (string_of_bytes clause) (int_of_n known))
        | [], [] ->
          ok id (if out = [] then "empty"
                 else if contains_sub (string_of_bytes out) "zGoSafezInvalidPropertyValue" then "+innocuous"
                 else "+declarations")
      end);
  reg "css_escape" (fun f ->
      let id = f.(1) in
      let s = bytes_of_hex f.(2) and out = bytes_of_hex f.(3) in
      let m = V.css_escape_string s in
      match int_of_n (V.css_escape_verdict s out) with
      | 0 -> if m = out then ok id (if out = s then "same" else "+escaped") else mismatch id (hex_of_bytes m)
      | 25 when m = out -> specfail id "css_escape_round_trip\tfinding=D25"
      | 25 -> mismatch id (hex_of_bytes m)
      | _ -> specfail id "css_escape_not_one_string_token_or_round_trip");
  reg_bridges "C15" V.c15_bridges
