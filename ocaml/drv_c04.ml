open Drv_common
open Drv_tmpl

(* C04: policy cells.  policy_cell id <elem> <attr> <quote> <rel> <outcome> <results>
   - correspondence: the model (escape_text on the static prefix, escape_action, apply_chain)
     predicts the analysis outcome and what every probe value prints;
   - oracle: the implementation's behaviour is compared with the REVIEWED policy
     (reviewed/ReviewedPolicy.v through spec/PolicySpec.v): default deny, never weaker. *)

let hx s = hex_of_bytes (bytes_of_string s)

(* must match policyProbes in harness/cmd/run/c04.go *)
let probes : (string * V.value) list =
  List.map (fun w -> (w, value_of_wire w))
    [ "str:" ^ hx "zq"; "str:" ^ hx "javascript:alert(1)"; "safe:html:" ^ hx "<i>h</i>"; "safe:script:" ^ hx "s()";
      "safe:style:" ^ hx "c:d;"; "safe:stylesheet:" ^ hx "a{}"; "safe:url:" ^ hx "http://u/"; "safe:tru:" ^ hx "/t.js";
      "safe:identifier:" ^ hx "idz"; "str:" ^ hx "_blank"; "str:" ^ hx "auto"; "str:" ^ hx "async"; "str:" ^ hx "lazy";
      "str:" ^ hx "_BLANK"; "str:" ^ hx "Auto"; "str:" ^ hx "ASYNC"; "str:" ^ hx "Lazy"; "str:" ^ hx "RTL"; "str:" ^ hx "_blan\xe2\x84\xaa"; "str:" ^ hx "_\xc5\xbfelf"; "str:" ^ hx " ltr"; "str:" ^ hx "eager\n" ]

let dot_pipe : V.pipe = { V.p_decls = []; p_cmds = [[V.ADot]] }

(* the model's analysis of  pre {{.}} post : Error code, or the sanitizer chain *)
let model_cell (pre : string) (post : string) : (V.n list list, int) result =
  match V.escape_text false V.ctx0 (bytes_of_string pre) with
  | V.EPanic -> Error (-1)
  | V.EOk (c, _, _) ->
    if c.V.c_state = V.StError then Error (match c.V.c_err with Some e -> int_of_n e | None -> 0)
    else
      match V.escape_action [] c V.O dot_pipe V.esc_empty with
      | V.APanic _ -> Error (-1)
      | V.AOk (c1, e) ->
        if c1.V.c_state = V.StError then Error (match c1.V.c_err with Some e -> int_of_n e | None -> 0)
        else
          let chain = match e.V.e_action_edits with (_, s) :: _ -> s | [] -> [] in
          match V.escape_text false c1 (bytes_of_string post) with
          | V.EPanic -> Error (-1)
          | V.EOk (c2, _, _) ->
            if c2.V.c_state = V.StError then Error (match c2.V.c_err with Some e -> int_of_n e | None -> 0)
            else if c2.V.c_state <> V.StText then Error 4
            else Ok chain

(* elements whose start tag is inserted and popped at once by the HTML tree builder (void elements and
   their obsolete relatives): "<E>{{.}}</E>" does not put the action inside E, so the content oracle
   does not apply to them (the list is the HTML standard's, not the engine's voidElements table) *)
let spec_void = ["area"; "base"; "basefont"; "bgsound"; "br"; "col"; "embed"; "frame"; "hr"; "img"; "input"; "keygen";
                 "link"; "meta"; "param"; "source"; "track"; "wbr"]

let is_prefix p s = String.length s >= String.length p && String.sub s 0 (String.length p) = p

(* the reviewed-policy oracle for one executed cell: Some clause = violation *)
let cell_spec_violation ~(elem : string) ~(attr : string) ~(quote : string) ~(rel : string) ~(outcome : string)
    ~(results : string list) : string option =
  let lower s = V.to_lower_bytes (bytes_of_string s) in
  let reviewed =
    if attr = "" then V.reviewed_content (lower elem)
    else V.reviewed_attr (lower elem) (lower attr) (lower rel) in
  let accepted = (outcome = "ok") in
  let res_arr = Array.of_list results in
  let probe_res i = if i < Array.length res_arr then res_arr.(i) else "?" in
  if not accepted then None
  else if attr = "" && List.mem (String.lowercase_ascii elem) spec_void then None
  else if attr <> "" && quote = "none" then Some "action_accepted_in_unquoted_attribute"
  else match reviewed with
    | None -> Some "action_accepted_where_reviewed_policy_denies"
    | Some n ->
      let san = match V.lookup_bytes n V.r_contexts with Some (((s, _), _), _) -> s | None -> [] in
      let typed = V.typed_only_name n in
      let is_enum = match V.lookup_bytes n V.r_contexts with Some (((_, e), _), _) -> e | None -> false in
      let is_url = match V.lookup_bytes n V.r_contexts with Some (((_, _), u), _) -> u | None -> false in
      let bad = ref None in
      List.iteri (fun i (w, v) ->
          let r = probe_res i in
          let accepted_probe = is_prefix "A:" r || is_prefix "X:" r in
          let out = if accepted_probe then bytes_of_hex (String.sub r 2 (String.length r - 2)) else [] in
          if accepted_probe && !bad = None then begin
            (if typed then
               match V.indirect v with
               | V.VSafe (k, _) when V.own san k -> ()
               | _ -> bad := Some ("typed_only_context_accepted_foreign_value:" ^ w));
            (if is_enum then
               match V.lookup_bytes san V.r_enumValues with
               | Some words -> if not (List.mem out words) then bad := Some ("enum_context_emitted_unlisted_word:" ^ w)
               | None -> bad := Some "enum_context_unknown");
            (if is_url && w = "str:" ^ hx "javascript:alert(1)" then
               if V.html_unescape out = bytes_of_string "javascript:alert(1)" then bad := Some "url_context_emitted_javascript_url")
          end) probes;
      !bad

let () =
  reg "policy_cell" (fun f ->
      let id = f.(1) in
      let str i = string_of_bytes (bytes_of_hex f.(i)) in
      let elem = str 2 and attr = str 3 and quote = str 4 and rel = str 5 in
      let outcome = f.(6) and results = String.split_on_char ',' f.(7) in
      let q = match quote with "dq" -> "\"" | "sq" -> "'" | _ -> "" in
      let pre, post =
        if attr = "" then ("<" ^ elem ^ ">", "</" ^ elem ^ ">")
        else ("<" ^ elem ^ (if rel <> "" then " rel=\"" ^ rel ^ "\"" else "") ^ " " ^ attr ^ "=" ^ q, q ^ ">") in
      let spec_violation = cell_spec_violation ~elem ~attr ~quote ~rel ~outcome ~results in
      match spec_violation with
      | Some clause -> specfail id clause
      | None ->
        (* ---- correspondence ---- *)
        let m = model_cell pre post in
        let m_outcome = match m with Ok _ -> "ok" | Error c -> Printf.sprintf "deny:%d" c in
        if m_outcome <> outcome then mismatch id m_outcome
        else match m with
          | Error _ -> ok id "deny"
          | Ok chain ->
            let m_res = List.map (fun (_, v) -> match V.apply_chain chain v with Some o -> "A:" ^ hex_of_bytes o | None -> "R") probes in
            if m_res = results then ok id "+accept" else mismatch id (String.concat "," m_res));
  (* cond_cell id <e1> <e2> <attr> <rel> <outcome C=true> <results> <outcome C=false> <results> *)
  reg "cond_cell" (fun f ->
      let id = f.(1) in
      let str i = string_of_bytes (bytes_of_hex f.(i)) in
      let e1 = str 2 and e2 = str 3 and attr = str 4 and rel = str 5 in
      let v1 = cell_spec_violation ~elem:e1 ~attr ~quote:"dq" ~rel ~outcome:f.(6) ~results:(String.split_on_char ',' f.(7)) in
      let v2 = cell_spec_violation ~elem:e2 ~attr ~quote:"dq" ~rel ~outcome:f.(8) ~results:(String.split_on_char ',' f.(9)) in
      match v1, v2 with
      | Some c, _ -> specfail id ("branch_element_" ^ e1 ^ ":" ^ c)
      | _, Some c -> specfail id ("branch_element_" ^ e2 ^ ":" ^ c)
      | None, None -> ok id (if f.(6) = "ok" then "+accept" else "deny"));
  (* cond_attr id <elem> <a1> <a2> <variant> <outcome C=true> <results> <outcome C=false> <results> *)
  reg "cond_attr" (fun f ->
      let id = f.(1) in
      let str i = string_of_bytes (bytes_of_hex f.(i)) in
      let elem = str 2 and a1 = str 3 and a2 = str 4 in
      let v1 = cell_spec_violation ~elem ~attr:a1 ~quote:"dq" ~rel:"" ~outcome:f.(6) ~results:(String.split_on_char ',' f.(7)) in
      let v2 = cell_spec_violation ~elem ~attr:a2 ~quote:"dq" ~rel:"" ~outcome:f.(8) ~results:(String.split_on_char ',' f.(9)) in
      match v1, v2 with
      | Some c, _ -> specfail id ("branch_attribute_" ^ a1 ^ ":" ^ c)
      | _, Some c -> specfail id ("branch_attribute_" ^ a2 ^ ":" ^ c)
      | None, None -> ok id (if f.(6) = "ok" then "+accept" else "deny"));
  (* partial_cell id <element> <attr> <static prefix> <accepted|refused> <output>: a static prefix before
     the action in an attribute whose REVIEWED class is enumerated must make the analysis refuse *)
  reg "partial_cell" (fun f ->
      let id = f.(1) in
      let e = bytes_of_hex f.(2) and a = bytes_of_hex f.(3) in
      let enum_class n = let s = string_of_bytes n in
        let l = String.length s in l >= 4 && String.sub s (l - 4) 4 = "Enum" in
      match V.reviewed_attr e a [] with
      | Some n when enum_class n ->
        if f.(5) = "accepted" then specfail id ("partial_value_accepted_in_enumerated_context:" ^ string_of_bytes n)
        else ok id "+partial_refused_in_enumerated_context"
      | _ -> ok id (if f.(5) = "accepted" then "+partial_accepted_outside_enumerations" else "refused"));
  (* sc_attr04 id <element> <attr> <rel> <context name chosen by the engine, empty = refused> *)
  reg "sc_attr04" (fun f ->
      let id = f.(1) in
      let e = bytes_of_hex f.(2) and a = bytes_of_hex f.(3) and rel = bytes_of_hex f.(4) and n = bytes_of_hex f.(5) in
      if n = [] then ok id "deny"
      else match V.reviewed_attr e a rel with
        | None -> specfail id "context_chosen_where_reviewed_policy_denies"
        | Some n' -> if V.trust_le n' n then ok id "+allow" else specfail id ("context_weaker_than_reviewed:" ^ string_of_bytes n ^ "_vs_" ^ string_of_bytes n'));
  reg_bridges "C04" V.c04_bridges
