open Drv_common
open Drv_tmpl

(* C02 streams
   codectx id <template text> <data wire> <markers> <outcome> <bytes written> <marker spans found by the harness>
     oracle on the REAL output (spec/CodeContextSpec.v): (i) V.c02_code_clause -- no byte of a marker is consumed
     by the HTML tokenizer specification in a code position; (ii) V.c02_origin_clause -- no marker inside the
     origin-determining start of a code-loading URL attribute.
   jsurl   id <template text> <data wire> <outcome> <bytes written>
     oracle (iii) V.c02_jsurl_clause -- no URL-valued attribute of the output (srcset: no candidate) has the
     javascript scheme after character-reference decoding.
   Correspondence: when the template is  pre {{.}} post  with a single plain value, the model of the engine
   (escape_text, escape_action, apply_chain) predicts the outcome and the bytes written.

   A failing case is reported under a recorded finding only when the finding's classifier -- a predicate on
   the TEMPLATE TEXT, below -- accepts the template and the finding can explain the failing clause:
     D1  a defined template whose static text leaves the tokenizer outside the data state (a context-opening
         helper) and that is called from at least two sites
     D2  a URL-valued attribute value (of the failing attribute name) whose first dynamic piece stands at an empty
         static prefix and is followed by further static or dynamic content (or is repeated by a range) before the
         closing quote; for srcset, which has no prefix rules: a value with a dynamic piece and anything else.
         Calls of defined templates are expanded first.
     D3  a link element whose static rel (character references decoded, split on white space, lower-cased)
         contains both an allow-listed token (reviewed list) and stylesheet; failing attribute link.href
     D4  a defined template called from two attribute-value sites with different static prefixes (or, on link
         elements, different static rel values), one of them in an attribute of the failing name
     D44 the end tag opener of a script / style element inside that element's start tag in static text; failing
         class script / rawtext;
     D13 the four characters that open an HTML comment inside a script element body in static text; failing
         class = script data
     D48 an attribute name split over several text nodes by actions / control structures (see finding_d48);
         failing class = an attribute value, a code-loading URL, a javascript URL *)

(* ---------------------------------------------------------------- template text scanner *)
type piece = Text of string | Act of string

let pieces_of (t : string) : piece list =
  let n = String.length t in
  let rec go i start acc =
    if i + 1 < n && t.[i] = '{' && t.[i + 1] = '{' then begin
      let acc = if i > start then Text (String.sub t start (i - start)) :: acc else acc in
      (* find the closing braces, skipping double-quoted strings inside the action *)
      let rec close j inq =
        if j >= n then n
        else if inq then (if t.[j] = '\\' then close (j + 2) true else if t.[j] = '"' then close (j + 1) false else close (j + 1) true)
        else if t.[j] = '"' then close (j + 1) true
        else if j + 1 < n && t.[j] = '}' && t.[j + 1] = '}' then j
        else close (j + 1) false in
      let j = close (i + 2) false in
      let body = String.trim (String.sub t (i + 2) (max 0 (min n j - i - 2))) in
      go (j + 2) (j + 2) (Act body :: acc)
    end
    else if i >= n then List.rev (if n > start then Text (String.sub t start (n - start)) :: acc else acc)
    else go (i + 1) start acc in
  go 0 0 []

let starts p s = String.length s >= String.length p && String.sub s 0 (String.length p) = p
let word a = match String.index_opt a ' ' with Some i -> String.sub a 0 i | None -> a
let is_open a = List.mem (word a) ["if"; "range"; "with"; "define"; "block"]
let quoted_name a =
  (* the first double-quoted string of the action *)
  match String.index_opt a '"' with
  | None -> ""
  | Some i -> (match String.index_from_opt a (i + 1) '"' with Some j -> String.sub a (i + 1) (j - i - 1) | None -> "")

(* split into the defined templates and the main body *)
let templates_of (ps : piece list) : (string * piece list) list =
  let rec go ps depth cur_name cur main defs =
    match ps with
    | [] -> ("", List.rev main) :: List.rev (if cur_name <> None then defs else defs)
    | (Act a as p) :: rest when cur_name = None && word a = "define" ->
      ignore p; go rest 1 (Some (quoted_name a)) [] main defs
    | (Act a as p) :: rest ->
      (match cur_name with
       | None -> go rest depth None cur (p :: main) defs
       | Some nm ->
         if is_open a then go rest (depth + 1) cur_name (p :: cur) main defs
         else if word a = "end" then
           (if depth = 1 then go rest 0 None [] main ((nm, List.rev cur) :: defs)
            else go rest (depth - 1) cur_name (p :: cur) main defs)
         else go rest depth cur_name (p :: cur) main defs)
    | p :: rest ->
      (match cur_name with
       | None -> go rest depth None cur (p :: main) defs
       | Some _ -> go rest depth cur_name (p :: cur) main defs) in
  go ps 0 None [] [] []

let static_text (ps : piece list) = String.concat "" (List.filter_map (function Text s -> Some s | Act _ -> None) ps)

(* items of an attribute value *)
type item = Static of string | Dyn of string

type site = { s_elem : string; s_attr : string; s_items : item list }
type tag = { t_elem : string; t_static_attrs : (string * string) list; t_sites : site list }

let is_ws c = c = ' ' || c = '\t' || c = '\n' || c = '\r' || c = '\x0c'
let lower = String.lowercase_ascii

(* a small tag scanner over the pieces of one template body: element name, attribute names, quoted and
   unquoted values; actions inside a value become Dyn items *)
let scan_tags (ps : piece list) : tag list =
  let tags = ref [] in
  let elem = ref "" and attrs = ref [] and sites = ref [] in
  let st = ref `Data in
  let name = Buffer.create 16 and aname = Buffer.create 16 in
  let items = ref [] and cur = Buffer.create 32 in
  let flush_static () = if Buffer.length cur > 0 then begin items := Static (Buffer.contents cur) :: !items; Buffer.clear cur end in
  let end_value () =
    flush_static ();
    let its = List.rev !items in
    let a = lower (Buffer.contents aname) in
    (match its with
     | [] -> attrs := (a, "") :: !attrs
     | [Static s] -> attrs := (a, s) :: !attrs
     | _ -> sites := { s_elem = lower !elem; s_attr = a; s_items = its } :: !sites);
    items := []; Buffer.clear aname in
  let end_tag () =
    if !elem <> "" then tags := { t_elem = lower !elem; t_static_attrs = List.rev !attrs; t_sites = List.rev !sites } :: !tags;
    elem := ""; attrs := []; sites := []; st := `Data in
  let feed c =
    match !st with
    | `Data -> if c = '<' then begin Buffer.clear name; st := `TagOpen end
    | `TagOpen ->
      if (c >= 'a' && c <= 'z') || (c >= 'A' && c <= 'Z') then begin Buffer.add_char name c; st := `TagName end
      else st := `Data
    | `TagName ->
      if is_ws c || c = '/' then begin elem := Buffer.contents name; st := `InTag end
      else if c = '>' then begin elem := Buffer.contents name; end_tag () end
      else Buffer.add_char name c
    | `InTag ->
      if c = '>' then end_tag ()
      else if is_ws c || c = '/' then ()
      else begin Buffer.clear aname; Buffer.add_char aname c; st := `AttrName end
    | `AttrName ->
      if c = '=' then st := `BeforeValue
      else if c = '>' then begin attrs := (lower (Buffer.contents aname), "") :: !attrs; end_tag () end
      else if is_ws c || c = '/' then st := `AfterName
      else Buffer.add_char aname c
    | `AfterName ->
      if c = '=' then st := `BeforeValue
      else if c = '>' then begin attrs := (lower (Buffer.contents aname), "") :: !attrs; end_tag () end
      else if is_ws c || c = '/' then ()
      else begin attrs := (lower (Buffer.contents aname), "") :: !attrs; Buffer.clear aname; Buffer.add_char aname c; st := `AttrName end
    | `BeforeValue ->
      if is_ws c then ()
      else if c = '"' then st := `Value '"'
      else if c = '\'' then st := `Value '\''
      else if c = '>' then begin end_value (); end_tag () end
      else begin Buffer.add_char cur c; st := `Unq end
    | `Value q -> if c = q then begin end_value (); st := `InTag end else Buffer.add_char cur c
    | `Unq ->
      if is_ws c then begin end_value (); st := `InTag end
      else if c = '>' then begin end_value (); end_tag () end
      else Buffer.add_char cur c in
  List.iter (function
      | Text s -> String.iter feed s
      | Act a ->
        (match !st with
         | `Value _ | `Unq -> flush_static (); items := Dyn a :: !items
         | `BeforeValue -> items := Dyn a :: !items; st := `Unq
         | _ -> ())) ps;
  (* a tag still open at the end of the body (context-opening helper): keep what was seen *)
  (match !st with `Data | `TagOpen -> () | _ -> (match !st with `Value _ | `Unq -> end_value () | _ -> ()); if !elem = "" then elem := Buffer.contents name; end_tag ());
  List.rev !tags

let is_control a = List.mem (word a) ["if"; "with"; "else"; "end"; "range"; "define"; "block"; "break"; "continue"]
let is_call a = word a = "template"

(* expand calls of defined templates inside the items of a value *)
let rec expand defs depth (its : item list) : item list =
  List.concat_map (function
      | Dyn a when is_call a && depth > 0 ->
        (match List.assoc_opt (quoted_name a) defs with
         | Some body -> expand defs (depth - 1) (List.map (function Text s -> Static s | Act x -> Dyn x) body)
         | None -> [Dyn a])
      | it -> [it]) its

let url_attr_names = ["href"; "src"; "action"; "formaction"; "poster"; "cite"; "data"; "background"; "ping"; "manifest"; "longdesc"; "codebase"; "xlink:href"]
let srcset_names = ["srcset"; "imagesrcset"]

(* D2 on one site *)
let d2_site defs (s : site) : bool =
  let its = expand defs 3 s.s_items in
  let content = List.filter (function Static "" -> false | Dyn a -> not (is_control a) || word a = "range" | _ -> true) its in
  if List.mem s.s_attr srcset_names then
    List.exists (function Dyn a -> not (is_control a) | _ -> false) its && List.length content >= 2
  else if List.mem s.s_attr url_attr_names then begin
    (* the first content item is an output action (possibly inside a range), at an empty static prefix *)
    let rec first_output in_range = function
      | Dyn a :: rest when word a = "range" -> first_output true rest
      | Dyn a :: rest when not (is_control a) -> Some (in_range, rest)
      | _ -> None in
    match first_output false content with
    | Some (in_range, rest) -> in_range || rest <> []
    | None -> false
  end
  else false

type info = { defs : (string * piece list) list; bodies : (string * piece list) list; tags : tag list; text : string }

let analyse (text : string) : info =
  let ts = templates_of (pieces_of text) in
  let defs = List.filter (fun (n, _) -> n <> "") ts in
  { defs; bodies = ts; tags = List.concat_map (fun (_, b) -> scan_tags b) ts; text }

let count_calls (inf : info) (n : string) : int =
  List.fold_left (fun acc (_, b) -> acc + List.length (List.filter (function Act a -> is_call a && quoted_name a = n | _ -> false) b)) 0 inf.bodies

let finding_d1 (inf : info) : bool =
  List.exists (fun (n, b) ->
      let r = V.html_tokenize V.SData (bytes_of_string (static_text b)) in
      (not (V.hstate_eqb r.V.r_final V.SData)) && count_calls inf n >= 2) inf.defs

let finding_d2 (inf : info) (attr : string) : bool =
  List.exists (fun t -> List.exists (fun s -> s.s_attr = attr && d2_site inf.defs s) t.t_sites) inf.tags

let rel_tokens (rel : string) : string list =
  List.map string_of_bytes (V.cc_tokens (V.html_unescape (bytes_of_string rel)))

let finding_d3 (inf : info) : bool =
  let allowed = List.map string_of_bytes V.r_urlLinkRelVals in
  List.exists (fun t ->
      t.t_elem = "link" &&
      (match List.assoc_opt "rel" t.t_static_attrs with
       | Some rel -> let toks = rel_tokens rel in List.mem "stylesheet" toks && List.exists (fun x -> List.mem x allowed) toks
       | None -> false)) inf.tags

(* (template name, attribute name, link rel + static prefix) of every call inside an attribute value *)
let call_sites (inf : info) : (string * string * string) list =
  List.concat_map (fun t ->
      List.concat_map (fun s ->
          let rel = match List.assoc_opt "rel" t.t_static_attrs with Some r when t.t_elem = "link" -> String.concat " " (rel_tokens r) | _ -> "" in
          let rec go pre = function
            | [] -> []
            | Static x :: rest -> go (pre ^ x) rest
            | Dyn a :: rest when is_call a -> (quoted_name a, s.s_attr, pre) :: go (pre ^ "\x00") rest
            | Dyn _ :: rest -> go (pre ^ "\x00") rest in
          go (rel ^ "\x01") s.s_items) t.t_sites) inf.tags

let finding_d4 (inf : info) (attr : string) : bool =
  let cs = call_sites inf in
  List.exists (fun (n, a, p) -> a = attr && List.exists (fun (n', _, p') -> n' = n && p' <> p) cs) cs

let find_sub (s : string) (sub : string) (from : int) : int option =
  let n = String.length s and m = String.length sub in
  let rec go i = if i + m > n then None else if String.sub s i m = sub then Some i else go (i + 1) in
  if from > n then None else go from

let finding_d13 (inf : info) : bool =
  List.exists (fun (_, b) ->
      let t = lower (static_text b) in
      let rec go from =
        match find_sub t "<script" from with
        | None -> false
        | Some i ->
          (match String.index_from_opt t i '>' with
           | None -> false
           | Some j ->
             let e = match find_sub t "</script" j with Some e -> e | None -> String.length t in
             (match find_sub (String.sub t j (e - j)) "<!--" 0 with Some _ -> true | None -> go (e + 1))) in
      go 0) inf.bodies

(* D44: the end tag opener of a script / style element stands inside that element's START tag in the
   static text (before the first closing bracket after the start tag opener): the engine takes it for
   the end of the element, the tokenizer for attribute text *)
let finding_d44 (inf : info) : bool =
  List.exists (fun (_, b) ->
      let t = lower (static_text b) in
      List.exists (fun el ->
          let rec go from =
            match find_sub t ("<" ^ el) from with
            | None -> false
            | Some i ->
              let j = match String.index_from_opt t i '>' with Some j -> j | None -> String.length t in
              (match find_sub (String.sub t i (j - i)) ("</" ^ el) 0 with Some _ -> true | None -> go (i + 1)) in
          go 0) ["script"; "style"]) inf.bodies

(* ---------------------------------------------------------------- correspondence for  pre {{.}} post *)
let dot_pipe : V.pipe = { V.p_decls = []; p_cmds = [[V.ADot]] }

let model_run (pre : V.n list) (post : V.n list) (v : V.value) =
  let code c = match c.V.c_err with Some e -> int_of_n e | None -> 0 in
  match V.escape_text false V.ctx0 pre with
  | V.EPanic -> Error (-1)
  | V.EOk (c, ed_pre, out_pre0) ->
    let out_pre = if ed_pre then out_pre0 else pre in
    if c.V.c_state = V.StError then Error (code c)
    else
      match V.escape_action [] c V.O dot_pipe V.esc_empty with
      | V.APanic _ -> Error (-1)
      | V.AOk (c1, e) ->
        if c1.V.c_state = V.StError then Error (code c1)
        else
          let chain = match e.V.e_action_edits with (_, s) :: _ -> s | [] -> [] in
          match V.escape_text false c1 post with
          | V.EPanic -> Error (-1)
          | V.EOk (c2, ed_post, out_post0) ->
            let out_post = if ed_post then out_post0 else post in
            if c2.V.c_state = V.StError then Error (code c2)
            else if c2.V.c_state <> V.StText then Error 4
            else Ok (match V.apply_chain chain v with Some o -> (Some (out_pre @ o @ out_post), out_pre) | None -> (None, out_pre))

(* Some verdict when the template is  pre {{.}} post  with one plain value *)
let correspondence (text : string) (wire : string) (outcome : string) (out : V.n list) : string option =
  let shape = match pieces_of text with
    | [Text pre; Act "."; Text post] -> Some (pre, post)
    | [Text pre; Act "."] -> Some (pre, "")
    | _ -> None in
  match shape with
  | Some (pre, post) when not (starts "map:" wire) && not (starts "list:" wire) && wire <> "true" && wire <> "false" ->
    let m = model_run (bytes_of_string pre) (bytes_of_string post) (value_of_wire wire) in
    let m_outcome = match m with
      | Error c -> if c = -1 then "panic" else Printf.sprintf "escape:%d" c
      | Ok (Some _, _) -> "ok"
      | Ok (None, _) -> "execerr" in
    if m_outcome <> outcome then Some ("outcome:" ^ m_outcome)
    else (match m with
        | Ok (Some o, _) when o <> out -> Some ("ok:" ^ hex_of_bytes o)
        | Ok (None, p) when p <> out -> Some ("execerr:" ^ hex_of_bytes p)
        | _ -> None)
  | _ -> None

(* ---------------------------------------------------------------- verdicts *)
let class_name = function
  | V.PScript -> "script_body" | V.PRawtext _ -> "style_body" | V.PComment -> "comment"
  | V.PAttrValue (_, a, _) -> "attribute_" ^ string_of_bytes a | _ -> "other"

let finding_d48 (inf : info) : bool = Drv_tmpl.split_name_finding inf.text

let tag_finding (l : (string * bool) list) : string =
  match List.find_opt snd l with Some (d, _) -> "\tfinding=" ^ d | None -> ""

let str f i = string_of_bytes (bytes_of_hex f.(i))

let () =
  reg "codectx" (fun f ->
      let id = f.(1) in
      let text = str f 2 and wire = str f 3 in
      let markers = List.map bytes_of_string (List.filter (fun s -> s <> "") (String.split_on_char ',' (str f 4))) in
      let outcome = f.(5) and out = bytes_of_hex f.(6) in
      if outcome = "parseerr" then ok id "parse_error"
      else if outcome <> "ok" && outcome <> "execerr" then
        (match correspondence text wire outcome out with Some m -> mismatch id m | None -> ok id ("refused:" ^ outcome))
      else begin
        (* the harness and the specification agree on where the markers are *)
        let mk = V.marked markers out in
        let spans = if f.(7) = "-" then [] else List.map (fun s -> Scanf.sscanf s "%d:%d" (fun a b -> (a, b))) (String.split_on_char ',' f.(7)) in
        let covered i = List.exists (fun (a, b) -> i >= a && i < a + b) spans in
        let agree = List.for_all (fun x -> x) (List.mapi (fun i m -> m = covered i) mk) in
        if not agree then mismatch id "marker_positions"
        else
          match V.c02_code_clause markers out with
          | Some (off, cls) ->
            let inf = analyse text in
            specfail id (Printf.sprintf "untrusted_bytes_in_code_position:%s@%d%s" (class_name cls) (int_of_n off)
                           (tag_finding [("D13", cls = V.PScript && finding_d13 inf);
                                         ("D44", (match cls with V.PScript | V.PRawtext _ -> finding_d44 inf | _ -> false));
                                         ("D1", finding_d1 inf);
                                         ("D48", (match cls with V.PAttrValue _ -> finding_d48 inf | _ -> false))]))
          | None ->
            match V.c02_origin_clause markers out with
            | Some (e, a) ->
              let inf = analyse text in
              let e = string_of_bytes e and a = string_of_bytes a in
              specfail id (Printf.sprintf "untrusted_bytes_in_origin_of_code_loading_url:%s.%s%s" e a
                             (tag_finding [("D3", e = "link" && a = "href" && finding_d3 inf); ("D4", finding_d4 inf a); ("D1", finding_d1 inf); ("D48", finding_d48 inf)]))
            | None ->
              match correspondence text wire outcome out with
              | Some m -> mismatch id m
              | None ->
                if outcome = "execerr" then ok id "+refused_at_execution"
                else if List.exists (fun x -> x) mk then ok id "+marker_outside_code"
                else ok id "accepted_no_marker_in_output"
      end);
  reg "codectx_hist" (fun f ->
      let id = f.(1) in
      let text = str f 2 and wire = str f 4 in
      let markers = List.map bytes_of_string (List.filter (fun s -> s <> "") (String.split_on_char ',' (str f 5))) in
      let outcome = f.(6) and out = bytes_of_hex f.(7) in
      if outcome = "parseerr" then ok id "parse_error"
      else if outcome <> "ok" && outcome <> "execerr" then
        ok id ("refused:" ^ outcome)
      else begin
        (* the harness and the specification agree on where the markers are *)
        let mk = V.marked markers out in
        let spans = if f.(8) = "-" then [] else List.map (fun s -> Scanf.sscanf s "%d:%d" (fun a b -> (a, b))) (String.split_on_char ',' f.(8)) in
        let covered i = List.exists (fun (a, b) -> i >= a && i < a + b) spans in
        let agree = List.for_all (fun x -> x) (List.mapi (fun i m -> m = covered i) mk) in
        if not agree then mismatch id "marker_positions"
        else
          match V.c02_code_clause markers out with
          | Some (off, cls) ->
            let inf = analyse text in
            specfail id (Printf.sprintf "untrusted_bytes_in_code_position:%s@%d%s" (class_name cls) (int_of_n off)
                           (tag_finding [("D13", cls = V.PScript && finding_d13 inf);
                                         ("D44", (match cls with V.PScript | V.PRawtext _ -> finding_d44 inf | _ -> false));
                                         ("D1", finding_d1 inf);
                                         ("D48", (match cls with V.PAttrValue _ -> finding_d48 inf | _ -> false))]))
          | None ->
            match V.c02_origin_clause markers out with
            | Some (e, a) ->
              let inf = analyse text in
              let e = string_of_bytes e and a = string_of_bytes a in
              specfail id (Printf.sprintf "untrusted_bytes_in_origin_of_code_loading_url:%s.%s%s" e a
                             (tag_finding [("D3", e = "link" && a = "href" && finding_d3 inf); ("D4", finding_d4 inf a); ("D1", finding_d1 inf); ("D48", finding_d48 inf)]))
            | None ->
              match None with
              | Some m -> mismatch id m
              | None ->
                if outcome = "execerr" then ok id "+refused_at_execution"
                else if List.exists (fun x -> x) mk then ok id "+marker_outside_code"
                else ok id "accepted_no_marker_in_output"
      end);
  reg "jsurl" (fun f ->
      let id = f.(1) in
      let text = str f 2 and wire = str f 3 in
      let outcome = f.(4) and out = bytes_of_hex f.(5) in
      if outcome = "parseerr" then ok id "parse_error"
      else if outcome <> "ok" && outcome <> "execerr" then
        (match correspondence text wire outcome out with Some m -> mismatch id m | None -> ok id ("refused:" ^ outcome))
      else
        match V.c02_jsurl_clause out with
        | Some (e, a) ->
          let inf = analyse text in
          let e = string_of_bytes e and a = string_of_bytes a in
          specfail id (Printf.sprintf "javascript_url_in:%s.%s%s" e a
                         (tag_finding [("D2", finding_d2 inf a); ("D4", finding_d4 inf a); ("D1", finding_d1 inf); ("D48", finding_d48 inf)]))
        | None ->
          match correspondence text wire outcome out with
          | Some m -> mismatch id m
          | None ->
            if outcome = "execerr" then ok id "+refused_at_execution"
            else begin
              let n = List.length (V.c02_url_attrs out) in
              ok id (if n > 0 then "+url_attributes_checked" else "accepted_no_url_attribute")
            end);
  reg_bridges "C02" V.c02_bridges
