open Drv_common

(* API histories (stream "hist"): the model Engine.step is run on the same op list as the real
   API and compared op by op: result class and observable state (see harness/cmd/run/hist.go for
   the wire forms). *)

(* ---- s-expression reader ---- *)
type sx = Atom of string | Lst of sx list

let tokenize (s : string) : string list =
  let toks = ref [] and cur = Buffer.create 16 in
  let flush () = if Buffer.length cur > 0 then (toks := Buffer.contents cur :: !toks; Buffer.clear cur) in
  String.iter (fun c ->
      match c with
      | '(' | ')' -> flush (); toks := String.make 1 c :: !toks
      | ' ' -> flush ()
      | c -> Buffer.add_char cur c) s;
  flush ();
  List.rev !toks

let rec parse_sx (toks : string list) : sx * string list =
  match toks with
  | "(" :: rest ->
    let rec items acc ts =
      match ts with
      | ")" :: rest' -> (Lst (List.rev acc), rest')
      | [] -> failwith "sexp: unexpected end"
      | _ -> let (x, ts') = parse_sx ts in items (x :: acc) ts'
    in
    items [] rest
  | a :: rest -> (Atom a, rest)
  | [] -> failwith "sexp: empty"

let parse_all (s : string) : sx list =
  let rec go ts acc = match ts with [] -> List.rev acc | _ -> let (x, r) = parse_sx ts in go r (x :: acc) in
  go (tokenize s) []

let hexa = function Atom a -> bytes_of_hex a | _ -> failwith "sexp: atom expected"
let inta = function Atom a -> int_of_string a | _ -> failwith "sexp: int expected"

let rec arg_of (x : sx) : V.arg =
  match x with
  | Atom "." -> V.ADot
  | Atom "nil" -> V.ANil
  | Lst (Atom "f" :: l) -> V.AField (List.map hexa l)
  | Lst (Atom "v" :: n :: l) -> V.AVar (hexa n, List.map hexa l)
  | Lst [Atom "v"] -> V.AVar ([], [])
  | Lst [Atom "i"; a] -> V.AIdent (hexa a)
  | Lst [Atom "s"; a] -> V.AStr (hexa a)
  | Lst [Atom "n"; a] -> V.ANum (hexa a)
  | Lst [Atom "b"; Atom b] -> V.ABool (b = "1")
  | Lst (Atom "ch" :: a :: l) -> V.AChain (arg_of a, List.map hexa l)
  | Lst (Atom "pp" :: body) -> let (d, c) = pipe_body body in V.APipe (d, c)
  | _ -> failwith "sexp: bad arg"

and pipe_body (l : sx list) : V.n list list * V.arg list list =
  match l with
  | Lst (Atom "d" :: ds) :: cmds ->
    (List.map hexa ds,
     List.map (function Lst (Atom "c" :: args) -> List.map arg_of args | _ -> failwith "sexp: bad cmd") cmds)
  | _ -> failwith "sexp: bad pipe"

let pipe_of (x : sx) : V.pipe =
  match x with
  | Lst (Atom "p" :: body) -> let (d, c) = pipe_body body in { V.p_decls = d; p_cmds = c }
  | _ -> failwith "sexp: pipe expected"

let rec node_of (x : sx) : V.node =
  let nat i = nat_of_int (inta i) in
  match x with
  | Lst [Atom "T"; i; t] -> V.NText (nat i, hexa t)
  | Lst [Atom "A"; i; p] -> V.NAction (nat i, pipe_of p)
  | Lst [Atom "I"; i; p; Lst (Atom "L" :: b); Lst (Atom "L" :: e)] -> V.NIf (nat i, pipe_of p, List.map node_of b, List.map node_of e)
  | Lst [Atom "R"; i; p; Lst (Atom "L" :: b); Lst (Atom "L" :: e)] -> V.NRange (nat i, pipe_of p, List.map node_of b, List.map node_of e)
  | Lst [Atom "W"; i; p; Lst (Atom "L" :: b); Lst (Atom "L" :: e)] -> V.NWith (nat i, pipe_of p, List.map node_of b, List.map node_of e)
  | Lst [Atom "P"; i; n; Atom "-"] -> V.NTemplate (nat i, hexa n, None)
  | Lst [Atom "P"; i; n; p] -> V.NTemplate (nat i, hexa n, Some (pipe_of p))
  | Lst [Atom "B"; i] -> V.NBreak (nat i)
  | Lst [Atom "C"; i] -> V.NContinue (nat i)
  | Lst [Atom "M"; i] -> V.NComment (nat i)
  | _ -> failwith "sexp: bad node"

(* (D name nil | nodes...) *)
let def_of (x : sx) : V.n list * V.node list option =
  match x with
  | Lst [Atom "D"; n; Atom "nil"] -> (hexa n, None)
  | Lst (Atom "D" :: n :: nodes) -> (hexa n, Some (List.map node_of nodes))
  | _ -> failwith "sexp: bad definition"

(* ---- printer (must produce exactly what hist.go prints) ---- *)
let rec int_of_nat = function V.O -> 0 | V.S n -> 1 + int_of_nat n

let hexes b l = List.iter (fun s -> Buffer.add_string b (" " ^ hex_of_bytes s)) l

let rec pr_arg b (a : V.arg) =
  match a with
  | V.ADot -> Buffer.add_string b " ."
  | V.ANil -> Buffer.add_string b " nil"
  | V.AField l -> Buffer.add_string b " (f"; hexes b l; Buffer.add_string b ")"
  | V.AVar (n, l) -> Buffer.add_string b " (v"; hexes b (n :: l); Buffer.add_string b ")"
  | V.AIdent f -> Buffer.add_string b (" (i " ^ hex_of_bytes f ^ ")")
  | V.AStr s -> Buffer.add_string b (" (s " ^ hex_of_bytes s ^ ")")
  | V.ANum s -> Buffer.add_string b (" (n " ^ hex_of_bytes s ^ ")")
  | V.ABool x -> Buffer.add_string b (" (b " ^ (if x then "1" else "0") ^ ")")
  | V.AChain (a, l) -> Buffer.add_string b " (ch"; pr_arg b a; hexes b l; Buffer.add_string b ")"
  | V.APipe (d, c) -> Buffer.add_string b " (pp"; pr_pipe_body b d c; Buffer.add_string b ")"

and pr_pipe_body b d cmds =
  Buffer.add_string b " (d"; hexes b d; Buffer.add_string b ")";
  List.iter (fun c -> Buffer.add_string b " (c"; List.iter (pr_arg b) c; Buffer.add_string b ")") cmds

let pr_pipe b (p : V.pipe) = Buffer.add_string b " (p"; pr_pipe_body b p.V.p_decls p.V.p_cmds; Buffer.add_string b ")"

let rec pr_node b (n : V.node) =
  let pl l = Buffer.add_string b " (L"; List.iter (pr_node b) l; Buffer.add_string b ")" in
  let br k i p bd el = Buffer.add_string b (Printf.sprintf " (%s %d" k (int_of_nat i)); pr_pipe b p; pl bd; pl el; Buffer.add_string b ")" in
  match n with
  | V.NText (i, t) -> Buffer.add_string b (Printf.sprintf " (T %d %s)" (int_of_nat i) (hex_of_bytes t))
  | V.NAction (i, p) -> Buffer.add_string b (Printf.sprintf " (A %d" (int_of_nat i)); pr_pipe b p; Buffer.add_string b ")"
  | V.NIf (i, p, bd, el) -> br "I" i p bd el
  | V.NRange (i, p, bd, el) -> br "R" i p bd el
  | V.NWith (i, p, bd, el) -> br "W" i p bd el
  | V.NTemplate (i, n, p) ->
    Buffer.add_string b (Printf.sprintf " (P %d %s" (int_of_nat i) (hex_of_bytes n));
    (match p with None -> Buffer.add_string b " -" | Some p -> pr_pipe b p);
    Buffer.add_string b ")"
  | V.NBreak i -> Buffer.add_string b (Printf.sprintf " (B %d)" (int_of_nat i))
  | V.NContinue i -> Buffer.add_string b (Printf.sprintf " (C %d)" (int_of_nat i))
  | V.NComment i -> Buffer.add_string b (Printf.sprintf " (M %d)" (int_of_nat i))

let def_wire (name : V.n list) (t : V.node list option) : string =
  let b = Buffer.create 256 in
  Buffer.add_string b ("(D " ^ hex_of_bytes name);
  (match t with None -> Buffer.add_string b " nil" | Some nodes -> List.iter (pr_node b) nodes);
  Buffer.add_string b ")";
  Buffer.contents b

(* ---- ops ---- *)
let split_colon s = String.split_on_char ':' s

let op_of_wire (w : string) : V.op =
  match split_colon w with
  | ["N"; n] -> V.ONew (bytes_of_hex n)
  | ["S"; h; n] -> V.OSubNew (nat_of_int (int_of_string h), bytes_of_hex n)
  | "P" :: h :: rest ->
    let p = String.concat ":" rest in
    let parsed =
      if p = "E" then V.ParseError
      else V.Parsed (List.map (fun d -> match def_of d with (n, Some t) -> (n, t) | (n, None) -> (n, []))
                       (parse_all (String.sub p 1 (String.length p - 1)))) in
    V.OParse (nat_of_int (int_of_string h), parsed)
  | ["C"; h] -> V.OClone (nat_of_int (int_of_string h))
  | ["L"; h; n] -> V.OLookup (nat_of_int (int_of_string h), bytes_of_hex n)
  | ["X"; h] -> V.OExecute (nat_of_int (int_of_string h))
  | ["Y"; h; n] -> V.OExecuteTemplate (nat_of_int (int_of_string h), bytes_of_hex n)
  | ["I"; h] -> V.OInfo (nat_of_int (int_of_string h))
  | ["Z"; h] -> V.OCSP (nat_of_int (int_of_string h))
  | _ -> failwith ("bad op wire " ^ w)

let op_handle (o : V.op) : int option =
  match o with
  | V.ONew _ -> None
  | V.OSubNew (h, _) | V.OParse (h, _) | V.OClone h | V.OLookup (h, _) | V.OExecute h | V.OExecuteTemplate (h, _)
  | V.OInfo h | V.OCSP h -> Some (int_of_nat h)

let is_exec = function V.OExecute _ | V.OExecuteTemplate _ -> true | _ -> false

let panic_name = function
  | V.PBreakContinue -> "breakcontinue" | V.PNilTree -> "nil" | V.PSharedNode -> "shared" | V.PTextLoop -> "textloop"
  | V.POutOfSync -> "outofsync" | V.PNoTemplates -> "notemplates" | V.PFuel -> "fuel"

(* canonical index of an object: the first client handle that holds it *)
let canon (w : V.world) (o : V.nat option) : string =
  match o with
  | None -> "H:nil"
  | Some obj ->
    let rec find i = function
      | [] -> "H:?"
      | Some x :: _ when x = obj -> Printf.sprintf "H:%d" i
      | _ :: t -> find (i + 1) t in
    find 0 w.V.w_handles

let result_wire (w : V.world) (r : V.rclass) : string =
  match r with
  | V.RHandle o -> canon w o
  | V.RParseOk -> "parseok"
  | V.RErrCannotParse -> "cannotparse"
  | V.RErrParse -> "parseerr"
  | V.RErrCannotClone -> "cannotclone"
  | V.RErrIncomplete -> "incomplete"
  | V.RErrUndefined -> "undefined"
  | V.RErrEscape c -> Printf.sprintf "escape:%d" (int_of_n c)
  | V.RExec tid ->
    (match (V.get_text w tid).V.x_tree with None -> "incomplete" | Some _ -> "exec")
  | V.RInfo -> "info"
  | V.RPanic p -> "panic:" ^ panic_name p
  | V.RBadOp -> "badop"

let state_wire (w : V.world) (o : V.op) : string =
  let parts = ref [] in
  List.iteri (fun i h ->
      match h with
      | None -> ()
      | Some obj ->
        let t = V.get_tmpl w obj in
        let ns = V.get_ns w t.V.h_ns in
        let err = match t.V.h_err with V.ENotYet -> 0 | V.EEscOK -> 1 | V.EErr _ -> 2 in
        let own_nil = (V.get_text w t.V.h_text).V.x_tree = None in
        parts := Printf.sprintf "%d=%s%d%s%s" i (if ns.V.n_escaped then "1" else "0") err
            (if t.V.h_tree_nil then "1" else "0") (if own_nil then "1" else "0") :: !parts)
    w.V.w_handles;
  let dump = String.concat "," (List.rev !parts) in
  let dump =
    if is_exec o then
      match op_handle o with
      | Some h ->
        (match List.nth_opt w.V.w_handles h with
         | Some (Some obj) ->
           let t = V.get_tmpl w obj in
           let cid = (V.get_text w t.V.h_text).V.x_common in
           let entries = List.map (fun (n, tid) -> (string_of_bytes n, def_wire n (V.get_text w tid).V.x_tree)) (V.get_common w cid) in
           let entries = List.sort (fun (a, _) (b, _) -> compare a b) entries in
           dump ^ ";" ^ String.concat "" (List.map snd entries)
         | _ -> dump)
      | None -> dump
    else dump in
  if dump = "" then "-" else dump

(* replays the history whose <nops> field is f.(base) on the model; None = agreement on every op,
   Some d = first divergence; also returns the op kinds seen *)
let replay (f : string array) (base : int) : string option * string =
  let n = int_of_string f.(base) in
  let w = ref V.world0 in
  let diverged = ref None in
  let kinds = Buffer.create 16 in
  (try
     for k = 0 to n - 1 do
       let opw = f.(base + 1 + 3 * k) and res = f.(base + 2 + 3 * k) and st = f.(base + 3 + 3 * k) in
       let o = op_of_wire opw in
       let (w', r) = V.step !w o in
       let rw = result_wire w' r in
       Buffer.add_char kinds opw.[0];
       let exec_panic = String.length res >= 9 && String.sub res 0 9 = "execpanic" in
       if rw <> res && not (rw = "exec" && exec_panic) then begin
         diverged := Some (Printf.sprintf "op%d:%s:result:%s" k opw rw); raise Exit
       end;
       (* a panic of the real code leaves state we do not compare further *)
       if String.length res >= 5 && String.sub res 0 5 = "panic" then raise Exit;
       let sw = state_wire w' o in
       if sw <> st then begin
         diverged := Some (Printf.sprintf "op%d:%s:state:%s" k (String.sub opw 0 (min 12 (String.length opw))) sw); raise Exit
       end;
       w := w'
     done
   with Exit -> ());
  (!diverged, Buffer.contents kinds)

let () =
  reg "hist" (fun f ->
      let id = f.(1) in
      match replay f 3 with
      | (Some d, _) -> mismatch id d
      | (None, kinds) -> ok id ("+" ^ (if String.contains kinds 'X' || String.contains kinds 'Y' then "exec" else "noexec")))
