open Drv_common
open Drv_histprop

(* C07: definitions freeze at first execution; clones are fully isolated. *)
let () =
  hist_stream "hist07" (fun es cs ->
      let bad = ref None in
      List.iter (fun (k, okv) ->
          if !bad = None && not okv then
            bad := Some (if k.[0] = 'P' then k ^ ":parse_accepted_after_execution"
                         else if k.[0] = 'F' then k ^ ":a_parse_call_after_the_first_execution_changed_a_later_result"
                         else k ^ ":clone_of_executed_template_succeeded")) cs;
      List.iter (fun e ->
          if !bad = None && e.proj_same = "0" then
            bad := Some (Printf.sprintf "op%d:result_depends_on_activity_in_another_name_space:%s_vs_%s" e.k e.res e.proj_res)) es;
      !bad)

(* clone_race id <k> <rounds> <clones returned> <clones that differ> <detail>  (harness/cmd/run/c07.go):
   Clone of the root raced with the first execution of a member of the parent; a clone that was
   returned must execute every member exactly as a fresh set with the same definitions does
   (implementation against implementation, no model involved). *)
let () =
  reg "clone_race" (fun f ->
      let id = f.(1) in
      if f.(5) <> "0" then
        specfail id ("clone_taken_during_a_first_execution_differs_from_a_fresh_set: " ^ string_of_bytes (bytes_of_hex f.(6)))
      else ok id (if f.(4) = "0" then "no_clone_returned" else "+clone_during_first_execution_is_faithful"))

(* parse_overlap id <api> <first> <accepted|refused|setup> <result of the first execution> <X afterwards> <X on a fresh set>
   (harness/cmd/run/c07.go): a ParseFiles / ParseGlob / ParseFS call that read its file AFTER the set's
   first execution.  It must be refused, and X must execute exactly as on a fresh set with the original
   definitions (implementation against implementation). *)
let () =
  reg "parse_overlap" (fun f ->
      let id = f.(1) in
      if f.(4) = "setup" then ok id "setup_failed"
      else if f.(4) = "accepted" then specfail id ("parse_accepted_after_the_first_execution:" ^ f.(2))
      else if f.(6) <> f.(7) then specfail id ("definitions_changed_after_the_first_execution:" ^ f.(2))
      else ok id "+late_file_parse_refused")
