open Drv_common
open Drv_histprop

(* C07: definitions freeze at first execution; clones are fully isolated. *)
let () =
  hist_stream "hist07" (fun es cs ->
      let bad = ref None in
      List.iter (fun (k, okv) ->
          if !bad = None && not okv then
            bad := Some (if k.[0] = 'P' then k ^ ":parse_accepted_after_execution" else k ^ ":clone_of_executed_template_succeeded")) cs;
      List.iter (fun e ->
          if !bad = None && e.proj_same = "0" then
            bad := Some (Printf.sprintf "op%d:result_depends_on_activity_in_another_name_space:%s_vs_%s" e.k e.res e.proj_res)) es;
      !bad)
