(* C13 streams.

   Wire format of an argument / parameter map: ONE field.  The map is written as the ASCII text
     hex(k1):hex(v1),hex(k2):hex(v2),...        ("-" for an empty key or value, "" for no pairs)
   in the order in which the harness inserted the pairs, and that text is hex-encoded again like
   every other field (so an empty map is the field "-").  Keys are unique.

   tru_format  id format args outcome out      outcome = ok | prefix | missing:<hex label> | dotdot:<hex label>
                                               out = the string returned next to the error, too
   tru_append  id base s outcome out           outcome = ok | err
   tru_params  id base params out ndistinct    ndistinct = number of different results over repeated calls
                                               and insertion orders (map iteration order is random) *)
open Drv_common

let pairs_of_field f =
  let s = string_of_bytes (bytes_of_hex f) in
  if s = "" then []
  else
    List.map
      (fun p ->
        match String.split_on_char ':' p with
        | [ k; v ] -> (bytes_of_hex k, bytes_of_hex v)
        | _ -> failwith "bad pair")
      (String.split_on_char ',' s)

let err_str = function
  | None -> "ok"
  | Some V.ErrPrefix -> "prefix"
  | Some (V.ErrMissing l) -> "missing:" ^ hex_of_bytes l
  | Some (V.ErrDotDot l) -> "dotdot:" ^ hex_of_bytes l

let clause_name = function
  | 1 -> "prefix_not_a_documented_form"
  | 2 -> "marker_without_argument_accepted"
  | 3 -> "result_is_not_format_with_escaped_arguments"
  | 5 -> "scheme_changed"
  | 6 -> "authority_changed"
  | 7 -> "path_segment_added_or_removed"
  | 8 -> "query_or_fragment_added_or_removed"
  | 9 -> "path_climbs_above_format_directory"
  | 10 -> "normalised_path_leaves_format_directory"
  | n -> "clause_" ^ string_of_int n

let params_clause = function
  | 1 -> "no_parameters_but_url_changed"
  | 2 -> "scheme_changed"
  | 3 -> "authority_changed"
  | 4 -> "path_changed"
  | 5 -> "fragment_changed"
  | 6 -> "existing_query_not_preserved"
  | 7 -> "added_parameters_not_percent_encoded"
  | 8 -> "added_parameters_do_not_decode_to_the_nonempty_pairs"
  | n -> "clause_" ^ string_of_int n

let tagged clause tag = match tag with Some d -> clause ^ "\tfinding=" ^ d | None -> clause

let rotate = function [] -> [] | x :: r -> r @ [ x ]

let () =
  reg "tru_format" (fun f ->
      let id = f.(1) in
      let fmt = bytes_of_hex f.(2) and args = pairs_of_field f.(3) in
      let outcome = f.(4) and out = bytes_of_hex f.(5) in
      let mo, me = V.tru_format_raw fmt args in
      let v = if outcome = "ok" then int_of_n (V.format_verdict fmt args out) else 0 in
      if v <> 0 then begin
        let tag =
          if v = 1 && V.finding_D22 fmt then Some "D22"
          else if v = 6 && V.finding_D14 fmt then Some "D14"
          else if (v = 9 || v = 10) && V.finding_D10 fmt args then Some "D10"
          else if (v = 9 || v = 10) && V.finding_D23 fmt args then Some "D23"
          else None
        in
        specfail id (tagged (clause_name v) tag)
      end
      else if err_str me = outcome && mo = out then
        ok id
          (if outcome = "ok" then (if V.marker_labels fmt = [] then "accept_plain" else "+substituted")
           else "err_" ^ List.hd (String.split_on_char ':' outcome))
      else mismatch id (err_str me ^ ":" ^ hex_of_bytes mo));
  reg "tru_append" (fun f ->
      let id = f.(1) in
      let t = bytes_of_hex f.(2) and s = bytes_of_hex f.(3) in
      let impl = if f.(4) = "ok" then Some (bytes_of_hex f.(5)) else None in
      let m = V.tru_append t s in
      let v = match impl with Some out -> int_of_n (V.append_verdict t s out) | None -> 0 in
      if v <> 0 then begin
        let tag =
          if v = 1 && V.finding_D22 t then Some "D22"
          else if (v = 9 || v = 10) && V.finding_D24 t s then Some "D24"
          else None
        in
        specfail id (tagged (clause_name v) tag)
      end
      else if m = impl then ok id (if m = None then "err" else "+appended")
      else mismatch id (opt_str m));
  reg "tru_params" (fun f ->
      let id = f.(1) in
      let t = bytes_of_hex f.(2) and ps = pairs_of_field f.(3) in
      let out = bytes_of_hex f.(4) in
      if f.(5) <> "1" then specfail id "result_depends_on_map_iteration_order"
      else begin
        let v = int_of_n (V.params_verdict t ps out) in
        if v <> 0 then specfail id (params_clause v)
        else begin
          let m = V.tru_with_params t ps in
          if m = out && V.tru_with_params t (List.rev ps) = out && V.tru_with_params t (rotate ps) = out then
            ok id (if out = t then "unchanged" else "+params_added")
          else mismatch id (hex_of_bytes m)
        end
      end);
  reg_bridges "C13" V.c13_bridges
