open Drv_common

(* correspondence-only streams for the shared models *)
let bool_stream name model =
  reg name (fun f ->
      let id = f.(1) in
      let m = model (bytes_of_hex f.(2)) in
      if bool_str m = f.(3) then ok id (if m then "+true" else "false") else mismatch id (bool_str m))

let bytes_stream name model =
  reg name (fun f ->
      let id = f.(1) in
      let i = bytes_of_hex f.(2) in
      let m = model i in
      if hex_of_bytes m = f.(3) then ok id (if m = i then "same" else "+changed") else mismatch id (hex_of_bytes m))

let () =
  bool_stream "m_is_safe_url" V.is_safe_url;
  bool_stream "m_tru_prefix" V.is_safe_tru_prefix;
  bool_stream "m_dotdot" V.contains_double_dot;
  bytes_stream "m_query_escape" V.query_escape_url;
  bytes_stream "m_normalize" V.normalize_url;
  bytes_stream "m_html_escaped" V.html_escaped;
  bytes_stream "m_coerce" V.coerce;
  bytes_stream "m_html_unescape" V.html_unescape
