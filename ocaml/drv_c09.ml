open Drv_common

(* C09.  Stream lockcheck: one line per API method; the extracted discipline checker is re-evaluated
   on the regenerated summary of that method and names the offending (method, method, location)
   triples.  Stream conc: one multi-goroutine program per line, already run by the Go side under the
   race detector and compared with sequential runs; the outcome is re-stated here and a race report is
   classified by the extracted predicate finding_D9_race. *)

let split_lines s = List.filter (fun x -> x <> "") (String.split_on_char '\n' s)
let frames hexs = List.map bytes_of_string (split_lines (string_of_bytes (bytes_of_hex hexs)))

let triple_str (w, (r, l)) =
  Printf.sprintf "%s x %s @ %s" (string_of_bytes w) (string_of_bytes r) (string_of_bytes l)

let () =
  reg "lockcheck" (fun f ->
      (* lockcheck id method *)
      let id = f.(1) in
      let m = bytes_of_hex f.(2) in
      if string_of_bytes m = "#translator" then begin
        if V.translated_locks then ok id "+translated" else specfail id "lock_summaries_not_translated"
      end else begin
        let vs = V.method_violations m in
        match vs with
        | [] -> ok id "+clean"
        | _ ->
          let known = List.for_all V.is_d9_triple vs in
          let clause = "lock_discipline: " ^ String.concat "; " (List.map triple_str vs) in
          specfail id (if known then clause ^ "\tfinding=D9" else clause)
      end);
  reg "conc" (fun f ->
      (* conc id program outcome detail stack1 stack2 *)
      let id = f.(1) in
      let detail = string_of_bytes (bytes_of_hex f.(4)) in
      match f.(3) with
      | "same" -> ok id "+same-as-sequential"
      | "linearizable" -> ok id "+order-dependent-linearizable"
      | "orderdep" -> ok id "order-dependent-not-compared"
      | "skipped" -> ok id "not-run-after-four-hangs"
      | "race" ->
        let s1 = frames f.(5) and s2 = frames f.(6) in
        let clause = "data_race: " ^ detail in
        specfail id (if V.finding_D9_race s1 s2 then clause ^ "\tfinding=D9" else clause)
      | "differ" -> specfail id ("result_differs_from_sequential: " ^ detail)
      | "crash" -> specfail id ("runtime_fault: " ^ detail)
      | o -> Printf.printf "%s\tDRIVERERROR\tunknown outcome %s %s\n" id o detail);
  reg_bridges "C09" []
