(* Driver for the extracted model and specification oracles.
   Reads a case file (one case per line, TAB separated, byte strings in lower-case hex,
   "-" = empty string) and prints one verdict per line:
     <id> TAB ok TAB <class>            (class starting with "+" = non-trivial case)
     <id> TAB MISMATCH TAB <model result>
     <id> TAB SPECFAIL TAB <clause> [TAB finding=<Dnn>]
   usage: driver cases <file>      |     driver bridges <Cnn>
   Streams are registered by the drv_*.ml files. *)
open Drv_common

let handle (f : string array) =
  match Hashtbl.find_opt handlers f.(0) with
  | Some h -> h f
  | None -> Printf.printf "%s\tSKIP\tunknown-stream\n" f.(1)

let run_cases file =
  let ic = open_in file in
  (try
     while true do
       let line = input_line ic in
       if line <> "" then begin
         let f = Array.of_list (split_tab line) in
         (try handle f with e -> Printf.printf "%s\tDRIVERERROR\t%s\n" f.(1) (Printexc.to_string e))
       end
     done
   with End_of_file -> ());
  close_in ic

let run_bridges prop =
  let l = match Hashtbl.find_opt bridges prop with Some l -> l | None -> [] in
  List.iter (fun (name, (a, b)) ->
      match V.incl_check (nat_of_int 5000) a b with
      | V.Included -> Printf.printf "%s\tincluded\n" (string_of_bytes name)
      | V.Counterexample w -> Printf.printf "%s\tcounterexample\t%s\n" (string_of_bytes name) (word_hex w)
      | V.Unknown -> Printf.printf "%s\tunknown\n" (string_of_bytes name)) l

let () =
  match Array.to_list Sys.argv with
  | [_; "cases"; file] -> run_cases file
  | [_; "bridges"; prop] -> run_bridges prop
  | _ -> prerr_endline "usage: driver cases <file> | driver bridges <Cnn>"; exit 2
