(* Driver for the extracted model and specification oracles.
   Reads a case file (one case per line, TAB separated, byte strings in lower-case hex,
   "-" = empty string) and prints one verdict per line:
     <id> TAB ok TAB <class>
     <id> TAB MISMATCH TAB <model result>
     <id> TAB SPECFAIL TAB <clause>
   usage: driver cases <file>      |     driver bridges <Cnn>                      *)
module V = Verif_model

let rec pos_of_int n =
  if n = 1 then V.XH else if n land 1 = 0 then V.XO (pos_of_int (n lsr 1)) else V.XI (pos_of_int (n lsr 1))
let n_of_int n = if n = 0 then V.N0 else V.Npos (pos_of_int n)
let rec int_of_pos = function V.XH -> 1 | V.XO p -> 2 * int_of_pos p | V.XI p -> 2 * int_of_pos p + 1
let int_of_n = function V.N0 -> 0 | V.Npos p -> int_of_pos p
let byte_tab = Array.init 256 n_of_int
let rec nat_of_int n = if n = 0 then V.O else V.S (nat_of_int (n - 1))

let hexval c =
  match c with
  | '0' .. '9' -> Char.code c - 48
  | 'a' .. 'f' -> Char.code c - 87
  | 'A' .. 'F' -> Char.code c - 55
  | _ -> failwith "bad hex"

let bytes_of_hex (s : string) =
  if s = "-" then []
  else begin
    let n = String.length s / 2 in
    let rec go i acc = if i < 0 then acc else go (i - 1) (byte_tab.(hexval s.[2 * i] * 16 + hexval s.[2 * i + 1]) :: acc) in
    go (n - 1) []
  end

let hex_of_bytes l =
  match l with
  | [] -> "-"
  | _ ->
    let b = Buffer.create 64 in
    List.iter (fun x -> Buffer.add_string b (Printf.sprintf "%02x" (int_of_n x land 255))) l;
    Buffer.contents b

let string_of_bytes l = String.init (List.length l) (fun i -> Char.chr (int_of_n (List.nth l i) land 255))
let bytes_of_string s = List.init (String.length s) (fun i -> byte_tab.(Char.code s.[i]))

let split_tab s = String.split_on_char '\t' s

let ok id cls = Printf.printf "%s\tok\t%s\n" id cls
let mismatch id m = Printf.printf "%s\tMISMATCH\t%s\n" id m
let specfail id c = Printf.printf "%s\tSPECFAIL\t%s\n" id c

let opt_str = function None -> "panic" | Some r -> "ok:" ^ hex_of_bytes r

(* outcome field of the implementation: "ok" / "panic" / "err:<class>" ; output hex *)
let regex_table = lazy (List.map (fun (n, r) -> (string_of_bytes n, r)) V.all_regexes)

let bool_str b = if b then "1" else "0"

let handle (f : string array) =
  let stream = f.(0) and id = f.(1) in
  match stream with
  | "rx" ->
    (* rx id name subject implbool *)
    let r = List.assoc (string_of_bytes (bytes_of_hex f.(2))) (Lazy.force regex_table) in
    let m = V.go_match r (V.decode_runes (bytes_of_hex f.(3))) in
    if bool_str m = f.(4) then ok id (if m then "+match" else "nomatch") else mismatch id (bool_str m)
  | "ident_const" ->
    (* ident_const id v outcome out *)
    let v = bytes_of_hex f.(2) in
    let m = V.identifier_from_constant v in
    let impl = if f.(3) = "ok" then Some (bytes_of_hex f.(4)) else None in
    (match impl with
     | Some r when not (V.ident_spec r && r = v) -> specfail id "result_not_identifier"
     | _ -> if m = impl then ok id (if m = None then "panic" else "+accept") else mismatch id (opt_str m))
  | "ident_prefix" ->
    let p = bytes_of_hex f.(2) and v = bytes_of_hex f.(3) in
    let m = V.identifier_from_constant_prefix p v in
    let impl = if f.(4) = "ok" then Some (bytes_of_hex f.(5)) else None in
    (match impl with
     | Some r when not (V.ident_spec r && r = p @ [byte_tab.(45)] @ v && List.for_all V.is_ident_char v) ->
       specfail id "result_not_prefix_hyphen_value_identifier"
     | _ -> if m = impl then ok id (if m = None then "panic" else "+accept") else mismatch id (opt_str m))
  | _ -> Printf.printf "%s\tSKIP\tunknown-stream\n" id

let run_cases file =
  let ic = open_in file in
  (try
     while true do
       let line = input_line ic in
       if line <> "" then begin
         let f = Array.of_list (split_tab line) in
         (try handle f with e -> Printf.printf "%s\tDRIVERERROR\t%s\n" f.(1) (Printexc.to_string e))
       end
     done
   with End_of_file -> ());
  close_in ic

(* runes of a counterexample word, UTF-8 encoded, in hex *)
let word_hex w = hex_of_bytes (V.encode_runes w)

let run_bridges prop =
  let l = match prop with
    | "C18" -> V.c18_bridges
    | _ -> [] in
  List.iter (fun (name, (a, b)) ->
      match V.incl_check (nat_of_int 5000) a b with
      | V.Included -> Printf.printf "%s\tincluded\n" (string_of_bytes name)
      | V.Counterexample w -> Printf.printf "%s\tcounterexample\t%s\n" (string_of_bytes name) (word_hex w)
      | V.Unknown -> Printf.printf "%s\tunknown\n" (string_of_bytes name)) l

let () =
  match Array.to_list Sys.argv with
  | [_; "cases"; file] -> run_cases file
  | [_; "bridges"; prop] -> run_bridges prop
  | _ -> prerr_endline "usage: driver cases <file> | driver bridges <Cnn>"; exit 2
