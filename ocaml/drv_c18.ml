open Drv_common

let () =
  reg "ident_const" (fun f ->
      (* ident_const id v outcome out *)
      let id = f.(1) in
      let v = bytes_of_hex f.(2) in
      let m = V.identifier_from_constant v in
      let impl = if f.(3) = "ok" then Some (bytes_of_hex f.(4)) else None in
      match impl with
      | Some r when not (V.ident_spec r && r = v) -> specfail id "result_not_identifier"
      | _ -> if m = impl then ok id (if m = None then "panic" else "+accept") else mismatch id (opt_str m));
  reg "ident_prefix" (fun f ->
      let id = f.(1) in
      let p = bytes_of_hex f.(2) and v = bytes_of_hex f.(3) in
      let m = V.identifier_from_constant_prefix p v in
      let impl = if f.(4) = "ok" then Some (bytes_of_hex f.(5)) else None in
      match impl with
      | Some r when not (V.ident_spec r && r = p @ [byte_tab.(45)] @ v && List.for_all V.is_ident_char v) ->
        specfail id "result_not_prefix_hyphen_value_identifier"
      | _ -> if m = impl then ok id (if m = None then "panic" else "+accept") else mismatch id (opt_str m));
  reg_bridges "C18" V.c18_bridges
