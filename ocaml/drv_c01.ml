open Drv_common
open Drv_tmpl

(* C01 streams (harness/cmd/run/c01.go)
   struct    id <text> <name> <wire A> <wire B> <outcome A> <bytes A> <outcome B> <bytes B> <parse trees>
     A = inert placeholder environment, B = control-equivalent hostile environment, both executed by the
     real engine.  Oracle (spec/StructureSpec.v over spec/HtmlTok.v): no comment tokens in either output,
     equal skeletons (structure tokens + final tokenizer state: "the same state as the author's own
     markup"; whether that state is the data state is a statistic, not a clause).
   placement id <text> <name> <wire> <outcome> <bytes> <spans off:len,...> <parse trees>
     the spans are where the untrusted markers landed; oracle: every byte of a span is consumed as the
     content of a text node (data, RCDATA, raw text, script data, PLAINTEXT) or as a byte of a quoted
     attribute value - never as tag name, attribute name, unquoted value, tag punctuation, comment, DOCTYPE.
   A failing case is tagged with a recorded finding only when that finding's classifier (an extracted
   Gallina predicate over the TEMPLATE) accepts it:
     D13  finding_D13 text (static text has the comment opener inside a script element body) AND the
          tokenizer is in the script data family at the end of one of the two outputs: the engine took the
          script element for closed and HTML-escapes data that the tokenizer reads in the script data
          escaped states, where a run of hyphens changes the state (and, with a static > after it, where
          the escaped section ends);
     D42  finding_D42 text (static text has a DOCTYPE declaration) AND the tokenizer is inside a DOCTYPE at the
          failing place, or the two skeletons differ only in the name of DOCTYPE tokens;
     D43  finding_D43 trees (a text node of the template ends inside a tag name) AND, in the placement stream,
          the offending bytes were consumed as part of a tag name - or the name that ends with the text node is the
          name of a special element (special_name_then_action) and the failing clause is a comment / structure clause;
     D1   finding_D1 trees (a template called from >= 2 sites whose body changes the context);
     D48  Drv_tmpl.split_name_finding text (an attribute name split over several text nodes; an OCaml predicate on
          the template text, shared with C02);
     D45  finding_D45 text (the name of a special element is directly followed by a byte that ends the name
          for the engine but not for the tokenizer) AND the failing clause is a comment token in the output.
   (D41, D44 and the other shapes of D13 - engine / tokenizer misalignments on the author's static markup - were tagged here by
   an earlier oracle that also demanded a final data state; that demanded more than the property
   states and was corrected.  Their classifiers remain in spec/StructureSpec.v for props/C01_findings.v.) *)

let trees_of_wire (p : string) : (V.n list * V.node list) list =
  if p = "E" || p = "" then []
  else
    List.filter_map
      (fun d -> match Drv_hist.def_of d with (n, Some t) -> Some (n, t) | (_, None) -> None)
      (Drv_hist.parse_all (String.sub p 1 (String.length p - 1)))

let is_script_state (st : V.hstate) : bool =
  match V.last_start_tag st with Some n -> string_of_bytes n = "script" | None -> false

let final_state (o : V.n list) : V.hstate = snd (V.skel o)

let class_name = function
  | V.PText -> "text" | V.PRcdata _ -> "rcdata" | V.PRawtext n -> "rawtext_" ^ string_of_bytes n | V.PScript -> "script"
  | V.PPlaintext -> "plaintext"
  | V.PAttrValue (_, _, V.Qunq) -> "unquoted_attribute_value" | V.PAttrValue (_, _, _) -> "attribute_value"
  | V.PAttrName -> "attribute_name" | V.PTagName -> "tag_name" | V.PTagOther -> "tag" | V.PComment -> "comment"
  | V.PDoctype -> "doctype"

let untracked_raw (n : V.n list) : bool = List.mem n V.untracked_rawtext_names

let is_raw_state (st : V.hstate) : bool =
  match V.last_start_tag st with Some n -> untracked_raw n | None -> false

let is_special_state (st : V.hstate) : bool =
  match V.last_start_tag st with Some n -> List.mem n V.special_names | None -> false

let is_doctype_state = function V.SDoctype | V.SDoctypeName | V.SDoctypeRest -> true | _ -> false

(* where the failure shows: which tokenizer construct is involved *)
type where = { script : bool; raw : bool; doctype : bool; tagname : bool; special : bool }
let nowhere = { script = false; raw = false; doctype = false; tagname = false; special = false }
(* in the struct stream the failing place is not located: the tag-name finding is left to its classifier *)
let where_of_states (l : V.hstate list) =
  { script = List.exists is_script_state l; raw = List.exists is_raw_state l; doctype = List.exists is_doctype_state l;
    tagname = true; special = List.exists is_special_state l }

(* D43 on the name of a special element: <STYLE{{with .A}}x{{end}}> - the engine takes the element for style (the name
   ends with the text node), the tokenizer reads <STYLEx>, an unknown element whose content is markup: what the
   engine keeps as style sheet / script / RCDATA text (a comment opener, say) is tokenized *)
let special_name_then_action (text : string) : bool =
  let n = String.length text in
  let lower = String.lowercase_ascii text in
  let rec at i =
    if i >= n then false
    else if lower.[i] = '<' && List.exists (fun nm ->
        let l = String.length nm in
        i + 1 + l + 2 <= n && String.sub lower (i + 1) l = nm && String.sub lower (i + 1 + l) 2 = "{{")
        ["script"; "style"; "title"; "textarea"] then true
    else at (i + 1) in
  at 0

let finding_tag ?(clause = "") ~(text : V.n list) ~(parsed : string) (w : where) : string =
  if (has_prefix "comment_token_in_output" clause || has_prefix "structure_differs_from_the_authors_markup" clause
      || has_prefix "untrusted_data_consumed_as_comment" clause) && V.finding_D45 text then "\tfinding=D45"
  else if w.script && V.finding_D13 text then "\tfinding=D13"
  else if w.doctype && V.finding_D42 text then "\tfinding=D42"
  else begin
    let trees = try trees_of_wire parsed with _ -> [] in
    if w.tagname && V.finding_D43 trees then "\tfinding=D43"
    else if (has_prefix "comment_token_in_output" clause || has_prefix "structure_differs_from_the_authors_markup" clause
             || has_prefix "untrusted_data_consumed_as_comment" clause || has_prefix "structure_changed_by_data" clause)
         && V.finding_D43 trees && special_name_then_action (string_of_bytes text) then "\tfinding=D43"
    else if Drv_tmpl.split_name_finding (string_of_bytes text) then "\tfinding=D48"
    else if Drv_tmpl.branch_at_value_finding (string_of_bytes text) then "\tfinding=D50"
    else if V.finding_D1 trees then "\tfinding=D1"
    else ""
  end

let analysis_rejected (outcome : string) : bool =
  outcome = "parseerr" || has_prefix "escape:" outcome || outcome = "incomplete" || outcome = "undefined"

let () =
  reg "struct" (fun f ->
      let id = f.(1) in
      let text = bytes_of_hex f.(2) in
      let oa = f.(6) and a = bytes_of_hex f.(7) and ob = f.(8) and b = bytes_of_hex f.(9) in
      let parsed = f.(10) in
      if analysis_rejected oa then ok id ("rejected:" ^ oa)
      else if oa = "execerr" then ok id "placeholder_rejected_at_run_time"
      else if oa <> "ok" then ok id ("other:" ^ oa)
      else begin
        let fail clause w = specfail id (clause ^ finding_tag ~clause ~text ~parsed w) in
        if ob = "ok" then begin
          match V.c01_pair_verdict a b with
          | Some clause ->
            let w = where_of_states [final_state a; final_state b] in
            let clause = string_of_bytes clause in
            (* a change confined to the name of a DOCTYPE token *)
            let w = if clause = "structure_changed_by_data" && V.same_structure_mod_doctype a b then { w with doctype = true } else w in
            fail clause w
          | None ->
            (* the author's own markup (templates without control structures): same tags, attribute names,
               DOCTYPE tokens and final state as the template text with placeholders in place of the actions *)
            let author_differs =
              Array.length f > 11 && f.(11) <> "-" && not (V.same_structure_as_author (bytes_of_hex f.(11)) a) in
            if author_differs then fail "structure_differs_from_the_authors_markup" (where_of_states [final_state a])
            else
            ok id (if a = b then "same_output"
                   else if V.ends_in_data a then "+same_structure"
                   else "+same_structure_and_same_final_state_other_than_data")
        end
        else if ob = "execerr" then begin
          (* a sanitizer refused the hostile value; the inert rendering alone must still be well formed *)
          if not (V.no_comments a) then fail "comment_token_in_output" { nowhere with tagname = true }
          else ok id "+hostile_value_rejected_at_run_time"
        end
        else ok id ("other:" ^ ob)
      end);
  reg "placement" (fun f ->
      let id = f.(1) in
      let text = bytes_of_hex f.(2) in
      let outcome = f.(5) and out = bytes_of_hex f.(6) and spans_w = f.(7) and parsed = f.(8) in
      if analysis_rejected outcome then ok id ("rejected:" ^ outcome)
      else if outcome = "execerr" then ok id "marker_rejected_at_run_time"
      else if outcome <> "ok" then ok id ("other:" ^ outcome)
      else if spans_w = "-" then ok id "no_marker_in_output"
      else begin
        let spans =
          List.map (fun s -> match String.split_on_char ':' s with
              | [o; l] -> (int_of_string o, int_of_string l)
              | _ -> failwith "bad span") (String.split_on_char ',' spans_w) in
        let nspans = List.map (fun (o, l) -> (nat_of_int o, nat_of_int l)) spans in
        if V.placement_ok out nspans && not (V.placement_ok_without_scripting out nspans) then
          (* the reading of a user agent without scripting (noscript is an ordinary element, its body markup) *)
          specfail id ("untrusted_data_outside_text_and_quoted_values_for_a_user_agent_without_scripting"
                       ^ finding_tag ~clause:"without_scripting" ~text ~parsed nowhere)
        else if V.placement_ok out nspans then ok id "+placement"
        else begin
          (* name the first offending class for the report *)
          let cls = Array.of_list (V.html_tokenize V.SData out).V.r_classes in
          let bad = ref None and w = ref nowhere in
          List.iter (fun (o, l) ->
              for i = o to o + l - 1 do
                if !bad = None then
                  if i >= Array.length cls then bad := Some "beyond_output"
                  else if not (V.class_ok cls.(i)) then begin
                    bad := Some (class_name cls.(i));
                    w := (match cls.(i) with
                        | V.PScript -> { nowhere with script = true; special = true }
                        | V.PRawtext n when List.mem n V.special_names -> { nowhere with special = true }
                        | V.PRawtext n when untracked_raw n -> { nowhere with raw = true }
                        | V.PPlaintext -> { nowhere with raw = true }
                        | V.PDoctype -> { nowhere with doctype = true }
                        | V.PTagName -> { nowhere with tagname = true }
                        | _ -> nowhere)
                  end
              done) spans;
          let b = match !bad with Some b -> b | None -> "?" in
          specfail id ("untrusted_data_consumed_as_" ^ b ^ finding_tag ~clause:("untrusted_data_consumed_as_" ^ b) ~text ~parsed !w)
        end
      end)
